import XmlRsModel.Lemmas.RunsDtdSubset
/-! Completeness of the internal subset loop and of the DOCTYPE declaration. -/
namespace XmlRs.Lex
open XmlRs Gen.Xml XmlRs.Names

def cstDtdItem : CDtdItem → CST
  | .ws w => .node N.decl_sep (.leaf w)
  | .comment s => .node N.markup_decl (cstComment s)
  | .pi t b => .node N.markup_decl (cstPI t b)
  | .elementDecl w0 n w1 spec w2 => .node N.markup_decl (cstElementDecl w0 n w1 spec w2)
  | .attlist w0 e defs w1 => .node N.markup_decl (cstAttlist w0 e defs w1)
  | .entity w0 n w1 d w2 => .node N.markup_decl (cstEntity w0 n w1 d w2)
  | .notationDecl w0 n w1 id w2 => .node N.markup_decl (cstNotation w0 n w1 id w2)

theorem element_decl_fails {I : Str} (h : stripPrefix kwELEMENT I = none) : Runs env (.nt N.element_decl) I .fail := by
  have e0 : [Char.ofNat 60,Char.ofNat 33,Char.ofNat 69,Char.ofNat 76,Char.ofNat 69,Char.ofNat 77,Char.ofNat 69,Char.ofNat 78,Char.ofNat 84] = kwELEMENT := rfl
  apply Runs.nt_fail_of env_element_decl
  unfold Prod.element_decl
  rw [e0]
  exact Runs.seq_fail (RunsSeq.fail_head (Runs.seq_fail (RunsSeq.fail_head (Runs.tag_fail h))))

theorem attlist_decl_fails {I : Str} (h : stripPrefix kwATTLIST I = none) : Runs env (.nt N.attlist_decl) I .fail := by
  have e0 : [Char.ofNat 60,Char.ofNat 33,Char.ofNat 65,Char.ofNat 84,Char.ofNat 84,Char.ofNat 76,Char.ofNat 73,Char.ofNat 83,Char.ofNat 84] = kwATTLIST := rfl
  apply Runs.nt_fail_of env_attlist_decl
  unfold Prod.attlist_decl
  rw [e0]
  exact Runs.seq_fail (RunsSeq.fail_head (Runs.seq_fail (RunsSeq.fail_head (Runs.tag_fail h))))

theorem entity_decl_fails {I : Str} (h : stripPrefix kwENTITY I = none) : Runs env (.nt N.entity_decl) I .fail := by
  have e0 : [Char.ofNat 60,Char.ofNat 33,Char.ofNat 69,Char.ofNat 78,Char.ofNat 84,Char.ofNat 73,Char.ofNat 84,Char.ofNat 89] = kwENTITY := rfl
  apply Runs.nt_fail_of env_entity_decl
  unfold Prod.entity_decl
  refine Runs.alt (RunsAlt.skip ?_ (RunsAlt.skip ?_ (RunsAlt.nil _)))
  · apply Runs.nt_fail_of env_ge_decl
    unfold Prod.ge_decl
    rw [e0]
    exact Runs.seq_fail (RunsSeq.fail_head (Runs.seq_fail (RunsSeq.fail_head (Runs.seq_fail (RunsSeq.fail_head (Runs.tag_fail h))))))
  · apply Runs.nt_fail_of env_pe_decl
    unfold Prod.pe_decl
    rw [e0]
    exact Runs.seq_fail (RunsSeq.fail_head (Runs.seq_fail (RunsSeq.fail_head (Runs.seq_fail (RunsSeq.fail_head (Runs.tag_fail h))))))

theorem notation_decl_fails {I : Str} (h : stripPrefix kwNOTATION I = none) : Runs env (.nt N.notation_decl) I .fail := by
  have e0 : [Char.ofNat 60,Char.ofNat 33,Char.ofNat 78,Char.ofNat 79,Char.ofNat 84,Char.ofNat 65,Char.ofNat 84,Char.ofNat 73,Char.ofNat 79,Char.ofNat 78] = kwNOTATION := rfl
  apply Runs.nt_fail_of env_notation_decl
  unfold Prod.notation_decl
  rw [e0]
  exact Runs.seq_fail (RunsSeq.fail_head (Runs.seq_fail (RunsSeq.fail_head (Runs.seq_fail (RunsSeq.fail_head (Runs.tag_fail h))))))

theorem strip_nonlt (t : Str) {I : Str} (h : Stops (· == '<') I) : stripPrefix ('<' :: t) I = none := by
  rcases h with rfl | ⟨c, r, rfl, hc⟩
  · rfl
  · exact strip_cons_ne _ _ (by intro e; subst e; simp at hc)

theorem pi_fails_stops {I : Str} (h : Stops (· == '<') I) : Runs env (.nt N.pi) I .fail := by
  rcases h with rfl | ⟨c, r, rfl, hc⟩
  · exact pi_fails_nil
  · exact pi_fails_nonlt r (by intro e; subst e; simp at hc)

theorem comment_fails_stops {I : Str} (h : Stops (· == '<') I) : Runs env (.nt N.comment) I .fail := by
  rcases h with rfl | ⟨c, r, rfl, hc⟩
  · exact comment_fails_nil
  · exact comment_fails_nonlt r (by intro e; subst e; simp at hc)

/-- no markup declaration starts where the input does not continue with `<` -/
theorem markup_fails_nonlt {I : Str} (h : Stops (· == '<') I) : Runs env (.nt N.markup_decl) I .fail := by
  apply Runs.nt_fail_of env_markup_decl
  unfold Prod.markup_decl
  exact Runs.alt (RunsAlt.skip (element_decl_fails (strip_nonlt _ h)) (RunsAlt.skip (attlist_decl_fails (strip_nonlt _ h))
    (RunsAlt.skip (entity_decl_fails (strip_nonlt _ h)) (RunsAlt.skip (notation_decl_fails (strip_nonlt _ h))
    (RunsAlt.skip (pi_fails_stops h) (RunsAlt.skip (comment_fails_stops h) (RunsAlt.nil _)))))))

theorem okDtd_elementDecl {w0 : Str} {n : QN} {w1 : Str} {spec : CSpec} {w2 : Str} (h : okDtdItem (.elementDecl w0 n w1 spec w2) = true) :
    okWs1 w0 = true ∧ okQN n = true ∧ okWs1 w1 = true ∧ okSpec spec = true ∧ okWs w2 = true := by
  simp only [okDtdItem, Bool.and_eq_true] at h
  obtain ⟨⟨⟨⟨a, b⟩, c⟩, d⟩, e⟩ := h; exact ⟨a, b, c, d, e⟩

theorem okDtd_attlist {w0 : Str} {e : QN} {defs : List CAttDef} {w1 : Str} (h : okDtdItem (.attlist w0 e defs w1) = true) :
    okWs1 w0 = true ∧ okQN e = true ∧ defs.all okAttDef = true ∧ okWs w1 = true := by
  simp only [okDtdItem, Bool.and_eq_true] at h
  obtain ⟨⟨⟨a, b⟩, c⟩, d⟩ := h; exact ⟨a, b, c, d⟩

theorem okDtd_entity {w0 n w1 : Str} {d : CEntDef} {w2 : Str} (h : okDtdItem (.entity w0 n w1 d w2) = true) :
    okWs1 w0 = true ∧ okNameTok n = true ∧ okWs1 w1 = true ∧ okEntDef d = true ∧ okWs w2 = true := by
  simp only [okDtdItem, Bool.and_eq_true] at h
  obtain ⟨⟨⟨⟨a, b⟩, c⟩, d⟩, e⟩ := h; exact ⟨a, b, c, d, e⟩

theorem okDtd_notation {w0 n w1 : Str} {id : CNotId} {w2 : Str} (h : okDtdItem (.notationDecl w0 n w1 id w2) = true) :
    okWs1 w0 = true ∧ okNameTok n = true ∧ okWs1 w1 = true ∧ okNotId id = true ∧ okWs w2 = true := by
  simp only [okDtdItem, Bool.and_eq_true] at h
  obtain ⟨⟨⟨⟨a, b⟩, c⟩, d⟩, e⟩ := h; exact ⟨a, b, c, d, e⟩

theorem runs_markup_item (i : CDtdItem) (hi : okDtdItem i = true) (hnw : isWsDtd i = false) (Y : Str) :
    Runs env (.nt N.markup_decl) (i.str ++ Y) (.ok (cstDtdItem i) Y) := by
  cases i with
  | ws w => simp [isWsDtd] at hnw
  | elementDecl w0 n w1 spec w2 =>
    obtain ⟨a, b, c, d, e⟩ := okDtd_elementDecl hi
    apply Runs.nt_of env_markup_decl
    unfold Prod.markup_decl
    exact Runs.alt (RunsAlt.hit (runs_element_decl a b c d e Y))
  | attlist w0 e defs w1 =>
    obtain ⟨a, b, c, d⟩ := okDtd_attlist hi
    apply Runs.nt_of env_markup_decl
    unfold Prod.markup_decl
    refine Runs.alt (RunsAlt.skip (element_decl_fails ?_) (RunsAlt.hit (runs_attlist a b c d Y)))
    simp [CDtdItem.str, kwATTLIST, kwELEMENT, stripPrefix]
  | entity w0 n w1 d w2 =>
    obtain ⟨a, b, c, d', e⟩ := okDtd_entity hi
    apply Runs.nt_of env_markup_decl
    unfold Prod.markup_decl
    refine Runs.alt (RunsAlt.skip (element_decl_fails ?_) (RunsAlt.skip (attlist_decl_fails ?_) (RunsAlt.hit (runs_entity a b c d' e Y))))
    · simp [CDtdItem.str, kwENTITY, kwELEMENT, stripPrefix]
    · simp [CDtdItem.str, kwENTITY, kwATTLIST, stripPrefix]
  | notationDecl w0 n w1 id w2 =>
    obtain ⟨a, b, c, d', e⟩ := okDtd_notation hi
    apply Runs.nt_of env_markup_decl
    unfold Prod.markup_decl
    refine Runs.alt (RunsAlt.skip (element_decl_fails ?_) (RunsAlt.skip (attlist_decl_fails ?_) (RunsAlt.skip (entity_decl_fails ?_)
      (RunsAlt.hit (runs_notation a b c d' e Y)))))
    · simp [CDtdItem.str, kwNOTATION, kwELEMENT, stripPrefix]
    · simp [CDtdItem.str, kwNOTATION, kwATTLIST, stripPrefix]
    · simp [CDtdItem.str, kwNOTATION, kwENTITY, stripPrefix]
  | pi t b =>
    apply Runs.nt_of env_markup_decl
    unfold Prod.markup_decl
    refine Runs.alt (RunsAlt.skip (element_decl_fails ?_) (RunsAlt.skip (attlist_decl_fails ?_) (RunsAlt.skip (entity_decl_fails ?_)
      (RunsAlt.skip (notation_decl_fails ?_) (RunsAlt.hit (runs_pi Y (by simpa [okDtdItem] using hi)))))))
    · simp [CDtdItem.str, piText, kwELEMENT, stripPrefix]
    · simp [CDtdItem.str, piText, kwATTLIST, stripPrefix]
    · simp [CDtdItem.str, piText, kwENTITY, stripPrefix]
    · simp [CDtdItem.str, piText, kwNOTATION, stripPrefix]
  | comment s =>
    apply Runs.nt_of env_markup_decl
    unfold Prod.markup_decl
    refine Runs.alt (RunsAlt.skip (element_decl_fails ?_) (RunsAlt.skip (attlist_decl_fails ?_) (RunsAlt.skip (entity_decl_fails ?_)
      (RunsAlt.skip (notation_decl_fails ?_) (RunsAlt.skip ?_ (RunsAlt.hit (runs_comment Y (by simpa [okDtdItem] using hi))))))))
    · simp [CDtdItem.str, commentText, kwELEMENT, stripPrefix]
    · simp [CDtdItem.str, commentText, kwATTLIST, stripPrefix]
    · simp [CDtdItem.str, commentText, kwENTITY, stripPrefix]
    · simp [CDtdItem.str, commentText, kwNOTATION, stripPrefix]
    · exact pi_fails_on '!' _ (by decide)

def subsetItemG : G := G.alt [G.nt N.markup_decl, G.nt N.decl_sep]

theorem dtd_item_head (i : CDtdItem) (hi : okDtdItem i = true) : ∃ c t, i.str = c :: t ∧ (isWsDtd i = false → c = '<') := by
  cases i with
  | ws w =>
    obtain ⟨h1, _⟩ := okWs1_parts (by simpa [okDtdItem] using hi)
    cases w with
    | nil => exact absurd rfl h1
    | cons d ds => exact ⟨d, ds, rfl, fun h => by simp [isWsDtd] at h⟩
  | comment s => exact ⟨'<', _, rfl, fun _ => rfl⟩
  | pi t b => exact ⟨'<', _, rfl, fun _ => rfl⟩
  | elementDecl w0 n w1 spec w2 => exact ⟨'<', _, rfl, fun _ => rfl⟩
  | attlist w0 e defs w1 => exact ⟨'<', _, rfl, fun _ => rfl⟩
  | entity w0 n w1 d w2 => exact ⟨'<', _, rfl, fun _ => rfl⟩
  | notationDecl w0 n w1 id w2 => exact ⟨'<', _, rfl, fun _ => rfl⟩

theorem sp_rbrack : P.isSpace ']' = false := by decide

theorem runs_subset_loop : ∀ (items : List CDtdItem), items.all okDtdItem = true → adjWsD items = false → ∀ Y : Str,
    RunsMany env subsetItemG (dtdText items ++ ']' :: Y) (.ok (items.map cstDtdItem) (']' :: Y))
  | [], _, _, Y => by
    simp only [dtdText, List.nil_append, List.map_nil]
    apply RunsMany.stop
    unfold subsetItemG
    refine Runs.alt (RunsAlt.skip (markup_fails_nonlt (Stops.cons _ (by decide))) (RunsAlt.skip ?_ (RunsAlt.nil _)))
    apply Runs.nt_fail_of env_decl_sep
    unfold Prod.decl_sep
    exact Runs.alt (RunsAlt.skip (pe_reference_fail (Stops.cons _ (by decide))) (RunsAlt.skip (runs_cls1_fail (Stops.cons _ sp_rbrack)) (RunsAlt.nil _)))
  | i :: rest, hok, hadj, Y => by
    simp only [List.all_cons, Bool.and_eq_true] at hok
    have hadj' : adjWsD rest = false := by simp only [adjWsD, Bool.or_eq_false_iff] at hadj; exact hadj.2
    have ih := runs_subset_loop rest hok.2 hadj' Y
    obtain ⟨c, t, ec, _⟩ := dtd_item_head i hok.1
    simp only [dtdText, List.map_cons, List.append_assoc]
    refine RunsMany.step (r := dtdText rest ++ ']' :: Y) ?_ (by rw [ec]; simp only [List.cons_append, List.length_cons, List.length_append]; omega) ih
    unfold subsetItemG
    cases hw : isWsDtd i with
    | false => exact Runs.alt (RunsAlt.hit (runs_markup_item i hok.1 hw _))
    | true =>
      cases i with
      | ws w =>
        obtain ⟨h1, h2⟩ := okWs1_parts (by simpa [okDtdItem] using hok.1)
        have hlt : Stops (· == '<') (w ++ (dtdText rest ++ ']' :: Y)) := by
          cases w with
          | nil => exact absurd rfl h1
          | cons d ds =>
            simp only [okWs, List.all_cons, Bool.and_eq_true] at h2
            have hd : d ≠ '<' := by intro e; subst e; simp [sp_lt] at h2
            exact Stops.cons _ (by simpa using hd)
        -- what follows the white space is not white space
        have hst : Stops P.isSpace (dtdText rest ++ ']' :: Y) := by
          cases rest with
          | nil => exact Stops.cons _ sp_rbrack
          | cons j r' =>
            simp only [adjWsD, isWsDtd, Bool.true_and, Bool.or_eq_false_iff] at hadj
            simp only [List.all_cons, Bool.and_eq_true] at hok
            obtain ⟨c', t', ec', hc'⟩ := dtd_item_head j hok.2.1
            simp only [dtdText, ec', List.cons_append]
            rw [hc' hadj.1]
            exact Stops.cons _ sp_lt
        refine Runs.alt (RunsAlt.skip (markup_fails_nonlt hlt) (RunsAlt.hit ?_))
        apply Runs.nt_of env_decl_sep
        unfold Prod.decl_sep
        refine Runs.alt (RunsAlt.skip (pe_reference_fail ?_) (RunsAlt.hit (runs_cls1 h1 h2 hst)))
        cases w with
        | nil => exact absurd rfl h1
        | cons d ds =>
          simp only [okWs, List.all_cons, Bool.and_eq_true] at h2
          have hd : d ≠ '%' := by intro e; subst e; have := h2.1; revert this; decide
          exact Stops.cons _ (by simpa using hd)
      | _ => simp [isWsDtd] at hw

/-! ### <!DOCTYPE -/
def cstExtPart : Option (Str × CExtId) → CST
  | none => .seq []
  | some (w, id) => .seq [.leaf w, cstExtId id]

def cstSubsetPart : Option (List CDtdItem × Str) → CST
  | none => .seq []
  | some (items, w2) => .seq [.leaf ['['], .node N.int_subset (.many (items.map cstDtdItem)), .seq [.leaf [']'], .leaf w2]]

def cstDoctype (d : CDoctype) : CST :=
  .node N.doctype_decl (.seq [.seq [.seq [.leaf kwDOCTYPE, .leaf d.ws0], cstQN d.name], .seq [cstExtPart d.ext, .leaf d.ws1],
    .seq [cstSubsetPart d.subset, .leaf ['>']]])

theorem okDoctype_parts {d : CDoctype} (h : okDoctype d = true) :
    okWs1 d.ws0 = true ∧ okQN d.name = true ∧ (∀ w id, d.ext = some (w, id) → okWs1 w = true ∧ okExtId id = true) ∧ okWs d.ws1 = true ∧
    (∀ items w2, d.subset = some (items, w2) → items.all okDtdItem = true ∧ adjWsD items = false ∧ okWs w2 = true) := by
  simp only [okDoctype, Bool.and_eq_true] at h
  obtain ⟨⟨⟨⟨h1, h2⟩, h3⟩, h4⟩, h5⟩ := h
  refine ⟨h1, h2, ?_, h4, ?_⟩
  · intro w id he; rw [he] at h3; simpa using h3
  · intro items w2 he
    rw [he] at h5
    simp only [Bool.and_eq_true, Bool.not_eq_true'] at h5
    exact ⟨h5.1.1, h5.1.2, h5.2⟩

theorem external_id_fails_on {c : Char} (Y : Str) (h1 : c ≠ 'S') (h2 : c ≠ 'P') : Runs env (.nt N.external_id) (c :: Y) .fail := by
  have e1 : [Char.ofNat 83,Char.ofNat 89,Char.ofNat 83,Char.ofNat 84,Char.ofNat 69,Char.ofNat 77] = kwSYSTEM := rfl
  have e2 : [Char.ofNat 80,Char.ofNat 85,Char.ofNat 66,Char.ofNat 76,Char.ofNat 73,Char.ofNat 67] = kwPUBLIC := rfl
  apply Runs.nt_fail_of env_external_id
  unfold Prod.external_id
  rw [e1, e2]
  exact Runs.alt (RunsAlt.skip (Runs.seq_fail (RunsSeq.fail_head (Runs.seq_fail (RunsSeq.fail_head (Runs.tag_fail (strip_cons_ne _ _ (Ne.symm h1)))))))
    (RunsAlt.skip (Runs.seq_fail (RunsSeq.fail_head (Runs.seq_fail (RunsSeq.fail_head (Runs.tag_fail (strip_cons_ne _ _ (Ne.symm h2))))))) (RunsAlt.nil _)))

theorem sp_lbrack : P.isSpace '[' = false := by decide
theorem nc_lbrack : P.isNameChar '[' = false := by decide

theorem runs_doctype {d : CDoctype} (h : okDoctype d = true) (Y : Str) :
    Runs env (.nt N.doctype_decl) (d.str ++ Y) (.ok (cstDoctype d) Y) := by
  obtain ⟨h0, hn, hext, h1, hsub⟩ := okDoctype_parts h
  obtain ⟨a1, a2⟩ := okWs1_parts h0
  have e0 : [Char.ofNat 60,Char.ofNat 33,Char.ofNat 68,Char.ofNat 79,Char.ofNat 67,Char.ofNat 84,Char.ofNat 89,Char.ofNat 80,Char.ofNat 69] = kwDOCTYPE := rfl
  have e1 : [Char.ofNat 91] = ['['] := rfl
  have e2 : [Char.ofNat 93] = [']'] := rfl
  have e3 : [Char.ofNat 62] = ['>'] := rfl
  apply Runs.nt_of env_doctype_decl
  unfold Prod.doctype_decl
  rw [e0, e1, e2, e3]
  -- the tail behind the external identifier: `ws1 (subset)? >`
  have htail : ∃ c r, subsetText d.subset ++ '>' :: Y = c :: r ∧ (c = '[' ∨ c = '>') := by
    cases d.subset with
    | none => exact ⟨'>', Y, rfl, .inr rfl⟩
    | some v => obtain ⟨items, w2⟩ := v; exact ⟨'[', _, rfl, .inl rfl⟩
  obtain ⟨tc, tr, etail, htc⟩ := htail
  have htxt : d.str ++ Y = kwDOCTYPE ++ (d.ws0 ++ (d.name.text ++ (extText d.ext ++ (d.ws1 ++ (subsetText d.subset ++ '>' :: Y))))) := by
    simp [CDoctype.str]
  rw [htxt]
  have hsp_tc : P.isSpace tc = false := by rcases htc with rfl | rfl; exact sp_lbrack; exact sp_gt
  have hnc_tc : P.isNameChar tc = false := by rcases htc with rfl | rfl; exact nc_lbrack; exact nc_gt
  -- subset part and closing `>`
  have hsubset : Runs env (.seq [.alt [.seq [.tag ['['], .nt N.int_subset, .seq [.tag [']'], .cls0 P.isSpace]], .seq []], .tag ['>']])
      (subsetText d.subset ++ '>' :: Y) (.ok (.seq [cstSubsetPart d.subset, .leaf ['>']]) Y) := by
    cases hs : d.subset with
    | none =>
      simp only [subsetText, List.nil_append, cstSubsetPart]
      exact Runs.seq (RunsSeq.cons (Runs.opt_none (Runs.seq_fail (RunsSeq.fail_head (Runs.tag_fail (strip_cons_ne _ _ (by decide))))))
        (RunsSeq.cons (Runs.tag_ok ['>'] Y) (RunsSeq.nil _)))
    | some v =>
      obtain ⟨items, w2⟩ := v
      obtain ⟨b1, b2, b3⟩ := hsub items w2 hs
      have hloop := runs_subset_loop items b1 b2 (w2 ++ '>' :: Y)
      have hint : Runs env (.nt N.int_subset) (dtdText items ++ ']' :: (w2 ++ '>' :: Y)) (.ok (.node N.int_subset (.many (items.map cstDtdItem))) (']' :: (w2 ++ '>' :: Y))) := by
        apply Runs.nt_of env_int_subset
        unfold Prod.int_subset
        unfold subsetItemG at hloop
        exact Runs.many hloop
      have : subsetText (some (items, w2)) ++ '>' :: Y = '[' :: (dtdText items ++ ']' :: (w2 ++ '>' :: Y)) := by simp [subsetText]
      rw [this]
      simp only [cstSubsetPart]
      exact Runs.seq (RunsSeq.cons (Runs.opt_some (Runs.seq (RunsSeq.cons (Runs.tag_ok ['['] _) (RunsSeq.cons hint (RunsSeq.cons
        (Runs.seq (RunsSeq.cons (Runs.tag_ok [']'] _) (RunsSeq.cons (runs_cls0 b3 (Stops.cons _ sp_gt)) (RunsSeq.nil _)))) (RunsSeq.nil _))))))
        (RunsSeq.cons (Runs.tag_ok ['>'] Y) (RunsSeq.nil _)))
  have hws1 : Runs env (.cls0 P.isSpace) (d.ws1 ++ (subsetText d.subset ++ '>' :: Y)) (.ok (.leaf d.ws1) (subsetText d.subset ++ '>' :: Y)) := by
    rw [etail]; exact runs_cls0 h1 (Stops.cons _ hsp_tc)
  have hmid : Runs env (.seq [.alt [.seq [.cls1 P.isSpace, .nt N.external_id], .seq []], .cls0 P.isSpace])
      (extText d.ext ++ (d.ws1 ++ (subsetText d.subset ++ '>' :: Y)))
      (.ok (.seq [cstExtPart d.ext, .leaf d.ws1]) (subsetText d.subset ++ '>' :: Y)) := by
    cases he : d.ext with
    | none =>
      simp only [extText, List.nil_append, cstExtPart]
      refine Runs.seq (RunsSeq.cons (Runs.opt_none (Runs.seq_fail ?_)) (RunsSeq.cons hws1 (RunsSeq.nil _)))
      have hx : Runs env (.nt N.external_id) (subsetText d.subset ++ '>' :: Y) .fail := by
        rw [etail]; exact external_id_fails_on tr (by rcases htc with rfl | rfl <;> decide) (by rcases htc with rfl | rfl <;> decide)
      cases hw : d.ws1 with
      | nil => simp only [List.nil_append]; rw [etail]; exact RunsSeq.fail_head (runs_cls1_fail (Stops.cons _ hsp_tc))
      | cons c cs =>
        rw [hw] at h1
        have := runs_cls1 (env := env) (p := P.isSpace) (s := c :: cs) (r := subsetText d.subset ++ '>' :: Y) (by simp) h1 (by rw [etail]; exact Stops.cons _ hsp_tc)
        exact RunsSeq.fail_tail this (RunsSeq.fail_head hx)
    | some v =>
      obtain ⟨w, id⟩ := v
      obtain ⟨c1, c2⟩ := hext w id he
      obtain ⟨d1, d2⟩ := okWs1_parts c1
      obtain ⟨ic, it, eic, hic⟩ := extId_head id
      simp only [extText, List.append_assoc, cstExtPart]
      refine Runs.seq (RunsSeq.cons (Runs.opt_some (Runs.seq (RunsSeq.cons (runs_cls1 d1 d2 ?_) (RunsSeq.cons (runs_external_id c2 _) (RunsSeq.nil _)))))
        (RunsSeq.cons hws1 (RunsSeq.nil _)))
      rw [eic]; exact Stops.cons _ (by rcases hic with rfl | rfl <;> decide)
  have hqstop : Stops P.isNameChar (extText d.ext ++ (d.ws1 ++ (subsetText d.subset ++ '>' :: Y))) := by
    cases he : d.ext with
    | none =>
      simp only [extText, List.nil_append]
      rw [etail]; exact stops_nc_of_ws_then h1 hnc_tc tr
    | some v =>
      obtain ⟨w, id⟩ := v
      obtain ⟨c1, _⟩ := hext w id he
      simp only [extText, List.append_assoc]
      exact stops_nc_ws1 c1 _
  exact Runs.seq (RunsSeq.cons (Runs.seq (RunsSeq.cons (Runs.seq (RunsSeq.cons (Runs.tag_ok kwDOCTYPE _) (RunsSeq.cons (runs_cls1 a1 a2 (stops_space_name hn _)) (RunsSeq.nil _))))
    (RunsSeq.cons (runs_qname hn hqstop) (RunsSeq.nil _)))) (RunsSeq.cons hmid (RunsSeq.cons hsubset (RunsSeq.nil _))))

end XmlRs.Lex
