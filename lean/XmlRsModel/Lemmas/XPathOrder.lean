import XmlRsModel.XPath.Eval
/-! Document order of the XPath data model: the list `allKeys d` of all nodes is strictly increasing
    for `keyLt` (so it has no duplicates), and `keyLt` is a strict total order on keys. -/
namespace XmlRs.XPath
open XmlRs

abbrev KLt (a b : Key) : Prop := keyLt a b = true

theorem keyLt_irrefl : ∀ a : Key, keyLt a a = false
  | [] => rfl
  | x :: xs => by simp [keyLt, keyLt_irrefl xs]

theorem keyLt_trans : ∀ {a b c : Key}, keyLt a b = true → keyLt b c = true → keyLt a c = true
  | [], [], _, h, _ => by simp [keyLt] at h
  | [], _ :: _, [], _, h => by simp [keyLt] at h
  | [], _ :: _, _ :: _, _, _ => rfl
  | _ :: _, [], _, h, _ => by simp [keyLt] at h
  | _ :: _, _ :: _, [], _, h => by simp [keyLt] at h
  | x :: xs, y :: ys, z :: zs, h1, h2 => by
      simp only [keyLt, Bool.or_eq_true, decide_eq_true_eq, Bool.and_eq_true, beq_iff_eq] at h1 h2 ⊢
      rcases h1 with h1 | ⟨rfl, h1⟩
      · rcases h2 with h2 | ⟨rfl, _⟩
        · exact Or.inl (by omega)
        · exact Or.inl h1
      · rcases h2 with h2 | ⟨rfl, h2⟩
        · exact Or.inl h2
        · exact Or.inr ⟨rfl, keyLt_trans h1 h2⟩

theorem keyLt_asymm {a b : Key} (h : keyLt a b = true) : keyLt b a = false := by
  cases hb : keyLt b a with
  | false => rfl
  | true => have := keyLt_trans h hb; simp [keyLt_irrefl] at this

/-- totality: two different keys are ordered one way or the other -/
theorem keyLt_total : ∀ a b : Key, a = b ∨ keyLt a b = true ∨ keyLt b a = true
  | [], [] => Or.inl rfl
  | [], _ :: _ => Or.inr (Or.inl rfl)
  | _ :: _, [] => Or.inr (Or.inr rfl)
  | x :: xs, y :: ys => by
      simp only [keyLt, Bool.or_eq_true, decide_eq_true_eq, Bool.and_eq_true, beq_iff_eq, List.cons.injEq]
      rcases Nat.lt_trichotomy x y with h | rfl | h
      · exact Or.inr (Or.inl (Or.inl h))
      · rcases keyLt_total xs ys with rfl | h | h
        · exact Or.inl ⟨rfl, rfl⟩
        · exact Or.inr (Or.inl (Or.inr ⟨rfl, h⟩))
        · exact Or.inr (Or.inr (Or.inr ⟨rfl, h⟩))
      · exact Or.inr (Or.inr (Or.inl h))

theorem keyLt_append_left : ∀ (p a b : Key), keyLt (p ++ a) (p ++ b) = keyLt a b
  | [], _, _ => rfl
  | x :: p, a, b => by simp [keyLt, keyLt_append_left p a b]

/-- a proper prefix comes first: an element precedes everything below it -/
theorem keyLt_prefix (p : Key) : ∀ {t : Key}, t ≠ [] → keyLt p (p ++ t) = true
  | [], h => absurd rfl h
  | x :: t, _ => by
      have := keyLt_append_left p [] (x :: t)
      simp only [List.append_nil] at this
      rw [this]; rfl

theorem isPrefix_iff : ∀ {a b : Key}, isPrefix a b = true ↔ ∃ t, b = a ++ t
  | [], b => by simp [isPrefix]
  | _ :: _, [] => by simp [isPrefix]
  | x :: xs, y :: ys => by
      simp only [isPrefix, Bool.and_eq_true, beq_iff_eq, List.cons_append, List.cons.injEq]
      constructor
      · rintro ⟨rfl, h⟩
        obtain ⟨t, rfl⟩ := isPrefix_iff.1 h
        exact ⟨t, rfl, rfl⟩
      · rintro ⟨t, rfl, rfl⟩
        exact ⟨rfl, isPrefix_iff.2 ⟨t, rfl⟩⟩

theorem isDescendantKey_iff {a k : Key} : isDescendantKey a k = true ↔ ∃ t, t ≠ [] ∧ k = a ++ t := by
  simp only [isDescendantKey, Bool.and_eq_true, decide_eq_true_eq, isPrefix_iff]
  constructor
  · rintro ⟨hl, t, rfl⟩
    refine ⟨t, ?_, rfl⟩
    rintro rfl; simp at hl
  · rintro ⟨t, ht, rfl⟩
    refine ⟨?_, t, rfl⟩
    cases t with
    | nil => exact absurd rfl ht
    | cons x t => simp

theorem descendant_after {a k : Key} (h : isDescendantKey a k = true) : keyLt a k = true := by
  obtain ⟨t, ht, rfl⟩ := isDescendantKey_iff.1 h
  exact keyLt_prefix a ht

/-! ### the enumeration of a subtree -/

mutual
theorem keysOf_prefix (w : Bool) : ∀ (n : XNode) (k x : Key), x ∈ keysOf w k n → x = k ∨ ∃ t, t ≠ [] ∧ x = k ++ t
  | .elem _ ns as ks, k, x, h => by
      simp only [keysOf, List.mem_cons, List.mem_append] at h
      rcases h with rfl | h | h
      · exact Or.inl rfl
      · right
        split at h
        · simp only [List.mem_append, List.mem_map, List.mem_range] at h
          rcases h with ⟨i, _, rfl⟩ | ⟨i, _, rfl⟩
          · exact ⟨[0, i], by simp, rfl⟩
          · exact ⟨[1, i], by simp, rfl⟩
        · simp at h
      · right
        obtain ⟨j, t, _, rfl⟩ := keysOfL_prefix w ks k 0 x h
        exact ⟨(j + 2) :: t, by simp, rfl⟩
  | .text _, k, x, h => by simp only [keysOf, List.mem_singleton] at h; exact Or.inl h
  | .comment _, k, x, h => by simp only [keysOf, List.mem_singleton] at h; exact Or.inl h
  | .pi _ _, k, x, h => by simp only [keysOf, List.mem_singleton] at h; exact Or.inl h
theorem keysOfL_prefix (w : Bool) : ∀ (ns : List XNode) (k : Key) (i : Nat) (x : Key), x ∈ keysOfL w k i ns →
    ∃ j t, i ≤ j ∧ x = k ++ (j + 2) :: t
  | [], _, _, _, h => by simp [keysOfL] at h
  | n :: r, k, i, x, h => by
      simp only [keysOfL, List.mem_append] at h
      rcases h with h | h
      · rcases keysOf_prefix w n (k ++ [i + 2]) x h with rfl | ⟨t, _, rfl⟩
        · exact ⟨i, [], Nat.le_refl _, by simp⟩
        · exact ⟨i, t, Nat.le_refl _, by simp⟩
      · obtain ⟨j, t, hj, rfl⟩ := keysOfL_prefix w r k (i + 1) x h
        exact ⟨j, t, by omega, rfl⟩
end

theorem keyLt_child_index (k : Key) (i j : Nat) (s t : Key) (h : i < j) :
    keyLt (k ++ (i + 2) :: s) (k ++ (j + 2) :: t) = true := by
  rw [keyLt_append_left]; simp [keyLt]; omega

private theorem range_map_pairwise (k : Key) (c n : Nat) :
    ((List.range n).map fun i => k ++ [c, i]).Pairwise KLt := by
  rw [List.pairwise_map]
  refine List.Pairwise.imp ?_ (List.pairwise_lt_range (n := n))
  intro a b hab
  show keyLt (k ++ [c, a]) (k ++ [c, b]) = true
  rw [keyLt_append_left]; simp [keyLt, hab]

mutual
theorem keysOf_pairwise (w : Bool) : ∀ (n : XNode) (k : Key), (keysOf w k n).Pairwise KLt
  | .elem _ ns as ks, k => by
      simp only [keysOf]
      rw [List.pairwise_cons]
      constructor
      · intro x hx
        have : x ∈ keysOf w k (.elem ⟨none, []⟩ ns as ks) := by simp only [keysOf]; exact List.mem_cons_of_mem _ hx
        have hne : x ≠ k := by
          intro hxk; subst hxk
          simp only [List.mem_append] at hx
          rcases hx with hx | hx
          · split at hx
            · simp only [List.mem_append, List.mem_map, List.mem_range] at hx
              rcases hx with ⟨i, _, h⟩ | ⟨i, _, h⟩ <;> simp at h
            · simp at hx
          · obtain ⟨j, t, _, h⟩ := keysOfL_prefix w ks x 0 x hx
            simp at h
        rcases keysOf_prefix w _ k x this with rfl | ⟨t, ht, rfl⟩
        · exact absurd rfl hne
        · exact keyLt_prefix k ht
      · rw [List.pairwise_append]
        refine ⟨?_, keysOfL_pairwise w ks k 0, ?_⟩
        · split
          · rw [List.pairwise_append]
            refine ⟨range_map_pairwise k 0 _, range_map_pairwise k 1 _, ?_⟩
            intro a ha b hb
            simp only [List.mem_map, List.mem_range] at ha hb
            obtain ⟨i, _, rfl⟩ := ha
            obtain ⟨j, _, rfl⟩ := hb
            show keyLt (k ++ [0, i]) (k ++ [1, j]) = true
            rw [keyLt_append_left]; simp [keyLt]
          · exact List.Pairwise.nil
        · intro a ha b hb
          obtain ⟨j, t, _, rfl⟩ := keysOfL_prefix w ks k 0 b hb
          split at ha
          · simp only [List.mem_append, List.mem_map, List.mem_range] at ha
            rcases ha with ⟨i, _, rfl⟩ | ⟨i, _, rfl⟩
            · show keyLt (k ++ [0, i]) (k ++ (j + 2) :: t) = true
              rw [keyLt_append_left]; simp [keyLt]
            · show keyLt (k ++ [1, i]) (k ++ (j + 2) :: t) = true
              rw [keyLt_append_left]; simp [keyLt]
          · simp at ha
  | .text _, _ => by simp [keysOf]
  | .comment _, _ => by simp [keysOf]
  | .pi _ _, _ => by simp [keysOf]
theorem keysOfL_pairwise (w : Bool) : ∀ (ns : List XNode) (k : Key) (i : Nat), (keysOfL w k i ns).Pairwise KLt
  | [], _, _ => by simp [keysOfL]
  | n :: r, k, i => by
      simp only [keysOfL]
      rw [List.pairwise_append]
      refine ⟨keysOf_pairwise w n (k ++ [i + 2]), keysOfL_pairwise w r k (i + 1), ?_⟩
      intro a ha b hb
      obtain ⟨j, t, hj, rfl⟩ := keysOfL_prefix w r k (i + 1) b hb
      rcases keysOf_prefix w n (k ++ [i + 2]) a ha with rfl | ⟨s, _, rfl⟩
      · have := keyLt_child_index k i j [] t (by omega)
        simpa using this
      · have := keyLt_child_index k i j s t (by omega)
        simpa using this
end

/-- document order is a strict order on the list of all nodes -/
theorem allKeys_pairwise (d : XDoc) : (allKeys d).Pairwise KLt := by
  unfold allKeys
  rw [List.pairwise_cons]
  refine ⟨?_, keysOfL_pairwise true d.kids [] 0⟩
  intro x hx
  obtain ⟨j, t, _, rfl⟩ := keysOfL_prefix true d.kids [] 0 x hx
  rfl

theorem allKeys_nodup (d : XDoc) : (allKeys d).Nodup := by
  have := allKeys_pairwise d
  refine List.Pairwise.imp ?_ this
  intro a b hab heq
  subst heq
  simp [KLt, keyLt_irrefl] at hab

end XmlRs.XPath
