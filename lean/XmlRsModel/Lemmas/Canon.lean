import XmlRsModel.Lemmas.AbsDoc
/-! The compact printer writes the canonical concrete document: `str (canon x) = print x`, `erase (canon x) = x`. -/
namespace XmlRs.Lex
open XmlRs Gen.Xml XmlRs.Names

theorem contains_append (a b : Str) (c : Char) : (a ++ b).contains c = (a.contains c || b.contains c) := by
  induction a with
  | nil => simp
  | cons x xs ih => simp [List.contains_cons, ih, Bool.or_assoc]

theorem all_not_contains {s : Str} {p : Char → Bool} {q : Char} (h : s.all p = true) (hq : p q = false) : s.contains q = false := by
  cases hc : s.contains q with
  | false => rfl
  | true =>
    rw [List.contains_iff_mem] at hc
    have := (List.all_eq_true.mp h) q hc
    simp [hq] at this

theorem nc_dq : P.isNameChar '"' = false := by decide
theorem nc_sq : P.isNameChar '\'' = false := by decide

theorem piece_no_quote (q : Char) (hq : q = '"' ∨ q = '\'') (pc : Piece) (h : okPiece q pc = true) : (printPiece pc).contains q = false := by
  cases pc with
  | text s =>
    simp only [okPiece, Bool.and_eq_true] at h
    exact all_not_contains h.2 (by simp [P.except])
  | peRef n => simp [okPiece] at h
  | entRef n =>
    simp only [okPiece] at h
    have hn : n.contains q = false := all_not_contains h (by rcases hq with rfl | rfl; exact nc_dq; exact nc_sq)
    have : (printPiece (.entRef n)) = '&' :: (n ++ [';']) := rfl
    rw [this]
    simp only [List.contains_cons, contains_append, hn, List.contains_nil, Bool.or_false, Bool.false_or]
    rcases hq with rfl | rfl <;> decide
  | charRef d hx =>
    simp only [okPiece, Bool.and_eq_true] at h
    have hd : d.contains q = false := by
      cases hx with
      | true => exact all_not_contains (p := P.isHexDigit) (by simpa using h.2) (by rcases hq with rfl | rfl <;> decide)
      | false => exact all_not_contains (p := P.isDigit) (by simpa using h.2) (by rcases hq with rfl | rfl <;> decide)
    cases hx with
    | true =>
      have : printPiece (.charRef d true) = '&' :: '#' :: 'x' :: (d ++ [';']) := rfl
      rw [this]
      simp only [List.contains_cons, contains_append, hd, List.contains_nil, Bool.or_false, Bool.false_or]
      rcases hq with rfl | rfl <;> decide
    | false =>
      have : printPiece (.charRef d false) = '&' :: '#' :: (d ++ [';']) := rfl
      rw [this]
      simp only [List.contains_cons, contains_append, hd, List.contains_nil, Bool.or_false, Bool.false_or]
      rcases hq with rfl | rfl <;> decide

theorem pieces_no_quote (q : Char) (hq : q = '"' ∨ q = '\'') : ∀ ps : List Piece, ps.all (okPiece q) = true → (printPieces ps).contains q = false
  | [], _ => rfl
  | pc :: ps, h => by
    simp only [List.all_cons, Bool.and_eq_true] at h
    have : printPieces (pc :: ps) = printPiece pc ++ printPieces ps := by simp [printPieces]
    rw [this, contains_append, piece_no_quote q hq pc h.1, pieces_no_quote q hq ps h.2]
    rfl

theorem canonAttr_str (a : Attr) (h : okAttr (canonAttr a) = true) : (canonAttr a).str = ' ' :: printAttr a := by
  obtain ⟨_, _, _, _, _, h6, h7, _⟩ := okAttr_parts h
  simp only [canonAttr] at h6 h7
  have hno := pieces_no_quote _ h6 a.vals h7
  have hq : quoteAttr (printPieces a.vals) = canonQuote (printPieces a.vals) :: (printPieces a.vals ++ [canonQuote (printPieces a.vals)]) := by
    unfold quoteAttr escapeQ canonQuote
    unfold canonQuote at hno
    by_cases hd : (printPieces a.vals).contains '"' = true
    · simp only [hd, if_true] at hno ⊢
      simp only [hno, Bool.and_false, Bool.false_eq_true, if_false, List.cons_append]
    · simp only [hd, Bool.false_eq_true, if_false, Bool.false_and, List.cons_append]
  simp [CAttr.str, canonAttr, printAttr, hq]

theorem canonAttrs_text : ∀ (as : List Attr), (as.map canonAttr).all okAttr = true →
    attrsText (as.map canonAttr) = as.flatMap (fun a => ' ' :: printAttr a)
  | [], _ => rfl
  | a :: as, h => by
    simp only [List.map_cons, List.all_cons, Bool.and_eq_true] at h
    simp only [List.map_cons, attrsText, canonAttr_str a h.1, canonAttrs_text as h.2, List.flatMap_cons]

theorem cdataOpen_eq : ['<', '!', '[', 'C', 'D', 'A', 'T', 'A', '['] = cdataOpen := rfl

mutual
theorem canonItem_str : ∀ i : Item, okItem (canonItem i) = true → (canonItem i).str = printItem i
  | .text s, _ => rfl
  | .charRef d h, _ => rfl
  | .entRef n, _ => rfl
  | .cdata s, _ => by
    simp [canonItem, CItem.str, printItem, cdataText, cdataOpen]
  | .pi t d, _ => by
    cases d <;> simp [canonItem, CItem.str, printItem, printPI, piText, canonPIBody]
  | .comment s, _ => by
    simp [canonItem, CItem.str, printItem, commentText]
  | .elem n attrs [], hok => by
    have h := okElem_parts (by simpa [canonItem] using hok)
    simp [canonItem, CItem.str, printItem, canonAttrs_text attrs h.2.1]
  | .elem n attrs (k :: ks), hok => by
    have h := okElem_parts (by simpa [canonItem] using hok)
    have hk := canonItems_str (k :: ks) (by simpa [canonItems] using h.2.2.2.2.2.1)
    simp only [canonItems] at hk
    simp [canonItem, CItem.str, printItem, canonAttrs_text attrs h.2.1, hk]
theorem canonItems_str : ∀ l : List Item, okItems (canonItems l) = true → strL (canonItems l) = printItems l
  | [], _ => rfl
  | i :: r, hok => by
    have h := okItems_cons (by simpa [canonItems] using hok)
    simp [canonItems, strL, printItems, canonItem_str i h.1, canonItems_str r h.2]
end

theorem piData_canon (d : Option Str) (h : piFaithful d = true) : piData (canonPIBody d) = d := by
  have hsp : isWs ' ' = true := by decide
  cases d with
  | none => rfl
  | some x =>
    cases x with
    | nil => simp only [canonPIBody, piData, List.dropWhile, hsp]
    | cons c r =>
      have hc : isWs c = false := by simpa [piFaithful] using h
      simp only [canonPIBody, piData, List.dropWhile, hsp, hc]

theorem erase_canonAttr (a : Attr) : (canonAttr a).erase = a := rfl

theorem canonAttrs_erase (as : List Attr) : List.map (CAttr.erase ∘ canonAttr) as = as := by
  induction as with
  | nil => rfl
  | cons a as ih => simp only [List.map_cons, Function.comp_apply, erase_canonAttr, ih]

mutual
theorem canonItem_erase : ∀ i : Item, faithfulItem i = true → (canonItem i).erase = i
  | .text s, _ => rfl
  | .charRef d h, _ => rfl
  | .entRef n, _ => rfl
  | .cdata s, _ => rfl
  | .pi t d, h => by simp [canonItem, CItem.erase, piData_canon d (by simpa [faithfulItem] using h)]
  | .comment s, _ => rfl
  | .elem n attrs [], _ => by simp [canonItem, CItem.erase, canonAttrs_erase, eraseL]
  | .elem n attrs (k :: ks), h => by
    have hk := canonItems_erase (k :: ks) (by simpa [faithfulItem] using h)
    simp only [canonItems] at hk
    simp [canonItem, CItem.erase, canonAttrs_erase, hk]
theorem canonItems_erase : ∀ l : List Item, faithfulItems l = true → eraseL (canonItems l) = l
  | [], _ => rfl
  | i :: r, h => by
    simp only [faithfulItems, Bool.and_eq_true] at h
    simp [canonItems, eraseL, canonItem_erase i h.1, canonItems_erase r h.2]
end

/-! ### documents -/
theorem canonMiscs_spec : ∀ (ts : List TopItem) (ms : List CMisc), canonMiscs ts = some ms → ts.all faithfulTop = true →
    miscText ms = ts.flatMap printTop ∧ ms.filterMap CMisc.erase = ts
  | [], ms, h, _ => by
    simp only [canonMiscs, Option.some.injEq] at h; subst h; exact ⟨rfl, rfl⟩
  | .comment s :: r, ms, h, hf => by
    simp only [canonMiscs, Option.map_eq_some_iff] at h
    obtain ⟨ms', h1, rfl⟩ := h
    simp only [List.all_cons, Bool.and_eq_true] at hf
    obtain ⟨i1, i2⟩ := canonMiscs_spec r ms' h1 hf.2
    exact ⟨by simp [miscText, CMisc.str, commentText, printTop, i1], by simp [CMisc.erase, i2]⟩
  | .pi t d :: r, ms, h, hf => by
    simp only [canonMiscs, Option.map_eq_some_iff] at h
    obtain ⟨ms', h1, rfl⟩ := h
    simp only [List.all_cons, Bool.and_eq_true] at hf
    obtain ⟨i1, i2⟩ := canonMiscs_spec r ms' h1 hf.2
    refine ⟨?_, by simp [CMisc.erase, i2, piData_canon d (by simpa [faithfulTop] using hf.1)]⟩
    cases d <;> simp [miscText, CMisc.str, piText, printTop, printPI, canonPIBody, i1]
  | .doctype _ :: r, ms, h, _ => by simp [canonMiscs] at h
  | .elem _ :: r, ms, h, _ => by simp [canonMiscs] at h

theorem canonTop_spec : ∀ (ts : List TopItem) (b : List CMisc) (e : CItem) (a : List CMisc), canonTop ts = some (b, e, a) →
    ts.all faithfulTop = true → okItem e = true →
    miscText b ++ (e.str ++ miscText a) = ts.flatMap printTop ∧
    b.filterMap CMisc.erase ++ [TopItem.elem e.erase] ++ a.filterMap CMisc.erase = ts
  | [], b, e, a, h, _, _ => by simp [canonTop] at h
  | .doctype _ :: r, b, e, a, h, _, _ => by simp [canonTop] at h
  | .elem e0 :: r, b, e, a, h, hf, hok => by
    simp only [canonTop, Option.map_eq_some_iff, Prod.mk.injEq] at h
    obtain ⟨a', h1, rfl, rfl, rfl⟩ := h
    simp only [List.all_cons, Bool.and_eq_true] at hf
    obtain ⟨i1, i2⟩ := canonMiscs_spec r a' h1 hf.2
    exact ⟨by simp [miscText, printTop, canonItem_str e0 hok, i1],
      by simp [canonItem_erase e0 (by simpa [faithfulTop] using hf.1), i2]⟩
  | .comment s :: r, b, e, a, h, hf, hok => by
    simp only [canonTop, Option.map_eq_some_iff, Prod.mk.injEq] at h
    obtain ⟨⟨b', e', a'⟩, h1, rfl, rfl, rfl⟩ := h
    simp only [List.all_cons, Bool.and_eq_true] at hf
    obtain ⟨i1, i2⟩ := canonTop_spec r b' e' a' h1 hf.2 hok
    refine ⟨by simp [miscText, CMisc.str, commentText, printTop, ← i1], ?_⟩
    simp only [List.filterMap_cons, CMisc.erase, List.cons_append]
    rw [i2]
  | .pi t d :: r, b, e, a, h, hf, hok => by
    simp only [canonTop, Option.map_eq_some_iff, Prod.mk.injEq] at h
    obtain ⟨⟨b', e', a'⟩, h1, rfl, rfl, rfl⟩ := h
    simp only [List.all_cons, Bool.and_eq_true] at hf
    obtain ⟨i1, i2⟩ := canonTop_spec r b' e' a' h1 hf.2 hok
    refine ⟨?_, ?_⟩
    · cases d <;> simp [miscText, CMisc.str, piText, printTop, printPI, canonPIBody, ← i1]
    · simp only [List.filterMap_cons, CMisc.erase, List.cons_append, piData_canon d (by simpa [faithfulTop] using hf.1)]
      rw [i2]

theorem canon_decl_case (minor : Str) (en : Option Str) (sd : Option Bool) (ks : List TopItem) (b : List CMisc) (e : CItem) (a : List CMisc)
    (hd1 : ∀ x, (some (⟨[' '], [], [], '"', minor, en.map (fun e => ([' '], [], [], '"', e)), sd.map (fun b => ([' '], [], [], '"', b)), []⟩ : CDecl)) = some x → okDecl x = true)
    (i1 : miscText b ++ (e.str ++ miscText a) = ks.flatMap printTop)
    (i2 : b.filterMap CMisc.erase ++ [TopItem.elem e.erase] ++ a.filterMap CMisc.erase = ks) :
    printDoc ⟨some ('1' :: '.' :: minor), en, sd, ks⟩ =
      (⟨some ⟨[' '], [], [], '"', minor, en.map (fun e => ([' '], [], [], '"', e)), sd.map (fun b => ([' '], [], [], '"', b)), []⟩, b, e, a⟩ : CDoc).str ∧
    (⟨some ⟨[' '], [], [], '"', minor, en.map (fun e => ([' '], [], [], '"', e)), sd.map (fun b => ([' '], [], [], '"', b)), []⟩, b, e, a⟩ : CDoc).erase =
      ⟨some ('1' :: '.' :: minor), en, sd, ks⟩ := by
  have hx := hd1 _ rfl
  obtain ⟨_, _, _, _, _, _, _, henc, _, _⟩ := okDecl_parts hx
  refine ⟨?_, ?_⟩
  · have henc' : ∀ name, en = some name → name.isEmpty = false := by
      intro name hn
      have := henc [' '] [] [] '"' name (by simp [hn])
      have hne := this.2.2.2.2.2
      cases name with
      | nil => simp [okEncName] at hne
      | cons c r => rfl
    cases en with
    | none =>
      cases sd with
      | none => simp [printDoc, CDoc.str, declText, CDecl.str, encText, sdText, kwVersion, i1]
      | some bb => cases bb <;> simp [printDoc, CDoc.str, declText, CDecl.str, encText, sdText, kwVersion, kwStandalone, yesNo, i1]
    | some name =>
      have hn := henc' name rfl
      cases sd with
      | none => simp [printDoc, CDoc.str, declText, CDecl.str, encText, sdText, kwVersion, kwEncoding, hn, i1]
      | some bb => cases bb <;> simp [printDoc, CDoc.str, declText, CDecl.str, encText, sdText, kwVersion, kwEncoding, kwStandalone, yesNo, hn, i1]
  · cases en <;> cases sd <;> simp [CDoc.erase, i2]


/-- the compact printer writes the canonical concrete document, and that document renders `d` -/
theorem canonDoc_spec (d : IDoc) (cd : CDoc) (hc : canonDoc d = some cd) (hf : d.kids.all faithfulTop = true)
    (hok : cd.ok = true) : printDoc d = cd.str ∧ cd.erase = d := by
  unfold canonDoc at hc
  cases hdecl : canonDecl d with
  | none => rw [hdecl] at hc; cases hc
  | some decl =>
    rw [hdecl] at hc
    simp only [Option.map_eq_some_iff] at hc
    obtain ⟨⟨b, e, a⟩, h1, rfl⟩ := hc
    obtain ⟨hd1, _, _, _, h5, _, _⟩ := CDoc.ok_parts hok
    obtain ⟨i1, i2⟩ := canonTop_spec d.kids b e a h1 hf h5
    obtain ⟨v, en, sd, ks⟩ := d
    simp only at i1 i2
    unfold canonDecl at hdecl
    simp only at hdecl
    cases v with
    | none =>
      simp only at hdecl
      split at hdecl
      · cases hdecl
      · next hv =>
        simp only [Bool.or_eq_true, not_or, Bool.not_eq_true, Option.isSome_eq_false_iff, Option.isNone_iff_eq_none] at hv
        obtain ⟨hv2, hv3⟩ := hv
        simp only [Option.some.injEq] at hdecl
        subst hdecl hv2 hv3
        exact ⟨by simp [printDoc, CDoc.str, declText, i1], by simp [CDoc.erase, i2]⟩
    | some vs =>
      split at hdecl
      · next heq => cases heq
      · next minor heq =>
        simp only [Option.some.injEq] at heq
        subst heq
        simp only [Option.some.injEq] at hdecl
        subst hdecl
        exact canon_decl_case minor en sd ks b e a hd1 i1 i2
      · cases hdecl


end XmlRs.Lex
