import XmlRsModel.Lemmas.AbsDoc
/-! The compact printer writes the canonical concrete document: `str (canon x) = print x`, `erase (canon x) = x`. -/
namespace XmlRs.Lex
open XmlRs Gen.Xml XmlRs.Names

theorem contains_append (a b : Str) (c : Char) : (a ++ b).contains c = (a.contains c || b.contains c) := by
  induction a with
  | nil => simp
  | cons x xs ih => simp [List.contains_cons, ih, Bool.or_assoc]

theorem all_not_contains {s : Str} {p : Char → Bool} {q : Char} (h : s.all p = true) (hq : p q = false) : s.contains q = false := by
  cases hc : s.contains q with
  | false => rfl
  | true =>
    rw [List.contains_iff_mem] at hc
    have := (List.all_eq_true.mp h) q hc
    simp [hq] at this

theorem nc_dq : P.isNameChar '"' = false := by decide
theorem nc_sq : P.isNameChar '\'' = false := by decide

theorem piece_no_quote (q : Char) (hq : q = '"' ∨ q = '\'') (pc : Piece) (h : okPiece q pc = true) : (printPiece pc).contains q = false := by
  cases pc with
  | text s =>
    simp only [okPiece, Bool.and_eq_true] at h
    exact all_not_contains h.2 (by simp [P.except])
  | peRef n => simp [okPiece] at h
  | entRef n =>
    simp only [okPiece] at h
    have hn : n.contains q = false := all_not_contains h (by rcases hq with rfl | rfl; exact nc_dq; exact nc_sq)
    have : (printPiece (.entRef n)) = '&' :: (n ++ [';']) := rfl
    rw [this]
    simp only [List.contains_cons, contains_append, hn, List.contains_nil, Bool.or_false, Bool.false_or]
    rcases hq with rfl | rfl <;> decide
  | charRef d hx =>
    simp only [okPiece, Bool.and_eq_true] at h
    have hd : d.contains q = false := by
      cases hx with
      | true => exact all_not_contains (p := P.isHexDigit) (by simpa using h.2) (by rcases hq with rfl | rfl <;> decide)
      | false => exact all_not_contains (p := P.isDigit) (by simpa using h.2) (by rcases hq with rfl | rfl <;> decide)
    cases hx with
    | true =>
      have : printPiece (.charRef d true) = '&' :: '#' :: 'x' :: (d ++ [';']) := rfl
      rw [this]
      simp only [List.contains_cons, contains_append, hd, List.contains_nil, Bool.or_false, Bool.false_or]
      rcases hq with rfl | rfl <;> decide
    | false =>
      have : printPiece (.charRef d false) = '&' :: '#' :: (d ++ [';']) := rfl
      rw [this]
      simp only [List.contains_cons, contains_append, hd, List.contains_nil, Bool.or_false, Bool.false_or]
      rcases hq with rfl | rfl <;> decide

theorem pieces_no_quote (q : Char) (hq : q = '"' ∨ q = '\'') : ∀ ps : List Piece, ps.all (okPiece q) = true → (printPieces ps).contains q = false
  | [], _ => rfl
  | pc :: ps, h => by
    simp only [List.all_cons, Bool.and_eq_true] at h
    have : printPieces (pc :: ps) = printPiece pc ++ printPieces ps := by simp [printPieces]
    rw [this, contains_append, piece_no_quote q hq pc h.1, pieces_no_quote q hq ps h.2]
    rfl

theorem canonAttr_str (a : Attr) (h : okAttr (canonAttr a) = true) : (canonAttr a).str = ' ' :: printAttr a := by
  obtain ⟨_, _, _, _, _, h6, h7, _⟩ := okAttr_parts h
  simp only [canonAttr] at h6 h7
  have hno := pieces_no_quote _ h6 a.vals h7
  have hq : quoteAttr (printPieces a.vals) = canonQuote (printPieces a.vals) :: (printPieces a.vals ++ [canonQuote (printPieces a.vals)]) := by
    unfold quoteAttr escapeQ canonQuote
    unfold canonQuote at hno
    by_cases hd : (printPieces a.vals).contains '"' = true
    · simp only [hd, if_true] at hno ⊢
      simp only [hno, Bool.and_false, Bool.false_eq_true, if_false, List.cons_append]
    · simp only [hd, Bool.false_eq_true, if_false, Bool.false_and, List.cons_append]
  simp [CAttr.str, canonAttr, printAttr, hq]

theorem canonAttrs_text : ∀ (as : List Attr), (as.map canonAttr).all okAttr = true →
    attrsText (as.map canonAttr) = as.flatMap (fun a => ' ' :: printAttr a)
  | [], _ => rfl
  | a :: as, h => by
    simp only [List.map_cons, List.all_cons, Bool.and_eq_true] at h
    simp only [List.map_cons, attrsText, canonAttr_str a h.1, canonAttrs_text as h.2, List.flatMap_cons]

theorem cdataOpen_eq : ['<', '!', '[', 'C', 'D', 'A', 'T', 'A', '['] = cdataOpen := rfl

mutual
theorem canonItem_str : ∀ i : Item, okItem (canonItem i) = true → (canonItem i).str = printItem i
  | .text s, _ => rfl
  | .charRef d h, _ => rfl
  | .entRef n, _ => rfl
  | .cdata s, _ => by
    simp [canonItem, CItem.str, printItem, cdataText, cdataOpen]
  | .pi t d, _ => by
    cases d <;> simp [canonItem, CItem.str, printItem, printPI, piText, canonPIBody]
  | .comment s, _ => by
    simp [canonItem, CItem.str, printItem, commentText]
  | .elem n attrs [], hok => by
    have h := okElem_parts (by simpa [canonItem] using hok)
    simp [canonItem, CItem.str, printItem, canonAttrs_text attrs h.2.1]
  | .elem n attrs (k :: ks), hok => by
    have h := okElem_parts (by simpa [canonItem] using hok)
    have hk := canonItems_str (k :: ks) (by simpa [canonItems] using h.2.2.2.2.2.1)
    simp only [canonItems] at hk
    simp [canonItem, CItem.str, printItem, canonAttrs_text attrs h.2.1, hk]
theorem canonItems_str : ∀ l : List Item, okItems (canonItems l) = true → strL (canonItems l) = printItems l
  | [], _ => rfl
  | i :: r, hok => by
    have h := okItems_cons (by simpa [canonItems] using hok)
    simp [canonItems, strL, printItems, canonItem_str i h.1, canonItems_str r h.2]
end

theorem piData_canon (d : Option Str) (h : piFaithful d = true) : piData (canonPIBody d) = d := by
  have hsp : isWs ' ' = true := by decide
  cases d with
  | none => rfl
  | some x =>
    cases x with
    | nil => simp only [canonPIBody, piData, List.dropWhile, hsp]
    | cons c r =>
      have hc : isWs c = false := by simpa [piFaithful] using h
      simp only [canonPIBody, piData, List.dropWhile, hsp, hc]

theorem erase_canonAttr (a : Attr) : (canonAttr a).erase = a := rfl

theorem canonAttrs_erase (as : List Attr) : List.map (CAttr.erase ∘ canonAttr) as = as := by
  induction as with
  | nil => rfl
  | cons a as ih => simp only [List.map_cons, Function.comp_apply, erase_canonAttr, ih]

mutual
theorem canonItem_erase : ∀ i : Item, faithfulItem i = true → (canonItem i).erase = i
  | .text s, _ => rfl
  | .charRef d h, _ => rfl
  | .entRef n, _ => rfl
  | .cdata s, _ => rfl
  | .pi t d, h => by simp [canonItem, CItem.erase, piData_canon d (by simpa [faithfulItem] using h)]
  | .comment s, _ => rfl
  | .elem n attrs [], _ => by simp [canonItem, CItem.erase, canonAttrs_erase, eraseL]
  | .elem n attrs (k :: ks), h => by
    have hk := canonItems_erase (k :: ks) (by simpa [faithfulItem] using h)
    simp only [canonItems] at hk
    simp [canonItem, CItem.erase, canonAttrs_erase, hk]
theorem canonItems_erase : ∀ l : List Item, faithfulItems l = true → eraseL (canonItems l) = l
  | [], _ => rfl
  | i :: r, h => by
    simp only [faithfulItems, Bool.and_eq_true] at h
    simp [canonItems, eraseL, canonItem_erase i h.1, canonItems_erase r h.2]
end

/-! ### the DOCTYPE declaration -/
theorem escapeQ_canon (v : Str) : escapeQ v = canonQuote v :: (v ++ [canonQuote v]) := by
  unfold escapeQ canonQuote
  split <;> simp

theorem canonExt_spec (p s : Option Str) (id : CExtId) (h : canonExt p s = some id) :
    ' ' :: id.str = printExtId p s ∧ id.erase.1 = p ∧ some id.erase.2 = s := by
  cases p with
  | none =>
    cases s with
    | none => simp [canonExt] at h
    | some sv =>
      simp only [canonExt, Option.some.injEq] at h; subst h
      simp [CExtId.str, printExtId, escapeQ_canon, kwSYSTEM, CExtId.erase]
  | some pv =>
    cases s with
    | none => simp [canonExt] at h
    | some sv =>
      simp only [canonExt, Option.some.injEq] at h; subst h
      simp [CExtId.str, printExtId, escapeQ_canon, kwPUBLIC, CExtId.erase]

theorem sepBy_tokens : ∀ (f : Str) (rest : List Str), sepBy ['|'] (f :: rest) = f ++ tokensText (rest.map fun n => ([], [], n))
  | f, [] => by simp [sepBy, tokensText, sepTextG]
  | f, g :: r => by
    have ih := sepBy_tokens g r
    simp only [sepBy, ih, List.map_cons, tokensText, sepTextG, List.nil_append, id, List.append_assoc, List.cons_append]

theorem canonAttType_str (t : AttType) : (canonAttType t).str = printAttType t := by
  cases t with
  | «notation» ns =>
    cases ns with
    | nil => simp [canonAttType, canonTokens, CAttType.str, printAttType, sepBy, tokensText, sepTextG, kwNOTATIONty]
    | cons f r => simp [canonAttType, canonTokens, CAttType.str, printAttType, sepBy_tokens, kwNOTATIONty]
  | enumeration ts =>
    cases ts with
    | nil => simp [canonAttType, canonTokens, CAttType.str, printAttType, sepBy, tokensText, sepTextG]
    | cons f r => simp [canonAttType, canonTokens, CAttType.str, printAttType, sepBy_tokens]
  | _ => rfl

theorem canonTokens_erase (ns : List Str) (h : ns ≠ []) : (canonTokens ns).1 :: (canonTokens ns).2.map (·.2.2) = ns := by
  cases ns with
  | nil => exact absurd rfl h
  | cons f r => simp [canonTokens, List.map_map, Function.comp_def]

theorem canonAttType_erase (t : AttType) (h : okAttType (canonAttType t) = true) : (canonAttType t).erase = t := by
  cases t with
  | «notation» ns =>
    have hne : ns ≠ [] := by
      intro e; subst e
      simp [canonAttType, canonTokens, okAttType, okNameTok] at h
    simp only [canonAttType, CAttType.erase, canonTokens_erase ns hne]
  | enumeration ts =>
    have hne : ts ≠ [] := by
      intro e; subst e
      simp [canonAttType, canonTokens, okAttType, okNameTok] at h
    simp only [canonAttType, CAttType.erase, canonTokens_erase ts hne]
  | _ => rfl

theorem canonDefault_str (d : AttDefault) : (canonDefault d).str = printDefault d := by
  cases d with
  | required => rfl
  | implied => rfl
  | value f vs => cases f <;> simp [canonDefault, CDefault.str, printDefault, escapeQ_canon, kwFIXED]

theorem canonDefault_erase (d : AttDefault) : (canonDefault d).erase = d := by
  cases d with
  | required => rfl
  | implied => rfl
  | value f vs => cases f <;> simp [canonDefault, CDefault.erase]

theorem canonAttDef_str (a : AttDef) :
    (canonAttDef a).str = ' ' :: a.name.text ++ ' ' :: printAttType a.ty ++ ' ' :: printDefault a.dflt := by
  simp [canonAttDef, CAttDef.str, canonAttType_str, canonDefault_str]

theorem canonAttDefs_text (defs : List AttDef) :
    attDefsText (defs.map canonAttDef) = defs.flatMap (fun d => ' ' :: d.name.text ++ ' ' :: printAttType d.ty ++ ' ' :: printDefault d.dflt) := by
  induction defs with
  | nil => rfl
  | cons a r ih => simp only [List.map_cons, attDefsText, canonAttDef_str, ih, List.flatMap_cons]

theorem canonAttDefs_erase : ∀ (defs : List AttDef), (defs.map canonAttDef).all okAttDef = true → (defs.map canonAttDef).map CAttDef.erase = defs
  | [], _ => rfl
  | a :: r, h => by
    simp only [List.map_cons, List.all_cons, Bool.and_eq_true] at h
    obtain ⟨_, _, _, hty, _, _⟩ := okAttDef_parts h.1
    have := canonAttDefs_erase r h.2
    simp only [List.map_cons, this, List.cons.injEq, and_true]
    simp only [canonAttDef] at hty
    simp [canonAttDef, CAttDef.erase, canonAttType_erase a.ty hty, canonDefault_erase]

theorem canonDtdItem_spec (i : DtdItem) (c : CDtdItem) (h : canonDtdItem i = some c) (hok : okDtdItem c = true) (hf : faithfulDtd i = true) :
    c.str = printDtdItem i ∧ c.erase = some i := by
  cases i with
  | attlist e defs =>
    simp only [canonDtdItem, Option.some.injEq] at h; subst h
    obtain ⟨_, _, hd, _⟩ := okDtd_attlist hok
    exact ⟨by simp [CDtdItem.str, printDtdItem, canonAttDefs_text, kwATTLIST], by simp [CDtdItem.erase, canonAttDefs_erase defs hd]⟩
  | entity n d =>
    cases d with
    | internal vs =>
      simp only [canonDtdItem, Option.some.injEq] at h; subst h
      exact ⟨by simp [CDtdItem.str, CEntDef.str, printDtdItem, escapeQ_canon, kwENTITY], by simp [CDtdItem.erase, CEntDef.erase]⟩
    | external p s nd =>
      simp only [canonDtdItem, Option.map_eq_some_iff] at h
      obtain ⟨id, hid, rfl⟩ := h
      obtain ⟨h1, h2, h3⟩ := canonExt_spec p (some s) id hid
      simp only [Option.some.injEq] at h3
      refine ⟨?_, ?_⟩
      · cases nd <;> simp [CDtdItem.str, CEntDef.str, printDtdItem, kwENTITY, kwNDATA, ← h1]
      · cases nd <;> simp [CDtdItem.erase, CEntDef.erase, h2, h3]
  | «notation» n p s =>
    cases p with
    | none =>
      cases s with
      | none => simp [canonDtdItem, canonExt] at h
      | some sv =>
        simp only [canonDtdItem, Option.map_eq_some_iff] at h
        obtain ⟨id, hid, rfl⟩ := h
        obtain ⟨h1, h2, h3⟩ := canonExt_spec none (some sv) id hid
        exact ⟨by simp [CDtdItem.str, CNotId.str, printDtdItem, kwNOTATION, ← h1], by simp [CDtdItem.erase, h2, h3]⟩
    | some pv =>
      cases s with
      | none =>
        simp only [canonDtdItem, Option.some.injEq] at h; subst h
        exact ⟨by simp [CDtdItem.str, CNotId.str, printDtdItem, printExtId, escapeQ_canon, kwNOTATION, kwPUBLIC], by simp [CDtdItem.erase]⟩
      | some sv =>
        simp only [canonDtdItem, Option.map_eq_some_iff] at h
        obtain ⟨id, hid, rfl⟩ := h
        obtain ⟨h1, h2, h3⟩ := canonExt_spec (some pv) (some sv) id hid
        exact ⟨by simp [CDtdItem.str, CNotId.str, printDtdItem, kwNOTATION, ← h1], by simp [CDtdItem.erase, h2, h3]⟩
  | pi t d =>
    simp only [canonDtdItem, Option.some.injEq] at h; subst h
    refine ⟨?_, by simp [CDtdItem.erase, piData_canon d (by simpa [faithfulDtd] using hf)]⟩
    cases d <;> simp [CDtdItem.str, piText, printDtdItem, printPI, canonPIBody]

theorem canonDtdItems_spec : ∀ (items : List DtdItem) (cs : List CDtdItem), canonDtdItems items = some cs → cs.all okDtdItem = true →
    items.all faithfulDtd = true → dtdText cs = items.flatMap printDtdItem ∧ cs.filterMap CDtdItem.erase = items
  | [], cs, h, _, _ => by simp only [canonDtdItems, Option.some.injEq] at h; subst h; exact ⟨rfl, rfl⟩
  | i :: r, cs, h, hok, hf => by
    simp only [canonDtdItems] at h
    split at h
    · next c cs' h1 h2 =>
      simp only [Option.some.injEq] at h; subst h
      simp only [List.all_cons, Bool.and_eq_true] at hok hf
      obtain ⟨a1, a2⟩ := canonDtdItem_spec i c h1 hok.1 hf.1
      obtain ⟨b1, b2⟩ := canonDtdItems_spec r cs' h2 hok.2 hf.2
      exact ⟨by simp [dtdText, a1, b1], by simp [List.filterMap_cons, a2, b2]⟩
    · cases h

theorem canonDtdItems_nil_iff (items : List DtdItem) (cs : List CDtdItem) (h : canonDtdItems items = some cs) : cs = [] ↔ items = [] := by
  cases items with
  | nil => simp only [canonDtdItems, Option.some.injEq] at h; subst h; simp
  | cons i r =>
    simp only [canonDtdItems] at h
    split at h
    · simp only [Option.some.injEq] at h; subst h; simp
    · cases h

theorem canonDoctype_spec (d : Doctype) (cd : CDoctype) (h : canonDoctype d = some cd) (hok : okDoctype cd = true)
    (hf : d.kids.all faithfulDtd = true) : cd.str = printDoctype d ∧ cd.erase = d := by
  obtain ⟨_, _, _, _, hsub⟩ := okDoctype_parts hok
  obtain ⟨name, pub, sys, kids⟩ := d
  unfold canonDoctype at h
  simp only at h hf
  split at h
  · next ext items hext hitems =>
    simp only [Option.some.injEq] at h; subst h
    -- the external identifier
    have hE : extText ext = printExtId pub sys ∧ extErasePub ext = pub ∧ extEraseSys ext = sys := by
      unfold canonDoctypeExt at hext
      split at hext
      · simp only [Option.some.injEq] at hext; subst hext; simp [extText, printExtId, extErasePub, extEraseSys]
      · next p s _ =>
        simp only [Option.map_eq_some_iff] at hext
        obtain ⟨id, hid, rfl⟩ := hext
        obtain ⟨h1, h2, h3⟩ := canonExt_spec _ _ id hid
        exact ⟨by simp [extText, ← h1], by simpa [extErasePub] using h2, by simpa [extEraseSys] using h3⟩
    cases hi : items with
    | nil =>
      have hk : kids = [] := (canonDtdItems_nil_iff kids items hitems).mp hi
      subst hk
      refine ⟨by simp [CDoctype.str, wsBeforeSubset, subsetOf, subsetText, printDoctype, hE.1, kwDOCTYPE], ?_⟩
      simp only [CDoctype.erase, subsetOf, subsetErase, hE.2.1, hE.2.2]
    | cons c cs =>
      have hk : kids ≠ [] := fun e => by
        have := (canonDtdItems_nil_iff kids items hitems).mpr e
        rw [hi] at this; cases this
      rw [hi] at hitems hsub
      obtain ⟨b1, _, _⟩ := hsub (c :: cs) [] rfl
      obtain ⟨i1, i2⟩ := canonDtdItems_spec kids (c :: cs) hitems b1 hf
      refine ⟨?_, ?_⟩
      · cases kids with
        | nil => exact absurd rfl hk
        | cons k ks => simp [CDoctype.str, wsBeforeSubset, subsetOf, subsetText, printDoctype, hE.1, kwDOCTYPE, i1]
      · simp only [CDoctype.erase, subsetOf, subsetErase, hE.2.1, hE.2.2, i2]
  · cases h

/-! ### documents -/
theorem canonMiscs_spec : ∀ (ts : List TopItem) (ms : List CMisc), canonMiscs ts = some ms → ts.all faithfulTop = true →
    miscText ms = ts.flatMap printTop ∧ ms.filterMap CMisc.erase = ts
  | [], ms, h, _ => by
    simp only [canonMiscs, Option.some.injEq] at h; subst h; exact ⟨rfl, rfl⟩
  | .comment s :: r, ms, h, hf => by
    simp only [canonMiscs, Option.map_eq_some_iff] at h
    obtain ⟨ms', h1, rfl⟩ := h
    simp only [List.all_cons, Bool.and_eq_true] at hf
    obtain ⟨i1, i2⟩ := canonMiscs_spec r ms' h1 hf.2
    exact ⟨by simp [miscText, CMisc.str, commentText, printTop, i1], by simp [CMisc.erase, i2]⟩
  | .pi t d :: r, ms, h, hf => by
    simp only [canonMiscs, Option.map_eq_some_iff] at h
    obtain ⟨ms', h1, rfl⟩ := h
    simp only [List.all_cons, Bool.and_eq_true] at hf
    obtain ⟨i1, i2⟩ := canonMiscs_spec r ms' h1 hf.2
    refine ⟨?_, by simp [CMisc.erase, i2, piData_canon d (by simpa [faithfulTop] using hf.1)]⟩
    cases d <;> simp [miscText, CMisc.str, piText, printTop, printPI, canonPIBody, i1]
  | .doctype _ :: r, ms, h, _ => by simp [canonMiscs] at h
  | .elem _ :: r, ms, h, _ => by simp [canonMiscs] at h

theorem canonTop_spec : ∀ (ts : List TopItem) (b : List CMisc) (e : CItem) (a : List CMisc), canonTop ts = some (b, e, a) →
    ts.all faithfulTop = true → okItem e = true →
    miscText b ++ (e.str ++ miscText a) = ts.flatMap printTop ∧
    b.filterMap CMisc.erase ++ [TopItem.elem e.erase] ++ a.filterMap CMisc.erase = ts
  | [], b, e, a, h, _, _ => by simp [canonTop] at h
  | .doctype _ :: r, b, e, a, h, _, _ => by simp [canonTop] at h
  | .elem e0 :: r, b, e, a, h, hf, hok => by
    simp only [canonTop, Option.map_eq_some_iff, Prod.mk.injEq] at h
    obtain ⟨a', h1, rfl, rfl, rfl⟩ := h
    simp only [List.all_cons, Bool.and_eq_true] at hf
    obtain ⟨i1, i2⟩ := canonMiscs_spec r a' h1 hf.2
    exact ⟨by simp [miscText, printTop, canonItem_str e0 hok, i1],
      by simp [canonItem_erase e0 (by simpa [faithfulTop] using hf.1), i2]⟩
  | .comment s :: r, b, e, a, h, hf, hok => by
    simp only [canonTop, Option.map_eq_some_iff, Prod.mk.injEq] at h
    obtain ⟨⟨b', e', a'⟩, h1, rfl, rfl, rfl⟩ := h
    simp only [List.all_cons, Bool.and_eq_true] at hf
    obtain ⟨i1, i2⟩ := canonTop_spec r b' e' a' h1 hf.2 hok
    refine ⟨by simp [miscText, CMisc.str, commentText, printTop, ← i1], ?_⟩
    simp only [List.filterMap_cons, CMisc.erase, List.cons_append]
    rw [i2]
  | .pi t d :: r, b, e, a, h, hf, hok => by
    simp only [canonTop, Option.map_eq_some_iff, Prod.mk.injEq] at h
    obtain ⟨⟨b', e', a'⟩, h1, rfl, rfl, rfl⟩ := h
    simp only [List.all_cons, Bool.and_eq_true] at hf
    obtain ⟨i1, i2⟩ := canonTop_spec r b' e' a' h1 hf.2 hok
    refine ⟨?_, ?_⟩
    · cases d <;> simp [miscText, CMisc.str, piText, printTop, printPI, canonPIBody, ← i1]
    · simp only [List.filterMap_cons, CMisc.erase, List.cons_append, piData_canon d (by simpa [faithfulTop] using hf.1)]
      rw [i2]

theorem canonTopD_spec : ∀ (ts : List TopItem) (b : List CMisc) (dt : Option (CDoctype × List CMisc)) (e : CItem) (a : List CMisc),
    canonTopD ts = some (b, dt, e, a) → ts.all faithfulTop = true → okItem e = true →
    (∀ cd ms, dt = some (cd, ms) → okDoctype cd = true) →
    miscText b ++ (doctypeText dt ++ (e.str ++ miscText a)) = ts.flatMap printTop ∧
    b.filterMap CMisc.erase ++ (doctypeErase dt ++ ([TopItem.elem e.erase] ++ a.filterMap CMisc.erase)) = ts
  | [], b, dt, e, a, h, _, _, _ => by simp [canonTopD] at h
  | .elem e0 :: r, b, dt, e, a, h, hf, hok, _ => by
    simp only [canonTopD, Option.map_eq_some_iff, Prod.mk.injEq] at h
    obtain ⟨a', h1, rfl, rfl, rfl, rfl⟩ := h
    simp only [List.all_cons, Bool.and_eq_true] at hf
    obtain ⟨i1, i2⟩ := canonMiscs_spec r a' h1 hf.2
    exact ⟨by simp [miscText, doctypeText, printTop, canonItem_str e0 hok, i1],
      by simp [doctypeErase, canonItem_erase e0 (by simpa [faithfulTop] using hf.1), i2]⟩
  | .comment s :: r, b, dt, e, a, h, hf, hok, hdt => by
    simp only [canonTopD, Option.map_eq_some_iff, Prod.mk.injEq] at h
    obtain ⟨⟨b', dt', e', a'⟩, h1, rfl, rfl, rfl, rfl⟩ := h
    simp only [List.all_cons, Bool.and_eq_true] at hf
    obtain ⟨i1, i2⟩ := canonTopD_spec r b' dt' e' a' h1 hf.2 hok hdt
    refine ⟨by simp [miscText, CMisc.str, commentText, printTop, ← i1], ?_⟩
    simp only [List.filterMap_cons, CMisc.erase, List.cons_append, List.cons.injEq, true_and]
    exact i2
  | .pi t d :: r, b, dt, e, a, h, hf, hok, hdt => by
    simp only [canonTopD, Option.map_eq_some_iff, Prod.mk.injEq] at h
    obtain ⟨⟨b', dt', e', a'⟩, h1, rfl, rfl, rfl, rfl⟩ := h
    simp only [List.all_cons, Bool.and_eq_true] at hf
    obtain ⟨i1, i2⟩ := canonTopD_spec r b' dt' e' a' h1 hf.2 hok hdt
    refine ⟨?_, ?_⟩
    · cases d <;> simp [miscText, CMisc.str, piText, printTop, printPI, canonPIBody, ← i1]
    · simp only [List.filterMap_cons, CMisc.erase, List.cons_append, piData_canon d (by simpa [faithfulTop] using hf.1), List.cons.injEq, true_and]
      exact i2
  | .doctype d :: r, b, dt, e, a, h, hf, hok, hdt => by
    simp only [canonTopD] at h
    split at h
    · next cd b2 e2 a2 h1 h2 =>
      simp only [Option.some.injEq, Prod.mk.injEq] at h
      obtain ⟨rfl, rfl, rfl, rfl⟩ := h
      simp only [List.all_cons, Bool.and_eq_true] at hf
      obtain ⟨i1, i2⟩ := canonTop_spec r b2 e2 a2 h2 hf.2 hok
      obtain ⟨j1, j2⟩ := canonDoctype_spec d cd h1 (hdt cd b2 rfl) (by simpa [faithfulTop] using hf.1)
      refine ⟨?_, ?_⟩
      · simp [miscText, doctypeText, printTop, j1, ← i1]
      · simp only [List.filterMap_nil, List.nil_append, doctypeErase, j2, List.cons_append, List.cons.injEq, true_and]
        simpa using i2
    · cases h

theorem canon_decl_case (minor : Str) (en : Option Str) (sd : Option Bool) (ks : List TopItem) (b : List CMisc) (e : CItem) (a : List CMisc)
    (dt : Option (CDoctype × List CMisc))
    (hd1 : ∀ x, (some (⟨[' '], [], [], '"', minor, en.map (fun e => ([' '], [], [], '"', e)), sd.map (fun b => ([' '], [], [], '"', b)), []⟩ : CDecl)) = some x → okDecl x = true)
    (i1 : miscText b ++ (doctypeText dt ++ (e.str ++ miscText a)) = ks.flatMap printTop)
    (i2 : b.filterMap CMisc.erase ++ (doctypeErase dt ++ ([TopItem.elem e.erase] ++ a.filterMap CMisc.erase)) = ks) :
    printDoc ⟨some ('1' :: '.' :: minor), en, sd, ks⟩ =
      (⟨some ⟨[' '], [], [], '"', minor, en.map (fun e => ([' '], [], [], '"', e)), sd.map (fun b => ([' '], [], [], '"', b)), []⟩, b, e, a, dt⟩ : CDoc).str ∧
    (⟨some ⟨[' '], [], [], '"', minor, en.map (fun e => ([' '], [], [], '"', e)), sd.map (fun b => ([' '], [], [], '"', b)), []⟩, b, e, a, dt⟩ : CDoc).erase =
      ⟨some ('1' :: '.' :: minor), en, sd, ks⟩ := by
  have hx := hd1 _ rfl
  obtain ⟨_, _, _, _, _, _, _, henc, _, _⟩ := okDecl_parts hx
  refine ⟨?_, ?_⟩
  · have henc' : ∀ name, en = some name → name.isEmpty = false := by
      intro name hn
      have := henc [' '] [] [] '"' name (by simp [hn])
      have hne := this.2.2.2.2.2
      cases name with
      | nil => simp [okEncName] at hne
      | cons c r => rfl
    cases en with
    | none =>
      cases sd with
      | none => simp [printDoc, CDoc.str, declText, CDecl.str, encText, sdText, kwVersion, i1]
      | some bb => cases bb <;> simp [printDoc, CDoc.str, declText, CDecl.str, encText, sdText, kwVersion, kwStandalone, yesNo, i1]
    | some name =>
      have hn := henc' name rfl
      cases sd with
      | none => simp [printDoc, CDoc.str, declText, CDecl.str, encText, sdText, kwVersion, kwEncoding, hn, i1]
      | some bb => cases bb <;> simp [printDoc, CDoc.str, declText, CDecl.str, encText, sdText, kwVersion, kwEncoding, kwStandalone, yesNo, hn, i1]
  · cases en <;> cases sd <;> simpa [CDoc.erase] using i2


/-- the compact printer writes the canonical concrete document, and that document renders `d` -/
theorem canonDoc_spec (d : IDoc) (cd : CDoc) (hc : canonDoc d = some cd) (hf : d.kids.all faithfulTop = true)
    (hok : cd.ok = true) : printDoc d = cd.str ∧ cd.erase = d := by
  unfold canonDoc at hc
  cases hdecl : canonDecl d with
  | none => rw [hdecl] at hc; cases hc
  | some decl =>
    rw [hdecl] at hc
    simp only [Option.map_eq_some_iff] at hc
    obtain ⟨⟨b, dt, e, a⟩, h1, rfl⟩ := hc
    obtain ⟨hd1, _, _, _, h5, _, _⟩ := CDoc.ok_parts hok
    have hdt := CDoc.ok_doctype hok
    obtain ⟨i1, i2⟩ := canonTopD_spec d.kids b dt e a h1 hf h5 (fun cd ms he => (hdt cd ms he).1)
    obtain ⟨v, en, sd, ks⟩ := d
    simp only at i1 i2
    unfold canonDecl at hdecl
    simp only at hdecl
    cases v with
    | none =>
      simp only at hdecl
      split at hdecl
      · cases hdecl
      · next hv =>
        simp only [Bool.or_eq_true, not_or, Bool.not_eq_true, Option.isSome_eq_false_iff, Option.isNone_iff_eq_none] at hv
        obtain ⟨hv2, hv3⟩ := hv
        simp only [Option.some.injEq] at hdecl
        subst hdecl hv2 hv3
        exact ⟨by simp [printDoc, CDoc.str, declText, i1], by simpa [CDoc.erase] using i2⟩
    | some vs =>
      split at hdecl
      · next heq => cases heq
      · next minor heq =>
        simp only [Option.some.injEq] at heq
        subst heq
        simp only [Option.some.injEq] at hdecl
        subst hdecl
        exact canon_decl_case minor en sd ks b e a dt hd1 i1 i2
      · cases hdecl


end XmlRs.Lex
