import XmlRsModel.Lemmas.XAbsStep
/-! `absNode (tree of a spelling) = the abstract expression it denotes` (mutual over expressions, tails, arguments,
    relative paths, steps and predicates). -/
namespace XmlRs.XLex
open XmlRs XmlRs.XPath XmlRs.Lex
open Gen.XPath

/-! ### labels and bodies -/
def xLabel : CX → Nat
  | .chain l _ _ => levelNt l
  | .unary _ _ => N.unary_expr
  | .union _ _ => N.union_expr
  | .pathF _ | .pathFR .. | .pathAbs .. | .pathRel _ | .pathRoot => N.path_expr
  | .filter _ _ => N.filter_expr
  | _ => N.primary_expr

def relBody : CRel → CST
  | .mk f r => .seq [cstStep f, .many (cstRelTail r)]

theorem cstRel_eq (r : CRel) : cstRel r = .node N.relative_location_path (relBody r) := by cases r; rfl

def stepBody : CStep → CST
  | .dot => .leaf ['.']
  | .dotdot => .leaf ['.', '.']
  | .full ax w test preds => .seq [cstAxis ax, .seq [.leaf w, cstTest test], .many (cstPreds preds)]

theorem cstStep_eq (s : CStep) : cstStep s = .node N.step (stepBody s) := by cases s <;> rfl

def xBody : CX → CST
  | .chain _ f r => .seq [cstX f, .many (cstTail r)]
  | .unary ms e => .seq [.many (cstMinus ms), cstX e]
  | .union f r => .seq [cstX f, .many (cstTail r)]
  | .pathF f => .seq [cstX f, .seq []]
  | .pathFR f w1 ds w2 rel => .seq [cstX f, .seq [.seq [.leaf w1, .leaf (slashText ds), .leaf w2], cstRel rel]]
  | .pathAbs ds w rel => .seq [.seq [.leaf (slashText ds), .leaf w], cstRel rel]
  | .pathRel rel => cstRel rel
  | .pathRoot => .leaf ['/']
  | .filter p preds => .seq [cstX p, .many (cstPreds preds)]
  | .var q => .node N.variable_reference (.seq [.leaf ['$'], cstQN q])
  | .paren w1 e w2 => .seq [.seq [.leaf ['('], .leaf w1], .node N.expr (cstX e), .seq [.leaf w2, .leaf [')']]]
  | .lit q s => cstLit q s
  | .num s => cstNum s
  | .call f w1 w2 args w3 => .node N.function_call (.seq [.node N.function_name (cstQN f),
      .seq [.seq [.leaf w1, .leaf ['('], .leaf w2], cstArgs args, .seq [.leaf w3, .leaf [')']]]])

theorem cstX_eq (e : CX) : cstX e = .node (xLabel e) (xBody e) := by cases e <;> rfl

/-! ### the dispatch of `absNode` -/
def opsOf : Nat → List (Str × BinOp)
  | 0 => [(['o', 'r'], BinOp.or)]
  | 1 => [(['a', 'n', 'd'], BinOp.and)]
  | 2 => [(['='], BinOp.eq), (['!', '='], BinOp.ne)]
  | 3 => [(['<', '='], BinOp.le), (['>', '='], BinOp.ge), (['<'], BinOp.lt), (['>'], BinOp.gt)]
  | 4 => [(['+'], BinOp.add), (['-'], BinOp.sub)]
  | 5 => [(['*'], BinOp.mul), (['d', 'i', 'v'], BinOp.div), (['m', 'o', 'd'], BinOp.mod)]
  | _ => [(['|'], BinOp.union)]

theorem opsOf_find (op : BinOp) (l : Nat) (h : opLevel op = l) (hl : l ≤ 5 ∨ l = 7) :
    ((opsOf l).find? (fun p => p.1 == opText op)).map (·.2) = some op := by
  subst h
  cases op <;> simp [opLevel] at hl <;> simp [opsOf, opLevel, opText, List.find?]

theorem absNode_level (l : Nat) (hl : l ≤ 5) (f : Nat) (b : CST) : absNode (f + 1) (levelNt l) b = absChain f (opsOf l) b := by
  match l, hl with
  | 0, _ => simp [absNode, levelNt, opsOf, N.or_expr]
  | 1, _ => simp [absNode, levelNt, opsOf, N.or_expr, N.and_expr]
  | 2, _ => simp [absNode, levelNt, opsOf, N.or_expr, N.and_expr, N.equality_expr]
  | 3, _ => simp [absNode, levelNt, opsOf, N.or_expr, N.and_expr, N.equality_expr, N.relation_expr]
  | 4, _ => simp [absNode, levelNt, opsOf, N.or_expr, N.and_expr, N.equality_expr, N.relation_expr, N.additive_expr]
  | 5, _ => simp [absNode, levelNt, opsOf, N.or_expr, N.and_expr, N.equality_expr, N.relation_expr, N.additive_expr, N.multiplicative_expr]
  | n + 6, h => omega

theorem absNode_union (f : Nat) (b : CST) : absNode (f + 1) N.union_expr b = absChain f (opsOf 7) b := by
  simp [absNode, opsOf, N.or_expr, N.and_expr, N.equality_expr, N.relation_expr, N.additive_expr, N.multiplicative_expr, N.union_expr]

theorem absNode_path (f : Nat) (b : CST) : absNode (f + 1) N.path_expr b = absPath f b := by
  simp [absNode, N.or_expr, N.and_expr, N.equality_expr, N.relation_expr, N.additive_expr, N.multiplicative_expr, N.union_expr, N.unary_expr, N.path_expr]

theorem absNode_filter (f : Nat) (b : CST) : absNode (f + 1) N.filter_expr b = absFilter f b := by
  simp [absNode, N.or_expr, N.and_expr, N.equality_expr, N.relation_expr, N.additive_expr, N.multiplicative_expr, N.union_expr, N.unary_expr, N.path_expr, N.filter_expr]

theorem absNode_primary (f : Nat) (b : CST) : absNode (f + 1) N.primary_expr b = absPrimary f b := by
  simp [absNode, N.or_expr, N.and_expr, N.equality_expr, N.relation_expr, N.additive_expr, N.multiplicative_expr, N.union_expr, N.unary_expr, N.path_expr, N.filter_expr,
    N.primary_expr]

theorem absNode_call (f : Nat) (b : CST) : absNode (f + 1) N.function_call b = absCall f b := by
  simp [absNode, N.or_expr, N.and_expr, N.equality_expr, N.relation_expr, N.additive_expr, N.multiplicative_expr, N.union_expr, N.unary_expr, N.path_expr, N.filter_expr,
    N.primary_expr, N.function_call]

theorem absNode_literal (f : Nat) (b : CST) : absNode (f + 1) N.literal b = .lit (absLiteral b) := by
  simp [absNode, N.or_expr, N.and_expr, N.equality_expr, N.relation_expr, N.additive_expr, N.multiplicative_expr, N.union_expr, N.unary_expr, N.path_expr, N.filter_expr,
    N.primary_expr, N.function_call, N.literal]

theorem absNode_number (f : Nat) (b : CST) : absNode (f + 1) N.number b = .num b.flatten := by
  simp [absNode, N.or_expr, N.and_expr, N.equality_expr, N.relation_expr, N.additive_expr, N.multiplicative_expr, N.union_expr, N.unary_expr, N.path_expr, N.filter_expr,
    N.primary_expr, N.function_call, N.literal, N.number]

theorem absNode_var_cst (f : Nat) (q : QN) : absNode (f + 1) N.variable_reference (.seq [.leaf ['$'], cstQN q]) = .var q := by
  obtain ⟨b, hb, hq⟩ := cstQNX_node q
  simp [absNode, N.or_expr, N.and_expr, N.equality_expr, N.relation_expr, N.additive_expr, N.multiplicative_expr, N.union_expr, N.unary_expr, N.path_expr, N.filter_expr,
    N.primary_expr, N.function_call, N.literal, N.number, N.variable_reference, CST.kidsL, kidsLL, hb, hq]

/-- `expr` delegates to the single node below it (the label of that node decides) -/
theorem absNode_expr (f : Nat) (m : Nat) (X : CST) : absNode (f + 2) N.expr (.node m X) = absNode f m X := by
  simp [absNode, absExprF, CST.kidsL, CST.toks, N.or_expr, N.and_expr, N.equality_expr, N.relation_expr, N.additive_expr, N.multiplicative_expr, N.union_expr, N.unary_expr, N.path_expr, N.filter_expr,
    N.primary_expr, N.function_call, N.literal, N.number, N.variable_reference, N.relative_location_path, N.expr]

theorem absNode_predicate_expr (f : Nat) (m : Nat) (X : CST) : absNode (f + 2) N.predicate_expr (.node m X) = absNode f m X := by
  simp [absNode, absExprF, CST.kidsL, CST.toks, N.or_expr, N.and_expr, N.equality_expr, N.relation_expr, N.additive_expr, N.multiplicative_expr, N.union_expr, N.unary_expr, N.path_expr, N.filter_expr,
    N.primary_expr, N.function_call, N.literal, N.number, N.variable_reference, N.relative_location_path, N.predicate_expr]

theorem absNode_argument (f : Nat) (m : Nat) (X : CST) : absNode (f + 2) N.argument (.node m X) = absNode f m X := by
  simp [absNode, absExprF, CST.kidsL, CST.toks, N.or_expr, N.and_expr, N.equality_expr, N.relation_expr, N.additive_expr, N.multiplicative_expr, N.union_expr, N.unary_expr, N.path_expr, N.filter_expr,
    N.primary_expr, N.function_call, N.literal, N.number, N.variable_reference, N.relative_location_path, N.argument]

theorem absNode_parse (f : Nat) (m : Nat) (X : CST) : absNode (f + 2) N.parse (.node m X) = absNode f m X := by
  simp [absNode, absExprF, CST.kidsL, CST.toks, N.or_expr, N.and_expr, N.equality_expr, N.relation_expr, N.additive_expr, N.multiplicative_expr, N.union_expr, N.unary_expr, N.path_expr, N.filter_expr,
    N.primary_expr, N.function_call, N.literal, N.number, N.variable_reference, N.relative_location_path, N.parse]

theorem sig_minus : ∀ ms : List Str, ms.all okWs = true → sigToks (.many (cstMinus ms)) = ms.map (fun _ => Tok.leaf ['-'])
  | [], _ => by simp [cstMinus, sig_many_nil]
  | w :: r, h => by
    simp only [List.all_cons, Bool.and_eq_true] at h
    have ih := sig_minus r h.2
    have hm : sigToks (.leaf ['-']) = [.leaf ['-']] := sig_leaf_tok (by decide) (by decide)
    simp only [cstMinus, List.map_cons] at ih ⊢
    rw [sig_many_cons, sig_seq_cons, sig_seq_cons, sig_seq_nil, hm, sig_leaf_ws h.1, ih]
    simp

theorem foldl_neg_map (ms : List Str) (x : Expr) :
    (ms.map (fun _ => Tok.leaf ['-'])).foldl (fun acc _ => Expr.neg acc) x = ms.foldl (fun acc _ => Expr.neg acc) x := by
  induction ms generalizing x with
  | nil => rfl
  | cons w r ih => simp only [List.map_cons, List.foldl_cons, ih]

theorem filter_minus {α : Type} (a : α) (b : α) (p : α → Bool) (h1 : p a = true) (h2 : p b = false) :
    ∀ ms : List Str, (ms.map (fun _ => a) ++ [b]).filter p = ms.map (fun _ => a)
  | [] => by simp [h2]
  | w :: r => by simp [List.filter_cons, h1, filter_minus a b p h1 h2 r]

theorem filterMap_minus {α β : Type} (a : α) (b : α) (y : β) (g : α → Option β) (h1 : g a = none) (h2 : g b = some y) :
    ∀ ms : List Str, (ms.map (fun _ => a) ++ [b]).filterMap g = [y]
  | [] => by simp [h2]
  | w :: r => by simp [List.filterMap_cons, h1, filterMap_minus a b y g h1 h2 r]

theorem absNode_unary_cst (f : Nat) (ms : List Str) (hms : ms.all okWs = true) (m : Nat) (X : CST) :
    absNode (f + 1) N.unary_expr (.seq [.many (cstMinus ms), .node m X]) = ms.foldl (fun acc _ => Expr.neg acc) (absNode f m X) := by
  have hs : sigToks (.seq [.many (cstMinus ms), .node m X]) = ms.map (fun _ => Tok.leaf ['-']) ++ [.node m X] := by
    rw [sig_seq_cons, sig_seq_cons, sig_seq_nil, sig_minus ms hms, sig_node]; simp
  simp only [absNode, N.or_expr, N.and_expr, N.equality_expr, N.relation_expr, N.additive_expr, N.multiplicative_expr, N.union_expr, N.unary_expr]
  simp only [Nat.reduceBEq, Bool.false_eq_true, if_false, if_true, hs]
  rw [filter_minus (Tok.leaf ['-']) (Tok.node m X) _ rfl rfl ms, filterMap_minus (Tok.leaf ['-']) (Tok.node m X) (m, X) _ rfl rfl ms]
  exact foldl_neg_map ms _

end XmlRs.XLex
