import XmlRsModel.Lemmas.XRunsOps
/-! Completeness of axis specifiers and node tests of the XPath grammar. -/
namespace XmlRs.XLex
open XmlRs XmlRs.XPath XmlRs.Lex
open Gen.XPath

/-! ### an alternative of tags -/
def firstTag : List Str → Str → Option (Str × Str)
  | [], _ => none
  | t :: ts, I => match stripPrefix t I with
      | some U => some (t, U)
      | none => firstTag ts I

theorem runs_alt_tags {ev : Env} : ∀ (ts : List Str) (I : Str),
    RunsAlt ev (ts.map G.tag) I (match firstTag ts I with | some (t, U) => .ok (.leaf t) U | none => .fail)
  | [], I => RunsAlt.nil I
  | t :: ts, I => by
    simp only [List.map_cons, firstTag]
    cases h : stripPrefix t I with
    | some U =>
      simp only
      have := stripPrefix_some h
      rw [this]
      exact RunsAlt.hit (Runs.tag_ok t U)
    | none => exact RunsAlt.skip (Runs.tag_fail h) (runs_alt_tags ts I)

theorem firstTag_some : ∀ (ts : List Str) (I t U : Str), firstTag ts I = some (t, U) → t ∈ ts ∧ stripPrefix t I = some U
  | [], _, _, _, h => by simp [firstTag] at h
  | t0 :: ts, I, t, U, h => by
    simp only [firstTag] at h
    cases h0 : stripPrefix t0 I with
    | some U0 =>
      simp only [h0, Option.some.injEq, Prod.mk.injEq] at h
      obtain ⟨rfl, rfl⟩ := h
      exact ⟨by simp, h0⟩
    | none =>
      simp only [h0] at h
      obtain ⟨h1, h2⟩ := firstTag_some ts I t U h
      exact ⟨by simp [h1], h2⟩

/-! ### axis names -/
def axisTags : List Str :=
  [['a', 'n', 'c', 'e', 's', 't', 'o', 'r', '-', 'o', 'r', '-', 's', 'e', 'l', 'f'],
   ['a', 'n', 'c', 'e', 's', 't', 'o', 'r'],
   ['a', 't', 't', 'r', 'i', 'b', 'u', 't', 'e'],
   ['c', 'h', 'i', 'l', 'd'],
   ['d', 'e', 's', 'c', 'e', 'n', 'd', 'a', 'n', 't', '-', 'o', 'r', '-', 's', 'e', 'l', 'f'],
   ['d', 'e', 's', 'c', 'e', 'n', 'd', 'a', 'n', 't'],
   ['f', 'o', 'l', 'l', 'o', 'w', 'i', 'n', 'g', '-', 's', 'i', 'b', 'l', 'i', 'n', 'g'],
   ['f', 'o', 'l', 'l', 'o', 'w', 'i', 'n', 'g'],
   ['n', 'a', 'm', 'e', 's', 'p', 'a', 'c', 'e'],
   ['p', 'a', 'r', 'e', 'n', 't'],
   ['p', 'r', 'e', 'c', 'e', 'd', 'i', 'n', 'g', '-', 's', 'i', 'b', 'l', 'i', 'n', 'g'],
   ['p', 'r', 'e', 'c', 'e', 'd', 'i', 'n', 'g'],
   ['s', 'e', 'l', 'f']]

theorem axis_name_prod : Prod.axis_name = G.alt (axisTags.map G.tag) := rfl

theorem firstTag_axis (a : Axis) (Y : Str) (hY : Stops (· == '-') Y) : firstTag axisTags (axisText a ++ Y) = some (axisText a, Y) := by
  rcases hY with rfl | ⟨c, r, rfl, hc⟩
  · cases a <;> simp [firstTag, axisTags, axisText, stripPrefix]
  · have hc' : ¬ ('-' = c) := by intro e; subst e; simp at hc
    cases a <;> simp [firstTag, axisTags, axisText, stripPrefix, hc']

theorem runs_axis_name (a : Axis) (Y : Str) (hY : Stops (· == '-') Y) :
    Runs env (.nt N.axis_name) (axisText a ++ Y) (.ok (.node N.axis_name (.leaf (axisText a))) Y) := by
  apply Runs.nt_of env_axis_name
  rw [axis_name_prod]
  have := runs_alt_tags (ev := env) axisTags (axisText a ++ Y)
  rw [firstTag_axis a Y hY] at this
  exact Runs.alt this

def dcolon : G := G.seq [G.cls0 P.isSpace, G.tag [':', ':']]

def cstAxis : CAxis → CST
  | .named a w => .node N.axis_specifier (.seq [.node N.axis_name (.leaf (axisText a)), .seq [.leaf w, .leaf [':', ':']]])
  | .attr => .node N.axis_specifier (.leaf ['@'])
  | .omitted => .node N.axis_specifier (.seq [])

theorem axis_specifier_prod : Prod.axis_specifier = G.alt [G.seq [G.nt N.axis_name, dcolon], G.alt [G.tag ['@'], G.seq []]] := rfl

theorem sp_colon : P.isSpace ':' = false := by decide

theorem runs_axis_named (a : Axis) {w : Str} (hw : okWs w = true) (Y : Str) :
    Runs env (.nt N.axis_specifier) (axisText a ++ (w ++ (':' :: ':' :: Y))) (.ok (cstAxis (.named a w)) Y) := by
  apply Runs.nt_of env_axis_specifier
  rw [axis_specifier_prod]
  have hdash : Stops (· == '-') (w ++ (':' :: ':' :: Y)) := by
    cases w with
    | nil => exact Stops.cons _ (by decide)
    | cons c cs =>
      simp only [okWs, List.all_cons, Bool.and_eq_true] at hw
      have : c ≠ '-' := by intro e; subst e; have := hw.1; revert this; decide
      exact Stops.cons _ (by simpa using this)
  refine Runs.alt (RunsAlt.hit (Runs.seq (RunsSeq.cons (runs_axis_name a _ hdash) (RunsSeq.cons ?_ (RunsSeq.nil _)))))
  exact Runs.seq (RunsSeq.cons (runs_cls0 hw (Stops.cons _ sp_colon)) (RunsSeq.cons (Runs.tag_ok [':', ':'] Y) (RunsSeq.nil _)))

/-- the `axisname ::` alternative fails: no axis name matches, or `::` does not follow the one that matches -/
theorem axis_alt_fails (I : Str) (h : ∀ t ∈ axisTags, ∀ U, stripPrefix t I = some U → Runs env dcolon U .fail) :
    Runs env (G.seq [G.nt N.axis_name, dcolon]) I .fail := by
  have halt := runs_alt_tags (ev := env) axisTags I
  cases hf : firstTag axisTags I with
  | none =>
    rw [hf] at halt
    refine Runs.seq_fail (RunsSeq.fail_head ?_)
    apply Runs.nt_fail_of env_axis_name
    rw [axis_name_prod]
    exact Runs.alt halt
  | some v =>
    obtain ⟨t, U⟩ := v
    rw [hf] at halt
    obtain ⟨h1, h2⟩ := firstTag_some axisTags I t U hf
    refine Runs.seq_fail (RunsSeq.fail_tail (c := .node N.axis_name (.leaf t)) (r := U) ?_ (RunsSeq.fail_head (h t h1 U h2)))
    apply Runs.nt_of env_axis_name
    rw [axis_name_prod]
    exact Runs.alt halt

theorem runs_axis_at (Y : Str) : Runs env (.nt N.axis_specifier) ('@' :: Y) (.ok (cstAxis .attr) Y) := by
  apply Runs.nt_of env_axis_specifier
  rw [axis_specifier_prod]
  refine Runs.alt (RunsAlt.skip (axis_alt_fails _ ?_) (RunsAlt.hit (Runs.alt (RunsAlt.hit (Runs.tag_ok ['@'] Y)))))
  intro t ht U hU
  exfalso
  simp only [axisTags, List.mem_cons, List.mem_nil_iff, or_false] at ht
  rcases ht with rfl | rfl | rfl | rfl | rfl | rfl | rfl | rfl | rfl | rfl | rfl | rfl | rfl <;> simp [stripPrefix] at hU

/-- an omitted axis: the alternatives `axisname ::` and `@` fail on the text of the node test -/
theorem runs_axis_omitted (I : Str) (h : ∀ t ∈ axisTags, ∀ U, stripPrefix t I = some U → Runs env dcolon U .fail)
    (hat : Stops (· == '@') I) : Runs env (.nt N.axis_specifier) I (.ok (cstAxis .omitted) I) := by
  apply Runs.nt_of env_axis_specifier
  rw [axis_specifier_prod]
  exact Runs.alt (RunsAlt.skip (axis_alt_fails I h) (RunsAlt.hit (Runs.alt (RunsAlt.skip (runs_tag_fail_head hat) (RunsAlt.hit (Runs.seq (RunsSeq.nil I)))))))

/-! ### `::` / `(` do not follow a keyword that merely begins a name -/
/-- `ws* x…` fails on `U`: after optional white space the next character is not `x` -/
theorem ws_tag_fails {x : Char} {t : Str} (U : Str) (h : ∃ w T, U = w ++ T ∧ okWs w = true ∧ Stops P.isSpace T ∧ Stops (· == x) T) :
    Runs env (G.seq [G.cls0 P.isSpace, G.tag (x :: t)]) U .fail := by
  obtain ⟨w, T, rfl, hw, hs, hx⟩ := h
  exact Runs.seq_fail (RunsSeq.fail_tail (runs_cls0 hw hs) (RunsSeq.fail_head (runs_tag_fail_head hx)))

/-- stripping a keyword made of name characters from a name followed by a continuation: what is left is the rest of the
    name followed by the continuation -/
theorem strip_kw_name {t N Z U : Str} (ht : t.all P.isNameChar = true) (hZ : Stops P.isNameChar Z)
    (h : stripPrefix t (N ++ Z) = some U) : ∃ u, N = t ++ u ∧ U = u ++ Z := by
  have := strip_name_align t N Z ht hZ
  rw [h] at this
  cases hs : stripPrefix t N with
  | none => rw [hs] at this; cases this
  | some u =>
    rw [hs] at this
    simp only [Option.map_some, Option.some.injEq] at this
    exact ⟨u, stripPrefix_some hs, this⟩

end XmlRs.XLex
