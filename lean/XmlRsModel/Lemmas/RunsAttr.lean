import XmlRsModel.Lemmas.RunsLex
/-! Completeness of `attribute_` (with the `xmlns` special forms), the tag heads `stag` / `empty_entity_tag` / `etag`. -/
namespace XmlRs.Lex
open XmlRs Gen.Xml XmlRs.Names

abbrev xmlnsL : Str := ['x', 'm', 'l', 'n', 's']
theorem xmlnsS_eq : xmlnsS = xmlnsL := by decide

/-- how the name of an attribute is parsed: the `xmlns` forms go through `ns_att_name` -/
def cstAttrName (n : QN) : CST :=
  if n.pre = some xmlnsL then .node N.ns_att_name (.seq [.leaf (xmlnsL ++ [':']), cstNc n.loc])
  else if n.pre = none ∧ n.loc = xmlnsL then .node N.ns_att_name (.leaf xmlnsL)
  else cstQN n

def cstAttr (a : CAttr) : CST :=
  .node N.attribute_ (.seq [cstAttrName a.name, .seq [cstEq a.ws1 a.ws2, cstAttValue a.q a.vals]])

theorem strip_append (a b x : Str) : stripPrefix (a ++ b) (a ++ x) = stripPrefix b x := by
  induction a with
  | nil => rfl
  | cons c cs ih => simp [stripPrefix, ih]

/-- stripping a prefix made of name characters from a name followed by something that is not a name character -/
theorem strip_name_align : ∀ (p T X : Str), p.all P.isNameChar = true → Stops P.isNameChar X →
    stripPrefix p (T ++ X) = (stripPrefix p T).map (· ++ X)
  | [], T, X, _, _ => by simp [stripPrefix]
  | a :: p', [], X, hp, hX => by
    simp only [List.all_cons, Bool.and_eq_true] at hp
    rcases hX with rfl | ⟨c, X', rfl, hc⟩
    · simp [stripPrefix]
    · have : a ≠ c := by intro e; subst e; simp [hp.1] at hc
      simp [stripPrefix, this]
  | a :: p', b :: T', X, hp, hX => by
    simp only [List.all_cons, Bool.and_eq_true] at hp
    simp only [List.cons_append, stripPrefix]
    split
    · exact strip_name_align p' T' X hp.2 hX
    · rfl

theorem okNc_all {a : Str} (h : okNc a = true) : a.all P.isNameChar = true := by
  cases a with
  | nil => simp [okNc] at h
  | cons c r =>
    simp only [okNc, Bool.and_eq_true, bne_iff_ne, ne_eq] at h
    simp only [List.all_cons, Bool.and_eq_true]
    refine ⟨C18.nameStart_sub_nameChar c h.1.2, ?_⟩
    rw [List.all_eq_true] at h ⊢
    intro x hx
    have := h.2 x hx
    simp only [ncRestC, P.except, Bool.and_eq_true] at this
    exact this.1

theorem okNc_no_colon {a : Str} (h : okNc a = true) : a.contains ':' = false := by
  cases a with
  | nil => simp [okNc] at h
  | cons c r =>
    simp only [okNc, Bool.and_eq_true, bne_iff_ne, ne_eq] at h
    simp only [List.contains_cons, Bool.or_eq_false_iff, beq_eq_false_iff_ne, ne_eq]
    refine ⟨fun e => h.1.1 e.symm, ?_⟩
    cases hc : r.contains ':' with
    | false => rfl
    | true =>
      rw [List.contains_iff_mem] at hc
      have := (List.all_eq_true.mp h.2) ':' hc
      simp [ncRestC, P.except] at this

theorem okQN_all {q : QN} (h : okQN q = true) : q.text.all P.isNameChar = true := by
  obtain ⟨pre, loc⟩ := q
  simp only [okQN, Bool.and_eq_true] at h
  cases pre with
  | none => exact okNc_all h.2
  | some p => simp [QN.text, okNc_all h.1, okNc_all h.2, nameChar_colon]

theorem nc_eq : P.isNameChar '=' = false := by decide

theorem stops_nameChar_of_ws_eq (w : Str) (r : Str) (hw : okWs w = true) : Stops P.isNameChar (w ++ ('=' :: r)) := by
  cases w with
  | nil => exact Stops.cons _ nc_eq
  | cons c cs =>
    simp only [okWs, List.all_cons, Bool.and_eq_true] at hw
    apply Stops.cons
    cases h : P.isNameChar c with
    | false => rfl
    | true => have := space_not_nameChar c h; simp [hw.1] at this

theorem space_quote (q : Char) (hq : q = '"' ∨ q = '\'') : P.isSpace q = false := by
  rcases hq with rfl | rfl <;> decide

theorem okAttr_parts {a : CAttr} (h : okAttr a = true) :
    a.ws ≠ [] ∧ okWs a.ws = true ∧ okQN a.name = true ∧ okWs a.ws1 = true ∧ okWs a.ws2 = true ∧
    (a.q = '"' ∨ a.q = '\'') ∧ a.vals.all (okPiece a.q) = true ∧ adjText a.vals = false := by
  simp only [okAttr, Bool.and_eq_true, Bool.not_eq_true', List.isEmpty_eq_false_iff, Bool.or_eq_true, beq_iff_eq] at h
  obtain ⟨⟨⟨⟨⟨⟨⟨h1, h2⟩, h3⟩, h4⟩, h5⟩, h6⟩, h7⟩, h8⟩ := h
  exact ⟨h1, h2, h3, h4, h5, h6, h7, h8⟩

/-- the part of an attribute behind its name -/
def attrTail (a : CAttr) (r : Str) : Str := a.ws1 ++ ('=' :: (a.ws2 ++ (a.q :: (printPieces a.vals ++ a.q :: r))))

theorem runs_eq_value {a : CAttr} (h : okAttr a = true) (r : Str) :
    RunsSeq env [G.nt N.eq, G.nt N.att_value] (attrTail a r) (.ok [cstEq a.ws1 a.ws2, cstAttValue a.q a.vals] r) := by
  obtain ⟨_, _, _, h4, h5, h6, h7, h8⟩ := okAttr_parts h
  exact RunsSeq.cons (runs_eq h4 h5 (Stops.cons _ (space_quote _ h6)))
    (RunsSeq.cons (runs_att_value a.q h6 a.vals r h7 h8) (RunsSeq.nil _))

theorem mem_colon_text_some (p l : Str) : ':' ∈ (QN.mk (some p) l).text := by simp [QN.text]

theorem runs_attribute {a : CAttr} (h : okAttr a = true) (r : Str) :
    Runs env (.nt N.attribute_) (a.name.text ++ attrTail a r) (.ok (cstAttr a) r) := by
  obtain ⟨_, _, h3, h4, _, _, _, _⟩ := okAttr_parts h
  have hX : Stops P.isNameChar (attrTail a r) := stops_nameChar_of_ws_eq a.ws1 _ h4
  have htail := runs_eq_value h r
  have hcodes : [Char.ofNat 120, Char.ofNat 109, Char.ofNat 108, Char.ofNat 110, Char.ofNat 115, Char.ofNat 58] = xmlnsL ++ [':'] := rfl
  have hcodes2 : [Char.ofNat 120, Char.ofNat 109, Char.ofNat 108, Char.ofNat 110, Char.ofNat 115] = xmlnsL := rfl
  apply Runs.nt_of env_attribute
  unfold Prod.attribute_
  apply Runs.alt
  generalize attrTail a r = X at hX htail
  obtain ⟨ws, ⟨pre, loc⟩, ws1, ws2, q, vals⟩ := a
  simp only at h3 htail ⊢
  have h3' := h3
  simp only [okQN, Bool.and_eq_true] at h3
  -- the `xmlns:p` form
  by_cases hA : pre = some xmlnsL
  · subst hA
    simp only [cstAttrName, if_true, QN.text]
    refine RunsAlt.hit (Runs.seq (RunsSeq.cons ?_ (RunsSeq.cons (Runs.seq htail) (RunsSeq.nil _))))
    apply Runs.nt_of env_ns_att_name
    unfold Prod.ns_att_name
    rw [hcodes, hcodes2]
    refine Runs.alt (RunsAlt.hit (Runs.seq ?_))
    have e : xmlnsL ++ ':' :: loc ++ X = (xmlnsL ++ [':']) ++ (loc ++ X) := by simp
    rw [e]
    exact RunsSeq.cons (Runs.tag_ok _ _) (RunsSeq.cons (runs_ncname h3.2 (stops_ncRest_of_nameChar hX)) (RunsSeq.nil _))
  by_cases hB : pre = none ∧ loc = xmlnsL
  · obtain ⟨rfl, rfl⟩ := hB
    simp only [cstAttrName, QN.text]
    refine RunsAlt.hit (Runs.seq (RunsSeq.cons ?_ (RunsSeq.cons (Runs.seq htail) (RunsSeq.nil _))))
    apply Runs.nt_of env_ns_att_name
    unfold Prod.ns_att_name
    rw [hcodes, hcodes2]
    refine Runs.alt (RunsAlt.skip (Runs.seq_fail (RunsSeq.fail_head (Runs.tag_fail ?_))) (RunsAlt.hit (Runs.tag_ok _ _)))
    rw [strip_append]
    rcases stops_colon_of_nameChar hX with rfl | ⟨c, X', rfl, hc⟩
    · rfl
    · exact strip_cons_ne _ _ (by intro e; subst e; simp at hc)
  -- every other name: the first alternative fails, the second reads a QName
  · simp only [cstAttrName, hA, hB, if_false]
    have hq := runs_qname (q := ⟨pre, loc⟩) h3' hX
    refine RunsAlt.skip (Runs.seq_fail ?_) (RunsAlt.hit (Runs.seq (RunsSeq.cons hq (RunsSeq.cons (Runs.seq htail) (RunsSeq.nil _)))))
    have hall := okQN_all h3'
    generalize hT : (QN.mk pre loc).text = T at hall ⊢
    have halign := strip_name_align xmlnsL T X (by decide) hX
    cases hs : stripPrefix xmlnsL T with
    | none =>
      rw [hs] at halign
      apply RunsSeq.fail_head
      apply Runs.nt_fail_of env_ns_att_name
      unfold Prod.ns_att_name
      rw [hcodes, hcodes2]
      refine Runs.alt (RunsAlt.skip (Runs.seq_fail (RunsSeq.fail_head (Runs.tag_fail ?_))) (RunsAlt.skip (Runs.tag_fail halign) (RunsAlt.nil _)))
      have : ∀ (a b s : Str), stripPrefix a s = none → stripPrefix (a ++ b) s = none := by
        intro a
        induction a with
        | nil => intro b s h; simp [stripPrefix] at h
        | cons c cs ih =>
          intro b s h
          cases s with
          | nil => rfl
          | cons d ds =>
            simp only [List.cons_append, stripPrefix] at h ⊢
            split
            · next e => simp only [e, if_true] at h; exact ih b ds h
            · rfl
      exact this _ _ _ halign
    | some u =>
      have hTu : T = xmlnsL ++ u := stripPrefix_some hs
      cases u with
      | nil =>
        exfalso
        apply hB
        simp only [List.append_nil] at hTu
        cases pre with
        | none => simp only [QN.text] at hT; exact ⟨rfl, hT.trans hTu⟩
        | some p =>
          have := mem_colon_text_some p loc
          rw [hT, hTu] at this
          exact absurd this (by decide)
      | cons c u' =>
        by_cases hc : c = ':'
        · exfalso
          subst hc
          cases pre with
          | none =>
            simp only [QN.text] at hT
            have := okNc_no_colon h3.2
            rw [hT, hTu] at this
            simp at this
          | some p =>
            apply hA
            simp only [QN.text] at hT
            have e1 := C18.span_colon p loc (okNc_no_colon h3.1)
            have e2 := C18.span_colon xmlnsL u' (by decide)
            rw [hT, hTu, e2] at e1
            simp only [Prod.mk.injEq] at e1
            rw [e1.1]
        · -- `xmlns` is only the beginning of a longer name: `ns_att_name` reads it, then `=` is missing
          have hcN : P.isNameChar c = true := by
            rw [hTu] at hall
            simp only [List.all_append, List.all_cons, Bool.and_eq_true] at hall
            exact hall.2.1
          rw [hs] at halign
          have hI : T ++ X = xmlnsL ++ (c :: (u' ++ X)) := by rw [hTu]; simp
          rw [hI]
          refine RunsSeq.fail_tail (c := .node N.ns_att_name (.leaf xmlnsL)) (r := c :: (u' ++ X)) ?_ ?_
          · apply Runs.nt_of env_ns_att_name
            unfold Prod.ns_att_name
            rw [hcodes, hcodes2]
            refine Runs.alt (RunsAlt.skip (Runs.seq_fail (RunsSeq.fail_head (Runs.tag_fail ?_))) (RunsAlt.hit (Runs.tag_ok _ _)))
            rw [strip_append]
            exact strip_cons_ne _ _ (fun e => hc e.symm)
          · refine RunsSeq.fail_head (Runs.seq_fail (RunsSeq.fail_head ?_))
            apply Runs.nt_fail_of env_eq
            unfold Prod.eq
            have h61 : Char.ofNat 61 = '=' := rfl
            rw [h61]
            have hsp : Stops P.isSpace (c :: (u' ++ X)) := Stops.cons _ (space_not_nameChar c hcN)
            have := Runs.cls0 (env := env) P.isSpace (c :: (u' ++ X))
            rw [span_nil_of_stops hsp] at this
            refine Runs.seq_fail (RunsSeq.fail_tail this (RunsSeq.fail_head (Runs.tag_fail (strip_cons_ne _ _ ?_))))
            intro e; subst e; simp [nc_eq] at hcN

/-! ### the attribute loop and the tags -/
def cstAttrIter (a : CAttr) : CST := .seq [.leaf a.ws, cstAttr a]
def attrIterG : G := G.seq [G.cls1 P.isSpace, G.nt N.attribute_]

/-- what follows the attributes of a tag: optional white space, then `>` or `/` -/
def TagEnd (r : Str) : Prop := ∃ w c r', r = w ++ c :: r' ∧ okWs w = true ∧ (c = '>' ∨ c = '/')

theorem attr_str_append (a : CAttr) (r : Str) : a.str ++ r = a.ws ++ (a.name.text ++ attrTail a r) := by
  simp [CAttr.str, attrTail]

theorem ns_gt : P.isNameStartChar '>' = false := by decide
theorem ns_slash : P.isNameStartChar '/' = false := by decide
theorem nc_gt : P.isNameChar '>' = false := by decide
theorem nc_slash : P.isNameChar '/' = false := by decide
theorem sp_gt : P.isSpace '>' = false := by decide
theorem sp_slash : P.isSpace '/' = false := by decide

theorem runs_attribute_fail {r : Str} (hr : Stops P.isNameStartChar r) : Runs env (.nt N.attribute_) r .fail := by
  have hcodes : [Char.ofNat 120, Char.ofNat 109, Char.ofNat 108, Char.ofNat 110, Char.ofNat 115, Char.ofNat 58] = 'x' :: ['m', 'l', 'n', 's', ':'] := rfl
  have hcodes2 : [Char.ofNat 120, Char.ofNat 109, Char.ofNat 108, Char.ofNat 110, Char.ofNat 115] = 'x' :: ['m', 'l', 'n', 's'] := rfl
  have hx : Stops (· == 'x') r := hr.mono fun c hc => by
    cases h : c == 'x' with
    | false => rfl
    | true => simp only [beq_iff_eq] at h; subst h; revert hc; decide
  have hq : Stops (fun c => c != ':' && P.isNameStartChar c) r := hr.mono fun c hc => by simp [hc]
  apply Runs.nt_fail_of env_attribute
  unfold Prod.attribute_
  refine Runs.alt (RunsAlt.skip (Runs.seq_fail (RunsSeq.fail_head ?_)) (RunsAlt.skip (Runs.seq_fail (RunsSeq.fail_head (runs_qname_fail hq))) (RunsAlt.nil _)))
  apply Runs.nt_fail_of env_ns_att_name
  unfold Prod.ns_att_name
  rw [hcodes, hcodes2]
  exact Runs.alt (RunsAlt.skip (Runs.seq_fail (RunsSeq.fail_head (runs_tag_fail_head hx))) (RunsAlt.skip (runs_tag_fail_head hx) (RunsAlt.nil _)))

theorem TagEnd.stops_space_or {r : Str} (h : TagEnd r) : Stops P.isNameChar r := by
  obtain ⟨w, c, r', rfl, hw, hc⟩ := h
  cases w with
  | nil => rcases hc with rfl | rfl
           · exact Stops.cons _ nc_gt
           · exact Stops.cons _ nc_slash
  | cons d ds =>
    simp only [okWs, List.all_cons, Bool.and_eq_true] at hw
    apply Stops.cons
    cases h : P.isNameChar d with
    | false => rfl
    | true => have := space_not_nameChar d h; simp [hw.1] at this

theorem okQN_text_head {q : QN} (h : okQN q = true) : ∃ c t, q.text = c :: t ∧ P.isNameChar c = true := by
  have hall := okQN_all h
  obtain ⟨pre, loc⟩ := q
  simp only [okQN, Bool.and_eq_true] at h
  cases pre with
  | none =>
    cases loc with
    | nil => simp [okNc] at h
    | cons c t => exact ⟨c, t, rfl, by simp only [QN.text, List.all_cons, Bool.and_eq_true] at hall; exact hall.1⟩
  | some p =>
    cases p with
    | nil => simp [okNc] at h
    | cons c t => exact ⟨c, _, rfl, by simp only [QN.text, List.cons_append, List.all_cons, Bool.and_eq_true] at hall; exact hall.1⟩

theorem stops_space_name {q : QN} (h : okQN q = true) (X : Str) : Stops P.isSpace (q.text ++ X) := by
  obtain ⟨c, t, e, hc⟩ := okQN_text_head h
  rw [e]
  exact Stops.cons _ (space_not_nameChar c hc)

theorem attrs_stop_name : ∀ (as : List CAttr) (r : Str), as.all okAttr = true → TagEnd r → Stops P.isNameChar (attrsText as ++ r)
  | [], r, _, hr => by simpa [attrsText] using hr.stops_space_or
  | a :: as, r, h, _ => by
    simp only [List.all_cons, Bool.and_eq_true] at h
    obtain ⟨h1, h2, _⟩ := okAttr_parts h.1
    simp only [attrsText, CAttr.str, List.append_assoc]
    cases hw : a.ws with
    | nil => exact absurd hw h1
    | cons d ds =>
      rw [hw] at h2
      simp only [okWs, List.all_cons, Bool.and_eq_true] at h2
      apply Stops.cons
      cases h : P.isNameChar d with
      | false => rfl
      | true => have := space_not_nameChar d h; simp [h2.1] at this

theorem runs_attr_loop : ∀ (as : List CAttr) (r : Str), as.all okAttr = true → TagEnd r →
    RunsMany env attrIterG (attrsText as ++ r) (.ok (as.map cstAttrIter) r)
  | [], r, _, hr => by
    obtain ⟨w, c, r', rfl, hw, hc⟩ := hr
    simp only [attrsText, List.nil_append, List.map_nil]
    apply RunsMany.stop
    unfold attrIterG
    have hsp : Stops P.isSpace (c :: r') := by rcases hc with rfl | rfl; exact Stops.cons _ sp_gt; exact Stops.cons _ sp_slash
    have hns : Stops P.isNameStartChar (c :: r') := by rcases hc with rfl | rfl; exact Stops.cons _ ns_gt; exact Stops.cons _ ns_slash
    cases w with
    | nil => exact Runs.seq_fail (RunsSeq.fail_head (runs_cls1_fail hsp))
    | cons d ds =>
      exact Runs.seq_fail (RunsSeq.fail_tail (runs_cls1 (by simp) hw hsp) (RunsSeq.fail_head (runs_attribute_fail hns)))
  | a :: as, r, h, hr => by
    simp only [List.all_cons, Bool.and_eq_true] at h
    obtain ⟨h1, h2, h3, _⟩ := okAttr_parts h.1
    have ih := runs_attr_loop as r h.2 hr
    simp only [attrsText, List.map_cons, List.append_assoc]
    rw [attr_str_append]
    refine RunsMany.step (r := attrsText as ++ r) ?_ ?_ ih
    · unfold attrIterG cstAttrIter
      exact Runs.seq (RunsSeq.cons (runs_cls1 h1 h2 (stops_space_name h3 _)) (RunsSeq.cons (runs_attribute h.1 _) (RunsSeq.nil _)))
    · have : 0 < a.ws.length := List.length_pos_iff.mpr h1
      have h2 : (attrsText as ++ r).length ≤ (attrTail a (attrsText as ++ r)).length := by
        simp only [attrTail, List.length_append, List.length_cons]; omega
      simp only [List.length_append] at h2 ⊢
      omega

theorem runs_tag_head {n : QN} {as : List CAttr} {r : Str} (hn : okQN n = true) (has : as.all okAttr = true) (hr : TagEnd r) :
    Runs env (G.seq [G.nt N.qname, G.many0 attrIterG]) (n.text ++ (attrsText as ++ r))
      (.ok (.seq [cstQN n, .many (as.map cstAttrIter)]) r) :=
  Runs.seq (RunsSeq.cons (runs_qname hn (attrs_stop_name as r has hr)) (RunsSeq.cons (Runs.many (runs_attr_loop as r has hr)) (RunsSeq.nil _)))

def cstSTag (n : QN) (as : List CAttr) (w : Str) : CST :=
  .node N.stag (.seq [.leaf ['<'], .seq [cstQN n, .many (as.map cstAttrIter)], .seq [.leaf w, .leaf ['>']]])
def cstEmptyTag (n : QN) (as : List CAttr) (w : Str) : CST :=
  .node N.empty_entity_tag (.seq [.leaf ['<'], .seq [cstQN n, .many (as.map cstAttrIter)], .seq [.leaf w, .leaf ['/', '>']]])
def cstETag (n : QN) (w : Str) : CST :=
  .node N.etag (.seq [.leaf ['<', '/'], cstQN n, .seq [.leaf w, .leaf ['>']]])

theorem runs_stag {n : QN} {as : List CAttr} {w r : Str} (hn : okQN n = true) (has : as.all okAttr = true) (hw : okWs w = true) :
    Runs env (.nt N.stag) ('<' :: (n.text ++ (attrsText as ++ (w ++ '>' :: r)))) (.ok (cstSTag n as w) r) := by
  have h60 : Char.ofNat 60 = '<' := rfl
  have h62 : Char.ofNat 62 = '>' := rfl
  apply Runs.nt_of env_stag
  unfold Prod.stag
  rw [h60, h62]
  have hh := runs_tag_head (r := w ++ '>' :: r) hn has ⟨w, '>', r, rfl, hw, .inl rfl⟩
  exact Runs.seq (RunsSeq.cons (Runs.tag_ok ['<'] _) (RunsSeq.cons hh (RunsSeq.cons
    (Runs.seq (RunsSeq.cons (runs_cls0 hw (Stops.cons _ sp_gt)) (RunsSeq.cons (Runs.tag_ok ['>'] r) (RunsSeq.nil _)))) (RunsSeq.nil _))))

theorem runs_empty_tag {n : QN} {as : List CAttr} {w r : Str} (hn : okQN n = true) (has : as.all okAttr = true) (hw : okWs w = true) :
    Runs env (.nt N.empty_entity_tag) ('<' :: (n.text ++ (attrsText as ++ (w ++ '/' :: '>' :: r)))) (.ok (cstEmptyTag n as w) r) := by
  have h60 : Char.ofNat 60 = '<' := rfl
  have h62 : Char.ofNat 62 = '>' := rfl
  have h47 : Char.ofNat 47 = '/' := rfl
  apply Runs.nt_of env_empty_entity_tag
  unfold Prod.empty_entity_tag
  rw [h60, h62, h47]
  have hh := runs_tag_head (r := w ++ '/' :: '>' :: r) hn has ⟨w, '/', '>' :: r, rfl, hw, .inr rfl⟩
  exact Runs.seq (RunsSeq.cons (Runs.tag_ok ['<'] _) (RunsSeq.cons hh (RunsSeq.cons
    (Runs.seq (RunsSeq.cons (runs_cls0 hw (Stops.cons _ sp_slash)) (RunsSeq.cons (Runs.tag_ok ['/', '>'] r) (RunsSeq.nil _)))) (RunsSeq.nil _))))

/-- the empty-element production fails on a start tag (it is tried first) -/
theorem runs_empty_tag_fail_on_stag {n : QN} {as : List CAttr} {w r : Str} (hn : okQN n = true) (has : as.all okAttr = true) (hw : okWs w = true) :
    Runs env (.nt N.empty_entity_tag) ('<' :: (n.text ++ (attrsText as ++ (w ++ '>' :: r)))) .fail := by
  have h60 : Char.ofNat 60 = '<' := rfl
  have h62 : Char.ofNat 62 = '>' := rfl
  have h47 : Char.ofNat 47 = '/' := rfl
  apply Runs.nt_fail_of env_empty_entity_tag
  unfold Prod.empty_entity_tag
  rw [h60, h62, h47]
  have hh := runs_tag_head (r := w ++ '>' :: r) hn has ⟨w, '>', r, rfl, hw, .inl rfl⟩
  refine Runs.seq_fail (RunsSeq.fail_tail (Runs.tag_ok ['<'] _) (RunsSeq.fail_tail hh (RunsSeq.fail_head ?_)))
  exact Runs.seq_fail (RunsSeq.fail_tail (runs_cls0 hw (Stops.cons _ sp_gt)) (RunsSeq.fail_head (Runs.tag_fail (strip_cons_ne _ _ (by decide)))))

theorem runs_etag {n : QN} {w r : Str} (hn : okQN n = true) (hw : okWs w = true) :
    Runs env (.nt N.etag) ('<' :: '/' :: (n.text ++ (w ++ '>' :: r))) (.ok (cstETag n w) r) := by
  have h60 : Char.ofNat 60 = '<' := rfl
  have h62 : Char.ofNat 62 = '>' := rfl
  have h47 : Char.ofNat 47 = '/' := rfl
  apply Runs.nt_of env_etag
  unfold Prod.etag
  rw [h60, h62, h47]
  have hst : Stops P.isNameChar (w ++ '>' :: r) := TagEnd.stops_space_or ⟨w, '>', r, rfl, hw, .inl rfl⟩
  exact Runs.seq (RunsSeq.cons (Runs.tag_ok ['<', '/'] _) (RunsSeq.cons (runs_qname hn hst) (RunsSeq.cons
    (Runs.seq (RunsSeq.cons (runs_cls0 hw (Stops.cons _ sp_gt)) (RunsSeq.cons (Runs.tag_ok ['>'] r) (RunsSeq.nil _)))) (RunsSeq.nil _))))

/-- `element` fails unless the input starts with `<` and a name-start character -/
theorem runs_element_fail {r : Str} (hr : Stops (· == '<') r ∨ ∃ r', r = '<' :: r' ∧ Stops P.isNameStartChar r') :
    Runs env (.nt N.element) r .fail := by
  have h60 : Char.ofNat 60 = '<' := rfl
  apply Runs.nt_fail_of env_element
  unfold Prod.element
  apply Runs.nt_fail_of env_element_body
  unfold Prod.element_body
  have hA : Runs env (.nt N.empty_entity_tag) r .fail := by
    apply Runs.nt_fail_of env_empty_entity_tag
    unfold Prod.empty_entity_tag
    rw [h60]
    rcases hr with hr | ⟨r', rfl, hr'⟩
    · exact Runs.seq_fail (RunsSeq.fail_head (runs_tag_fail_head hr))
    · refine Runs.seq_fail (RunsSeq.fail_tail (Runs.tag_ok ['<'] r') (RunsSeq.fail_head (Runs.seq_fail (RunsSeq.fail_head (runs_qname_fail ?_)))))
      exact hr'.mono fun c hc => by simp [hc]
  have hB : Runs env (.nt N.stag) r .fail := by
    apply Runs.nt_fail_of env_stag
    unfold Prod.stag
    rw [h60]
    rcases hr with hr | ⟨r', rfl, hr'⟩
    · exact Runs.seq_fail (RunsSeq.fail_head (runs_tag_fail_head hr))
    · refine Runs.seq_fail (RunsSeq.fail_tail (Runs.tag_ok ['<'] r') (RunsSeq.fail_head (Runs.seq_fail (RunsSeq.fail_head (runs_qname_fail ?_)))))
      exact hr'.mono fun c hc => by simp [hc]
  exact Runs.alt (RunsAlt.skip hA (RunsAlt.skip (Runs.verify_fail (Runs.seq_fail (RunsSeq.fail_head hB))) (RunsAlt.nil _)))

end XmlRs.Lex
