import XmlRsModel.Lemmas.AbsContent
/-! `abs (tree) = erase` for the DOCTYPE declaration and its internal subset, and the depth facts of those trees. -/
namespace XmlRs.Lex
open XmlRs Gen.Xml XmlRs.Names

/-! ### depth: only content models contain `children` nodes; nothing in a DOCTYPE contains `element` nodes -/
theorem noEl_sepCsts {α : Type} (cst : α → CST) (h : ∀ x, noEl (cst x) = true) (rest : List (Str × Str × α)) :
    noElL (sepCsts cst rest) = true :=
  noElL_map _ _ (fun y _ => by simp [noEl, noElL, cstBar, h])

theorem noEl_nmtoken (n : Str) : noEl (cstNmtoken n) = true := by simp [cstNmtoken, noEl, N.nmtoken, N.element, N.children]

theorem noEl_attType (t : CAttType) : noEl (cstAttType t) = true := by
  cases t with
  | kw t => simp [cstAttType, noEl, N.att_type, N.element, N.children]
  | notationTy w0 w1 f rest w2 =>
    simp [cstAttType, noEl, noElL, noEl_name, noEl_sepCsts cstName noEl_name, N.att_type, N.enumerated_type, N.notation_type, N.element, N.children]
  | enumeration w0 f rest w1 =>
    simp [cstAttType, noEl, noElL, noEl_nmtoken, noEl_sepCsts cstNmtoken noEl_nmtoken, N.att_type, N.enumerated_type, N.enumeration, N.element, N.children]

theorem noEl_attValue (q : Char) (vals : List Piece) : noEl (cstAttValue q vals) = true := by
  have h2 : noElL (vals.map cstPiece) = true := noElL_map _ _ (fun x _ => noEl_piece x)
  simp [cstAttValue, noEl, noElL, h2, N.att_value, N.element, N.children]

theorem noEl_default (d : CDefault) : noEl (cstDefault d) = true := by
  cases d with
  | required => simp [cstDefault, noEl, N.default_decl, N.element, N.children]
  | implied => simp [cstDefault, noEl, N.default_decl, N.element, N.children]
  | value fixed q vals =>
    cases fixed <;> simp [cstDefault, noEl, noElL, noEl_attValue, N.default_decl, N.element, N.children]

theorem noEl_attDef (a : CAttDef) : noEl (cstAttDef a) = true := by
  simp [cstAttDef, noEl, noElL, noEl_qn, noEl_attType, noEl_default, N.att_def, N.element, N.children]

theorem noEl_sysLit (q : Char) (l : Str) : noEl (cstSysLit q l) = true := by
  simp [cstSysLit, noEl, noElL, N.system_literal, N.element, N.children]

theorem noEl_pubLit (q : Char) (p : Str) : noEl (cstPubLit q p) = true := by
  simp only [cstPubLit]
  split <;> simp [noEl, noElL, N.pubid_literal, N.multipubidchar0, N.element, N.children]

theorem noEl_extId (id : CExtId) : noEl (cstExtId id) = true := by
  cases id <;> simp [cstExtId, noEl, noElL, noEl_sysLit, noEl_pubLit, N.external_id, N.element, N.children]

theorem noEl_pieceE (pc : Piece) : noEl (cstPieceE pc) = true := by
  cases pc with
  | text s => rfl
  | peRef n => simp [cstPieceE, cstPeRef, noEl, noElL, noEl_name, N.pe_reference, N.element, N.children]
  | charRef d h => simp only [cstPieceE]; exact noEl_ref _
  | entRef n => simp only [cstPieceE]; exact noEl_ref _

theorem noEl_entDef (d : CEntDef) : noEl (cstEntDef d) = true := by
  cases d with
  | internal q vals =>
    have h2 : noElL (vals.map cstPieceE) = true := noElL_map _ _ (fun x _ => noEl_pieceE x)
    simp [cstEntDef, cstEntityValue, noEl, noElL, h2, N.entity_def, N.entity_value, N.element, N.children]
  | external id nd =>
    cases nd with
    | none => simp [cstEntDef, cstNdata, noEl, noElL, noEl_extId, N.entity_def, N.element, N.children]
    | some v => obtain ⟨a, b, n⟩ := v; simp [cstEntDef, cstNdata, noEl, noElL, noEl_extId, noEl_name, N.entity_def, N.ndata_decl, N.element, N.children]

theorem noEl_notId (id : CNotId) : noEl (cstNotId id) = true := by
  cases id with
  | ext id => exact noEl_extId id
  | pubOnly w q p => simp [cstNotId, noEl, noElL, noEl_pubLit, N.public_id, N.element, N.children]

-- a tree without `element` nodes
mutual
def noElem : CST → Bool
  | .leaf _ => true
  | .node n c => n != N.element && noElem c
  | .seq ks => noElemL ks
  | .many ks => noElemL ks
def noElemL : List CST → Bool
  | [] => true
  | c :: cs => noElem c && noElemL cs
end

mutual
theorem noElem_depth : ∀ c : CST, noElem c = true → c.elemDepth = 0
  | .leaf _, _ => by simp [CST.elemDepth]
  | .node n c, h => by
    simp only [noElem, Bool.and_eq_true, bne_iff_ne, ne_eq] at h
    have h1 : (n == N.element) = false := by simpa using h.1
    simp [CST.elemDepth, h1, noElem_depth c h.2]
  | .seq ks, h => by simpa [CST.elemDepth] using noElemL_depth ks (by simpa [noElem] using h)
  | .many ks, h => by simpa [CST.elemDepth] using noElemL_depth ks (by simpa [noElem] using h)
theorem noElemL_depth : ∀ cs : List CST, noElemL cs = true → elemDepthL cs = 0
  | [], _ => by simp [elemDepthL]
  | c :: cs, h => by
    simp only [noElemL, Bool.and_eq_true] at h
    simp [elemDepthL, noElem_depth c h.1, noElemL_depth cs h.2]
end

mutual
theorem noElem_of_noEl : ∀ c : CST, noEl c = true → noElem c = true
  | .leaf _, _ => rfl
  | .node n c, h => by
    simp only [noEl, Bool.and_eq_true] at h
    simp [noElem, h.1.1, noElem_of_noEl c h.2]
  | .seq ks, h => by simpa [noElem] using noElemL_of_noElL ks (by simpa [noEl] using h)
  | .many ks, h => by simpa [noElem] using noElemL_of_noElL ks (by simpa [noEl] using h)
theorem noElemL_of_noElL : ∀ cs : List CST, noElL cs = true → noElemL cs = true
  | [], _ => rfl
  | c :: cs, h => by
    simp only [noElL, Bool.and_eq_true] at h
    simp [noElemL, noElem_of_noEl c h.1, noElemL_of_noElL cs h.2]
end

theorem noEl_occ (o : Occ) : noEl (cstOcc o) = true := by cases o <;> rfl
theorem noEl_sep (ch : Bool) (a b : Str) : noEl (cstSep ch a b) = true := by simp [cstSep, noEl, noElL]

/-- content particles: no `element` node; `children` nodes nest as deep as the groups -/
theorem mid_depth (ch : Bool) (tl : List CST) :
    (groupMid ch tl).ntDepth N.children = ntDepthL N.children tl ∧ noElem (groupMid ch tl) = noElemL tl := by
  cases ch with
  | false => simp [groupMid, CST.ntDepth, noElem]
  | true =>
    cases tl with
    | nil => simp [groupMid, CST.ntDepth, ntDepthL, noElem, noElemL]
    | cons x xs => simp [groupMid, CST.ntDepth, ntDepthL, noElem, noElemL]

mutual
theorem cp_depth : ∀ p : CCp, noElem (cstCp p) = true ∧ (cstCp p).ntDepth N.children = p.gdepth
  | .name n o => by
    have h1 := noEl_depth _ (noEl_qn n)
    have h2 := noEl_depth _ (noEl_occ o)
    have e1 : (N.cp == N.children) = false := by decide
    refine ⟨?_, ?_⟩
    · simp [cstCp, noElem, noElemL, noElem_of_noEl _ (noEl_qn n), noElem_of_noEl _ (noEl_occ o), N.cp, N.element]
    · simp [cstCp, CST.ntDepth, ntDepthL, e1, h1.2, h2.2, CCp.gdepth]
  | .group w0 f ch rest w1 o => by
    have hf := cp_depth f
    have ht := tail_depth ch rest
    have ho := noEl_depth _ (noEl_occ o)
    have hm := mid_depth ch (cstTail ch rest)
    have e1 : (N.cp == N.children) = false := by decide
    have e2 : (N.children_body == N.children) = false := by decide
    have e3 : (N.group == N.children) = false := by decide
    rw [cstCp_group]
    refine ⟨?_, ?_⟩
    · have e4 : (N.cp != N.element) = true := by decide
      have e5 : (N.children != N.element) = true := by decide
      have e6 : (N.children_body != N.element) = true := by decide
      have e7 : (N.group != N.element) = true := by decide
      simp only [mkGroupBody, noElem, noElemL, hf.1, hm.2, ht.1, noElem_of_noEl _ (noEl_occ o), Bool.and_true, Bool.true_and, e4, e5, e6, e7]
    · simp only [mkGroupBody, CST.ntDepth, ntDepthL, e1, e2, e3, beq_self_eq_true, if_true, Bool.false_eq_true, if_false, hf.2, hm.1, ht.2, ho.2,
        CCp.gdepth]
      simp
termination_by p => 2 * sizeOf p
decreasing_by all_goals simp_wf; omega
theorem tail_depth : ∀ (ch : Bool) (t : CCpTail), noElemL (cstTail ch t) = true ∧ ntDepthL N.children (cstTail ch t) = t.gdepth
  | ch, .nil => by simp [cstTail, noElemL, ntDepthL, CCpTail.gdepth]
  | ch, .cons a b p t => by
    have hp := cp_depth p
    have ht := tail_depth ch t
    have hs := noEl_depth _ (noEl_sep ch a b)
    refine ⟨?_, ?_⟩
    · simp [cstTail, noElemL, noElem, noElem_of_noEl _ (noEl_sep ch a b), hp.1, ht.1]
    · simp [cstTail, ntDepthL, CST.ntDepth, hs.2, hp.2, ht.2, CCpTail.gdepth]
termination_by ch t => 2 * sizeOf t
decreasing_by all_goals simp_wf; omega
end

end XmlRs.Lex
