import XmlRsModel.Lemmas.DomInv
/-! `Element.normalize` (Dom.normNode / normAttrs / normList): nothing is lost and nothing is duplicated - every node of
    the subtree is afterwards either in the normalized subtree or among the dropped nodes, exactly once. -/
namespace XmlRs.Dom
open List

theorem cntL_toList (a : Nat) (p : Option Node) : cntL a p.toList = (match p with | some x => cnt a x | none => 0) := by
  cases p <;> simp [cntL_cons, cntL_nil]

mutual
theorem normNode_count (a : Nat) : (n : Node) → cnt a (normNode n).1 + cntL a (normNode n).2 = cnt a n
  | .mk j k d as ks => by
    unfold normNode
    split
    · have h1 := normAttrs_count a as
      have h2 := normList_count a none ks
      simp only [cnt_mk, cntL_append, cntL_toList, cntL_nil] at h1 h2 ⊢
      omega
    · simp [cntL_nil]
theorem normAttrs_count (a : Nat) : (l : List Node) → cntL a (normAttrs l).1 + cntL a (normAttrs l).2 = cntL a l
  | [] => by simp [normAttrs, cntL_nil]
  | (.mk j k d as ks) :: r => by
    have h1 := normList_count a none ks
    have h2 := normAttrs_count a r
    simp only [normAttrs, cntL_cons, cnt_mk, cntL_append, cntL_toList, cntL_nil] at h1 h2 ⊢
    omega
theorem normList_count (a : Nat) : (prev : Option Node) → (l : List Node) →
    cntL a (normList prev l).1 + cntL a (normList prev l).2 = cntL a prev.toList + cntL a l
  | prev, [] => by simp [normList, cntL_nil]
  | prev, (.mk j k d as ks) :: r => by
    unfold normList
    split
    · -- text
      split
      · have h := normList_count a prev r
        simp only [cntL_cons] at h ⊢; omega
      · split
        · next p =>
          split
          · have h := normList_count a (some (p.withData (p.data ++ d))) r
            simp only [cntL_cons, cntL_toList, cnt_withData, Option.toList, cntL_nil] at h ⊢; omega
          · have h := normList_count a (some (.mk j .text d as ks)) r
            simp only [cntL_cons, cntL_toList, Option.toList, cntL_nil] at h ⊢; omega
        · have h := normList_count a (some (.mk j .text d as ks)) r
          simp only [cntL_cons, cntL_toList, Option.toList, cntL_nil] at h ⊢; omega
    · -- element
      next nm =>
      have h1 := normNode_count a (.mk j (.elem nm) d as ks)
      have h2 := normList_count a none r
      simp only [cntL_cons, cntL_append, cntL_toList, Option.toList, cntL_nil] at h1 h2 ⊢
      cases prev <;> simp only [cntL_nil, cntL_cons] at * <;> omega
    · have h2 := normList_count a none r
      simp only [cntL_cons, cntL_append, cntL_toList, Option.toList, cntL_nil] at h2 ⊢
      cases prev <;> simp only [cntL_nil, cntL_cons] at * <;> omega
end

/-- `normalize` moves nodes (out of the subtree, among the detached trees); it neither loses nor duplicates one -/
theorem normalize_sameIds (s : St) (e : Nat) (hi : Inv s) : SameIds s (step s (.normalize e)).1 := by
  simp only [step]
  cases hf : s.find e with
  | none => exact SameIds.refl s
  | some en =>
    refine ⟨rfl, fun a => ?_⟩
    have h := update_count s e (fun n => (normNode n).1) en (idsOfL (normNode en).2) [] hi.1 hf
      (fun b => by have := normNode_count b en; simp only [cnt, cntL] at this ⊢; simp; omega) a
    simp only [cntL_roots, cntL_append] at h ⊢
    simp only [count_nil, Nat.add_zero] at h
    show cnt a (s.update e fun n => (normNode n).1).doc + (cntL a (s.update e fun n => (normNode n).1).detached + cntL a (normNode en).2) = _
    have e2 : count a (idsOfL (normNode en).2) = cntL a (normNode en).2 := rfl
    omega

end XmlRs.Dom

namespace XmlRs.Dom
open List

/-! ### what `normalize` must not change: everything except how character data is cut into Text nodes -/
/-- a token of the reading below: one character of a Text node, or a mark (id, kind, data) of any other node -/
abbrev Tok := Sum Char (Nat × Kind × Str)

mutual
/-- a subtree read in document order: a Text node contributes its characters one by one (so the reading does not see where
    one Text node ends and the next begins, nor an empty one); every other node contributes a mark carrying its identity,
    kind and data - an element an opening and a closing mark around its attributes and children -/
def tokens : Node → List Tok
  | .mk j k d as ks =>
    match k with
    | .text => d.map Sum.inl
    | .elem _ => [Sum.inr (j, k, [])] ++ tokensA as ++ tokensL ks ++ [Sum.inr (j, k, [])]
    | _ => [Sum.inr (j, k, d)] ++ tokensL ks
def tokensA : List Node → List Tok
  | [] => []
  | (.mk j k d _ ks) :: r => [Sum.inr (j, k, d)] ++ tokensL ks ++ [Sum.inr (j, k, d)] ++ tokensA r
def tokensL : List Node → List Tok
  | [] => []
  | n :: r => tokens n ++ tokensL r
end

theorem tokensL_append (a b : List Node) : tokensL (a ++ b) = tokensL a ++ tokensL b := by
  induction a with
  | nil => simp [tokensL]
  | cons n r ih => simp [tokensL, ih]

theorem tokensL_toList (p : Option Node) : tokensL p.toList = (match p with | some x => tokens x | none => []) := by
  cases p <;> simp [tokensL]

theorem tokens_text_withData (p : Node) (d : Str) (h : p.kind = .text) : tokens (p.withData d) = d.map Sum.inl := by
  cases p with
  | mk j k d0 as ks => simp only [Node.kind] at h; subst h; simp [Node.withData, tokens]

theorem tokens_text (p : Node) (h : p.kind = .text) : tokens p = p.data.map Sum.inl := by
  cases p with
  | mk j k d0 as ks => simp only [Node.kind] at h; subst h; simp [tokens, Node.data]

mutual
theorem normNode_tokens : (n : Node) → tokens (normNode n).1 = tokens n
  | .mk j k d as ks => by
    unfold normNode
    split
    · next nm =>
      have h1 := normAttrs_tokens as
      have h2 := normList_tokens none (by simp) ks
      simp only [tokens, h1, h2, tokensL_toList, List.nil_append]
    · rfl
theorem normAttrs_tokens : (l : List Node) → tokensA (normAttrs l).1 = tokensA l
  | [] => rfl
  | (.mk j k d as ks) :: r => by
    have h1 := normList_tokens none (by simp) ks
    have h2 := normAttrs_tokens r
    simp only [normAttrs, tokensA, h1, h2, tokensL_toList, List.nil_append]
/-- the pending node `prev` is always a Text node -/
theorem normList_tokens : (prev : Option Node) → (∀ p, prev = some p → p.kind = .text) → (l : List Node) →
    tokensL (normList prev l).1 = tokensL prev.toList ++ tokensL l
  | prev, _, [] => by simp [normList, tokensL]
  | prev, hp, (.mk j k d as ks) :: r => by
    unfold normList
    split
    · split
      · next he =>
        have h := normList_tokens prev hp r
        have : d = [] := by simpa using he
        subst this
        simp [h, tokensL, tokens]
      · split
        · next p =>
          have hpk := hp p rfl
          split
          · have h := normList_tokens (some (p.withData (p.data ++ d))) (by
              intro q hq; cases hq; cases p; simpa [Node.withData, Node.kind] using hpk) r
            simp only [h, Option.toList, tokensL, tokens, tokens_text_withData p _ hpk, tokens_text p hpk, List.map_append,
              List.append_nil, List.append_assoc]
          · have h := normList_tokens (some (.mk j .text d as ks)) (by intro q hq; cases hq; rfl) r
            simp only [tokensL, h, Option.toList, tokens, List.append_nil, List.append_assoc]
        · have h := normList_tokens (some (.mk j .text d as ks)) (by intro q hq; cases hq; rfl) r
          simp only [h, Option.toList, tokensL, tokens, List.append_nil, List.nil_append]
    · next nm =>
      have h1 := normNode_tokens (.mk j (.elem nm) d as ks)
      have h2 := normList_tokens none (by simp) r
      simp only [tokensL_append, tokensL, h1, h2, tokensL_toList, List.nil_append, List.append_assoc]
    · have h2 := normList_tokens none (by simp) r
      simp only [tokensL_append, tokensL, h2, tokensL_toList, List.nil_append, List.append_assoc]
end

end XmlRs.Dom
