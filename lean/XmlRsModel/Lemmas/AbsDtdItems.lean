import XmlRsModel.Lemmas.AbsDtd
/-! `abs (tree) = erase` for the declarations of the internal subset and the DOCTYPE declaration. -/
namespace XmlRs.Lex
open XmlRs Gen.Xml XmlRs.Names

theorem unquote_quoted (q : Char) (l : Str) : unquote (q :: (l ++ [q])) = l := by
  simp [unquote]

def sysLitBody (q : Char) (l : Str) : CST := .seq [.leaf [q], .leaf l, .leaf [q]]
theorem cstSysLit_eq (q : Char) (l : Str) : cstSysLit q l = .node N.system_literal (sysLitBody q l) := rfl
theorem sysLitBody_flatten (q : Char) (l : Str) : (sysLitBody q l).flatten = q :: (l ++ [q]) := by
  simp [sysLitBody, CST.flatten, flattenL]

def pubLitBody (q : Char) (p : Str) : CST :=
  .seq [.leaf [q], if q = '"' then .node N.multipubidchar0 (.leaf p) else .leaf p, .leaf [q]]
theorem cstPubLit_eq (q : Char) (p : Str) : cstPubLit q p = .node N.pubid_literal (pubLitBody q p) := rfl
theorem pubLitBody_flatten (q : Char) (p : Str) : (pubLitBody q p).flatten = q :: (p ++ [q]) := by
  simp only [pubLitBody, CST.flatten, flattenL]
  split <;> simp [CST.flatten]

def extIdBody : CExtId → CST
  | .sysId w q l => .seq [.seq [.leaf kwSYSTEM, .leaf w], cstSysLit q l]
  | .pubId w qp p w2 qs l => .seq [.seq [.leaf kwPUBLIC, .leaf w], .seq [cstPubLit qp p, .seq [.leaf w2, cstSysLit qs l]]]

theorem cstExtId_eq (id : CExtId) : cstExtId id = .node N.external_id (extIdBody id) := by cases id <;> rfl

theorem absExternalId_cst (id : CExtId) : absExternalId (extIdBody id) = id.erase := by
  cases id with
  | sysId w q l =>
    simp [extIdBody, absExternalId, CST.kidsL, kidsLL, cstSysLit_eq, sysLitBody_flatten, unquote_quoted, CExtId.erase]
  | pubId w qp p w2 qs l =>
    simp [extIdBody, absExternalId, CST.kidsL, kidsLL, cstSysLit_eq, cstPubLit_eq, sysLitBody_flatten, pubLitBody_flatten, unquote_quoted, CExtId.erase]

/-! ### attribute types -/
def nameBody (t : Str) : CST :=
  .seq [.node N.multinamestartchar0 (.leaf (spanP P.isNameStartChar t).1), .node N.multinamechar0 (.leaf (spanP P.isNameStartChar t).2)]
theorem cstName_eq (t : Str) : cstName t = .node N.name (nameBody t) := rfl
theorem nameBody_flatten (t : Str) : (nameBody t).flatten = t := by
  simp [nameBody, CST.flatten, flattenL, spanP_append]

theorem kidsLL_sep_names (rest : List (Str × Str × Str)) :
    kidsLL (sepCsts cstName rest) = rest.map (fun y => (N.name, nameBody y.2.2)) := by
  induction rest with
  | nil => rfl
  | cons y r ih => simp [sepCsts, kidsLL, CST.kidsL, cstBar, cstName_eq] at ih ⊢; exact ih

theorem kidsLL_sep_nmtokens (rest : List (Str × Str × Str)) :
    kidsLL (sepCsts cstNmtoken rest) = rest.map (fun y => (N.nmtoken, CST.leaf y.2.2)) := by
  induction rest with
  | nil => rfl
  | cons y r ih => simp [sepCsts, kidsLL, CST.kidsL, cstBar, cstNmtoken] at ih ⊢; exact ih

def attTypeBody : CAttType → CST
  | .kw t => .leaf (printAttType t)
  | .notationTy w0 w1 f rest w2 => .node N.enumerated_type (.node N.notation_type
      (.seq [.seq [.leaf kwNOTATIONty, .leaf w0, .leaf ['('], .leaf w1], .seq [cstName f, .many (sepCsts cstName rest)], .seq [.leaf w2, .leaf [')']]]))
  | .enumeration w0 f rest w1 => .node N.enumerated_type (.node N.enumeration
      (.seq [.seq [.leaf ['('], .leaf w0], .seq [cstNmtoken f, .many (sepCsts cstNmtoken rest)], .seq [.leaf w1, .leaf [')']]]))

theorem cstAttType_eq (t : CAttType) : cstAttType t = .node N.att_type (attTypeBody t) := by cases t <;> rfl

theorem map_filter_names (rest : List (Str × Str × Str)) :
    (List.map (fun x => x.snd) (List.filter (fun x => x.fst == N.name) (rest.map (fun y => (N.name, nameBody y.2.2))))).map (·.flatten) = rest.map (·.2.2) := by
  induction rest with
  | nil => rfl
  | cons y r ih => simp [List.filter_cons, nameBody_flatten] at ih ⊢; exact ih

theorem map_filter_nmtokens (rest : List (Str × Str × Str)) :
    (List.map (fun x => x.snd) (List.filter (fun x => x.fst == N.nmtoken) (rest.map (fun y => (N.nmtoken, CST.leaf y.2.2))))).map (·.flatten) = rest.map (·.2.2) := by
  induction rest with
  | nil => rfl
  | cons y r ih => simp [List.filter_cons, CST.flatten] at ih ⊢; exact ih

theorem absAttType_cst (t : CAttType) (h : okAttType t = true) : absAttType (attTypeBody t) = t.erase := by
  cases t with
  | kw t =>
    cases t <;> simp [okAttType, isKwType] at h <;>
      simp [attTypeBody, absAttType, CST.kidsL, CST.flatten, printAttType, startsWith, stripPrefix, CAttType.erase]
  | notationTy w0 w1 f rest w2 =>
    have hm := map_filter_names rest
    simp only [attTypeBody, absAttType, CST.kidsL, kidsLL, beq_self_eq_true, if_true, allL, cstName_eq, List.append_nil, List.cons_append,
      List.nil_append, kidsLL_sep_names, List.filter_cons, List.map_cons, nameBody_flatten, CAttType.erase, hm]
  | enumeration w0 f rest w1 =>
    have hm := map_filter_nmtokens rest
    have e1 : (N.enumeration == N.notation_type) = false := by decide
    simp only [attTypeBody, absAttType, CST.kidsL, kidsLL, e1, Bool.false_eq_true, if_false, beq_self_eq_true, if_true, allL, cstNmtoken, List.append_nil, List.cons_append,
      List.nil_append, kidsLL_sep_nmtokens, List.filter_cons, List.map_cons, CST.flatten, CAttType.erase, hm]

/-! ### defaults -/
def defaultBody : CDefault → CST
  | .required => .leaf kwREQUIRED
  | .implied => .leaf kwIMPLIED
  | .value none q vals => .seq [.seq [], cstAttValue q vals]
  | .value (some w) q vals => .seq [.seq [.leaf kwFIXED, .leaf w], cstAttValue q vals]

theorem cstDefault_eq (d : CDefault) : cstDefault d = .node N.default_decl (defaultBody d) := by
  cases d with
  | required => rfl
  | implied => rfl
  | value fixed q vals => cases fixed <;> rfl

theorem absDefault_cst (d : CDefault) (h : okDefault d = true) : absDefault (defaultBody d) = d.erase := by
  cases d with
  | required => simp [defaultBody, absDefault, CST.flatten, kwREQUIRED, startsWith, stripPrefix, CDefault.erase]
  | implied => simp [defaultBody, absDefault, CST.flatten, kwIMPLIED, startsWith, stripPrefix, CDefault.erase]
  | value fixed q vals =>
    simp only [okDefault, Bool.and_eq_true, Bool.not_eq_true'] at h
    obtain ⟨⟨⟨_, hq⟩, hall⟩, _⟩ := h
    have hv := absPieces_cst q vals hall
    have hq' := isQuote_cases hq
    cases fixed with
    | none =>
      have hf : (defaultBody (.value none q vals)).flatten = q :: ((flattenL (vals.map cstPiece)) ++ [q]) := by
        simp [defaultBody, cstAttValue, CST.flatten, flattenL]
      have hk : (defaultBody (.value none q vals)).kidsL = [(N.att_value, CST.seq [.leaf [q], .many (vals.map cstPiece), .leaf [q]])] := by
        simp [defaultBody, cstAttValue, CST.kidsL, kidsLL]
      simp only [absDefault, hf, hk, findL, List.find?_cons, beq_self_eq_true, Option.map_some, hv, CDefault.erase, Option.isSome_none]
      rcases hq' with rfl | rfl <;> simp [startsWith, stripPrefix]
    | some w =>
      have hf : (defaultBody (.value (some w) q vals)).flatten = kwFIXED ++ (w ++ (q :: ((flattenL (vals.map cstPiece)) ++ [q]))) := by
        simp [defaultBody, cstAttValue, CST.flatten, flattenL]
      have hk : (defaultBody (.value (some w) q vals)).kidsL = [(N.att_value, CST.seq [.leaf [q], .many (vals.map cstPiece), .leaf [q]])] := by
        simp [defaultBody, cstAttValue, CST.kidsL, kidsLL]
      simp only [absDefault, hf, hk, findL, List.find?_cons, beq_self_eq_true, Option.map_some, hv, CDefault.erase, Option.isSome_some]
      simp [kwFIXED, startsWith, stripPrefix]

/-! ### attribute definitions -/
def attDefBody (a : CAttDef) : CST :=
  .seq [.seq [.leaf a.ws0, cstQN a.name], .seq [.leaf a.ws1, cstAttType a.ty], .seq [.leaf a.ws2, cstDefault a.dflt]]
theorem cstAttDef_eq (a : CAttDef) : cstAttDef a = .node N.att_def (attDefBody a) := rfl

theorem absAttDef_cst (a : CAttDef) (h : okAttDef a = true) : absAttDef (attDefBody a) = a.erase := by
  obtain ⟨_, _, _, hty, _, hd⟩ := okAttDef_parts h
  obtain ⟨b, hb, hq⟩ := cstQN_kidsL a.name
  have e1 : (N.qname == N.ns_att_name) = false := by decide
  have e2 : (N.qname == N.att_type) = false := by decide
  have e3 : (N.qname == N.default_decl) = false := by decide
  have e4 : (N.att_type == N.default_decl) = false := by decide
  have hk : (attDefBody a).kidsL = [(N.qname, b), (N.att_type, attTypeBody a.ty), (N.default_decl, defaultBody a.dflt)] := by
    simp [attDefBody, CST.kidsL, kidsLL, hb, cstAttType_eq, cstDefault_eq]
  simp only [absAttDef, hk, List.head?_cons, e1, Bool.false_eq_true, if_false, hq, findL, List.find?_cons, e2, e3, e4, beq_self_eq_true,
    Option.map_some, absAttType_cst a.ty hty, absDefault_cst a.dflt hd, CAttDef.erase]

end XmlRs.Lex
