import XmlRsModel.Lemmas.DomNav
import XmlRsModel.Lemmas.DomStep
/-! What the tree mutators DO (property C13, "exactly the change DOM Level 1 specifies"): where a
    node is found after another one was taken out, and what the child lists look like. -/
namespace XmlRs.Dom
open List

theorem removeIn_none_of_absent : ∀ (i : Nat) (t : Node), cnt i t = 0 → removeIn i t = (t, none) := by
  intro i t h
  cases hr : removeIn i t with
  | mk t' x =>
    have := removeIn_count i t t' x hr
    cases x with
    | none => simp only at this; rw [this]
    | some n =>
      simp only at this
      have h1 := this.2 i
      have h2 := cnt_id_pos n
      rw [this.1] at h2
      omega

theorem removeInL_none_of_absent : ∀ (i : Nat) (l : List Node), cntL i l = 0 → removeInL i l = (l, none) := by
  intro i l h
  cases hr : removeInL i l with
  | mk l' x =>
    have := removeInL_count i l l' x hr
    cases x with
    | none => simp only at this; rw [this]
    | some n =>
      simp only at this
      have h1 := this.2 i
      have h2 := cnt_id_pos n
      rw [this.1] at h2
      omega

theorem removeIn_id (i : Nat) (t : Node) : (removeIn i t).1.id = t.id := by
  cases t with
  | mk j k d as ks =>
    simp only [removeIn]
    split
    · rfl
    · rfl

/-- ids of the children after removing `c` somewhere below `t`: the child `c` is gone, all others stay in order -/
theorem removeInL_ids (c : Nat) : ∀ (l : List Node), (∀ a, cntL a l ≤ 1) →
    (removeInL c l).1.map (·.id) = (l.map (·.id)).filter (· != c)
  | [], _ => by simp [removeInL]
  | n :: r, hnd => by
    have hr : ∀ a, cntL a r ≤ 1 := fun a => by have := hnd a; rw [cntL_cons] at this; omega
    simp only [removeInL]
    by_cases hid : (n.id == c) = true
    · have hnc : n.id = c := by simpa using hid
      simp only [hid, if_true, List.map_cons, List.filter]
      have : (n.id != c) = false := by simp [hnc]
      simp only [this]
      -- no other member has id c
      have h1 := hnd c
      rw [cntL_cons] at h1
      have h2 := cnt_id_pos n
      rw [hnc] at h2
      have h0 : cntL c r = 0 := by omega
      symm
      rw [List.filter_eq_self]
      intro a ha
      simp only [List.mem_map] at ha
      obtain ⟨m, hm, rfl⟩ := ha
      have : m.id ≠ c := by
        intro he
        have := rootCnt_pos_of_mem m r hm
        have h3 := cntL_split m.id r
        rw [he] at this h3
        omega
      simpa using this
    · have hne : (n.id != c) = true := by simpa [bne] using hid
      have hidf : (n.id == c) = false := by simpa using hid
      simp only [hidf, Bool.false_eq_true, if_false]
      cases hrm : removeIn c n with
      | mk n' x =>
        have hid' := removeIn_id c n
        rw [hrm] at hid'
        cases x with
        | some y =>
          simp only [List.map_cons, List.filter, hne]
          have hid'' : n'.id = n.id := hid'
          rw [hid'']
          -- c was inside n, so not among the rest
          have hc := removeIn_count c n n' (some y) hrm
          simp only at hc
          have h3 := hc.2 c
          have h4 := cnt_id_pos y
          rw [hc.1] at h4
          have h1 := hnd c
          rw [cntL_cons] at h1
          have h0 : cntL c r = 0 := by omega
          congr 1
          symm
          rw [List.filter_eq_self]
          intro a ha
          simp only [List.mem_map] at ha
          obtain ⟨m, hm, rfl⟩ := ha
          have : m.id ≠ c := by
            intro he
            have := rootCnt_pos_of_mem m r hm
            have h5 := cntL_split m.id r
            rw [he] at this h5
            omega
          simpa using this
        | none =>
          have ih := removeInL_ids c r hr
          cases hrr : removeInL c r with
          | mk r' z =>
            rw [hrr] at ih
            simp only [List.map_cons, List.filter, hne]
            simp only at ih
            rw [ih]

theorem removeIn_kids_ids (c : Nat) (t : Node) (hnd : ∀ a, cnt a t ≤ 1) :
    (removeIn c t).1.kids.map (·.id) = (t.kids.map (·.id)).filter (· != c) := by
  cases t with
  | mk j k d as ks =>
    have hks : ∀ a, cntL a ks ≤ 1 := fun a => by have := hnd a; rw [cnt_mk] at this; omega
    simp only [removeIn]
    cases hA : removeInL c as with
    | mk as' x =>
      cases x with
      | some y =>
        simp only [Node.kids]
        -- c was among the attributes' subtrees: no child has id c
        have hc := removeInL_count c as as' (some y) hA
        simp only at hc
        have h3 := hc.2 c
        have h4 := cnt_id_pos y
        rw [hc.1] at h4
        have h1 := hnd c
        rw [cnt_mk] at h1
        have h0 : cntL c ks = 0 := by omega
        symm
        rw [List.filter_eq_self]
        intro a ha
        simp only [List.mem_map] at ha
        obtain ⟨m, hm, rfl⟩ := ha
        have : m.id ≠ c := by
          intro he
          have := rootCnt_pos_of_mem m ks hm
          have h5 := cntL_split m.id ks
          rw [he] at this h5
          omega
        simpa using this
      | none =>
        simp only [Node.kids]
        exact removeInL_ids c ks hks

theorem removeIn_none_cnt (c : Nat) (t t' : Node) (h : removeIn c t = (t', none)) (hne : t.id ≠ c) : cnt c t = 0 := by
  cases hc : cnt c t with
  | zero => rfl
  | succ m =>
    obtain ⟨n, hn⟩ := findIn_of_pos c t (by omega)
    have := removeIn_find c t t' none h hne
    rw [hn] at this; cases this

theorem removeInL_none_cnt (c : Nat) (l l' : List Node) (h : removeInL c l = (l', none)) : cntL c l = 0 := by
  cases hc : cntL c l with
  | zero => rfl
  | succ m =>
    obtain ⟨n, hn⟩ := findInL_of_pos c l (by omega)
    have := removeInL_find c l l' none h
    rw [hn] at this; cases this

mutual
/-- FIND AFTER REMOVE: a node `p` outside the removed subtree is still found, as the node it was
    with `c` removed from below it -/
theorem findIn_removeIn (p c : Nat) : (t pn : Node) → (∀ a, cnt a t ≤ 1) → t.id ≠ c → findIn p t = some pn →
    (∀ x, (removeIn c t).2 = some x → cnt p x = 0) → findIn p (removeIn c t).1 = some (removeIn c pn).1
  | .mk j k d as ks, pn, hnd, hjc, hf, hx => by
    have has : ∀ a, cntL a as ≤ 1 := fun a => by have := hnd a; rw [cnt_mk] at this; omega
    have hks : ∀ a, cntL a ks ≤ 1 := fun a => by have := hnd a; rw [cnt_mk] at this; omega
    have hndc := hnd c
    rw [cnt_mk] at hndc
    simp only [findIn] at hf
    by_cases hpj : (p == j) = true
    · simp only [hpj, if_true, Option.some.injEq] at hf
      subst hf
      have : (removeIn c (Node.mk j k d as ks)).1.id = j := removeIn_id c _
      have hroot := findIn_root (removeIn c (Node.mk j k d as ks)).1
      rw [this] at hroot
      have hpj' : p = j := by simpa using hpj
      rw [hpj']; exact hroot
    · have hpjf : (p == j) = false := by simpa using hpj
      simp only [hpjf, Bool.false_eq_true, if_false] at hf
      simp only [removeIn] at hx ⊢
      cases hA : removeInL c as with
      | mk as' xa =>
        cases xa with
        | some y =>
          simp only [hA] at hx ⊢
          have hy := hx y rfl
          have hcA := removeInL_count c as as' (some y) hA
          simp only at hcA
          have hcy := cnt_id_pos y
          rw [hcA.1] at hcy
          have h3 := hcA.2 c
          simp only [findIn, hpjf, Bool.false_eq_true, if_false]
          cases hFA : findInL p as with
          | some q =>
            simp [hFA] at hf; subst hf
            have ih := findInL_removeInL p c as q has hFA (fun x hx' => by rw [hA] at hx'; simp at hx'; subst hx'; exact hy)
            rw [hA] at ih
            simp [ih]
          | none =>
            simp [hFA] at hf
            -- p is not among the attributes, before or after; c is not among the children
            have hp0 : cntL p as' = 0 := by
              have h4 := hcA.2 p
              cases hcp : cntL p as with
              | zero => omega
              | succ m =>
                obtain ⟨n, hn⟩ := findInL_of_pos p as (by omega)
                rw [hFA] at hn; cases hn
            have hcks : cntL c ks = 0 := by omega
            have hpn := findInL_some p ks pn hf
            have hcpn : cnt c pn = 0 := by have := hpn.2 c; omega
            rw [removeIn_none_of_absent c pn hcpn]
            simp [findInL_none p as' hp0, hf]
        | none =>
          simp only [hA] at hx ⊢
          have hcas : cntL c as = 0 := removeInL_none_cnt c as as' hA
          have hA' := removeInL_count c as as' none hA
          simp only at hA'
          simp only [findIn, hpjf, Bool.false_eq_true, if_false]
          cases hFA : findInL p as with
          | some q =>
            simp [hFA] at hf; subst hf
            have hq := findInL_some p as q hFA
            have hcq : cnt c q = 0 := by have := hq.2 c; omega
            rw [removeIn_none_of_absent c q hcq]
            simp [hFA]
          | none =>
            simp [hFA] at hf
            have ih := findInL_removeInL p c ks pn hks hf (fun x hx' => hx x hx')
            simp [hFA, ih]
theorem findInL_removeInL (p c : Nat) : (l : List Node) → (pn : Node) → (∀ a, cntL a l ≤ 1) → findInL p l = some pn →
    (∀ x, (removeInL c l).2 = some x → cnt p x = 0) → findInL p (removeInL c l).1 = some (removeIn c pn).1
  | [], pn, _, hf, _ => by simp [findInL] at hf
  | n :: r, pn, hnd, hf, hx => by
    have hn : ∀ a, cnt a n ≤ 1 := fun a => by have := hnd a; rw [cntL_cons] at this; omega
    have hr : ∀ a, cntL a r ≤ 1 := fun a => by have := hnd a; rw [cntL_cons] at this; omega
    have hndc := hnd c
    rw [cntL_cons] at hndc
    have hndp := hnd p
    rw [cntL_cons] at hndp
    simp only [findInL] at hf
    simp only [removeInL] at hx ⊢
    by_cases hid : (n.id == c) = true
    · have hnc : n.id = c := by simpa using hid
      simp only [hid, if_true] at hx ⊢
      have hpn0 := hx n rfl
      have hcn := cnt_id_pos n
      rw [hnc] at hcn
      rw [findIn_none p n hpn0] at hf
      simp at hf
      have hpn := findInL_some p r pn hf
      have hcpn : cnt c pn = 0 := by have := hpn.2 c; omega
      rw [removeIn_none_of_absent c pn hcpn]
      exact hf
    · have hidf : (n.id == c) = false := by simpa using hid
      have hnne : n.id ≠ c := by simpa using hid
      simp only [hidf, Bool.false_eq_true, if_false] at hx ⊢
      cases hrm : removeIn c n with
      | mk n' xn =>
        cases xn with
        | some y =>
          simp only [hrm] at hx ⊢
          have hy := hx y rfl
          have hcn := removeIn_count c n n' (some y) hrm
          simp only at hcn
          have hcy := cnt_id_pos y
          rw [hcn.1] at hcy
          have h3 := hcn.2 c
          simp only [findInL]
          cases hFN : findIn p n with
          | some q =>
            simp [hFN] at hf; subst hf
            have ih := findIn_removeIn p c n q hn hnne hFN (fun x hx' => by rw [hrm] at hx'; simp at hx'; subst hx'; exact hy)
            rw [hrm] at ih
            simp [ih]
          | none =>
            simp [hFN] at hf
            have hp0 : cnt p n' = 0 := by
              have h4 := hcn.2 p
              cases hcp : cnt p n with
              | zero => omega
              | succ m =>
                obtain ⟨q, hq⟩ := findIn_of_pos p n (by omega)
                rw [hFN] at hq; cases hq
            have hcr : cntL c r = 0 := by omega
            have hpn := findInL_some p r pn hf
            have hcpn : cnt c pn = 0 := by have := hpn.2 c; omega
            rw [removeIn_none_of_absent c pn hcpn]
            simp [findIn_none p n' hp0, hf]
        | none =>
          simp only [hrm] at hx ⊢
          have hcn0 : cnt c n = 0 := removeIn_none_cnt c n n' hrm hnne
          simp only [findInL]
          cases hFN : findIn p n with
          | some q =>
            simp [hFN] at hf; subst hf
            have hq := findIn_some p n q hFN
            have hcq : cnt c q = 0 := by have := hq.2 c; omega
            rw [removeIn_none_of_absent c q hcq]
            simp
          | none =>
            simp [hFN] at hf
            have ih := findInL_removeInL p c r pn hr hf (fun x hx' => hx x hx')
            simp [ih]
end


theorem removeInL_root (c : Nat) : ∀ (l : List Node) (n : Node), (∀ a, cntL a l ≤ 1) → l.find? (·.id == c) = some n →
    removeInL c l = (l.filter (·.id != c), some n)
  | [], n, _, hf => by simp at hf
  | t :: r, n, hnd, hf => by
    have hr : ∀ a, cntL a r ≤ 1 := fun a => by have := hnd a; rw [cntL_cons] at this; omega
    have hndc := hnd c
    rw [cntL_cons] at hndc
    simp only [removeInL]
    by_cases ht : (t.id == c) = true
    · simp only [List.find?, ht, Option.some.injEq] at hf
      subst hf
      have htc : t.id = c := by simpa using ht
      have h2 := cnt_id_pos t
      rw [htc] at h2
      have hb : (t.id != c) = false := by simp [htc]
      simp only [ht, if_true, List.filter, hb]
      rw [filter_root_absent c r (by omega)]
    · have htf : (t.id == c) = false := by simpa using ht
      simp only [List.find?, htf] at hf
      have hb : (t.id != c) = true := by simp [bne, htf]
      have ih := removeInL_root c r n hr hf
      have hpos : 0 < cntL c r := by
        have := List.find?_some hf
        have hm := List.mem_of_find?_eq_some hf
        have h1 := rootCnt_pos_of_mem n r hm
        have h2 := cntL_split n.id r
        have : n.id = c := by simpa using this
        rw [this] at h1 h2; omega
      have h0 : cnt c t = 0 := by omega
      simp only [htf, Bool.false_eq_true, if_false, removeIn_none_of_absent c t h0, ih, List.filter, hb]

/-- `detach` is `removeInL` on the forest (for any node but the document node) -/
theorem detach_eq_removeInL (s s1 : St) (c : Nat) (x : Option Node) (hnd : ∀ a, cntL a s.roots ≤ 1) (hne : s.doc.id ≠ c)
    (h : s.detach c = (s1, x)) : s1.roots = (removeInL c s.roots).1 ∧ x = (removeInL c s.roots).2 := by
  have hdet : ∀ b, cntL b s.detached ≤ 1 := fun b => by have := hnd b; rw [cntL_roots] at this; omega
  have hidf : (s.doc.id == c) = false := by simpa using hne
  unfold St.detach at h
  simp only [St.roots, removeInL, hidf, Bool.false_eq_true, if_false]
  split at h
  · next n hF =>
    simp only [Prod.mk.injEq] at h
    obtain ⟨rfl, rfl⟩ := h
    have hr := removeInL_root c s.detached n hdet hF
    have hpos : 0 < cntL c s.detached := by
      have hm := List.mem_of_find?_eq_some hF
      have := List.find?_some hF
      have h1 := rootCnt_pos_of_mem n s.detached hm
      have h2 := cntL_split n.id s.detached
      have : n.id = c := by simpa using this
      rw [this] at h1 h2; omega
    have h0 : cnt c s.doc = 0 := by have := hnd c; rw [cntL_roots] at this; omega
    simp [removeIn_none_of_absent c s.doc h0, hr]
  · next hF =>
    split at h
    · next d' n hR =>
      simp only [Prod.mk.injEq] at h
      obtain ⟨rfl, rfl⟩ := h
      simp [hR]
    · next d' hR =>
      split at h
      next det' xr hD =>
      simp only [Prod.mk.injEq] at h
      obtain ⟨rfl, rfl⟩ := h
      have hd : d' = s.doc := by
        have := removeIn_count c s.doc d' none hR
        simpa using this
      simp [hR, hD, hd]

/-- after `c` was taken out, any node `p` outside `c`'s subtree is found as before, minus `c` below it -/
theorem find_after_detach (s s1 : St) (c p : Nat) (x pn : Node) (hnd : ∀ a, cntL a s.roots ≤ 1) (hne : s.doc.id ≠ c)
    (h : s.detach c = (s1, some x)) (hp : s.find p = some pn) (hpx : cnt p x = 0) :
    s1.find p = some (removeIn c pn).1 := by
  obtain ⟨hr, hx⟩ := detach_eq_removeInL s s1 c (some x) hnd hne h
  unfold St.find at hp ⊢
  rw [hr]
  apply findInL_removeInL p c s.roots pn hnd hp
  intro y hy
  rw [← hx] at hy
  simp only [Option.some.injEq] at hy
  subst hy; exact hpx

theorem kids_mapKids' (g : List Node → List Node) (n : Node) : (n.mapKids g).kids = g n.kids := by cases n; rfl

/-- a function on nodes that keeps the id of the node it is applied to -/
def KeepsId (f : Node → Node) : Prop := ∀ n, (f n).id = n.id

theorem findInL_none_cnt (i : Nat) (l : List Node) (h : findInL i l = none) : cntL i l = 0 := by
  cases hc : cntL i l with
  | zero => rfl
  | succ m =>
    obtain ⟨n, hn⟩ := findInL_of_pos i l (by omega)
    rw [h] at hn; cases hn

mutual
/-- FIND AFTER UPDATE: the updated node is found, updated -/
theorem findIn_updateIn (i : Nat) (f : Node → Node) (hf : KeepsId f) : (t nn : Node) → (∀ a, cnt a t ≤ 1) →
    findIn i t = some nn → findIn i (updateIn i f t) = some (f nn)
  | .mk j k d as ks, nn, hnd, h => by
    simp only [findIn] at h
    simp only [updateIn]
    by_cases hij : (i == j) = true
    · simp only [hij, if_true, Option.some.injEq] at h ⊢
      subst h
      have hid : (f (Node.mk j k d as ks)).id = j := hf _
      have := findIn_root (f (Node.mk j k d as ks))
      rw [hid] at this
      have hij' : i = j := by simpa using hij
      rw [hij']; exact this
    · have hijf : (i == j) = false := by simpa using hij
      simp only [hijf, Bool.false_eq_true, if_false] at h ⊢
      have hndi := hnd i
      rw [cnt_mk] at hndi
      simp only [findIn, hijf, Bool.false_eq_true, if_false]
      cases hA : findInL i as with
      | some q =>
        simp [hA] at h; subst h
        have ih := findInL_updateInL i f hf as q (fun a => by have := hnd a; rw [cnt_mk] at this; omega) hA
        simp [ih]
      | none =>
        simp [hA] at h
        have h0 := findInL_none_cnt i as hA
        rw [updateInL_absent i f as h0]
        have ih := findInL_updateInL i f hf ks nn (fun a => by have := hnd a; rw [cnt_mk] at this; omega) h
        simp [hA, ih]
theorem findInL_updateInL (i : Nat) (f : Node → Node) (hf : KeepsId f) : (l : List Node) → (nn : Node) →
    (∀ a, cntL a l ≤ 1) → findInL i l = some nn → findInL i (updateInL i f l) = some (f nn)
  | [], nn, _, h => by simp [findInL] at h
  | t :: r, nn, hnd, h => by
    simp only [findInL] at h
    simp only [updateInL, findInL]
    cases hT : findIn i t with
    | some q =>
      simp [hT] at h; subst h
      have ih := findIn_updateIn i f hf t q (fun a => by have := hnd a; rw [cntL_cons] at this; omega) hT
      simp [ih]
    | none =>
      simp [hT] at h
      have h0 : cnt i t = 0 := by
        cases hc : cnt i t with
        | zero => rfl
        | succ m =>
          obtain ⟨n, hn⟩ := findIn_of_pos i t (by omega)
          rw [hT] at hn; cases hn
      rw [updateIn_absent i f t h0]
      have ih := findInL_updateInL i f hf r nn (fun a => by have := hnd a; rw [cntL_cons] at this; omega) h
      simp [hT, ih]
end

theorem find_update (s : St) (i : Nat) (f : Node → Node) (hf : KeepsId f) (nn : Node) (hnd : ∀ a, cntL a s.roots ≤ 1)
    (h : s.find i = some nn) : (s.update i f).find i = some (f nn) := by
  unfold St.find at h ⊢
  rw [update_roots]
  exact findInL_updateInL i f hf s.roots nn hnd h

/-- the ids of a child list after `insertBeforeL` -/
def insertBeforeIds (c : Nat) (ref : Option Nat) : List Nat → List Nat
  | [] => [c]
  | n :: r => match ref with
    | some i => if n == i then c :: n :: r else n :: insertBeforeIds c ref r
    | none => n :: insertBeforeIds c ref r

theorem insertBeforeL_ids (x : Node) (ref : Option Nat) (l : List Node) :
    (insertBeforeL x ref l).map (·.id) = insertBeforeIds x.id ref (l.map (·.id)) := by
  induction l with
  | nil => simp [insertBeforeL, insertBeforeIds]
  | cons n r ih =>
    cases ref with
    | none => simp [insertBeforeL, insertBeforeIds, ih]
    | some i =>
      simp only [insertBeforeL, List.map_cons, insertBeforeIds]
      split <;> simp [ih]

theorem insertBeforeIds_none (c : Nat) (l : List Nat) : insertBeforeIds c none l = l ++ [c] := by
  induction l with
  | nil => rfl
  | cons n r ih => simp [insertBeforeIds, ih]

theorem insertChild_ok_shape (s s' : St) (p c c' : Nat) (ref : Option Nat) (h : insertChild s p c ref = (s', .node c')) :
    ∃ pn cn s1 x, s.find p = some pn ∧ s.find c = some cn ∧ (c == s.doc.id) = false ∧
      s.isAncestorOrSelf c p = false ∧ s.detach c = (s1, some x) ∧
      s' = s1.update p (Node.mapKids (insertBeforeL x (adjustRef pn c ref))) := by
  unfold insertChild at h
  repeat' split at h
  all_goals first
    | (simp only [Prod.mk.injEq] at h
       refine ⟨_, _, _, _, by assumption, by assumption, ?_, ?_, by assumption, h.1.symm⟩
       · simp_all
       · simp_all)
    | (simp at h)

/-- EFFECT of a successful `insertBefore` / `appendChild` (DOM Level 1: "inserts the node newChild before
    the existing child node refChild … if the newChild is already in the tree, it is first removed"):
    afterwards the parent's children are its former children without `c`, in their order, with `c`
    put in front of the reference child (at the end when there is none) -/
theorem insertChild_effect (s s' : St) (p c c' : Nat) (ref : Option Nat) (hi : Inv s)
    (h : insertChild s p c ref = (s', .node c')) :
    ∃ pn pn', s.find p = some pn ∧ s'.find p = some pn' ∧
      pn'.kids.map (·.id) = insertBeforeIds c (adjustRef pn c ref) ((pn.kids.map (·.id)).filter (· != c)) := by
  obtain ⟨pn, cn, s1, x, hp, hc, hdoc, hanc, hd, rfl⟩ := insertChild_ok_shape s s' p c c' ref h
  have hne : s.doc.id ≠ c := by intro he; rw [he] at hdoc; simp at hdoc
  have hfx := detach_find s s1 c (some x) hi.1 hne hd
  rw [hc] at hfx
  simp only [Option.some.injEq] at hfx
  subst hfx
  have hx : cnt p cn = 0 := by
    unfold St.isAncestorOrSelf at hanc
    rw [hc] at hanc
    exact not_contains_cnt _ _ hanc
  have hp1 := find_after_detach s s1 c p cn pn hi.1 hne hd hp hx
  obtain ⟨_, _, hsome, _⟩ := detach_count s s1 c (some cn) hi.1 hd
  obtain ⟨hid, hcnt⟩ := hsome cn rfl
  have hnd1 : ∀ a, cntL a s1.roots ≤ 1 := fun a => by have := hcnt a; have := hi.1 a; omega
  have hk : KeepsId (Node.mapKids (insertBeforeL cn (adjustRef pn c ref))) := fun n => by cases n; rfl
  have hp2 := find_update s1 p _ hk _ hnd1 hp1
  refine ⟨pn, _, hp, hp2, ?_⟩
  have hpn := findInL_some p s.roots pn hp
  have hndpn : ∀ a, cnt a pn ≤ 1 := fun a => Nat.le_trans (hpn.2 a) (hi.1 a)
  rw [kids_mapKids', insertBeforeL_ids, removeIn_kids_ids c pn hndpn, hid]

/-! ### a node of the forest is determined by its id -/
mutual
/-- `m` occurs as a subtree of `t` (as `t` itself, below an attribute, or below a child) -/
def isSub (m : Node) : Node → Prop
  | .mk j k d as ks => m = .mk j k d as ks ∨ isSubL m as ∨ isSubL m ks
def isSubL (m : Node) : List Node → Prop
  | [] => False
  | t :: r => isSub m t ∨ isSubL m r
end

mutual
theorem isSub_cnt (m : Node) (a : Nat) : (t : Node) → isSub m t → cnt a m ≤ cnt a t
  | .mk j k d as ks, h => by
    simp only [isSub] at h
    rcases h with rfl | h | h
    · exact Nat.le_refl _
    · have := isSubL_cnt m a as h; rw [cnt_mk]; omega
    · have := isSubL_cnt m a ks h; rw [cnt_mk]; omega
theorem isSubL_cnt (m : Node) (a : Nat) : (l : List Node) → isSubL m l → cnt a m ≤ cntL a l
  | [], h => by simp [isSubL] at h
  | t :: r, h => by
    simp only [isSubL] at h
    rw [cntL_cons]
    rcases h with h | h
    · have := isSub_cnt m a t h; omega
    · have := isSubL_cnt m a r h; omega
end

theorem isSubL_of_mem (m : Node) (l : List Node) (h : m ∈ l) : isSubL m l := by
  induction l with
  | nil => cases h
  | cons t r ih =>
    simp only [isSubL]
    rcases List.mem_cons.mp h with rfl | h
    · left; cases m; simp [isSub]
    · right; exact ih h

mutual
/-- UNIQUENESS: in a tree with pairwise distinct ids, looking up the id of a subtree yields that subtree -/
theorem findIn_of_isSub (m : Node) : (t : Node) → (∀ a, cnt a t ≤ 1) → isSub m t → findIn m.id t = some m
  | .mk j k d as ks, hnd, h => by
    simp only [isSub] at h
    have hndm := hnd m.id
    rw [cnt_mk] at hndm
    have hmpos := cnt_id_pos m
    rcases h with rfl | h | h
    · exact findIn_root _
    · have hc := isSubL_cnt m m.id as h
      have hne : (m.id == j) = false := by
        cases hx : (m.id == j) with
        | false => rfl
        | true =>
          have : j = m.id := by simpa using (beq_iff_eq.mp hx).symm
          rw [this] at hndm; simp at hndm; omega
      have ih := findInL_of_isSubL m as (fun a => by have := hnd a; rw [cnt_mk] at this; omega) h
      simp [findIn, hne, ih]
    · have hc := isSubL_cnt m m.id ks h
      have hne : (m.id == j) = false := by
        cases hx : (m.id == j) with
        | false => rfl
        | true =>
          have : j = m.id := by simpa using (beq_iff_eq.mp hx).symm
          rw [this] at hndm; simp at hndm; omega
      have h0 : cntL m.id as = 0 := by
        have : (if (j == m.id) = true then 1 else 0) ≥ 0 := Nat.zero_le _
        omega
      have ih := findInL_of_isSubL m ks (fun a => by have := hnd a; rw [cnt_mk] at this; omega) h
      simp [findIn, hne, findInL_none m.id as h0, ih]
theorem findInL_of_isSubL (m : Node) : (l : List Node) → (∀ a, cntL a l ≤ 1) → isSubL m l → findInL m.id l = some m
  | [], _, h => by simp [isSubL] at h
  | t :: r, hnd, h => by
    simp only [isSubL] at h
    have hndm := hnd m.id
    rw [cntL_cons] at hndm
    have hmpos := cnt_id_pos m
    rcases h with h | h
    · have ih := findIn_of_isSub m t (fun a => by have := hnd a; rw [cntL_cons] at this; omega) h
      simp [findInL, ih]
    · have hc := isSubL_cnt m m.id r h
      have h0 : cnt m.id t = 0 := by omega
      have ih := findInL_of_isSubL m r (fun a => by have := hnd a; rw [cntL_cons] at this; omega) h
      simp [findInL, findIn_none m.id t h0, ih]
end

mutual
theorem isSub_of_findIn (i : Nat) : (t n : Node) → findIn i t = some n → isSub n t
  | .mk j k d as ks, n, h => by
    simp only [findIn] at h
    simp only [isSub]
    by_cases hij : (i == j) = true
    · simp only [hij, if_true, Option.some.injEq] at h
      exact Or.inl h.symm
    · simp only [hij] at h
      cases hA : findInL i as with
      | some q => simp [hA] at h; subst h; exact Or.inr (Or.inl (isSubL_of_findInL i as q hA))
      | none => simp [hA] at h; exact Or.inr (Or.inr (isSubL_of_findInL i ks n h))
theorem isSubL_of_findInL (i : Nat) : (l : List Node) → (n : Node) → findInL i l = some n → isSubL n l
  | [], n, h => by simp [findInL] at h
  | t :: r, n, h => by
    simp only [findInL] at h
    simp only [isSubL]
    cases hT : findIn i t with
    | some q => simp [hT] at h; subst h; exact Or.inl (isSub_of_findIn i t q hT)
    | none => simp [hT] at h; exact Or.inr (isSubL_of_findInL i r n h)
end

mutual
theorem isSub_trans (a b : Node) : (t : Node) → isSub a b → isSub b t → isSub a t
  | .mk j k d as ks, hab, hbt => by
    simp only [isSub] at hbt ⊢
    rcases hbt with rfl | h | h
    · simpa [isSub] using hab
    · exact Or.inr (Or.inl (isSubL_trans a b as hab h))
    · exact Or.inr (Or.inr (isSubL_trans a b ks hab h))
theorem isSubL_trans (a b : Node) : (l : List Node) → isSub a b → isSubL b l → isSubL a l
  | [], _, h => by simp [isSubL] at h
  | t :: r, hab, h => by
    simp only [isSubL] at h ⊢
    rcases h with h | h
    · exact Or.inl (isSub_trans a b t hab h)
    · exact Or.inr (isSubL_trans a b r hab h)
end

theorem kid_isSub (k pn : Node) (h : k ∈ pn.kids) : isSub k pn := by
  cases pn with
  | mk j kd d as ks =>
    simp only [isSub]
    exact Or.inr (Or.inr (isSubL_of_mem k ks h))

/-- the child of a found node is found by its own id -/
theorem find_kid (s : St) (hnd : ∀ a, cntL a s.roots ≤ 1) (p : Nat) (pn k : Node) (hp : s.find p = some pn)
    (hk : k ∈ pn.kids) : s.find k.id = some k := by
  unfold St.find at hp ⊢
  exact findInL_of_isSubL k s.roots hnd (isSubL_trans k pn s.roots (kid_isSub k pn hk) (isSubL_of_findInL p s.roots pn hp))

theorem findInL_append_left (i : Nat) (n : Node) : ∀ (l r : List Node), findInL i l = some n → findInL i (l ++ r) = some n
  | [], _, h => by simp [findInL] at h
  | t :: l, r, h => by
    simp only [findInL, List.cons_append] at h ⊢
    cases hT : findIn i t with
    | some q => simp [hT] at h ⊢; exact h
    | none => simp [hT] at h ⊢; exact findInL_append_left i n l r h

theorem removeChild_ok_shape (s s' : St) (p c c' : Nat) (h : removeChild s p c = (s', .node c')) :
    ∃ pn s1 x, s.find p = some pn ∧ (c == s.doc.id) = false ∧ pn.kids.any (·.id == c) = true ∧
      s.detach c = (s1, some x) ∧ s' = { s1 with detached := s1.detached ++ [x] } := by
  unfold removeChild at h
  repeat' split at h
  all_goals first
    | (simp only [Prod.mk.injEq] at h
       refine ⟨_, _, _, by assumption, ?_, ?_, by assumption, h.1.symm⟩
       · simp_all
       · simp_all)
    | (simp at h)

/-- EFFECT of a successful `removeChild` (DOM Level 1: "removes the child node indicated by oldChild from
    the list of children, and returns it"): the parent keeps its other children in their order, and the
    removed node — the very subtree that was found under its id — is now the root of a detached tree -/
theorem removeChild_effect (s s' : St) (p c c' : Nat) (hi : Inv s) (h : removeChild s p c = (s', .node c')) :
    ∃ pn pn' cn, s.find p = some pn ∧ s.find c = some cn ∧ s'.find p = some pn' ∧
      pn'.kids.map (·.id) = (pn.kids.map (·.id)).filter (· != c) ∧ cn ∈ s'.detached := by
  obtain ⟨pn, s1, x, hp, hdoc, hany, hd, rfl⟩ := removeChild_ok_shape s s' p c c' h
  have hne : s.doc.id ≠ c := by intro he; rw [he] at hdoc; simp at hdoc
  have hfx := detach_find s s1 c (some x) hi.1 hne hd
  -- the child with id c in p's child list is the node found under c
  obtain ⟨k, hk, hkc⟩ := List.any_eq_true.mp hany
  have hkc' : k.id = c := by simpa using hkc
  have hfk := find_kid s hi.1 p pn k hp hk
  rw [hkc'] at hfk
  rw [hfk] at hfx
  simp only [Option.some.injEq] at hfx
  subst hfx
  -- p is not below its own child
  have hpn := findInL_some p s.roots pn hp
  have hx : cnt p k = 0 := by
    have h1 := isSubL_cnt k p pn.kids (isSubL_of_mem k pn.kids hk)
    have h2 := cnt_eq_below p pn
    have h3 := Nat.le_trans (hpn.2 p) (hi.1 p)
    rw [hpn.1] at h2
    simp only [beq_self_eq_true, if_true] at h2
    unfold below at h2
    omega
  have hp1 := find_after_detach s s1 c p k pn hi.1 hne hd hp hx
  have hndpn : ∀ a, cnt a pn ≤ 1 := fun a => Nat.le_trans (hpn.2 a) (hi.1 a)
  refine ⟨pn, (removeIn c pn).1, k, hp, hfk, ?_, removeIn_kids_ids c pn hndpn, by simp⟩
  unfold St.find at hp1 ⊢
  simp only [St.roots] at hp1 ⊢
  have := findInL_append_left p (removeIn c pn).1 (s1.doc :: s1.detached) [k] hp1
  simpa using this

/-- what a data edit may not change of any OTHER node: its identity, its kind, its data -/
def sigD (n : Node) : Nat × Kind × Str := (n.id, n.kind, n.data)

theorem orElse_map_congr {α β : Type} (g : α → β) (a a' b b' : Option α)
    (h1 : a'.map g = a.map g) (h2 : b'.map g = b.map g) :
    (a'.orElse fun _ => b').map g = (a.orElse fun _ => b).map g := by
  cases a <;> cases a' <;> simp_all

mutual
theorem findIn_updateIn_other (i m : Nat) (d : Str) (hne : m ≠ i) : (t : Node) →
    (findIn m (updateIn i (Node.withData d) t)).map sigD = (findIn m t).map sigD
  | .mk j k dd as ks => by
    simp only [updateIn]
    by_cases hij : (i == j) = true
    · have hmj : (m == j) = false := by
        have : i = j := by simpa using hij
        subst this; simpa using hne
      simp [hij, Node.withData, findIn, hmj]
    · have hijf : (i == j) = false := by simpa using hij
      simp only [hijf, Bool.false_eq_true, if_false, findIn]
      by_cases hmj : (m == j) = true
      · simp [hmj, sigD, Node.id, Node.kind, Node.data]
      · have hmjf : (m == j) = false := by simpa using hmj
        simp only [hmjf, Bool.false_eq_true, if_false]
        exact orElse_map_congr sigD _ _ _ _ (findInL_updateInL_other i m d hne as) (findInL_updateInL_other i m d hne ks)
theorem findInL_updateInL_other (i m : Nat) (d : Str) (hne : m ≠ i) : (l : List Node) →
    (findInL m (updateInL i (Node.withData d) l)).map sigD = (findInL m l).map sigD
  | [] => rfl
  | t :: r => by
    simp only [updateInL, findInL]
    exact orElse_map_congr sigD _ _ _ _ (findIn_updateIn_other i m d hne t) (findInL_updateInL_other i m d hne r)
end

/-! ### replaceChild: the list algebra and the glue between node lists and id lists -/
theorem map_replace_id (old new : Nat) : ∀ (l : List Nat), old ∉ l → l.map (fun x => if x = old then new else x) = l
  | [], _ => rfl
  | x :: r, h => by
    simp only [List.mem_cons, not_or] at h
    have : ¬ x = old := fun e => h.1 e.symm
    simp [this, map_replace_id old new r h.2]

theorem head?_mem_of {l : List Nat} {i : Nat} (h : l.head? = some i) : i ∈ l := by
  cases l with
  | nil => simp at h
  | cons a b => simp at h; simp [h]

theorem insertBeforeIds_head (c : Nat) : ∀ (l : List Nat), insertBeforeIds c l.head? l = c :: l
  | [] => rfl
  | x :: r => by simp [insertBeforeIds]

theorem replace_ids (old new : Nat) (hne : new ≠ old) : ∀ (L : List Nat), L.Nodup → old ∈ L →
    insertBeforeIds new ((((L.dropWhile (· != old)).drop 1).filter (· != new)).head?) ((L.filter (· != old)).filter (· != new))
      = (L.filter (· != new)).map (fun x => if x = old then new else x)
  | [], _, hm => by simp at hm
  | x :: r, hnd, hm => by
    have hx : x ∉ r := (List.nodup_cons.mp hnd).1
    have hr : r.Nodup := (List.nodup_cons.mp hnd).2
    by_cases hxo : x = old
    · subst hxo
      have h1 : ((x :: r).dropWhile (· != x)).drop 1 = r := by simp [List.dropWhile]
      have h2 : (x :: r).filter (· != x) = r := by
        simp only [List.filter, bne_self_eq_false]
        exact List.filter_eq_self.mpr (fun a ha => by simpa using (fun e : a = x => hx (e ▸ ha)))
      have h3 : (x :: r).filter (· != new) = x :: r.filter (· != new) := by
        have : (x != new) = true := by simpa using (fun e : x = new => hne e.symm)
        simp [List.filter, this]
      rw [h1, h2, h3, insertBeforeIds_head]
      have hnm : x ∉ r.filter (· != new) := fun h => hx (List.mem_filter.mp h).1
      rw [List.map_cons, map_replace_id x new _ hnm]; simp
    · have hm' : old ∈ r := by
        rcases List.mem_cons.mp hm with h | h
        · exact absurd h.symm hxo
        · exact h
      have hxo' : (x != old) = true := by simpa using hxo
      have ih := replace_ids old new hne r hr hm'
      have hdw : (x :: r).dropWhile (· != old) = r.dropWhile (· != old) := by simp [List.dropWhile, hxo']
      rw [hdw]
      by_cases hxn : x = new
      · subst hxn
        have e1 : ((x :: r).filter (· != old)).filter (· != x) = (r.filter (· != old)).filter (· != x) := by
          simp [List.filter, hxo']
        have e2 : (x :: r).filter (· != x) = r.filter (· != x) := by simp [List.filter]
        rw [e1, e2]; exact ih
      · have hxn' : (x != new) = true := by simpa using hxn
        have e1 : ((x :: r).filter (· != old)).filter (· != new) = x :: (r.filter (· != old)).filter (· != new) := by
          simp [List.filter, hxo', hxn']
        have e2 : (x :: r).filter (· != new) = x :: r.filter (· != new) := by simp [List.filter, hxn']
        rw [e1, e2]
        simp only [List.map_cons, hxo, if_false]
        rw [← ih]
        cases href : (((r.dropWhile (· != old)).drop 1).filter (· != new)).head? with
        | none => simp [insertBeforeIds]
        | some i =>
          have hi : i ∈ r := by
            have := head?_mem_of href
            have := (List.mem_filter.mp this).1
            exact (List.dropWhile_sublist _).subset (List.mem_of_mem_drop this)
          have : (x == i) = false := by simpa using (fun e : x = i => hx (e ▸ hi))
          simp [insertBeforeIds, this]


theorem count_ids_le (a : Nat) : ∀ (l : List Node), count a (l.map (·.id)) ≤ cntL a l
  | [] => by simp
  | n :: r => by
    have ih := count_ids_le a r
    rw [cntL_cons]
    cases n with
    | mk j k d as ks =>
      have e : (Node.mk j k d as ks :: r).map (·.id) = j :: r.map (·.id) := rfl
      rw [e, List.count_cons, cnt_mk]
      split <;> omega

theorem cntL_kids_le' (a : Nat) (t : Node) : cntL a t.kids ≤ cnt a t := by
  cases t with
  | mk j k d as ks => simp only [Node.kids, cnt_mk]; omega

theorem kids_ids_nodup (s : St) (hi : Inv s) (p : Nat) (pn : Node) (hp : s.find p = some pn) : (pn.kids.map (·.id)).Nodup := by
  rw [List.nodup_iff_count]
  intro a
  have hsub := isSubL_of_findInL p s.roots pn hp
  have h1 := isSubL_cnt pn a s.roots hsub
  have h2 := hi.1 a
  have h3 := cntL_kids_le' a pn
  have h4 := count_ids_le a pn.kids
  omega

theorem map_id_dropWhile (old : Nat) : ∀ (l : List Node), (l.dropWhile (·.id != old)).map (·.id) = (l.map (·.id)).dropWhile (· != old)
  | [] => rfl
  | n :: r => by
    simp only [List.dropWhile, List.map_cons]
    split <;> simp_all [map_id_dropWhile old r]

theorem map_id_filter (new : Nat) : ∀ (l : List Node), (l.filter (·.id != new)).map (·.id) = (l.map (·.id)).filter (· != new)
  | [] => rfl
  | n :: r => by
    simp only [List.filter, List.map_cons]
    split <;> simp_all [map_id_filter new r]

theorem ref_ids (pn : Node) (old new : Nat) :
    ((((pn.kids.dropWhile (·.id != old)).drop 1).filter (·.id != new)).head?.map (·.id))
      = ((((pn.kids.map (·.id)).dropWhile (· != old)).drop 1).filter (· != new)).head? := by
  rw [← map_id_dropWhile, ← List.map_drop, ← map_id_filter, List.head?_map]

end XmlRs.Dom
