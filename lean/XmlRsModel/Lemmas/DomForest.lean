import XmlRsModel.Dom
/-! Lemmas about the forest of DOM trees: how `findIn`, `removeIn`, `updateIn` act on the pre-order
    list of node ids.  Everything is phrased with `List.count` so that the bookkeeping is linear
    arithmetic (`omega`): a multiset equation `A ++ lost ~ B ++ extra` reads
    `∀ a, count a A + count a lost = count a B + count a extra`. -/
namespace XmlRs.Dom
open List

theorem idsOfL_append (a b : List Node) : idsOfL (a ++ b) = idsOfL a ++ idsOfL b := by
  induction a with
  | nil => simp [idsOfL]
  | cons n r ih => simp [idsOfL, ih]

theorem idsOfL_singleton (n : Node) : idsOfL [n] = idsOf n := by simp [idsOfL]

/-- number of occurrences of id `a` in a tree / a forest -/
abbrev cnt (a : Nat) (t : Node) : Nat := count a (idsOf t)
abbrev cntL (a : Nat) (l : List Node) : Nat := count a (idsOfL l)

theorem cnt_mk (a j : Nat) (k : Kind) (d : Str) (as ks : List Node) :
    cnt a (.mk j k d as ks) = (if j == a then 1 else 0) + cntL a as + cntL a ks := by
  simp only [cnt, cntL, idsOf, count_cons, count_append]; omega

theorem cntL_nil (a : Nat) : cntL a [] = 0 := by simp [cntL, idsOfL]

theorem cntL_cons (a : Nat) (n : Node) (r : List Node) : cntL a (n :: r) = cnt a n + cntL a r := by
  simp [cnt, cntL, idsOfL, count_append]

theorem cntL_append (a : Nat) (x y : List Node) : cntL a (x ++ y) = cntL a x + cntL a y := by
  simp [cntL, idsOfL_append, count_append]

theorem cnt_id_pos (t : Node) : 0 < cnt t.id t := by
  cases t with
  | mk j k d as ks => simp [cnt_mk, Node.id]; omega

theorem mem_ids_iff (a : Nat) (t : Node) : a ∈ idsOf t ↔ 0 < cnt a t := by
  simp [cnt, count_pos_iff]

theorem mem_idsL_iff (a : Nat) (l : List Node) : a ∈ idsOfL l ↔ 0 < cntL a l := by
  simp [cntL, count_pos_iff]

/-! ### find -/
mutual
theorem findIn_none (i : Nat) : (t : Node) → cnt i t = 0 → findIn i t = none
  | .mk j k d as ks, h => by
    rw [cnt_mk] at h
    have h1 : (i == j) = false := by
      cases hj : (i == j) with
      | false => rfl
      | true => have : j = i := by simpa using (beq_iff_eq.mp hj).symm
                subst this; simp at h
    have h2 : cntL i as = 0 := by omega
    have h3 : cntL i ks = 0 := by omega
    simp [findIn, h1, findInL_none i as h2, findInL_none i ks h3]
theorem findInL_none (i : Nat) : (l : List Node) → cntL i l = 0 → findInL i l = none
  | [], _ => by simp [findInL]
  | n :: r, h => by
    rw [cntL_cons] at h
    simp [findInL, findIn_none i n (by omega), findInL_none i r (by omega)]
end

mutual
/-- what `findIn` returns has the id asked for and is part of the tree: its ids are counted in -/
theorem findIn_some (i : Nat) : (t : Node) → (n : Node) → findIn i t = some n →
    n.id = i ∧ ∀ a, cnt a n ≤ cnt a t
  | .mk j k d as ks, n, h => by
    simp only [findIn] at h
    by_cases hij : (i == j) = true
    · simp only [hij, if_true, Option.some.injEq] at h
      subst h
      exact ⟨by simpa [Node.id] using (beq_iff_eq.mp hij).symm, fun a => Nat.le_refl _⟩
    · simp only [hij] at h
      cases hA : findInL i as with
      | some x =>
        simp [hA] at h; subst h
        have := findInL_some i as x hA
        exact ⟨this.1, fun a => by rw [cnt_mk]; have := this.2 a; omega⟩
      | none =>
        simp [hA] at h
        have := findInL_some i ks n h
        exact ⟨this.1, fun a => by rw [cnt_mk]; have := this.2 a; omega⟩
theorem findInL_some (i : Nat) : (l : List Node) → (n : Node) → findInL i l = some n →
    n.id = i ∧ ∀ a, cnt a n ≤ cntL a l
  | [], n, h => by simp [findInL] at h
  | t :: r, n, h => by
    simp only [findInL] at h
    cases hA : findIn i t with
    | some x =>
      simp [hA] at h; subst h
      have := findIn_some i t x hA
      exact ⟨this.1, fun a => by rw [cntL_cons]; have := this.2 a; omega⟩
    | none =>
      simp [hA] at h
      have := findInL_some i r n h
      exact ⟨this.1, fun a => by rw [cntL_cons]; have := this.2 a; omega⟩
end

theorem findInL_some_mem (i : Nat) (l : List Node) (n : Node) (h : findInL i l = some n) : 0 < cntL i l := by
  have := findInL_some i l n h
  have h2 := this.2 i
  have h3 := cnt_id_pos n
  rw [this.1] at h3
  omega

theorem findIn_some_mem (i : Nat) (t : Node) (n : Node) (h : findIn i t = some n) : 0 < cnt i t := by
  have := findIn_some i t n h
  have h2 := this.2 i
  have h3 := cnt_id_pos n
  rw [this.1] at h3
  omega

/-! ### update -/
mutual
theorem updateIn_absent (i : Nat) (f : Node → Node) : (t : Node) → cnt i t = 0 → updateIn i f t = t
  | .mk j k d as ks, h => by
    rw [cnt_mk] at h
    have h1 : (i == j) = false := by
      cases hj : (i == j) with
      | false => rfl
      | true => have : j = i := by simpa using (beq_iff_eq.mp hj).symm
                subst this; simp at h
    simp [updateIn, h1, updateInL_absent i f as (by omega), updateInL_absent i f ks (by omega)]
theorem updateInL_absent (i : Nat) (f : Node → Node) : (l : List Node) → cntL i l = 0 → updateInL i f l = l
  | [], _ => by simp [updateInL]
  | n :: r, h => by
    rw [cntL_cons] at h
    simp [updateInL, updateIn_absent i f n (by omega), updateInL_absent i f r (by omega)]
end

mutual
/-- UPDATE: in a tree whose ids are pairwise distinct, replacing the node `nn` with id `i` by `f nn`
    changes the multiset of ids exactly as `f` changes it on `nn` -/
theorem updateIn_count (i : Nat) (f : Node → Node) (nn : Node) (lost extra : List Nat)
    (hf : ∀ a, cnt a (f nn) + count a lost = cnt a nn + count a extra) :
    (t : Node) → (∀ a, cnt a t ≤ 1) → findIn i t = some nn →
      ∀ a, cnt a (updateIn i f t) + count a lost = cnt a t + count a extra
  | .mk j k d as ks, hnd, hfind, a => by
    simp only [findIn] at hfind
    by_cases hij : (i == j) = true
    · simp only [hij, if_true, Option.some.injEq] at hfind
      subst hfind
      simp only [updateIn, hij, if_true]
      exact hf a
    · simp only [hij] at hfind
      have hndi := hnd i
      rw [cnt_mk] at hndi
      simp only [updateIn, hij, Bool.false_eq_true, if_false]
      cases hA : findInL i as with
      | some x =>
        simp [hA] at hfind; subst hfind
        have hm := findInL_some_mem i as x hA
        have hks : updateInL i f ks = ks := updateInL_absent i f ks (by omega)
        have ih := updateInL_count i f x lost extra hf as
          (fun b => by have := hnd b; rw [cnt_mk] at this; omega) hA a
        rw [hks, cnt_mk, cnt_mk]; omega
      | none =>
        simp [hA] at hfind
        have hm := findInL_some_mem i ks nn hfind
        have has : updateInL i f as = as := updateInL_absent i f as (by omega)
        have ih := updateInL_count i f nn lost extra hf ks
          (fun b => by have := hnd b; rw [cnt_mk] at this; omega) hfind a
        rw [has, cnt_mk, cnt_mk]; omega
theorem updateInL_count (i : Nat) (f : Node → Node) (nn : Node) (lost extra : List Nat)
    (hf : ∀ a, cnt a (f nn) + count a lost = cnt a nn + count a extra) :
    (l : List Node) → (∀ a, cntL a l ≤ 1) → findInL i l = some nn →
      ∀ a, cntL a (updateInL i f l) + count a lost = cntL a l + count a extra
  | [], _, hfind, _ => by simp [findInL] at hfind
  | t :: r, hnd, hfind, a => by
    simp only [findInL] at hfind
    have hndi := hnd i
    rw [cntL_cons] at hndi
    simp only [updateInL]
    cases hA : findIn i t with
    | some x =>
      simp [hA] at hfind; subst hfind
      have hm := findIn_some_mem i t x hA
      have hr : updateInL i f r = r := updateInL_absent i f r (by omega)
      have ih := updateIn_count i f x lost extra hf t
        (fun b => by have := hnd b; rw [cntL_cons] at this; omega) hA a
      rw [hr, cntL_cons, cntL_cons]; omega
    | none =>
      simp [hA] at hfind
      have hm := findInL_some_mem i r nn hfind
      have ht : updateIn i f t = t := updateIn_absent i f t (by omega)
      have ih := updateInL_count i f nn lost extra hf r
        (fun b => by have := hnd b; rw [cntL_cons] at this; omega) hfind a
      rw [ht, cntL_cons, cntL_cons]; omega
end

/-! ### remove -/
mutual
/-- REMOVE: what is taken out and what stays add up to what there was; a miss changes nothing -/
theorem removeIn_count (i : Nat) : (t t' : Node) → (x : Option Node) → removeIn i t = (t', x) →
    (match x with
     | some n => n.id = i ∧ ∀ a, cnt a t' + cnt a n = cnt a t
     | none => t' = t)
  | .mk j k d as ks, t', x, h => by
    simp only [removeIn] at h
    cases hA : removeInL i as with
    | mk as' xa =>
      cases xa with
      | some n =>
        simp only [hA, Prod.mk.injEq] at h
        obtain ⟨rfl, rfl⟩ := h
        have := removeInL_count i as as' (some n) hA
        exact ⟨this.1, fun a => by rw [cnt_mk, cnt_mk]; have := this.2 a; omega⟩
      | none =>
        have hA' := removeInL_count i as as' none hA
        simp only at hA'
        simp only [hA] at h
        cases hK : removeInL i ks with
        | mk ks' xk =>
          have := removeInL_count i ks ks' xk hK
          simp only [hK, Prod.mk.injEq] at h
          obtain ⟨rfl, rfl⟩ := h
          cases xk with
          | some n => exact ⟨this.1, fun a => by rw [cnt_mk, cnt_mk]; have := this.2 a; omega⟩
          | none => simp only at this; rw [this]
theorem removeInL_count (i : Nat) : (l l' : List Node) → (x : Option Node) → removeInL i l = (l', x) →
    (match x with
     | some n => n.id = i ∧ ∀ a, cntL a l' + cnt a n = cntL a l
     | none => l' = l)
  | [], l', x, h => by
    simp only [removeInL, Prod.mk.injEq] at h
    obtain ⟨rfl, rfl⟩ := h; rfl
  | t :: r, l', x, h => by
    simp only [removeInL] at h
    by_cases hid : (t.id == i) = true
    · simp only [hid, if_true, Prod.mk.injEq] at h
      obtain ⟨rfl, rfl⟩ := h
      exact ⟨by simpa using hid, fun a => by rw [cntL_cons]; omega⟩
    · simp only [hid] at h
      cases hT : removeIn i t with
      | mk t1 xt =>
        cases xt with
        | some n =>
          simp only [hT, Prod.mk.injEq] at h
          obtain ⟨rfl, rfl⟩ := h
          have := removeIn_count i t t1 (some n) hT
          exact ⟨this.1, fun a => by rw [cntL_cons, cntL_cons]; have := this.2 a; omega⟩
        | none =>
          simp only [hT] at h
          cases hR : removeInL i r with
          | mk r' xr =>
            have := removeInL_count i r r' xr hR
            simp only [hR, Prod.mk.injEq] at h
            obtain ⟨rfl, rfl⟩ := h
            cases x with
            | some n => exact ⟨this.1, fun a => by rw [cntL_cons, cntL_cons]; have := this.2 a; omega⟩
            | none => simp only at this; rw [this]
end

/-! ### find succeeds on what is there; remove returns what find returns -/
mutual
theorem findIn_of_pos (i : Nat) : (t : Node) → 0 < cnt i t → ∃ n, findIn i t = some n
  | .mk j k d as ks, h => by
    rw [cnt_mk] at h
    simp only [findIn]
    by_cases hij : (i == j) = true
    · exact ⟨.mk j k d as ks, by simp [hij]⟩
    · simp only [hij, Bool.false_eq_true, if_false]
      have hji : (j == i) = false := by
        cases hx : (j == i) with
        | false => rfl
        | true => exfalso; apply hij; simpa using (beq_iff_eq.mp hx).symm
      simp only [hji, Bool.false_eq_true, if_false] at h
      by_cases hA : 0 < cntL i as
      · obtain ⟨n, hn⟩ := findInL_of_pos i as hA
        exact ⟨n, by simp [hn]⟩
      · obtain ⟨n, hn⟩ := findInL_of_pos i ks (by omega)
        cases hB : findInL i as with
        | some m => exact ⟨m, by simp⟩
        | none => exact ⟨n, by simp [hn]⟩
theorem findInL_of_pos (i : Nat) : (l : List Node) → 0 < cntL i l → ∃ n, findInL i l = some n
  | [], h => by simp [cntL_nil] at h
  | t :: r, h => by
    rw [cntL_cons] at h
    simp only [findInL]
    by_cases hA : 0 < cnt i t
    · obtain ⟨n, hn⟩ := findIn_of_pos i t hA
      exact ⟨n, by simp [hn]⟩
    · obtain ⟨n, hn⟩ := findInL_of_pos i r (by omega)
      cases hB : findIn i t with
      | some m => exact ⟨m, by simp⟩
      | none => exact ⟨n, by simp [hn]⟩
end

theorem findIn_root (t : Node) : findIn t.id t = some t := by
  cases t with
  | mk j k d as ks => simp [findIn, Node.id]

mutual
theorem removeIn_find (i : Nat) : (t t' : Node) → (x : Option Node) → removeIn i t = (t', x) → t.id ≠ i →
    findIn i t = x
  | .mk j k d as ks, t', x, h, hne => by
    have hij : (i == j) = false := by
      cases hx : (i == j) with
      | false => rfl
      | true => exfalso; apply hne; simpa [Node.id] using (beq_iff_eq.mp hx).symm
    simp only [removeIn] at h
    simp only [findIn, hij, Bool.false_eq_true, if_false]
    cases hA : removeInL i as with
    | mk as' xa =>
      have fa := removeInL_find i as as' xa hA
      cases xa with
      | some n =>
        simp only [hA, Prod.mk.injEq] at h
        obtain ⟨_, rfl⟩ := h
        simp [fa]
      | none =>
        simp only [hA] at h
        cases hK : removeInL i ks with
        | mk ks' xk =>
          have fk := removeInL_find i ks ks' xk hK
          simp only [hK, Prod.mk.injEq] at h
          obtain ⟨_, rfl⟩ := h
          simp [fa, fk]
theorem removeInL_find (i : Nat) : (l l' : List Node) → (x : Option Node) → removeInL i l = (l', x) →
    findInL i l = x
  | [], l', x, h => by
    simp only [removeInL, Prod.mk.injEq] at h
    obtain ⟨_, rfl⟩ := h
    simp [findInL]
  | t :: r, l', x, h => by
    simp only [removeInL] at h
    simp only [findInL]
    by_cases hid : (t.id == i) = true
    · simp only [hid, if_true, Prod.mk.injEq] at h
      obtain ⟨_, rfl⟩ := h
      have : t.id = i := by simpa using hid
      rw [← this, findIn_root]; simp
    · simp only [hid] at h
      have hne : t.id ≠ i := by simpa using hid
      cases hT : removeIn i t with
      | mk t1 xt =>
        have ft := removeIn_find i t t1 xt hT hne
        cases xt with
        | some n =>
          simp only [hT, Prod.mk.injEq] at h
          obtain ⟨_, rfl⟩ := h
          simp [ft]
        | none =>
          simp only [hT] at h
          cases hR : removeInL i r with
          | mk r' xr =>
            have fr := removeInL_find i r r' xr hR
            simp only [hR, Prod.mk.injEq] at h
            obtain ⟨_, rfl⟩ := h
            simp [ft, fr]
end

end XmlRs.Dom
