import XmlRsModel.Lemmas.RunsAttr
import XmlRsModel.Lemmas.DataValidPI
/-! Completeness of the leaf items of element content: character data, CDATA sections, processing instructions,
    comments (fuel-free reading `Runs`). -/
namespace XmlRs.Lex
open XmlRs Gen.Xml XmlRs.Names

theorem Runs.flatten {env : Env} {g : G} {s r : Str} {c : CST} (h : Runs env g s (.ok c r)) : c.flatten ++ r = s := by
  obtain ⟨n, h⟩ := h
  exact ((run_sound env n).1 g s c r (h n (Nat.le_refl _))).2

/-! ### the `until0` scanner -/
theorem strip_none_append : ∀ (p a Y : Str), stripPrefix p a = none → p.length ≤ a.length → stripPrefix p (a ++ Y) = none
  | [], a, Y, h, _ => by simp [stripPrefix] at h
  | c :: p', [], Y, _, hl => by simp at hl
  | c :: p', d :: a', Y, h, hl => by
    simp only [List.cons_append, stripPrefix] at h ⊢
    split
    · next e => simp only [e, if_true] at h; exact strip_none_append p' a' Y h (by simpa using hl)
    · rfl

theorem strip_some_append : ∀ (p a x Y : Str), stripPrefix p a = some x → stripPrefix p (a ++ Y) = some (x ++ Y)
  | [], a, x, Y, h => by simp [stripPrefix] at h ⊢; rw [h]
  | c :: p', [], x, Y, h => by simp [stripPrefix] at h
  | c :: p', d :: a', x, Y, h => by
    simp only [List.cons_append, stripPrefix] at h ⊢
    split
    · next e => simp only [e, if_true] at h; exact strip_some_append p' a' x Y h
    · next e => simp [e] at h

theorem splitAtSub_some_length (pat : Str) : ∀ (s a b : Str), splitAtSub pat s = some (a, b) → pat.length ≤ s.length
  | [], a, b, h => by
    simp only [splitAtSub] at h
    split at h
    · next e => simp [e]
    · cases h
  | c :: cs, a, b, h => by
    simp only [splitAtSub] at h
    split at h
    · next x hx => have := stripPrefix_some hx; rw [this]; simp
    · split at h
      · next a' b' hrec => have := splitAtSub_some_length pat cs a' b' hrec; simp; omega
      · cases h

/-- appending text behind an occurrence does not move the first occurrence -/
theorem splitAtSub_append_right (pat : Str) (hp : pat ≠ []) : ∀ (s a b Y : Str), splitAtSub pat s = some (a, b) →
    splitAtSub pat (s ++ Y) = some (a, b ++ Y)
  | [], a, b, Y, h => by simp [splitAtSub, hp] at h
  | c :: cs, a, b, Y, h => by
    simp only [splitAtSub] at h
    split at h
    · next x hx =>
      simp only [Option.some.injEq, Prod.mk.injEq] at h
      obtain ⟨rfl, rfl⟩ := h
      simp only [List.cons_append, splitAtSub]
      have := strip_some_append pat (c :: cs) x Y hx
      simp only [List.cons_append] at this
      rw [this]
    · next hn =>
      split at h
      · next a' b' hrec =>
        simp only [Option.some.injEq, Prod.mk.injEq] at h
        obtain ⟨rfl, rfl⟩ := h
        have hl := splitAtSub_some_length pat cs a' b' hrec
        have := strip_none_append pat (c :: cs) Y hn (by simp; omega)
        simp only [List.cons_append] at this
        simp only [List.cons_append, splitAtSub, this, splitAtSub_append_right pat hp cs a' b' Y hrec]
      · cases h

theorem hasSub_false {pat s : Str} (h : hasSub pat s = false) : splitAtSub pat s = none := by
  simp only [hasSub] at h
  cases hs : splitAtSub pat s with
  | none => rfl
  | some x => simp [hs] at h

/-- the scanner in front of its stop string, whatever follows: `]]>` -/
theorem until_suf (s r : Str) (hs : s.all P.isChar = true) (hsub : hasSub C15.suf s = false) :
    runUntil0 P.isChar C15.suf (s ++ (C15.suf ++ r)) = (.leaf s, C15.suf ++ r) := by
  have hsp : spanP P.isChar (s ++ (C15.suf ++ r)) = (s ++ (C15.suf ++ (spanP P.isChar r).1), (spanP P.isChar r).2) := by
    rw [C15.spanP_append_all _ _ _ hs, C15.spanP_append_all _ _ _ (by decide : C15.suf.all P.isChar = true)]
  have h1 := C15.split_suf_append s (hasSub_false hsub)
  have h2 := splitAtSub_append_right C15.suf (by decide) _ _ _ (spanP P.isChar r).1 h1
  simp only [List.append_assoc] at h2
  simp only [runUntil0, hsp, h2, List.append_assoc, spanP_append]

/-- the scanner in front of `?>` -/
theorem until_qg (s r : Str) (hs : s.all P.isChar = true) (hsub : hasSub C15.qg s = false) :
    runUntil0 P.isChar C15.qg (s ++ (C15.qg ++ r)) = (.leaf s, C15.qg ++ r) := by
  have hsp : spanP P.isChar (s ++ (C15.qg ++ r)) = (s ++ (C15.qg ++ (spanP P.isChar r).1), (spanP P.isChar r).2) := by
    rw [C15.spanP_append_all _ _ _ hs, C15.spanP_append_all _ _ _ (by decide : C15.qg.all P.isChar = true)]
  have h1 := C15.split_qg_append s (hasSub_false hsub)
  have h2 := splitAtSub_append_right C15.qg (by decide) _ _ _ (spanP P.isChar r).1 h1
  simp only [List.append_assoc] at h2
  simp only [runUntil0, hsp, h2, List.append_assoc, spanP_append]

/-! ### character data -/
abbrev cdChar : Char → Bool := P.except P.isChar ['<', '&']

def cstCharData (s : Str) : CST := .node N.char_data (.leaf s)

theorem runs_char_data {s r : Str} (hs : s.all cdChar = true) (hsub : hasSub C15.suf s = false) (hr : Stops cdChar r) :
    Runs env (.nt N.char_data) (s ++ r) (.ok (cstCharData s) r) := by
  have h60 : Char.ofNat 60 = '<' := rfl
  have h38 : Char.ofNat 38 = '&' := rfl
  have h93 : Char.ofNat 93 = ']' := rfl
  have h62 : Char.ofNat 62 = '>' := rfl
  apply Runs.nt_of env_char_data
  unfold Prod.char_data
  rw [h60, h38, h93, h62]
  have := Runs.until0 (env := env) cdChar C15.suf (s ++ r)
  simp only [runUntil0, span_stop hs hr, hasSub_false hsub] at this
  exact this

theorem cd_lt : cdChar '<' = false := by decide
theorem cd_amp : cdChar '&' = false := by decide

/-- between two pieces of markup the optional character data is empty -/
theorem runs_char_data_empty {r : Str} (hr : Stops cdChar r) : Runs env (.nt N.char_data) r (.ok (cstCharData []) r) := by
  have := runs_char_data (s := []) (r := r) rfl (by decide) hr
  simpa using this

/-! ### CDATA sections -/
def cstCData (s : Str) : CST :=
  .node N.cdsect (.seq [.leaf cdataOpen, .leaf s, .leaf [']', ']', '>']])

theorem runs_cdsect {s : Str} (r : Str) (hs : s.all P.isChar = true) (hsub : hasSub C15.suf s = false) :
    Runs env (.nt N.cdsect) (cdataText s ++ r) (.ok (cstCData s) r) := by
  have e0 : [Char.ofNat 60,Char.ofNat 33,Char.ofNat 91,Char.ofNat 67,Char.ofNat 68,Char.ofNat 65,Char.ofNat 84,Char.ofNat 65,Char.ofNat 91] = cdataOpen := rfl
  have e1 : [Char.ofNat 93,Char.ofNat 93,Char.ofNat 62] = C15.suf := rfl
  apply Runs.nt_of env_cdsect
  unfold Prod.cdsect
  rw [e0, e1]
  have hu := Runs.until0 (env := env) P.isChar C15.suf (s ++ (C15.suf ++ r))
  rw [until_suf s r hs hsub] at hu
  have : cdataText s ++ r = cdataOpen ++ (s ++ (C15.suf ++ r)) := by simp [cdataText]
  rw [this]
  exact Runs.seq (RunsSeq.cons (Runs.tag_ok _ _) (RunsSeq.cons hu (RunsSeq.cons (Runs.tag_ok C15.suf r) (RunsSeq.nil _))))

/-! ### processing instructions -/
def piBody (b : Str) : CST :=
  if b = [] then .seq [] else .seq [.leaf (spanP P.isSpace b).1, .leaf (spanP P.isSpace b).2]

def cstPI (t b : Str) : CST :=
  .node N.pi (.seq [.leaf ['<', '?'], .seq [.node N.pi_target (cstName t), piBody b], .leaf ['?', '>']])

theorem nc_q : P.isNameChar '?' = false := by decide
theorem sp_q : P.isSpace '?' = false := by decide

theorem okPI_parts {t b : Str} (h : okPI t b = true) :
    t.all P.isNameChar = true ∧ P.eqIgnoreAsciiCase t ['x', 'm', 'l'] = false ∧
    (b = [] ∨ ∃ c b', b = c :: b' ∧ P.isSpace c = true) ∧ b.all P.isChar = true ∧ hasSub ['?', '>'] b = false := by
  simp only [okPI, Bool.and_eq_true, Bool.not_eq_true'] at h
  obtain ⟨⟨⟨⟨h1, h2⟩, h3⟩, h4⟩, h5⟩ := h
  refine ⟨h1, h2, ?_, h4, h5⟩
  cases b with
  | nil => exact .inl rfl
  | cons c b' => exact .inr ⟨c, b', rfl, h3⟩

theorem runs_pi {t b : Str} (r : Str) (h : okPI t b = true) :
    Runs env (.nt N.pi) (piText t b ++ r) (.ok (cstPI t b) r) := by
  obtain ⟨h1, h2, h3, h4, h5⟩ := okPI_parts h
  have e0 : [Char.ofNat 60, Char.ofNat 63] = ['<', '?'] := rfl
  have e1 : [Char.ofNat 63, Char.ofNat 62] = C15.qg := rfl
  have e2 : [Char.ofNat 120, Char.ofNat 109, Char.ofNat 108] = ['x', 'm', 'l'] := rfl
  apply Runs.nt_of env_pi
  unfold Prod.pi
  rw [e0, e1]
  have htxt : piText t b ++ r = ['<', '?'] ++ (t ++ (b ++ (C15.qg ++ r))) := by simp [piText]
  rw [htxt]
  have hX : Stops P.isNameChar (b ++ (C15.qg ++ r)) := by
    rcases h3 with rfl | ⟨c, b', rfl, hc⟩
    · exact Stops.cons _ nc_q
    · apply Stops.cons
      cases hn : P.isNameChar c with
      | false => rfl
      | true => have := space_not_nameChar c hn; simp [hc] at this
  have htarget : Runs env (.nt N.pi_target) (t ++ (b ++ (C15.qg ++ r))) (.ok (.node N.pi_target (cstName t)) (b ++ (C15.qg ++ r))) := by
    apply Runs.nt_of env_pi_target
    unfold Prod.pi_target
    rw [e2]
    exact Runs.verify_ok (runs_name h1 hX) (by simp [cstName_flatten, h2])
  refine Runs.seq (RunsSeq.cons (Runs.tag_ok _ _) (RunsSeq.cons (Runs.seq (RunsSeq.cons htarget (RunsSeq.cons ?_ (RunsSeq.nil _))))
    (RunsSeq.cons (Runs.tag_ok C15.qg r) (RunsSeq.nil _))))
  rcases h3 with rfl | ⟨c, b', rfl, hc⟩
  · simp only [piBody, if_true, List.nil_append]
    exact Runs.opt_none (Runs.seq_fail (RunsSeq.fail_head (runs_cls1_fail (Stops.cons _ sp_q))))
  · simp only [piBody, List.cons_ne_nil, if_false]
    apply Runs.opt_some
    have hsp : spanP P.isSpace ((c :: b') ++ (C15.qg ++ r)) = ((spanP P.isSpace (c :: b')).1, (spanP P.isSpace (c :: b')).2 ++ (C15.qg ++ r)) :=
      span_append_stops P.isSpace (Stops.cons _ sp_q) (c :: b')
    have hne : (spanP P.isSpace ((c :: b') ++ (C15.qg ++ r))).1 ≠ [] := by
      rw [hsp]; simp [spanP, hc]
    have hcls := Runs.cls1_ok (env := env) hne
    rw [hsp] at hcls
    obtain ⟨w1, w2⟩ := C15.ws_prefix (c :: b')
    have hu := Runs.until0 (env := env) P.isChar C15.qg ((spanP P.isSpace (c :: b')).2 ++ (C15.qg ++ r))
    rw [until_qg _ r (by rw [← w1]; exact h4) (by rw [← w2]; exact h5)] at hu
    exact Runs.seq (RunsSeq.cons hcls (RunsSeq.cons hu (RunsSeq.nil _)))

/-! ### comments -/
mutual
/-- a tree without labelled nodes -/
def leafy : CST → Bool
  | .leaf _ => true
  | .node _ _ => false
  | .seq ks => leafyL ks
  | .many ks => leafyL ks
def leafyL : List CST → Bool
  | [] => true
  | c :: cs => leafy c && leafyL cs
end

theorem okCommentBody_eq : ∀ s : Str, okCommentBody s = C15.isCommentBody s := by
  intro s
  fun_induction okCommentBody s <;> simp_all [C15.isCommentBody]

theorem runs_gC_fail_dash (r : Str) (hr : Stops C15.nd r) : Runs env C15.gC ('-' :: r) .fail := by
  unfold C15.gC
  exact Runs.seq_fail (RunsSeq.fail_tail (Runs.opt_some (Runs.tag_ok ['-'] r)) (RunsSeq.fail_head (runs_cls1_fail hr)))

/-- the iterations of the comment loop `(('-')? (Char - '-')+)*` on a comment body, as trees -/
def commentIters : Nat → Str → List CST
  | 0, _ => []
  | _ + 1, [] => []
  | n + 1, c :: t =>
    if c = '-' then CST.seq [.leaf ['-'], .leaf (spanP C15.nd t).1] :: commentIters n (spanP C15.nd t).2
    else CST.seq [.seq [], .leaf (spanP C15.nd (c :: t)).1] :: commentIters n (spanP C15.nd t).2

theorem commentIters_leafy : ∀ (n : Nat) (s : Str), leafyL (commentIters n s) = true
  | 0, _ => rfl
  | _ + 1, [] => rfl
  | n + 1, c :: t => by
    simp only [commentIters]
    split <;> simp [leafyL, leafy, commentIters_leafy n]

theorem runs_comment_loop : ∀ (n : Nat) (s : Str), s.length ≤ n → C15.isCommentBody s = true → ∀ r : Str,
    RunsMany env C15.gC (s ++ (C15.dashEnd ++ r)) (.ok (commentIters n s) (C15.dashEnd ++ r)) := by
  intro n
  induction n with
  | zero =>
    intro s hs _ r
    have : s = [] := List.eq_nil_of_length_eq_zero (by omega)
    subst this
    exact RunsMany.stop (runs_gC_fail_dash _ (Stops.cons _ C15.nd_dash))
  | succ n ih =>
    intro s hs hb r
    match s, hs, hb with
    | [], _, _ => exact RunsMany.stop (runs_gC_fail_dash _ (Stops.cons _ C15.nd_dash))
    | c :: t, hs, hb =>
      simp only [List.length_cons] at hs
      by_cases hc : c = '-'
      · subst hc
        have he : (spanP C15.nd t).1 ≠ [] := fun he => by simp [C15.body_dash_false t he] at hb
        have hsp := span_append_stops C15.nd (Stops.cons (['-', '>'] ++ r) C15.nd_dash) t
        have hlen := C15.spanP_snd_length C15.nd t
        have hb' : C15.isCommentBody (spanP C15.nd t).2 = true := by
          cases t with
          | nil => simp [spanP] at he
          | cons d r' =>
            have hd : C15.nd d = true := by
              by_cases hx : C15.nd d = true
              · exact hx
              · exact absurd ((C15.spanP_fst_nil_iff C15.nd d r').2 (by simpa using hx)) he
            rw [C15.body_dash d r' hd, C15.body_span (d :: r')] at hb
            exact hb
        have h1 := ih (spanP C15.nd t).2 (by omega) hb' r
        simp only [commentIters, if_true]
        have hsp' : spanP C15.nd (t ++ (C15.dashEnd ++ r)) = ((spanP C15.nd t).1, (spanP C15.nd t).2 ++ (C15.dashEnd ++ r)) := by
          simpa [C15.dashEnd] using hsp
        have hcls := Runs.cls1_ok (env := env) (p := C15.nd) (s := t ++ (C15.dashEnd ++ r)) (by rw [hsp']; exact he)
        rw [hsp'] at hcls
        refine RunsMany.step (r := (spanP C15.nd t).2 ++ (C15.dashEnd ++ r)) ?_ ?_ h1
        · unfold C15.gC
          exact Runs.seq (RunsSeq.cons (Runs.opt_some (Runs.tag_ok ['-'] _)) (RunsSeq.cons hcls (RunsSeq.nil _)))
        · simp only [List.length_append, List.length_cons]; omega
      · have hsp := span_append_stops C15.nd (Stops.cons (['-', '>'] ++ r) C15.nd_dash) (c :: t)
        have hcN : C15.nd c = true := by
          rw [C15.body_nondash c t hc] at hb
          simp only [Bool.and_eq_true] at hb
          rw [C15.nd_iff]; simp [hb.1, hc]
        have he : (spanP C15.nd (c :: t)).1 ≠ [] := by simp [spanP, hcN]
        have e2 : (spanP C15.nd (c :: t)).2 = (spanP C15.nd t).2 := by simp [spanP, hcN]
        have hlen := C15.spanP_snd_length C15.nd t
        have hb' : C15.isCommentBody (spanP C15.nd t).2 = true := by
          rw [C15.body_span (c :: t), e2] at hb; exact hb
        have h1 := ih (spanP C15.nd t).2 (by omega) hb' r
        simp only [commentIters, hc, if_false]
        have hsp' : spanP C15.nd ((c :: t) ++ (C15.dashEnd ++ r)) = ((spanP C15.nd (c :: t)).1, (spanP C15.nd (c :: t)).2 ++ (C15.dashEnd ++ r)) := by
          simpa [C15.dashEnd] using hsp
        have hcls := Runs.cls1_ok (env := env) (p := C15.nd) (s := (c :: t) ++ (C15.dashEnd ++ r)) (by rw [hsp']; exact he)
        rw [hsp', e2] at hcls
        refine RunsMany.step (r := (spanP C15.nd t).2 ++ (C15.dashEnd ++ r)) ?_ ?_ h1
        · unfold C15.gC
          refine Runs.seq (RunsSeq.cons (Runs.opt_none (Runs.tag_fail ?_)) (RunsSeq.cons hcls (RunsSeq.nil _)))
          exact strip_cons_ne _ _ (fun e => hc e.symm)
        · simp only [List.length_append, List.length_cons]; omega

def cstComment (s : Str) : CST :=
  .node N.comment (.seq [.leaf ['<', '!', '-', '-'], .many (commentIters s.length s), .leaf C15.dashEnd])

theorem runs_comment {s : Str} (r : Str) (h : okCommentBody s = true) :
    Runs env (.nt N.comment) (commentText s ++ r) (.ok (cstComment s) r) := by
  rw [okCommentBody_eq] at h
  have h1 := runs_comment_loop s.length s (Nat.le_refl _) h r
  have e0 : [Char.ofNat 60, Char.ofNat 33, Char.ofNat 45, Char.ofNat 45] = ['<', '!', '-', '-'] := rfl
  have e1 : [Char.ofNat 45, Char.ofNat 45, Char.ofNat 62] = C15.dashEnd := rfl
  apply Runs.nt_of env_comment
  unfold Prod.comment
  rw [e0, e1, C15.gC_eq]
  have : commentText s ++ r = ['<', '!', '-', '-'] ++ (s ++ (C15.dashEnd ++ r)) := by simp [commentText, C15.dashEnd]
  rw [this]
  exact Runs.seq (RunsSeq.cons (Runs.tag_ok _ _) (RunsSeq.cons (Runs.many h1) (RunsSeq.cons (Runs.tag_ok C15.dashEnd r) (RunsSeq.nil _))))

end XmlRs.Lex
