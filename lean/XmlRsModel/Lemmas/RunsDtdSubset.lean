import XmlRsModel.Lemmas.RunsDtdElem
/-! Completeness of element declarations, the internal subset and the DOCTYPE declaration. -/
namespace XmlRs.Lex
open XmlRs Gen.Xml XmlRs.Names

/-! ### content specifications -/
def cstMixedNames (names : List (Str × Str × QN)) : List CST := sepCsts cstQN names

def cstSpec : CSpec → CST
  | .empty => .node N.content_spec (.leaf ['E', 'M', 'P', 'T', 'Y'])
  | .any => .node N.content_spec (.leaf ['A', 'N', 'Y'])
  | .mixedStar w0 names w1 => .node N.content_spec (.node N.mixed (.seq [.seq [.leaf ['('], .leaf w0, .leaf kwPCDATA],
      .many (cstMixedNames names), .seq [.leaf w1, .leaf [')', '*']]]))
  | .mixedPlain w0 w1 => .node N.content_spec (.node N.mixed (.seq [.leaf ['('], .leaf w0, .leaf kwPCDATA, .leaf w1, .leaf [')']]))
  | .children w0 f ch rest w1 o => .node N.content_spec (.node N.children (mkGroupBody w0 (cstCp f) ch (cstTail ch rest) w1 o))

theorem namesText_eq (l : List (Str × Str × QN)) : namesText l = sepTextG QN.text l := rfl

theorem all_sep_qn {names : List (Str × Str × QN)} (h : names.all (fun (a, b, n) => okWs a && okWs b && okQN n) = true) :
    names.all (okSepItem okQN) = true := by
  rw [List.all_eq_true] at h ⊢
  intro y hy; obtain ⟨a, b, n⟩ := y; simpa [okSepItem] using h _ hy

theorem sp_hash : P.isSpace '#' = false := by decide

/-- the tail of an element declaration stops a content particle -/
theorem cpEnd_close {w : Str} (hw : okWs w = true) (Y : Str) : CpEnd (w ++ '>' :: Y) := cpEnd_ws_then hw occ_gt Y

theorem runs_content_spec {spec : CSpec} (h : okSpec spec = true) {w2 : Str} (hw2 : okWs w2 = true) (Y : Str) :
    Runs env (.nt N.content_spec) (spec.str ++ (w2 ++ '>' :: Y)) (.ok (cstSpec spec) (w2 ++ '>' :: Y)) := by
  have eE : [Char.ofNat 69,Char.ofNat 77,Char.ofNat 80,Char.ofNat 84,Char.ofNat 89] = ['E', 'M', 'P', 'T', 'Y'] := rfl
  have eA : [Char.ofNat 65,Char.ofNat 78,Char.ofNat 89] = ['A', 'N', 'Y'] := rfl
  have e40 : [Char.ofNat 40] = ['('] := rfl
  have e41 : [Char.ofNat 41] = [')'] := rfl
  have e41s : [Char.ofNat 41, Char.ofNat 42] = [')', '*'] := rfl
  have e124 : [Char.ofNat 124] = ['|'] := rfl
  have eP : [Char.ofNat 35,Char.ofNat 80,Char.ofNat 67,Char.ofNat 68,Char.ofNat 65,Char.ofNat 84,Char.ofNat 65] = kwPCDATA := rfl
  cases spec with
  | empty =>
    apply Runs.nt_of env_content_spec
    unfold Prod.content_spec
    rw [eE]
    exact Runs.alt (RunsAlt.hit (Runs.tag_ok _ _))
  | any =>
    apply Runs.nt_of env_content_spec
    unfold Prod.content_spec
    rw [eE, eA]
    exact Runs.alt (RunsAlt.skip (Runs.tag_fail (by simp [CSpec.str, stripPrefix])) (RunsAlt.hit (Runs.tag_ok _ _)))
  | mixedStar w0 names w1 =>
    simp only [okSpec, Bool.and_eq_true] at h
    obtain ⟨⟨h0, hn⟩, h1⟩ := h
    have hn' := all_sep_qn hn
    have htxt : (CSpec.mixedStar w0 names w1).str ++ (w2 ++ '>' :: Y) =
        '(' :: (w0 ++ (kwPCDATA ++ (sepTextG QN.text names ++ (w1 ++ ')' :: ('*' :: (w2 ++ '>' :: Y)))))) := by
      simp [CSpec.str, namesText_eq]
    rw [htxt]
    apply Runs.nt_of env_content_spec
    unfold Prod.content_spec
    rw [eE, eA]
    refine Runs.alt (RunsAlt.skip (Runs.tag_fail (by simp [stripPrefix])) (RunsAlt.skip (Runs.tag_fail (by simp [stripPrefix])) (RunsAlt.hit ?_)))
    apply Runs.nt_of env_mixed
    unfold Prod.mixed
    rw [e40, e41, e41s, e124, eP]
    refine Runs.alt (RunsAlt.hit (Runs.seq ?_))
    have hhead : Runs env (.seq [.tag ['('], .cls0 P.isSpace, .tag kwPCDATA])
        ('(' :: (w0 ++ (kwPCDATA ++ (sepTextG QN.text names ++ (w1 ++ ')' :: ('*' :: (w2 ++ '>' :: Y)))))))
        (.ok (.seq [.leaf ['('], .leaf w0, .leaf kwPCDATA]) (sepTextG QN.text names ++ (w1 ++ ')' :: ('*' :: (w2 ++ '>' :: Y))))) :=
      Runs.seq (RunsSeq.cons (Runs.tag_ok ['('] _) (RunsSeq.cons (runs_cls0 h0 (Stops.cons _ sp_hash)) (RunsSeq.cons (Runs.tag_ok kwPCDATA _) (RunsSeq.nil _))))
    have hloop := runs_sep_loop QN.text okQN (.nt N.qname) cstQN (fun x hx => okQN_text_head hx)
      (fun x Y hx hY => runs_qname hx hY) names w1 ('*' :: (w2 ++ '>' :: Y)) hn' h1
    have hclose : Runs env (.seq [.cls0 P.isSpace, .tag [')', '*']]) (w1 ++ ')' :: ('*' :: (w2 ++ '>' :: Y)))
        (.ok (.seq [.leaf w1, .leaf [')', '*']]) (w2 ++ '>' :: Y)) :=
      Runs.seq (RunsSeq.cons (runs_cls0 h1 (Stops.cons _ sp_rpar)) (RunsSeq.cons (Runs.tag_ok [')', '*'] _) (RunsSeq.nil _)))
    unfold barSep at hloop
    exact RunsSeq.cons hhead (RunsSeq.cons (Runs.many hloop) (RunsSeq.cons hclose (RunsSeq.nil _)))
  | mixedPlain w0 w1 =>
    simp only [okSpec, Bool.and_eq_true] at h
    obtain ⟨h0, h1⟩ := h
    have htxt : (CSpec.mixedPlain w0 w1).str ++ (w2 ++ '>' :: Y) = '(' :: (w0 ++ (kwPCDATA ++ (w1 ++ ')' :: (w2 ++ '>' :: Y)))) := by
      simp [CSpec.str]
    rw [htxt]
    apply Runs.nt_of env_content_spec
    unfold Prod.content_spec
    rw [eE, eA]
    refine Runs.alt (RunsAlt.skip (Runs.tag_fail (by simp [stripPrefix])) (RunsAlt.skip (Runs.tag_fail (by simp [stripPrefix])) (RunsAlt.hit ?_)))
    apply Runs.nt_of env_mixed
    unfold Prod.mixed
    rw [e40, e41, e41s, e124, eP]
    have hhead : Runs env (.seq [.tag ['('], .cls0 P.isSpace, .tag kwPCDATA]) ('(' :: (w0 ++ (kwPCDATA ++ (w1 ++ ')' :: (w2 ++ '>' :: Y)))))
        (.ok (.seq [.leaf ['('], .leaf w0, .leaf kwPCDATA]) (w1 ++ ')' :: (w2 ++ '>' :: Y))) :=
      Runs.seq (RunsSeq.cons (Runs.tag_ok ['('] _) (RunsSeq.cons (runs_cls0 h0 (Stops.cons _ sp_hash)) (RunsSeq.cons (Runs.tag_ok kwPCDATA _) (RunsSeq.nil _))))
    have hloop0 := runs_sep_loop QN.text okQN (.nt N.qname) cstQN (fun x hx => okQN_text_head hx)
      (fun x Y hx hY => runs_qname hx hY) [] w1 (w2 ++ '>' :: Y) rfl h1
    unfold barSep at hloop0
    simp only [sepTextG, List.nil_append, List.map_nil] at hloop0
    -- `)*` is missing: what follows `)` is white space or `>`
    have hnostar : stripPrefix [')', '*'] (')' :: (w2 ++ '>' :: Y)) = none := by
      cases w2 with
      | nil => simp [stripPrefix]
      | cons c cs =>
        simp only [okWs, List.all_cons, Bool.and_eq_true] at hw2
        have : c ≠ '*' := by intro e; subst e; have := hw2.1; revert this; decide
        simp [stripPrefix, Ne.symm this]
    refine Runs.alt (RunsAlt.skip (Runs.seq_fail ?_) (RunsAlt.hit (Runs.seq ?_)))
    · exact RunsSeq.fail_tail hhead (RunsSeq.fail_tail (Runs.many hloop0) (RunsSeq.fail_head (Runs.seq_fail
        (RunsSeq.fail_tail (runs_cls0 h1 (Stops.cons _ sp_rpar)) (RunsSeq.fail_head (Runs.tag_fail hnostar))))))
    · exact RunsSeq.cons (Runs.tag_ok ['('] _) (RunsSeq.cons (runs_cls0 h0 (Stops.cons _ sp_hash)) (RunsSeq.cons (Runs.tag_ok kwPCDATA _)
        (RunsSeq.cons (runs_cls0 h1 (Stops.cons _ sp_rpar)) (RunsSeq.cons (Runs.tag_ok [')'] _) (RunsSeq.nil _)))))
  | children w0 f ch rest w1 o =>
    simp only [okSpec] at h
    obtain ⟨h0, hf, _, _, _⟩ := okGroup_parts h
    obtain ⟨c, t, ec, hc1, hc2, _, _⟩ := cp_head f hf
    have hbody := runs_children_body w0 f ch rest w1 o h (w2 ++ '>' :: Y) (cpEnd_close hw2 Y)
    have htxt : (CSpec.children w0 f ch rest w1 o).str = (CCp.group w0 f ch rest w1 o).str := rfl
    rw [htxt]
    -- `mixed` fails: `#PCDATA` does not follow
    have hmixed : Runs env (.nt N.mixed) ((CCp.group w0 f ch rest w1 o).str ++ (w2 ++ '>' :: Y)) .fail := by
      rw [group_str]
      apply Runs.nt_fail_of env_mixed
      unfold Prod.mixed
      rw [e40, eP]
      have hfail : Runs env (.tag kwPCDATA) (f.str ++ (CCpTail.str ch rest ++ (w1 ++ ')' :: (o.str ++ (w2 ++ '>' :: Y))))) .fail := by
        rw [ec]; exact Runs.tag_fail (strip_cons_ne _ _ (Ne.symm hc2))
      have hsp : Stops P.isSpace (f.str ++ (CCpTail.str ch rest ++ (w1 ++ ')' :: (o.str ++ (w2 ++ '>' :: Y))))) := by
        rw [ec]; exact Stops.cons _ hc1
      refine Runs.alt (RunsAlt.skip (Runs.seq_fail (RunsSeq.fail_head (Runs.seq_fail ?_))) (RunsAlt.skip (Runs.seq_fail ?_) (RunsAlt.nil _)))
      · exact RunsSeq.fail_tail (Runs.tag_ok ['('] _) (RunsSeq.fail_tail (runs_cls0 h0 hsp) (RunsSeq.fail_head hfail))
      · exact RunsSeq.fail_tail (Runs.tag_ok ['('] _) (RunsSeq.fail_tail (runs_cls0 h0 hsp) (RunsSeq.fail_head hfail))
    apply Runs.nt_of env_content_spec
    unfold Prod.content_spec
    rw [eE, eA]
    refine Runs.alt (RunsAlt.skip (Runs.tag_fail (by rw [group_str]; simp [stripPrefix])) (RunsAlt.skip (Runs.tag_fail (by rw [group_str]; simp [stripPrefix]))
      (RunsAlt.skip hmixed (RunsAlt.hit ?_))))
    apply Runs.nt_of env_children
    unfold Prod.children
    exact hbody

/-! ### <!ELEMENT -/
def cstElementDecl (w0 : Str) (n : QN) (w1 : Str) (spec : CSpec) (w2 : Str) : CST :=
  .node N.element_decl (.seq [.seq [.leaf kwELEMENT, .leaf w0], .seq [cstQN n, .seq [.leaf w1, cstSpec spec]], .seq [.leaf w2, .leaf ['>']]])

theorem spec_stops_space (spec : CSpec) (Y : Str) : Stops P.isSpace (spec.str ++ Y) := by
  cases spec <;> exact Stops.cons _ (by decide)

theorem runs_element_decl {w0 : Str} {n : QN} {w1 : Str} {spec : CSpec} {w2 : Str} (h0 : okWs1 w0 = true) (hn : okQN n = true)
    (h1 : okWs1 w1 = true) (hs : okSpec spec = true) (h2 : okWs w2 = true) (Y : Str) :
    Runs env (.nt N.element_decl) ((CDtdItem.elementDecl w0 n w1 spec w2).str ++ Y) (.ok (cstElementDecl w0 n w1 spec w2) Y) := by
  have e0 : [Char.ofNat 60,Char.ofNat 33,Char.ofNat 69,Char.ofNat 76,Char.ofNat 69,Char.ofNat 77,Char.ofNat 69,Char.ofNat 78,Char.ofNat 84] = kwELEMENT := rfl
  have e1 : [Char.ofNat 62] = ['>'] := rfl
  obtain ⟨a1, a2⟩ := okWs1_parts h0
  obtain ⟨b1, b2⟩ := okWs1_parts h1
  apply Runs.nt_of env_element_decl
  unfold Prod.element_decl
  rw [e0, e1]
  have htxt : (CDtdItem.elementDecl w0 n w1 spec w2).str ++ Y = kwELEMENT ++ (w0 ++ (n.text ++ (w1 ++ (spec.str ++ (w2 ++ '>' :: Y))))) := by
    simp [CDtdItem.str]
  rw [htxt]
  exact Runs.seq (RunsSeq.cons (Runs.seq (RunsSeq.cons (Runs.tag_ok kwELEMENT _) (RunsSeq.cons (runs_cls1 a1 a2 (stops_space_name hn _)) (RunsSeq.nil _))))
    (RunsSeq.cons (Runs.seq (RunsSeq.cons (runs_qname hn (stops_nc_ws1 h1 _)) (RunsSeq.cons (Runs.seq (RunsSeq.cons (runs_cls1 b1 b2 (spec_stops_space spec _))
      (RunsSeq.cons (runs_content_spec hs h2 Y) (RunsSeq.nil _)))) (RunsSeq.nil _))))
    (RunsSeq.cons (runs_close h2 Y) (RunsSeq.nil _))))

end XmlRs.Lex
