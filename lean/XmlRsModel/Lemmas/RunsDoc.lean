import XmlRsModel.Lemmas.RunsDoctype
/-! Completeness of `document` for documents without DOCTYPE: optional XML declaration, prolog and epilogue of Misc
    items around the root element. -/
namespace XmlRs.Lex
open XmlRs Gen.Xml XmlRs.Names

def cstMisc : CMisc → CST
  | .comment s => .node N.misc (cstComment s)
  | .pi t b => .node N.misc (cstPI t b)
  | .ws w => .node N.misc (.leaf w)

def cstDeclOpt : Option CDecl → CST
  | none => .seq []
  | some x => cstDecl x

def cstDoctypePart : Option (CDoctype × List CMisc) → CST
  | none => .seq []
  | some (dt, ms) => .seq [cstDoctype dt, .many (ms.map cstMisc)]

def cstDoc (d : CDoc) : CST :=
  .node N.document (.seq [.node N.prolog (.seq [cstDeclOpt d.decl, .many (d.before.map cstMisc), cstDoctypePart d.doctype]),
                          cstItemNode d.root, .many (d.after.map cstMisc)])

/-- what ends a run of Misc items: the end of the input, or a tag that is neither a comment nor a PI -/
def MiscEnd (X : Str) : Prop := X = [] ∨ (∃ c r, X = '<' :: c :: r ∧ c ≠ '!' ∧ c ≠ '?') ∨ ∃ r, X = kwDOCTYPE ++ r

theorem MiscEnd.stops_space {X : Str} (h : MiscEnd X) : Stops P.isSpace X := by
  rcases h with rfl | ⟨c, r, rfl, _, _⟩ | ⟨r, rfl⟩
  · exact Stops.nil
  · exact Stops.cons _ (by decide)
  · exact Stops.cons _ (by decide)

theorem misc_fails_at_end {X : Str} (h : MiscEnd X) : Runs env (.nt N.misc) X .fail := by
  apply Runs.nt_fail_of env_misc
  unfold Prod.misc
  rcases h with rfl | ⟨c, r, rfl, h1, h2⟩ | ⟨r, rfl⟩
  · exact Runs.alt (RunsAlt.skip comment_fails_nil (RunsAlt.skip pi_fails_nil (RunsAlt.skip (runs_cls1_fail Stops.nil) (RunsAlt.nil _))))
  · exact Runs.alt (RunsAlt.skip (comment_fails_on c r h1) (RunsAlt.skip (pi_fails_on c r h2)
      (RunsAlt.skip (runs_cls1_fail (Stops.cons _ (by decide))) (RunsAlt.nil _))))
  · have hc : Runs env (.nt N.comment) (kwDOCTYPE ++ r) .fail := by
      have e0 : [Char.ofNat 60, Char.ofNat 33, Char.ofNat 45, Char.ofNat 45] = ['<', '!', '-', '-'] := rfl
      apply Runs.nt_fail_of env_comment
      unfold Prod.comment
      rw [e0]
      exact Runs.seq_fail (RunsSeq.fail_head (Runs.tag_fail (by simp [kwDOCTYPE, stripPrefix])))
    exact Runs.alt (RunsAlt.skip hc (RunsAlt.skip (pi_fails_on '!' _ (by decide))
      (RunsAlt.skip (runs_cls1_fail (Stops.cons _ (by decide))) (RunsAlt.nil _))))

theorem okMiscWs_parts {w : Str} (h : okMisc (.ws w) = true) : w ≠ [] ∧ okWs w = true := by
  simpa [okMisc] using h

theorem runs_misc (m : CMisc) (hok : okMisc m = true) (Y : Str) (hY : isWsMisc m = true → Stops P.isSpace Y) :
    Runs env (.nt N.misc) (m.str ++ Y) (.ok (cstMisc m) Y) := by
  cases m with
  | comment s =>
    apply Runs.nt_of env_misc
    unfold Prod.misc
    exact Runs.alt (RunsAlt.hit (runs_comment Y hok))
  | pi t b =>
    apply Runs.nt_of env_misc
    unfold Prod.misc
    refine Runs.alt (RunsAlt.skip ?_ (RunsAlt.hit (runs_pi Y hok)))
    exact comment_fails_on '?' _ (by decide)
  | ws w =>
    obtain ⟨h1, h2⟩ := okMiscWs_parts hok
    apply Runs.nt_of env_misc
    unfold Prod.misc
    simp only [CMisc.str]
    cases w with
    | nil => exact absurd rfl h1
    | cons d ds =>
      have hd : d ≠ '<' := by
        intro e; subst e
        simp only [okWs, List.all_cons, Bool.and_eq_true] at h2
        simp [sp_lt] at h2
      exact Runs.alt (RunsAlt.skip (comment_fails_nonlt _ hd) (RunsAlt.skip (pi_fails_nonlt _ hd)
        (RunsAlt.hit (runs_cls1 (by simp) h2 (hY rfl)))))

theorem misc_str_head (m : CMisc) (hok : okMisc m = true) : ∃ c t, m.str = c :: t ∧ (isWsMisc m = false → c = '<') := by
  cases m with
  | comment s => exact ⟨'<', _, rfl, fun _ => rfl⟩
  | pi t b => exact ⟨'<', _, rfl, fun _ => rfl⟩
  | ws w =>
    obtain ⟨h1, _⟩ := okMiscWs_parts hok
    cases w with
    | nil => exact absurd rfl h1
    | cons d ds => exact ⟨d, ds, rfl, fun h => by simp [isWsMisc] at h⟩

theorem runs_misc_loop : ∀ (ms : List CMisc), ms.all okMisc = true → adjWs ms = false → ∀ X : Str, MiscEnd X →
    RunsMany env (.nt N.misc) (miscText ms ++ X) (.ok (ms.map cstMisc) X)
  | [], _, _, X, hX => by
    simp only [miscText, List.nil_append, List.map_nil]
    exact RunsMany.stop (misc_fails_at_end hX)
  | m :: rest, hok, hadj, X, hX => by
    simp only [List.all_cons, Bool.and_eq_true] at hok
    have hadj' : adjWs rest = false := by simp only [adjWs, Bool.or_eq_false_iff] at hadj; exact hadj.2
    have ih := runs_misc_loop rest hok.2 hadj' X hX
    simp only [miscText, List.map_cons, List.append_assoc]
    refine RunsMany.step (runs_misc m hok.1 (miscText rest ++ X) ?_) ?_ ih
    · intro hw
      cases rest with
      | nil => simpa [miscText] using hX.stops_space
      | cons j r' =>
        simp only [adjWs, hw, Bool.true_and, Bool.or_eq_false_iff] at hadj
        simp only [List.all_cons, Bool.and_eq_true] at hok
        obtain ⟨c, t, e, hc⟩ := misc_str_head j hok.2.1
        simp only [miscText, e, List.cons_append]
        rw [hc hadj.1]
        exact Stops.cons _ sp_lt
    · obtain ⟨c, t, e, _⟩ := misc_str_head m hok.1
      rw [e]; simp only [List.cons_append, List.length_cons, List.length_append]; omega

/-- the text of an element starts with `<` and a name character -/
theorem elem_str_head {i : CItem} (hi : isElemItem i = true) (hok : okItem i = true) (Y : Str) :
    ∃ c r, i.str ++ Y = '<' :: c :: r ∧ P.isNameChar c = true := by
  cases i with
  | elem n as w e ks w' =>
    obtain ⟨h1, _⟩ := okElem_parts hok
    obtain ⟨c, t, e1, hc⟩ := okQN_text_head h1
    exact ⟨c, _, by simp only [CItem.str, e1, List.cons_append]; rfl, hc⟩
  | _ => simp [isElemItem] at hi

theorem nc_bang : P.isNameChar '!' = false := by decide

theorem miscEnd_of_elem {i : CItem} (hi : isElemItem i = true) (hok : okItem i = true) (Y : Str) : MiscEnd (i.str ++ Y) := by
  obtain ⟨c, r, e, hc⟩ := elem_str_head hi hok Y
  refine .inr (.inl ⟨c, r, e, ?_, ?_⟩)
  · intro h; subst h; simp [nc_bang] at hc
  · intro h; subst h; simp [nc_q] at hc

abbrev xmlL : Str := ['x', 'm', 'l']

/-- the XML declaration production fails on a document that starts with something else; a PI whose target merely
    begins with `xml` is read as far as `<?xml` and then misses the white space in front of `version` -/
theorem xml_decl_fails (before : List CMisc) (hb : before.all okMisc = true) (Z : Str) (hZ : ∃ c r, Z = '<' :: c :: r ∧ c ≠ '?') :
    Runs env (.nt N.xml_decl) (miscText before ++ Z) .fail := by
  have e0 : [Char.ofNat 60,Char.ofNat 63,Char.ofNat 120,Char.ofNat 109,Char.ofNat 108] = '<' :: '?' :: xmlL := rfl
  apply Runs.nt_fail_of env_xml_decl
  unfold Prod.xml_decl
  rw [e0]
  cases before with
  | nil =>
    obtain ⟨c, r, e, hc⟩ := hZ
    simp only [miscText, List.nil_append, e]
    refine Runs.seq_fail (RunsSeq.fail_head (Runs.tag_fail ?_))
    simp [stripPrefix, Ne.symm hc]
  | cons m rest =>
    simp only [List.all_cons, Bool.and_eq_true] at hb
    simp only [miscText, List.append_assoc]
    cases m with
    | comment s => exact Runs.seq_fail (RunsSeq.fail_head (Runs.tag_fail (by simp [CMisc.str, commentText, stripPrefix])))
    | ws w =>
      obtain ⟨h1, h2⟩ := okMiscWs_parts hb.1
      cases w with
      | nil => exact absurd rfl h1
      | cons c cs =>
        have hd : c ≠ '<' := by
          intro e; subst e
          simp only [okWs, List.all_cons, Bool.and_eq_true] at h2
          simp [sp_lt] at h2
        exact Runs.seq_fail (RunsSeq.fail_head (Runs.tag_fail (by simp [CMisc.str, stripPrefix, Ne.symm hd])))
    | pi t b =>
      obtain ⟨h1, h2, h3, _, _⟩ := okPI_parts (by simpa [okMisc] using hb.1)
      generalize hY : miscText rest ++ Z = Y
      have hX : Stops P.isNameChar (b ++ (['?', '>'] ++ Y)) := by
        rcases h3 with rfl | ⟨c, b', rfl, hc⟩
        · exact Stops.cons _ nc_q
        · apply Stops.cons
          cases hn : P.isNameChar c with
          | false => rfl
          | true => have := space_not_nameChar c hn; simp [hc] at this
      have htxt : (CMisc.pi t b).str ++ Y = '<' :: '?' :: (t ++ (b ++ (['?', '>'] ++ Y))) := by simp [CMisc.str, piText]
      rw [htxt]
      have halign := strip_name_align xmlL t _ (by decide) hX
      cases hs : stripPrefix xmlL t with
      | none =>
        rw [hs] at halign
        refine Runs.seq_fail (RunsSeq.fail_head (Runs.tag_fail ?_))
        simpa [stripPrefix] using halign
      | some u =>
        rw [hs] at halign
        have htu : t = xmlL ++ u := stripPrefix_some hs
        cases u with
        | nil =>
          exfalso
          simp only [List.append_nil] at htu
          subst htu
          revert h2; decide
        | cons c u' =>
          have hcN : P.isNameChar c = true := by
            rw [htu] at h1
            simp only [List.all_append, List.all_cons, Bool.and_eq_true] at h1
            exact h1.2.1
          have hstrip : stripPrefix ('<' :: '?' :: xmlL) ('<' :: '?' :: (t ++ (b ++ (['?', '>'] ++ Y)))) = some ((c :: u') ++ (b ++ (['?', '>'] ++ Y))) := by
            simpa [stripPrefix] using halign
          have htag : Runs env (.tag ('<' :: '?' :: xmlL)) ('<' :: '?' :: (t ++ (b ++ (['?', '>'] ++ Y))))
              (.ok (.leaf ('<' :: '?' :: xmlL)) ((c :: u') ++ (b ++ (['?', '>'] ++ Y)))) := by
            have := stripPrefix_some hstrip
            rw [this]
            exact Runs.tag_ok _ _
          refine Runs.seq_fail (RunsSeq.fail_tail htag (RunsSeq.fail_head (Runs.seq_fail (RunsSeq.fail_head ?_))))
          apply Runs.nt_fail_of env_version_info
          unfold Prod.version_info
          refine Runs.seq_fail (RunsSeq.fail_head (Runs.seq_fail (RunsSeq.fail_head ?_)))
          exact runs_cls1_fail (Stops.cons _ (space_not_nameChar c hcN))

theorem doctype_fails {X : Str} (h : X = [] ∨ ∃ c r, X = '<' :: c :: r ∧ c ≠ '!' ∧ c ≠ '?') : Runs env (.nt N.doctype_decl) X .fail := by
  have e0 : [Char.ofNat 60,Char.ofNat 33,Char.ofNat 68,Char.ofNat 79,Char.ofNat 67,Char.ofNat 84,Char.ofNat 89,Char.ofNat 80,Char.ofNat 69] =
      '<' :: '!' :: ['D', 'O', 'C', 'T', 'Y', 'P', 'E'] := rfl
  apply Runs.nt_fail_of env_doctype_decl
  unfold Prod.doctype_decl
  rw [e0]
  refine Runs.seq_fail (RunsSeq.fail_head (Runs.seq_fail (RunsSeq.fail_head (Runs.seq_fail (RunsSeq.fail_head (Runs.tag_fail ?_))))))
  rcases h with rfl | ⟨c, r, rfl, h1, _⟩
  · rfl
  · simp [stripPrefix, Ne.symm h1]

theorem CDoc.ok_parts {d : CDoc} (h : d.ok = true) :
    (∀ x, d.decl = some x → okDecl x = true) ∧ d.before.all okMisc = true ∧ adjWs d.before = false ∧ isElemItem d.root = true ∧ okItem d.root = true ∧
    d.after.all okMisc = true ∧ adjWs d.after = false := by
  simp only [CDoc.ok, Bool.and_eq_true, Bool.not_eq_true'] at h
  obtain ⟨⟨⟨⟨⟨⟨⟨h1, h2⟩, h3⟩, h4⟩, h5⟩, h6⟩, h7⟩, _⟩ := h
  exact ⟨fun x hx => by rw [hx] at h1; exact h1, h2, h3, h4, h5, h6, h7⟩

theorem CDoc.ok_doctype {d : CDoc} (h : d.ok = true) :
    ∀ dt ms, d.doctype = some (dt, ms) → okDoctype dt = true ∧ ms.all okMisc = true ∧ adjWs ms = false := by
  simp only [CDoc.ok, Bool.and_eq_true, Bool.not_eq_true'] at h
  intro dt ms he
  have h8 := h.2
  rw [he] at h8
  simp only [Bool.and_eq_true, Bool.not_eq_true'] at h8
  exact ⟨h8.1.1, h8.1.2, h8.2⟩

theorem doctype_str_head (dt : CDoctype) (Y : Str) : ∃ r, dt.str ++ Y = kwDOCTYPE ++ r :=
  ⟨dt.ws0 ++ (dt.name.text ++ (extText dt.ext ++ (dt.ws1 ++ (subsetText dt.subset ++ '>' :: Y)))), by simp [CDoctype.str]⟩

/-- COMPLETENESS of the generated grammar on renderings: the text of a concrete document is parsed completely, to the
    tree `cstDoc d` -/
theorem runs_document (d : CDoc) (h : d.ok = true) : Runs env (.nt N.document) d.str (.ok (cstDoc d) []) := by
  obtain ⟨h1, h2, h3, h4, h5, h6, h7⟩ := CDoc.ok_parts h
  have hdt := CDoc.ok_doctype h
  have hend := miscEnd_of_elem h4 h5 (miscText d.after)
  obtain ⟨rc, rr, erc, hrc⟩ := elem_str_head h4 h5 (miscText d.after)
  apply Runs.nt_of env_document
  unfold Prod.document
  -- the text behind the leading Misc items starts with `<` and not with `<?`
  have hZ : ∃ c r, doctypeText d.doctype ++ (d.root.str ++ miscText d.after) = '<' :: c :: r ∧ c ≠ '?' := by
    cases hd : d.doctype with
    | none => exact ⟨rc, rr, by simpa [doctypeText] using erc, by intro e; subst e; simp [nc_q] at hrc⟩
    | some v =>
      obtain ⟨dt, ms⟩ := v
      obtain ⟨r, er⟩ := doctype_str_head dt (miscText ms ++ (d.root.str ++ miscText d.after))
      exact ⟨'!', ['D', 'O', 'C', 'T', 'Y', 'P', 'E'] ++ r, by simp only [doctypeText, List.append_assoc]; rw [er]; rfl, by decide⟩
  have hdecl : Runs env (.alt [.nt N.xml_decl, .seq []]) d.str
      (.ok (cstDeclOpt d.decl) (miscText d.before ++ (doctypeText d.doctype ++ (d.root.str ++ miscText d.after)))) := by
    cases hd : d.decl with
    | none =>
      simp only [CDoc.str, hd, declText, List.nil_append, cstDeclOpt]
      exact Runs.opt_none (xml_decl_fails d.before h2 _ hZ)
    | some x =>
      simp only [CDoc.str, hd, declText, cstDeclOpt]
      exact Runs.opt_some (runs_xml_decl (h1 x hd) _)
  have hendZ : MiscEnd (doctypeText d.doctype ++ (d.root.str ++ miscText d.after)) := by
    cases hd : d.doctype with
    | none => simpa [doctypeText] using hend
    | some v =>
      obtain ⟨dt, ms⟩ := v
      obtain ⟨r, er⟩ := doctype_str_head dt (miscText ms ++ (d.root.str ++ miscText d.after))
      exact .inr (.inr ⟨r, by simpa [doctypeText] using er⟩)
  have hdoctype : Runs env (.alt [.seq [.nt N.doctype_decl, .many0 (.nt N.misc)], .seq []])
      (doctypeText d.doctype ++ (d.root.str ++ miscText d.after)) (.ok (cstDoctypePart d.doctype) (d.root.str ++ miscText d.after)) := by
    cases hd : d.doctype with
    | none =>
      simp only [doctypeText, List.nil_append, cstDoctypePart]
      refine Runs.opt_none (Runs.seq_fail (RunsSeq.fail_head (doctype_fails ?_)))
      exact .inr ⟨rc, rr, erc, by intro e; subst e; simp [nc_bang] at hrc, by intro e; subst e; simp [nc_q] at hrc⟩
    | some v =>
      obtain ⟨dt, ms⟩ := v
      obtain ⟨b1, b2, b3⟩ := hdt dt ms hd
      simp only [doctypeText, List.append_assoc, cstDoctypePart]
      exact Runs.opt_some (Runs.seq (RunsSeq.cons (runs_doctype b1 _) (RunsSeq.cons (Runs.many (runs_misc_loop ms b2 b3 _ hend)) (RunsSeq.nil _))))
  have hprolog : Runs env (.nt N.prolog) d.str
      (.ok (.node N.prolog (.seq [cstDeclOpt d.decl, .many (d.before.map cstMisc), cstDoctypePart d.doctype])) (d.root.str ++ miscText d.after)) := by
    apply Runs.nt_of env_prolog
    unfold Prod.prolog
    exact Runs.seq (RunsSeq.cons hdecl (RunsSeq.cons (Runs.many (runs_misc_loop d.before h2 h3 _ hendZ)) (RunsSeq.cons hdoctype (RunsSeq.nil _))))
  have hroot : Runs env (.nt N.element) (d.root.str ++ miscText d.after) (.ok (cstItemNode d.root) (miscText d.after)) := by
    cases hr : d.root with
    | elem n as w e ks w' => rw [hr] at h5; exact runs_element n as w e ks w' h5 _
    | _ => rw [hr] at h4; simp [isElemItem] at h4
  have hafter := runs_misc_loop d.after h6 h7 [] (.inl rfl)
  simp only [List.append_nil] at hafter
  exact Runs.seq (RunsSeq.cons hprolog (RunsSeq.cons hroot (RunsSeq.cons (Runs.many hafter) (RunsSeq.nil _))))

end XmlRs.Lex
