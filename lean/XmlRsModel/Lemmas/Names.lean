import XmlRsModel.Names
import XmlRsModel.Lemmas.PegSound
/-! Closed forms of the name productions of the generated XML grammar (`ncname`, `qname`, `name`,
    `nmtoken`, `pi_target`): what `run` computes on them, as plain list functions. -/
namespace XmlRs.Names
open XmlRs Gen.Xml

theorem spanP_rest_nil_iff (p : Char → Bool) : ∀ s, (spanP p s).2 = [] ↔ s.all p = true
  | [] => by simp [spanP]
  | c :: cs => by
      simp only [spanP]; split
      · next h => simp [h, spanP_rest_nil_iff p cs]
      · next h => simp [h]

theorem spanP_of_all (p : Char → Bool) : ∀ (s r : Str), s.all p = true → (r = [] ∨ ∃ c r', r = c :: r' ∧ p c = false) →
    spanP p (s ++ r) = (s, r)
  | [], r, _, hr => by
      rcases hr with rfl | ⟨c, r', rfl, hc⟩
      · simp [spanP]
      · simp [spanP, hc]
  | c :: cs, r, h, hr => by
      simp only [List.all_cons, Bool.and_eq_true] at h
      simp [spanP, h.1, spanP_of_all p cs r h.2 hr]

abbrev ncRest : Char → Bool := P.except P.isNameChar [':']

/-- closed form of `ncname`: (consumed text, rest) -/
def ncnameP : Str → Option (Str × Str)
  | [] => none
  | c :: cs => if (c != ':' && P.isNameStartChar c) then
      some (c :: (spanP ncRest cs).1, (spanP ncRest cs).2)
    else none

theorem ncname_body (f : Nat) (s : Str) : run env (f+5) (env N.ncname) s =
    (match ncnameP s with
     | none => .fail
     | some (a, r) => .ok (.seq [.leaf (a.take 1),
          if a.drop 1 = [] then .seq [] else .leaf (a.drop 1)]) r) := by
  cases s with
  | nil => simp [run, env_ncname, Prod.ncname, runSeq, ncnameP]
  | cons c cs =>
    have h58 : Char.ofNat 58 = ':' := rfl
    simp only [run, env_ncname, Prod.ncname, runSeq, runAlt, ncnameP, h58]
    by_cases h1 : (c != ':' && P.isNameStartChar c) = true
    · simp only [h1, ite_true]
      by_cases h2 : (spanP ncRest cs).1 = []
      · have h3 : (spanP ncRest cs).2 = cs := by
          have := spanP_append ncRest cs; rw [h2] at this; simpa using this
        simp [h2, h3]
      · simp [h2]
    · simp [h1]

theorem ncnameP_append {s a r : Str} (h : ncnameP s = some (a, r)) : a ++ r = s := by
  cases s with
  | nil => simp [ncnameP] at h
  | cons c cs =>
    simp only [ncnameP] at h
    split at h
    · simp only [Option.some.injEq, Prod.mk.injEq] at h
      obtain ⟨rfl, rfl⟩ := h
      simp [spanP_append]
    · cases h

/-- closed form of `qname` = alt [prefixed_name, ncname] -/
def qnameP (s : Str) : Option (Str × Str) :=
  match ncnameP s with
  | none => none
  | some (a, r) => match r with
      | ':' :: r' => match ncnameP r' with
          | some (b, r'') => some (a ++ ':' :: b, r'')
          | none => some (a, r)
      | _ => some (a, r)

theorem qname_run_rest (f : Nat) (s : Str) :
    (match run env (f+12) (.nt N.qname) s with
     | .ok _ r => some r
     | _ => none) = (qnameP s).map (·.2) := by
  have h58 : Char.ofNat 58 = ':' := rfl
  have e1 : ∀ t, run env (f+8) (env N.ncname) t = run env ((f+3)+5) (env N.ncname) t := fun _ => rfl
  have e2 : ∀ t, run env (f+6) (env N.ncname) t = run env ((f+1)+5) (env N.ncname) t := fun _ => rfl
  have e3 : ∀ t, run env (f+9) (env N.ncname) t = run env ((f+4)+5) (env N.ncname) t := fun _ => rfl
  simp only [run, env_qname, Prod.qname, env_prefixed_name, Prod.prefixed_name, runAlt, runSeq, h58]
  simp only [e1, e2, e3, ncname_body, qnameP]
  cases hn : ncnameP s with
  | none => simp
  | some ar =>
    obtain ⟨a, r⟩ := ar
    simp only
    cases r with
    | nil => simp [stripPrefix]
    | cons d r' =>
      by_cases hd : d = ':'
      · subst hd
        simp only [stripPrefix, ite_true]
        cases hn2 : ncnameP r' with
        | none => simp
        | some br => obtain ⟨b, r''⟩ := br; simp
      · simp [stripPrefix, hd, Ne.symm hd]

/-- closed form of `name` = NameStartChar* NameChar*  (the code's reading of production [5]) -/
theorem name_run_rest (f : Nat) (s : Str) :
    (match run env (f+6) (.nt N.name) s with
     | .ok _ r => some r
     | _ => none) = some (spanP P.isNameChar (spanP P.isNameStartChar s).2).2 := by
  simp [run, env_name, Prod.name, env_multinamestartchar0, Prod.multinamestartchar0, env_multinamechar0, Prod.multinamechar0, runSeq]

theorem nmtoken_run_rest (f : Nat) (s : Str) :
    (match run env (f+4) (.nt N.nmtoken) s with
     | .ok _ r => some r
     | _ => none) = if (spanP P.isNameChar s).1 = [] then none else some (spanP P.isNameChar s).2 := by
  simp only [run, env_nmtoken, Prod.nmtoken]
  by_cases h : (spanP P.isNameChar s).1 = [] <;> simp [h]

end XmlRs.Names
