import XmlRsModel.Peg
import XmlRsModel.Lemmas.PegSound
/-! Fuel-free reading of the interpreter: `Runs env g s out` says that `run env f g s = out` for every
    sufficiently large fuel `f`.  The rules below are the operational semantics of the PEG (ordered choice,
    greedy repetition) as composition lemmas; completeness statements about a grammar (this text IS parsed, to
    this tree) are built from them without any fuel arithmetic.  By `run_mono_le` a non-`fuel` answer at ANY
    fuel is the answer `Runs` speaks about (`Runs.of_run`, `Runs.agree`). -/
namespace XmlRs

def Runs (env : Env) (g : G) (s : Str) (out : Res CST) : Prop := ∃ n, ∀ f, n ≤ f → run env f g s = out
def RunsSeq (env : Env) (gs : List G) (s : Str) (out : Res (List CST)) : Prop := ∃ n, ∀ f, n ≤ f → runSeq env f gs s = out
def RunsAlt (env : Env) (gs : List G) (s : Str) (out : Res CST) : Prop := ∃ n, ∀ f, n ≤ f → runAlt env f gs s = out
def RunsMany (env : Env) (g : G) (s : Str) (out : Res (List CST)) : Prop := ∃ n, ∀ f, n ≤ f → runMany env f g s = out

variable {env : Env}

private theorem succ_of_le {n f : Nat} (h : n + 1 ≤ f) : ∃ f', f = f' + 1 ∧ n ≤ f' := ⟨f - 1, by omega, by omega⟩

/-- a fuel-indexed closed form gives a `Runs` fact -/
theorem Runs.of_forall {g : G} {s : Str} {out : Res CST} (k : Nat) (h : ∀ f, run env (f + k) g s = out) : Runs env g s out :=
  ⟨k, fun f hf => by obtain ⟨f', rfl⟩ : ∃ f', f = f' + k := ⟨f - k, by omega⟩; exact h f'⟩

/-- a non-`fuel` answer at some fuel is the answer at every larger fuel -/
theorem Runs.of_run {g : G} {s : Str} {out : Res CST} (f : Nat) (h : run env f g s = out) (hne : out ≠ .fuel) : Runs env g s out :=
  ⟨f, fun _ hf => run_mono_le env hf h hne⟩

/-- two `Runs` facts about the same grammar and input agree -/
theorem Runs.agree {g : G} {s : Str} {o1 o2 : Res CST} (h1 : Runs env g s o1) (h2 : Runs env g s o2) : o1 = o2 := by
  obtain ⟨n1, h1⟩ := h1; obtain ⟨n2, h2⟩ := h2
  rw [← h1 (max n1 n2) (Nat.le_max_left ..), ← h2 (max n1 n2) (Nat.le_max_right ..)]

/-- what `run` answers at a given fuel is either `fuel` or the `Runs` answer -/
theorem Runs.at_fuel {g : G} {s : Str} {out : Res CST} (h : Runs env g s out) (f : Nat) :
    run env f g s = out ∨ run env f g s = .fuel := by
  by_cases hf : run env f g s = .fuel
  · exact .inr hf
  · exact .inl (Runs.agree (Runs.of_run f rfl hf) h)

/-! ### terminals -/
theorem Runs.tag_ok (t r : Str) : Runs env (.tag t) (t ++ r) (.ok (.leaf t) r) :=
  ⟨1, fun f hf => by obtain ⟨f', rfl, _⟩ := succ_of_le hf; simp [run, stripPrefix_append]⟩

theorem Runs.tag_fail {t s : Str} (h : stripPrefix t s = none) : Runs env (.tag t) s .fail :=
  ⟨1, fun f hf => by obtain ⟨f', rfl, _⟩ := succ_of_le hf; simp [run, h]⟩

theorem Runs.one_ok {p : Char → Bool} {c : Char} (r : Str) (h : p c = true) : Runs env (.one p) (c :: r) (.ok (.leaf [c]) r) :=
  ⟨1, fun f hf => by obtain ⟨f', rfl, _⟩ := succ_of_le hf; simp [run, h]⟩

theorem Runs.one_fail {p : Char → Bool} {c : Char} (r : Str) (h : p c = false) : Runs env (.one p) (c :: r) .fail :=
  ⟨1, fun f hf => by obtain ⟨f', rfl, _⟩ := succ_of_le hf; simp [run, h]⟩

theorem Runs.one_nil {p : Char → Bool} : Runs env (.one p) [] .fail :=
  ⟨1, fun f hf => by obtain ⟨f', rfl, _⟩ := succ_of_le hf; simp [run]⟩

theorem Runs.cls0 (p : Char → Bool) (s : Str) : Runs env (.cls0 p) s (.ok (.leaf (spanP p s).1) (spanP p s).2) :=
  ⟨1, fun f hf => by obtain ⟨f', rfl, _⟩ := succ_of_le hf; simp [run]⟩

theorem Runs.cls1_ok {p : Char → Bool} {s : Str} (h : (spanP p s).1 ≠ []) :
    Runs env (.cls1 p) s (.ok (.leaf (spanP p s).1) (spanP p s).2) :=
  ⟨1, fun f hf => by obtain ⟨f', rfl, _⟩ := succ_of_le hf; simp [run, h]⟩

theorem Runs.cls1_fail {p : Char → Bool} {s : Str} (h : (spanP p s).1 = []) : Runs env (.cls1 p) s .fail :=
  ⟨1, fun f hf => by obtain ⟨f', rfl, _⟩ := succ_of_le hf; simp [run, h]⟩

theorem Runs.until0 (p : Char → Bool) (stop s : Str) :
    Runs env (.until0 p stop) s (.ok (runUntil0 p stop s).1 (runUntil0 p stop s).2) :=
  ⟨1, fun f hf => by obtain ⟨f', rfl, _⟩ := succ_of_le hf; simp [run]⟩

/-! ### sequences -/
theorem RunsSeq.nil (s : Str) : RunsSeq env [] s (.ok [] s) := ⟨0, fun f _ => by cases f <;> simp [runSeq]⟩

theorem RunsSeq.cons {g : G} {gs : List G} {s r r' : Str} {c : CST} {ks : List CST}
    (h1 : Runs env g s (.ok c r)) (h2 : RunsSeq env gs r (.ok ks r')) : RunsSeq env (g :: gs) s (.ok (c :: ks) r') := by
  obtain ⟨n1, h1⟩ := h1; obtain ⟨n2, h2⟩ := h2
  exact ⟨max n1 n2, fun f hf => by simp [runSeq, h1 f (by omega), h2 f (by omega)]⟩

theorem RunsSeq.fail_head {g : G} {gs : List G} {s : Str} (h1 : Runs env g s .fail) : RunsSeq env (g :: gs) s .fail := by
  obtain ⟨n1, h1⟩ := h1
  exact ⟨n1, fun f hf => by simp [runSeq, h1 f hf]⟩

theorem RunsSeq.fail_tail {g : G} {gs : List G} {s r : Str} {c : CST}
    (h1 : Runs env g s (.ok c r)) (h2 : RunsSeq env gs r .fail) : RunsSeq env (g :: gs) s .fail := by
  obtain ⟨n1, h1⟩ := h1; obtain ⟨n2, h2⟩ := h2
  exact ⟨max n1 n2, fun f hf => by simp [runSeq, h1 f (by omega), h2 f (by omega)]⟩

theorem Runs.seq {gs : List G} {s r : Str} {ks : List CST} (h : RunsSeq env gs s (.ok ks r)) :
    Runs env (.seq gs) s (.ok (.seq ks) r) := by
  obtain ⟨n, h⟩ := h
  exact ⟨n + 1, fun f hf => by obtain ⟨f', rfl, hf'⟩ := succ_of_le hf; simp [run, h f' hf']⟩

theorem Runs.seq_fail {gs : List G} {s : Str} (h : RunsSeq env gs s .fail) : Runs env (.seq gs) s .fail := by
  obtain ⟨n, h⟩ := h
  exact ⟨n + 1, fun f hf => by obtain ⟨f', rfl, hf'⟩ := succ_of_le hf; simp [run, h f' hf']⟩

/-! ### ordered choice -/
theorem RunsAlt.nil (s : Str) : RunsAlt env [] s .fail := ⟨0, fun f _ => by cases f <;> simp [runAlt]⟩

theorem RunsAlt.hit {g : G} {gs : List G} {s r : Str} {c : CST} (h : Runs env g s (.ok c r)) :
    RunsAlt env (g :: gs) s (.ok c r) := by
  obtain ⟨n, h⟩ := h
  exact ⟨n, fun f hf => by simp [runAlt, h f hf]⟩

theorem RunsAlt.skip {g : G} {gs : List G} {s : Str} {out : Res CST} (h1 : Runs env g s .fail) (h2 : RunsAlt env gs s out) :
    RunsAlt env (g :: gs) s out := by
  obtain ⟨n1, h1⟩ := h1; obtain ⟨n2, h2⟩ := h2
  exact ⟨max n1 n2, fun f hf => by simp [runAlt, h1 f (by omega), h2 f (by omega)]⟩

theorem Runs.alt {gs : List G} {s : Str} {out : Res CST} (h : RunsAlt env gs s out) : Runs env (.alt gs) s out := by
  obtain ⟨n, h⟩ := h
  exact ⟨n + 1, fun f hf => by obtain ⟨f', rfl, hf'⟩ := succ_of_le hf; simp [run, h f' hf']⟩

/-! ### repetition -/
theorem RunsMany.stop {g : G} {s : Str} (h : Runs env g s .fail) : RunsMany env g s (.ok [] s) := by
  obtain ⟨n, h⟩ := h
  exact ⟨n + 1, fun f hf => by obtain ⟨f', rfl, hf'⟩ := succ_of_le hf; simp [runMany, h f' hf']⟩

theorem RunsMany.step {g : G} {s r r' : Str} {c : CST} {ks : List CST} (h1 : Runs env g s (.ok c r))
    (hlt : r.length < s.length) (h2 : RunsMany env g r (.ok ks r')) : RunsMany env g s (.ok (c :: ks) r') := by
  obtain ⟨n1, h1⟩ := h1; obtain ⟨n2, h2⟩ := h2
  exact ⟨max n1 n2 + 1, fun f hf => by
    obtain ⟨f', rfl, hf'⟩ := succ_of_le hf
    simp [runMany, h1 f' (by omega), h2 f' (by omega), hlt]⟩

theorem Runs.many {g : G} {s r : Str} {ks : List CST} (h : RunsMany env g s (.ok ks r)) :
    Runs env (.many0 g) s (.ok (.many ks) r) := by
  obtain ⟨n, h⟩ := h
  exact ⟨n + 1, fun f hf => by obtain ⟨f', rfl, hf'⟩ := succ_of_le hf; simp [run, h f' hf']⟩

/-! ### verify and nonterminals -/
theorem Runs.verify_ok {g : G} {p : CST → Bool} {s r : Str} {c : CST} (h : Runs env g s (.ok c r)) (hp : p c = true) :
    Runs env (.verify g p) s (.ok c r) := by
  obtain ⟨n, h⟩ := h
  exact ⟨n + 1, fun f hf => by obtain ⟨f', rfl, hf'⟩ := succ_of_le hf; simp [run, h f' hf', hp]⟩

theorem Runs.verify_reject {g : G} {p : CST → Bool} {s r : Str} {c : CST} (h : Runs env g s (.ok c r)) (hp : p c = false) :
    Runs env (.verify g p) s .fail := by
  obtain ⟨n, h⟩ := h
  exact ⟨n + 1, fun f hf => by obtain ⟨f', rfl, hf'⟩ := succ_of_le hf; simp [run, h f' hf', hp]⟩

theorem Runs.verify_fail {g : G} {p : CST → Bool} {s : Str} (h : Runs env g s .fail) : Runs env (.verify g p) s .fail := by
  obtain ⟨n, h⟩ := h
  exact ⟨n + 1, fun f hf => by obtain ⟨f', rfl, hf'⟩ := succ_of_le hf; simp [run, h f' hf']⟩

theorem Runs.nt {n : Nat} {s r : Str} {c : CST} (h : Runs env (env n) s (.ok c r)) : Runs env (.nt n) s (.ok (.node n c) r) := by
  obtain ⟨k, h⟩ := h
  exact ⟨k + 1, fun f hf => by obtain ⟨f', rfl, hf'⟩ := succ_of_le hf; simp [run, h f' hf']⟩

theorem Runs.nt_fail {n : Nat} {s : Str} (h : Runs env (env n) s .fail) : Runs env (.nt n) s .fail := by
  obtain ⟨k, h⟩ := h
  exact ⟨k + 1, fun f hf => by obtain ⟨f', rfl, hf'⟩ := succ_of_le hf; simp [run, h f' hf']⟩

/-- unfolding a nonterminal whose production is known -/
theorem Runs.nt_of {n : Nat} {g : G} (hg : env n = g) {s r : Str} {c : CST} (h : Runs env g s (.ok c r)) :
    Runs env (.nt n) s (.ok (.node n c) r) := Runs.nt (hg ▸ h)

theorem Runs.nt_fail_of {n : Nat} {g : G} (hg : env n = g) {s : Str} (h : Runs env g s .fail) : Runs env (.nt n) s .fail :=
  Runs.nt_fail (hg ▸ h)

/-! ### convenience: optional parts `alt [g, seq []]` -/
theorem Runs.opt_some {g : G} {s r : Str} {c : CST} (h : Runs env g s (.ok c r)) : Runs env (.alt [g, .seq []]) s (.ok c r) :=
  Runs.alt (RunsAlt.hit h)

theorem Runs.opt_none {g : G} {s : Str} (h : Runs env g s .fail) : Runs env (.alt [g, .seq []]) s (.ok (.seq []) s) :=
  Runs.alt (RunsAlt.skip h (RunsAlt.hit (Runs.seq (RunsSeq.nil s))))

end XmlRs
