import XmlRsModel.Lemmas.XAbsFinal
/-! The `expr` nesting depth of the tree of a spelling is the nesting depth of the spelling. -/
namespace XmlRs.XLex
open XmlRs XmlRs.XPath XmlRs.Lex
open Gen.XPath

theorem depth_leaf (s : Str) : exprDepth (.leaf s) = 0 := by simp [exprDepth]
theorem depth_seq (ks : List CST) : exprDepth (.seq ks) = exprDepthL ks := by simp [exprDepth]
theorem depth_many (ks : List CST) : exprDepth (.many ks) = exprDepthL ks := by simp [exprDepth]
theorem depthL_nil : exprDepthL [] = 0 := by simp [exprDepthL]
theorem depthL_cons (c : CST) (cs : List CST) : exprDepthL (c :: cs) = max (exprDepth c) (exprDepthL cs) := by simp [exprDepthL]
theorem depth_node_expr (c : CST) : exprDepth (.node N.expr c) = exprDepth c + 1 := by simp [exprDepth]
theorem depth_node_other {n : Nat} (h : n ≠ N.expr) (c : CST) : exprDepth (.node n c) = exprDepth c := by
  simp [exprDepth, h]

theorem depth_nc (a : Str) : exprDepth (cstNc a) = 0 := by
  unfold cstNc
  split <;> simp [exprDepth, exprDepthL, N.ncname, N.expr]

theorem depth_qn (q : QN) : exprDepth (cstQN q) = 0 := by
  obtain ⟨pre, loc⟩ := q
  cases pre <;> simp [cstQN, exprDepth, exprDepthL, depth_nc, N.qname, N.prefixed_name, N.expr]

theorem depth_lit (q : Char) (s : Str) : exprDepth (cstLit q s) = 0 := by
  simp [cstLit, exprDepth, exprDepthL, N.literal, N.expr]

theorem depth_num (s : Str) : exprDepth (cstNum s) = 0 := by
  unfold cstNum numCst
  split
  · split <;> simp [exprDepth, exprDepthL, N.number, N.expr]
  · simp [exprDepth, exprDepthL, N.number, N.expr]

theorem depth_axis (a : CAxis) : exprDepth (cstAxis a) = 0 := by
  cases a <;> simp [cstAxis, exprDepth, exprDepthL, N.axis_specifier, N.axis_name, N.expr]

theorem depth_test (t : CTest) : exprDepth (cstTest t) = 0 := by
  cases t <;> simp [cstTest, exprDepth, exprDepthL, depth_nc, depth_qn, depth_lit, N.node_test, N.name_test, N.node_type, N.expr]

theorem depth_minus (ms : List Str) : exprDepthL (cstMinus ms) = 0 := by
  induction ms with
  | nil => simp [cstMinus, exprDepthL]
  | cons w r ih => simp only [cstMinus, List.map_cons] at ih ⊢; simp [exprDepthL, exprDepth, ih]

theorem levelNt_ne (l : Nat) : levelNt l ≠ N.expr := by
  unfold levelNt; split <;> decide

mutual
theorem depth_x : ∀ e : CX, exprDepth (cstX e) = e.nest
  | .chain l a r => by
    simp only [cstX, CX.nest, depth_node_other (levelNt_ne l), depth_seq, depth_many, depthL_cons, depthL_nil, depth_x a, depth_tail r]; omega
  | .unary ms e => by
    simp only [cstX, CX.nest, depth_node_other (show N.unary_expr ≠ N.expr by decide), depth_seq, depth_many, depthL_cons, depthL_nil, depth_x e, depth_minus]; omega
  | .union a r => by
    simp only [cstX, CX.nest, depth_node_other (show N.union_expr ≠ N.expr by decide), depth_seq, depth_many, depthL_cons, depthL_nil, depth_x a, depth_tail r]; omega
  | .pathF a => by
    simp only [cstX, CX.nest, depth_node_other (show N.path_expr ≠ N.expr by decide), depth_seq, depthL_cons, depthL_nil, depth_x a]; omega
  | .pathFR a w1 ds w2 rel => by
    simp only [cstX, CX.nest, depth_node_other (show N.path_expr ≠ N.expr by decide), depth_seq, depth_leaf, depthL_cons, depthL_nil, depth_x a, depth_rel rel]; omega
  | .pathAbs ds w rel => by
    simp only [cstX, CX.nest, depth_node_other (show N.path_expr ≠ N.expr by decide), depth_seq, depth_leaf, depthL_cons, depthL_nil, depth_rel rel]; omega
  | .pathRel rel => by
    simp only [cstX, CX.nest, depth_node_other (show N.path_expr ≠ N.expr by decide), depth_rel rel]
  | .pathRoot => by
    simp only [cstX, CX.nest, depth_node_other (show N.path_expr ≠ N.expr by decide), depth_leaf]
  | .filter p preds => by
    simp only [cstX, CX.nest, depth_node_other (show N.filter_expr ≠ N.expr by decide), depth_seq, depth_many, depthL_cons, depthL_nil, depth_x p, depth_preds preds]; omega
  | .var q => by
    simp only [cstX, CX.nest, depth_node_other (show N.primary_expr ≠ N.expr by decide), depth_node_other (show N.variable_reference ≠ N.expr by decide),
      depth_seq, depth_leaf, depthL_cons, depthL_nil, depth_qn]; omega
  | .paren w1 e w2 => by
    simp only [cstX, CX.nest, depth_node_other (show N.primary_expr ≠ N.expr by decide), depth_node_expr, depth_seq, depth_leaf, depthL_cons, depthL_nil, depth_x e]; omega
  | .lit q s => by
    simp only [cstX, CX.nest, depth_node_other (show N.primary_expr ≠ N.expr by decide), depth_lit]
  | .num s => by
    simp only [cstX, CX.nest, depth_node_other (show N.primary_expr ≠ N.expr by decide), depth_num]
  | .call f w1 w2 args w3 => by
    simp only [cstX, CX.nest, depth_node_other (show N.primary_expr ≠ N.expr by decide), depth_node_other (show N.function_call ≠ N.expr by decide),
      depth_node_other (show N.function_name ≠ N.expr by decide), depth_seq, depth_leaf, depthL_cons, depthL_nil, depth_qn, depth_args args]; omega
theorem depth_tail : ∀ t : CXTail, exprDepthL (cstTail t) = t.nest
  | .nil => by simp [cstTail, depthL_nil, CXTail.nest]
  | .cons w1 op w2 e t => by
    simp only [cstTail, CXTail.nest, depth_seq, depth_leaf, depthL_cons, depthL_nil, depth_x e, depth_tail t]; omega
theorem depth_args : ∀ a : CArgs, exprDepth (cstArgs a) = a.nest
  | .none => by simp [cstArgs, depth_seq, depthL_nil, CArgs.nest]
  | .some a r => by
    simp only [cstArgs, CArgs.nest, depth_node_other (show N.argument ≠ N.expr by decide), depth_node_expr, depth_seq, depth_many, depthL_cons, depthL_nil, depth_x a, depth_argtail r]; omega
theorem depth_argtail : ∀ t : CArgTail, exprDepthL (cstArgTail t) = t.nest
  | .nil => by simp [cstArgTail, depthL_nil, CArgTail.nest]
  | .cons w1 w2 e t => by
    simp only [cstArgTail, CArgTail.nest, depth_node_other (show N.argument ≠ N.expr by decide), depth_node_expr, depth_seq, depth_leaf, depthL_cons, depthL_nil, depth_x e, depth_argtail t]; omega
theorem depth_rel : ∀ r : CRel, exprDepth (cstRel r) = r.nest
  | .mk s t => by
    simp only [cstRel, CRel.nest, depth_node_other (show N.relative_location_path ≠ N.expr by decide), depth_seq, depth_many, depthL_cons, depthL_nil, depth_step s, depth_reltail t]; omega
theorem depth_reltail : ∀ t : CRelTail, exprDepthL (cstRelTail t) = t.nest
  | .nil => by simp [cstRelTail, depthL_nil, CRelTail.nest]
  | .cons w1 ds w2 s t => by
    simp only [cstRelTail, CRelTail.nest, depth_seq, depth_leaf, depthL_cons, depthL_nil, depth_step s, depth_reltail t]; omega
theorem depth_step : ∀ s : CStep, exprDepth (cstStep s) = s.nest
  | .dot => by simp [cstStep, CStep.nest, depth_node_other (show N.step ≠ N.expr by decide), depth_leaf]
  | .dotdot => by simp [cstStep, CStep.nest, depth_node_other (show N.step ≠ N.expr by decide), depth_leaf]
  | .full ax w test preds => by
    simp only [cstStep, CStep.nest, depth_node_other (show N.step ≠ N.expr by decide), depth_seq, depth_many, depth_leaf, depthL_cons, depthL_nil, depth_axis, depth_test, depth_preds preds]; omega
theorem depth_preds : ∀ p : CPreds, exprDepthL (cstPreds p) = p.nest
  | .nil => by simp [cstPreds, depthL_nil, CPreds.nest]
  | .cons w w1 e w2 t => by
    simp only [cstPreds, CPreds.nest, depth_node_other (show N.predicate ≠ N.expr by decide), depth_node_other (show N.predicate_expr ≠ N.expr by decide),
      depth_node_expr, depth_seq, depth_leaf, depthL_cons, depthL_nil, depth_x e, depth_preds t]; omega
end

end XmlRs.XLex
