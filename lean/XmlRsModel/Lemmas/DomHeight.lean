import XmlRsModel.Lemmas.DomStep
import XmlRsModel.Lemmas.DomNorm
/-! Element nesting never exceeds the depth the parser reads back (`maxDepth_element`): an invariant of every operation. -/
namespace XmlRs.Dom
open List Gen.Xml

abbrev M : Nat := maxDepth_element

def me (k : Kind) : Nat := if isElemKind k then 1 else 0

theorem elemHeight_mk (j : Nat) (k : Kind) (d : Str) (as ks : List Node) :
    elemHeight (.mk j k d as ks) = me k + max (elemHeightL as) (elemHeightL ks) := by
  simp [elemHeight, me]

theorem elemHeightL_cons (n : Node) (r : List Node) : elemHeightL (n :: r) = max (elemHeight n) (elemHeightL r) := by
  simp [elemHeightL]

theorem elemHeightL_append (a b : List Node) : elemHeightL (a ++ b) = max (elemHeightL a) (elemHeightL b) := by
  induction a with
  | nil => simp [elemHeightL]
  | cons n r ih => simp only [List.cons_append, elemHeightL_cons, ih]; omega

theorem elemHeight_le_of_mem (n : Node) (l : List Node) (h : n ∈ l) : elemHeight n ≤ elemHeightL l := by
  induction l with
  | nil => cases h
  | cons x r ih =>
    rw [elemHeightL_cons]
    rcases List.mem_cons.mp h with rfl | h
    · omega
    · have := ih h; omega

theorem elemHeightL_le_iff (l : List Node) (b : Nat) : elemHeightL l ≤ b ↔ ∀ n ∈ l, elemHeight n ≤ b := by
  induction l with
  | nil => simp [elemHeightL]
  | cons x r ih =>
    rw [elemHeightL_cons]
    constructor
    · intro h n hn
      rcases List.mem_cons.mp hn with rfl | hn
      · omega
      · exact (ih.mp (by omega)) n hn
    · intro h
      have h1 := h x (by simp)
      have h2 := ih.mpr (fun n hn => h n (by simp [hn]))
      omega

/-! ### taking a node out never makes anything higher -/
mutual
theorem removeIn_height (i : Nat) : (t : Node) →
    elemHeight (removeIn i t).1 ≤ elemHeight t ∧ ∀ x, (removeIn i t).2 = some x → elemHeight x ≤ elemHeight t
  | .mk j k d as ks => by
    unfold removeIn
    have ha := removeInL_height i as
    have hk := removeInL_height i ks
    split
    · next as' x hA =>
      rw [hA] at ha
      refine ⟨?_, ?_⟩
      · simp only [elemHeight_mk]; have := ha.1; simp only at this; omega
      · intro y hy; simp only [Option.some.injEq] at hy; subst hy
        have := ha.2 x rfl; simp only [elemHeight_mk]; omega
    · next hA =>
      split
      next ks' r hK =>
      rw [hK] at hk
      refine ⟨?_, ?_⟩
      · simp only [elemHeight_mk]; have := hk.1; simp only at this; omega
      · intro y hy; simp only at hy; subst hy
        have := hk.2 y rfl; simp only [elemHeight_mk]; omega
theorem removeInL_height (i : Nat) : (l : List Node) →
    elemHeightL (removeInL i l).1 ≤ elemHeightL l ∧ ∀ x, (removeInL i l).2 = some x → elemHeight x ≤ elemHeightL l
  | [] => by simp [removeInL, elemHeightL]
  | n :: r => by
    unfold removeInL
    split
    · refine ⟨?_, ?_⟩
      · simp only [elemHeightL_cons]; omega
      · intro x hx; simp only [Option.some.injEq] at hx; subst hx; simp only [elemHeightL_cons]; omega
    · have hn := removeIn_height i n
      have hr := removeInL_height i r
      split
      · next n' x hN =>
        rw [hN] at hn
        refine ⟨?_, ?_⟩
        · simp only [elemHeightL_cons]; have := hn.1; simp only at this; omega
        · intro y hy; simp only [Option.some.injEq] at hy; subst hy
          have := hn.2 x rfl; simp only [elemHeightL_cons]; omega
      · next hN =>
        split
        next r' x hR =>
        rw [hR] at hr
        refine ⟨?_, ?_⟩
        · simp only [elemHeightL_cons]; have := hr.1; simp only at this; omega
        · intro y hy; simp only at hy; subst hy
          have := hr.2 y rfl; simp only [elemHeightL_cons]; omega
end

/-- the invariant: no tree of the state (document or detached) nests elements deeper than the parser reads back -/
def HeightInv (s : St) : Prop := ∀ t ∈ s.roots, elemHeight t ≤ M

theorem heightInv_iff (s : St) : HeightInv s ↔ elemHeight s.doc ≤ M ∧ elemHeightL s.detached ≤ M := by
  unfold HeightInv St.roots
  rw [elemHeightL_le_iff]
  constructor
  · intro h; exact ⟨h _ (by simp), fun n hn => h n (by simp [hn])⟩
  · intro ⟨h1, h2⟩ t ht
    rcases List.mem_cons.mp ht with rfl | ht
    · exact h1
    · exact h2 t ht

theorem elemHeightL_filter_le (p : Node → Bool) (l : List Node) : elemHeightL (l.filter p) ≤ elemHeightL l := by
  induction l with
  | nil => simp [elemHeightL]
  | cons n r ih =>
    simp only [List.filter]
    split
    · simp only [elemHeightL_cons]; omega
    · simp only [elemHeightL_cons]; omega

/-- taking a node out: the state stays within the bound and so does what was taken out -/
theorem detach_height (s s1 : St) (i : Nat) (x : Option Node) (h : s.detach i = (s1, x)) (hi : HeightInv s) :
    HeightInv s1 ∧ ∀ n, x = some n → elemHeight n ≤ M := by
  rw [heightInv_iff] at hi ⊢
  unfold St.detach at h
  split at h
  · next n hf =>
    simp only [Prod.mk.injEq] at h; obtain ⟨rfl, rfl⟩ := h
    refine ⟨⟨hi.1, Nat.le_trans (elemHeightL_filter_le _ _) hi.2⟩, ?_⟩
    intro m hm; simp only [Option.some.injEq] at hm; subst hm
    exact Nat.le_trans (elemHeight_le_of_mem _ _ (List.mem_of_find?_eq_some hf)) hi.2
  · split at h
    · next d' n hR =>
      simp only [Prod.mk.injEq] at h; obtain ⟨rfl, rfl⟩ := h
      have hh := removeIn_height i s.doc
      rw [hR] at hh
      refine ⟨⟨Nat.le_trans hh.1 hi.1, hi.2⟩, ?_⟩
      intro m hm; simp only [Option.some.injEq] at hm; subst hm
      exact Nat.le_trans (hh.2 n rfl) hi.1
    · split at h
      next det' y hR =>
      simp only [Prod.mk.injEq] at h; obtain ⟨rfl, rfl⟩ := h
      have hh := removeInL_height i s.detached
      rw [hR] at hh
      refine ⟨⟨hi.1, Nat.le_trans hh.1 hi.2⟩, ?_⟩
      intro m hm; subst hm
      exact Nat.le_trans (hh.2 m rfl) hi.2

/-! ### depth of a node and the effect of an update at it -/
mutual
theorem depthIn_none_of_absent (i : Nat) : (t : Node) → cnt i t = 0 → depthIn i t = none
  | .mk j k d as ks, h => by
    rw [cnt_mk] at h
    have hij : (i == j) = false := by
      cases hh : (i == j) with
      | false => rfl
      | true =>
        have e : i = j := by simpa using hh
        subst e
        simp at h
    have h1 := depthInL_none_of_absent i as (by omega)
    have h2 := depthInL_none_of_absent i ks (by omega)
    simp [depthIn, hij, h1, h2]
theorem depthInL_none_of_absent (i : Nat) : (l : List Node) → cntL i l = 0 → depthInL i l = none
  | [], _ => rfl
  | n :: r, h => by
    rw [cntL_cons] at h
    simp [depthInL, depthIn_none_of_absent i n (by omega), depthInL_none_of_absent i r (by omega)]
end

theorem depthInL_some_pos (i : Nat) (l : List Node) (d : Nat) (h : depthInL i l = some d) : 0 < cntL i l := by
  cases hc : cntL i l with
  | zero => rw [depthInL_none_of_absent i l hc] at h; cases h
  | succ m => omega

mutual
/-- an update at the one node with id `p`, by a function that raises the height of that node to at most `me + hx`, raises
    the height of the tree to at most `depth of p + hx` -/
theorem updateIn_height (p : Nat) (f : Node → Node) (hx : Nat)
    (hf : ∀ n, elemHeight (f n) ≤ max (elemHeight n) (me n.kind + hx)) :
    (t : Node) → (dp : Nat) → cnt p t ≤ 1 → depthIn p t = some dp →
      elemHeight (updateIn p f t) ≤ max (elemHeight t) (dp + hx)
  | .mk j k d as ks, dp, hc, hd => by
    simp only [updateIn]
    by_cases hpj : (p == j) = true
    · simp only [hpj, if_true]
      have hdp : dp = me k := by
        simp only [depthIn, hpj, if_true, Option.some.injEq] at hd
        simp only [me]; exact hd.symm
      have := hf (.mk j k d as ks)
      simp only [Node.kind] at this
      omega
    · have hpjf : (p == j) = false := by simpa using hpj
      simp only [hpjf, Bool.false_eq_true, if_false]
      simp only [depthIn, hpjf, Bool.false_eq_true, if_false] at hd
      rw [cnt_mk] at hc
      simp only [elemHeight_mk]
      cases hA : depthInL p as with
      | some da =>
        simp only [hA, Option.orElse, Option.map_some, Option.some.injEq] at hd
        have hpos := depthInL_some_pos p as da hA
        have hk0 : cntL p ks = 0 := by omega
        rw [updateInL_absent p f ks hk0]
        have ih := updateInL_height p f hx hf as da (by omega) hA
        simp only [me] at hd ⊢
        omega
      | none =>
        simp only [hA, Option.orElse] at hd
        cases hK : depthInL p ks with
        | none => simp [hK] at hd
        | some dk =>
          simp only [hK, Option.map_some, Option.some.injEq] at hd
          have ha0 : cntL p as = 0 := by
            cases hca : cntL p as with
            | zero => rfl
            | succ m =>
              have hpos := depthInL_some_pos p ks dk hK
              omega
          rw [updateInL_absent p f as ha0]
          have ih := updateInL_height p f hx hf ks dk (by omega) hK
          simp only [me] at hd ⊢
          omega
theorem updateInL_height (p : Nat) (f : Node → Node) (hx : Nat)
    (hf : ∀ n, elemHeight (f n) ≤ max (elemHeight n) (me n.kind + hx)) :
    (l : List Node) → (dp : Nat) → cntL p l ≤ 1 → depthInL p l = some dp →
      elemHeightL (updateInL p f l) ≤ max (elemHeightL l) (dp + hx)
  | [], dp, _, hd => by simp [depthInL] at hd
  | n :: r, dp, hc, hd => by
    rw [cntL_cons] at hc
    simp only [updateInL, elemHeightL_cons]
    simp only [depthInL] at hd
    cases hN : depthIn p n with
    | some dn =>
      simp only [hN, Option.orElse, Option.some.injEq] at hd; subst hd
      have hpos : 0 < cnt p n := by
        cases hcn : cnt p n with
        | zero => rw [depthIn_none_of_absent p n hcn] at hN; cases hN
        | succ m => omega
      rw [updateInL_absent p f r (by omega)]
      have ih := updateIn_height p f hx hf n dn (by omega) hN
      omega
    | none =>
      simp only [hN, Option.orElse] at hd
      have hn0 : cnt p n = 0 := by
        cases hcn : cnt p n with
        | zero => rfl
        | succ m =>
          have hpos := depthInL_some_pos p r dp hd
          omega
      rw [updateIn_absent p f n hn0]
      have ih := updateInL_height p f hx hf r dp (by omega) hd
      omega
end

mutual
theorem depthIn_some_of_pos (i : Nat) : (t : Node) → 0 < cnt i t → ∃ d, depthIn i t = some d
  | .mk j k dd as ks, h => by
    rw [cnt_mk] at h
    by_cases hij : (i == j) = true
    · exact ⟨(if isElemKind k then 1 else 0), by simp [depthIn, hij]⟩
    · have hijf : (i == j) = false := by simpa using hij
      have hji : (j == i) = false := by
        cases hh : (j == i) with
        | false => rfl
        | true => have e : j = i := by simpa using hh
                  subst e; simp at hijf
      simp only [hji, Bool.false_eq_true, if_false, Nat.zero_add] at h
      by_cases ha : 0 < cntL i as
      · obtain ⟨d, hd⟩ := depthInL_some_of_pos i as ha
        exact ⟨d + (if isElemKind k then 1 else 0), by simp [depthIn, hijf, hd]⟩
      · obtain ⟨d, hd⟩ := depthInL_some_of_pos i ks (by omega)
        have hn := depthInL_none_of_absent i as (by omega)
        exact ⟨d + (if isElemKind k then 1 else 0), by simp [depthIn, hijf, hn, hd]⟩
theorem depthInL_some_of_pos (i : Nat) : (l : List Node) → 0 < cntL i l → ∃ d, depthInL i l = some d
  | [], h => by simp [cntL_nil] at h
  | n :: r, h => by
    rw [cntL_cons] at h
    by_cases hn : 0 < cnt i n
    · obtain ⟨d, hd⟩ := depthIn_some_of_pos i n hn
      exact ⟨d, by simp [depthInL, hd]⟩
    · obtain ⟨d, hd⟩ := depthInL_some_of_pos i r (by omega)
      have h0 := depthIn_none_of_absent i n (by omega)
      exact ⟨d, by simp [depthInL, h0, hd]⟩
end

/-! ### updates that do not raise the height of the node they are applied to -/
mutual
theorem updateIn_height_le (p : Nat) (f : Node → Node) (hf : ∀ n, elemHeight (f n) ≤ elemHeight n) :
    (t : Node) → elemHeight (updateIn p f t) ≤ elemHeight t
  | .mk j k d as ks => by
    simp only [updateIn]
    split
    · exact hf _
    · have h1 := updateInL_height_le p f hf as
      have h2 := updateInL_height_le p f hf ks
      simp only [elemHeight_mk]; omega
theorem updateInL_height_le (p : Nat) (f : Node → Node) (hf : ∀ n, elemHeight (f n) ≤ elemHeight n) :
    (l : List Node) → elemHeightL (updateInL p f l) ≤ elemHeightL l
  | [] => by simp [updateInL]
  | n :: r => by
    have h1 := updateIn_height_le p f hf n
    have h2 := updateInL_height_le p f hf r
    simp only [updateInL, elemHeightL_cons]; omega
end

/-! ### a node found in a tree is not higher than the tree -/
mutual
theorem findIn_height (i : Nat) : (t n : Node) → findIn i t = some n → elemHeight n ≤ elemHeight t
  | .mk j k d as ks, n, h => by
    simp only [findIn] at h
    split at h
    · simp only [Option.some.injEq] at h; subst h; exact Nat.le_refl _
    · simp only [elemHeight_mk]
      cases hA : findInL i as with
      | some q =>
        simp [hA] at h; subst h
        have := findInL_height i as q hA; omega
      | none =>
        simp [hA] at h
        have := findInL_height i ks n h; omega
theorem findInL_height (i : Nat) : (l : List Node) → (n : Node) → findInL i l = some n → elemHeight n ≤ elemHeightL l
  | [], n, h => by simp [findInL] at h
  | t :: r, n, h => by
    simp only [findInL] at h
    simp only [elemHeightL_cons]
    cases hT : findIn i t with
    | some q =>
      simp [hT] at h; subst h
      have := findIn_height i t q hT; omega
    | none =>
      simp [hT] at h
      have := findInL_height i r n h; omega
end

theorem one_le_M : 1 ≤ M := by decide

theorem elemHeightL_insertBeforeL (x : Node) (ref : Option Nat) (l : List Node) :
    elemHeightL (insertBeforeL x ref l) = max (elemHeightL l) (elemHeight x) := by
  induction l with
  | nil => simp [insertBeforeL, elemHeightL]
  | cons n r ih =>
    simp only [insertBeforeL]
    split
    · split
      · simp only [elemHeightL_cons]; omega
      · simp only [elemHeightL_cons, ih]; omega
    · simp only [elemHeightL_cons, ih]; omega

/-! ### the invariant at state level -/
theorem heightInv_roots (s : St) : HeightInv s ↔ elemHeightL s.roots ≤ M := by
  unfold HeightInv; rw [elemHeightL_le_iff]

theorem HeightInv.same {s s' : St} (h : HeightInv s) (e1 : s'.doc = s.doc) (e2 : s'.detached = s.detached) : HeightInv s' := by
  rw [heightInv_iff] at h ⊢; rw [e1, e2]; exact h

theorem HeightInv.add_detached {s : St} (h : HeightInv s) (l : List Node) (hl : elemHeightL l ≤ M) (nx : Nat) (hs : List (Option Nat)) :
    HeightInv { s with detached := s.detached ++ l, next := nx, handles := hs } := by
  rw [heightInv_iff] at h ⊢
  exact ⟨h.1, by simp only [elemHeightL_append]; omega⟩

theorem update_heightInv_le (s : St) (i : Nat) (f : Node → Node) (hf : ∀ n, elemHeight (f n) ≤ elemHeight n)
    (h : HeightInv s) : HeightInv (s.update i f) := by
  rw [heightInv_roots] at h ⊢
  rw [update_roots]
  exact Nat.le_trans (updateInL_height_le i f hf s.roots) h

theorem update_heightInv_bound (s : St) (p : Nat) (f : Node → Node) (hx : Nat)
    (hf : ∀ n, elemHeight (f n) ≤ max (elemHeight n) (me n.kind + hx))
    (hnd : ∀ a, cntL a s.roots ≤ 1) (hd : s.elemDepth p + hx ≤ M) (h : HeightInv s) : HeightInv (s.update p f) := by
  rw [heightInv_roots] at h ⊢
  rw [update_roots]
  cases hc : cntL p s.roots with
  | zero => rw [updateInL_absent p f s.roots hc]; exact h
  | succ m =>
    obtain ⟨dp, hdp⟩ := depthInL_some_of_pos p s.roots (by omega)
    have hb := updateInL_height p f hx hf s.roots dp (hnd p) hdp
    have : s.elemDepth p = dp := by simp [St.elemDepth, hdp]
    omega

theorem mapKids_insert_bound (x : Node) (ref : Option Nat) (n : Node) :
    elemHeight (n.mapKids (insertBeforeL x ref)) ≤ max (elemHeight n) (me n.kind + elemHeight x) := by
  cases n with
  | mk j k d as ks =>
    simp only [Node.mapKids, elemHeight_mk, elemHeightL_insertBeforeL, Node.kind]; omega

theorem mapAttrs_append_bound (x : Node) (n : Node) :
    elemHeight (n.mapAttrs (· ++ [x])) ≤ max (elemHeight n) (me n.kind + elemHeight x) := by
  cases n with
  | mk j k d as ks =>
    simp only [Node.mapAttrs, elemHeight_mk, elemHeightL_append, elemHeightL_cons, Node.kind, elemHeightL]; omega

theorem withData_height (d : Str) (n : Node) : elemHeight (n.withData d) = elemHeight n := by
  cases n; simp [Node.withData, elemHeight_mk]

theorem not_tooDeep (s : St) (pn x : Node) (h : tooDeep s pn x = false) : s.elemDepth pn.id + elemHeight x ≤ M := by
  simp only [tooDeep, decide_eq_false_iff_not] at h; show _ ≤ maxDepth_element; omega

theorem detach_unique (s s1 : St) (i : Nat) (x : Option Node) (hnd : ∀ a, cntL a s.roots ≤ 1) (h : s.detach i = (s1, x)) :
    ∀ a, cntL a s1.roots ≤ 1 := by
  intro a
  obtain ⟨_, _, h3, h4⟩ := detach_count s s1 i x hnd h
  cases x with
  | none => rw [h4 rfl]; exact hnd a
  | some n => have := (h3 n rfl).2 a; have := hnd a; omega

/-- the shape of a successful insertion, with what the depth guard established -/
theorem insertChild_shape3 (s : St) (p c : Nat) (ref : Option Nat) :
    (insertChild s p c ref).1 = s ∨
    ∃ pn s1 x r, s.find p = some pn ∧ s.detach c = (s1, some x) ∧ tooDeep s1 pn x = false ∧
      (insertChild s p c ref).1 = s1.update p (Node.mapKids (insertBeforeL x r)) := by
  unfold insertChild
  repeat' split
  all_goals first
    | exact Or.inl rfl
    | (right
       refine ⟨_, _, _, _, by assumption, by assumption, ?_, rfl⟩
       simp_all)

theorem insertChild_heightInv (s : St) (p c : Nat) (ref : Option Nat) (hi : Inv s) (hh : HeightInv s) :
    HeightInv (insertChild s p c ref).1 := by
  rcases insertChild_shape3 s p c ref with h | ⟨pn, s1, x, r, hp, hd, htd, heq⟩
  · rw [h]; exact hh
  · rw [heq]
    obtain ⟨hh1, hx⟩ := detach_height s s1 c (some x) hd hh
    have hid : pn.id = p := (findInL_some p s.roots pn hp).1
    have hb := not_tooDeep s1 pn x htd
    rw [hid] at hb
    exact update_heightInv_bound s1 p _ (elemHeight x) (mapKids_insert_bound x r) (detach_unique s s1 c _ hi.1 hd) hb hh1

theorem removeChild_heightInv (s : St) (p c : Nat) (hh : HeightInv s) : HeightInv (removeChild s p c).1 := by
  rcases removeChild_shape s p c with ⟨e, h⟩ | ⟨s1, x, hd, heq⟩
  · rw [h]; exact hh
  · rw [heq]
    obtain ⟨hh1, hx⟩ := detach_height s s1 c (some x) hd hh
    have := hh1.add_detached [x] (by simp only [elemHeightL_cons, elemHeightL]; have := hx x rfl; omega) s1.next s1.handles
    exact this.same rfl rfl

theorem detachKeep_heightInv (s : St) (i : Nat) (hh : HeightInv s) : HeightInv (s.detachKeep i) := by
  unfold St.detachKeep
  cases hd : s.detach i with
  | mk s1 x =>
    obtain ⟨hh1, hx⟩ := detach_height s s1 i x hd hh
    cases x with
    | none => exact hh1
    | some n =>
      have := hh1.add_detached [n] (by simp only [elemHeightL_cons, elemHeightL]; have := hx n rfl; omega) s1.next s1.handles
      exact this.same rfl rfl

theorem detachAll_heightInv (l : List Nat) : ∀ (s : St), HeightInv s → HeightInv (s.detachAll l) := by
  induction l with
  | nil => intro s h; exact h
  | cons i r ih => intro s h; exact ih _ (detachKeep_heightInv s i h)

/-! ### normalize, fresh value items -/
theorem elemHeightL_toList (p : Option Node) : elemHeightL p.toList = (match p with | some x => elemHeight x | none => 0) := by
  cases p <;> simp [elemHeightL]

mutual
theorem normNode_height : (n : Node) → elemHeight (normNode n).1 ≤ elemHeight n ∧ elemHeightL (normNode n).2 ≤ elemHeight n
  | .mk j k d as ks => by
    unfold normNode
    split
    · have h1 := normAttrs_height as
      have h2 := normList_height none ks
      simp only [elemHeight_mk, elemHeightL_append, elemHeightL_toList] at h1 h2 ⊢
      omega
    · simp [elemHeightL]
theorem normAttrs_height : (l : List Node) →
    elemHeightL (normAttrs l).1 ≤ elemHeightL l ∧ elemHeightL (normAttrs l).2 ≤ elemHeightL l
  | [] => by simp [normAttrs, elemHeightL]
  | (.mk j k d as ks) :: r => by
    have h1 := normList_height none ks
    have h2 := normAttrs_height r
    simp only [normAttrs, elemHeightL_cons, elemHeight_mk, elemHeightL_append, elemHeightL_toList] at h1 h2 ⊢
    omega
theorem normList_height : (prev : Option Node) → (l : List Node) →
    elemHeightL (normList prev l).1 ≤ max (elemHeightL prev.toList) (elemHeightL l) ∧
    elemHeightL (normList prev l).2 ≤ elemHeightL l
  | prev, [] => by simp [normList, elemHeightL]
  | prev, (.mk j k d as ks) :: r => by
    unfold normList
    split
    · split
      · have h := normList_height prev r
        simp only [elemHeightL_cons] at h ⊢; omega
      · split
        · next p =>
          split
          · have h := normList_height (some (p.withData (p.data ++ d))) r
            simp only [elemHeightL_cons, elemHeightL_toList, withData_height, Option.toList, elemHeightL] at h ⊢; omega
          · have h := normList_height (some (.mk j .text d as ks)) r
            simp only [elemHeightL_cons, elemHeightL_toList, Option.toList, elemHeightL] at h ⊢; omega
        · have h := normList_height (some (.mk j .text d as ks)) r
          simp only [elemHeightL_cons, elemHeightL_toList, Option.toList, elemHeightL] at h ⊢; omega
    · next nm =>
      have h1 := normNode_height (.mk j (.elem nm) d as ks)
      have h2 := normList_height none r
      simp only [elemHeightL_cons, elemHeightL_append, elemHeightL_toList, Option.toList, elemHeightL] at h1 h2 ⊢
      cases prev <;> simp only [elemHeightL, elemHeightL_cons] at * <;> omega
    · have h2 := normList_height none r
      simp only [elemHeightL_cons, elemHeightL_append, elemHeightL_toList, Option.toList, elemHeightL] at h2 ⊢
      cases prev <;> simp only [elemHeightL, elemHeightL_cons] at * <;> omega
end

theorem pieceKind_not_elem (p : Piece) : isElemKind (pieceKind p).1 = false := by
  cases p <;> rfl

theorem mkItems_height : ∀ (ps : List Piece) (next : Nat), elemHeightL (mkItems next ps).1 = 0
  | [], _ => by simp [mkItems, elemHeightL]
  | p :: r, next => by
    have ih := mkItems_height r (next + 1)
    simp only [mkItems, elemHeightL_cons, elemHeight_mk, me, pieceKind_not_elem, elemHeightL, ih]
    simp

/-! ### every operation keeps the bound -/
theorem fresh_heightInv (s : St) (k : Kind) (d : Str) (hh : HeightInv s) : HeightInv (s.fresh k d).1 := by
  unfold St.fresh
  have h1 : elemHeightL [Node.mk s.next k d [] []] ≤ M := by
    simp only [elemHeightL_cons, elemHeight_mk, elemHeightL, me]
    have := one_le_M
    split <;> omega
  exact (hh.add_detached _ h1 (s.next + 1) s.handles)

theorem HeightInv.handles {s : St} (h : HeightInv s) (hs : List (Option Nat)) : HeightInv { s with handles := hs } :=
  h.same rfl rfl

theorem replaceChild_heightInv (s : St) (p new old : Nat) (hi : Inv s) (hh : HeightInv s) :
    HeightInv (step s (.replaceChild p new old)).1 := by
  simp only [step]
  split
  · exact hh
  · next pn hp =>
    split
    · have := insertChild_heightInv s p new (some old) hi hh
      cases hic : insertChild s p new (some old) with
      | mk s' r => rw [hic] at this; cases r <;> exact this
    · cases hrm : removeChild s p old with
      | mk s1 r1 =>
        have h1 : HeightInv s1 := by have := removeChild_heightInv s p old hh; rw [hrm] at this; exact this
        have hi1 : Inv s1 := by
          have := (removeChild_sameIds s p old hi); rw [hrm] at this; exact hi.of_sameIds this
        cases r1 with
        | node x =>
          simp only
          generalize hr : (Option.map (fun x => x.id)
            (filter (fun x => x.id != new) (drop 1 (dropWhile (fun x => x.id != old) pn.kids))).head?) = ref
          cases hin : insertChild s1 p new ref with
          | mk s2 r2 =>
            have h2 : HeightInv s2 := by have := insertChild_heightInv s1 p new ref hi1 h1; rw [hin] at this; exact this
            cases r2 <;> first | exact h2 | exact hh
        | _ => exact hh

theorem dataOp_heightInv (s : St) (n : Nat) (f : Str → Option Str) (hh : HeightInv s) : HeightInv (step.dataOp s n f).1 := by
  unfold step.dataOp
  repeat' split
  all_goals first
    | exact hh
    | exact update_heightInv_le s n _ (fun m => Nat.le_of_eq (withData_height _ m)) hh

theorem me_le_height (n : Node) : me n.kind ≤ elemHeight n := by
  cases n; simp only [Node.kind, elemHeight_mk]; omega

theorem mapAttrs_append_flat (x : Node) (hx : elemHeight x = 0) (n : Node) : elemHeight (n.mapAttrs (· ++ [x])) ≤ elemHeight n := by
  have h1 := mapAttrs_append_bound x n
  have h2 := me_le_height n
  omega

theorem mapKids_const_flat (items : List Node) (hx : elemHeightL items = 0) (n : Node) :
    elemHeight (n.mapKids (fun _ => items)) ≤ elemHeight n := by
  cases n with
  | mk j k d as ks => simp only [Node.mapKids, elemHeight_mk, hx]; omega

theorem mapKids_leaf_flat (g : List Node → List Node) (hg : ∀ ks, elemHeightL (g ks) ≤ elemHeightL ks) (n : Node) :
    elemHeight (n.mapKids g) ≤ elemHeight n := by
  cases n with
  | mk j k d as ks => simp only [Node.mapKids, elemHeight_mk]; have := hg ks; omega

theorem kids_height_le (n : Node) : elemHeightL n.kids ≤ elemHeight n := by
  cases n; simp only [Node.kids, elemHeight_mk]; omega

theorem found_height (s : St) (hh : HeightInv s) (i : Nat) (n : Node) (hf : s.find i = some n) : elemHeight n ≤ M := by
  rw [heightInv_roots] at hh
  exact Nat.le_trans (findInL_height i s.roots n hf) hh

theorem HeightInv.next {s : St} (h : HeightInv s) (nx : Nat) : HeightInv { s with next := nx } := h.same rfl rfl

theorem step_heightInv (s : St) (op : Op) (hi : Inv s) (hh : HeightInv s) : HeightInv (step s op).1 := by
  cases op with
  | createElement name => simp only [step]; split <;> first | exact (fresh_heightInv s _ _ hh).handles _ | exact hh.handles _
  | createText d => simp only [step]; split <;> first | exact (fresh_heightInv s _ _ hh).handles _ | exact hh.handles _
  | createComment d => simp only [step]; split <;> first | exact (fresh_heightInv s _ _ hh).handles _ | exact hh.handles _
  | createCData d => simp only [step]; split <;> first | exact (fresh_heightInv s _ _ hh).handles _ | exact hh.handles _
  | createPI t d => simp only [step]; split <;> first | exact (fresh_heightInv s _ _ hh).handles _ | exact hh.handles _
  | createAttribute name => simp only [step]; split <;> first | exact (fresh_heightInv s _ _ hh).handles _ | exact hh.handles _
  | createEntityRef name => simp only [step]; repeat' split
                            all_goals first | exact (fresh_heightInv s _ _ hh).handles _ | exact hh.handles _
  | appendChild p c => simp only [step]; exact insertChild_heightInv s p c none hi hh
  | insertBefore p c r => simp only [step]; exact insertChild_heightInv s p c r hi hh
  | removeChild p c => simp only [step]; exact removeChild_heightInv s p c hh
  | replaceChild p new old => exact replaceChild_heightInv s p new old hi hh
  | normalize e =>
    simp only [step]
    cases hf : s.find e with
    | none => exact hh
    | some en =>
      have h1 := update_heightInv_le s e (fun n => (normNode n).1) (fun n => (normNode_height n).1) hh
      have hen : elemHeight en ≤ M := by
        rw [heightInv_roots] at hh
        exact Nat.le_trans (findInL_height e s.roots en hf) hh
      have := h1.add_detached (normNode en).2 (Nat.le_trans (normNode_height en).2 hen) (s.update e fun n => (normNode n).1).next (s.update e fun n => (normNode n).1).handles
      exact this.same rfl rfl
  | setData n d => simp only [step]; exact dataOp_heightInv s n _ hh
  | appendData n d => simp only [step]; exact dataOp_heightInv s n _ hh
  | insertData n off d => simp only [step]; exact dataOp_heightInv s n _ hh
  | deleteData n off cnt => simp only [step]; exact dataOp_heightInv s n _ hh
  | replaceData n off cnt d => simp only [step]; exact dataOp_heightInv s n _ hh
  | getAttributeNode e name => simp only [step]; repeat' split
                               all_goals exact hh.handles _
  | childAt n i => simp only [step]; repeat' split
                   all_goals exact hh.handles _
  | removeAttribute e name =>
    simp only [step]
    split
    · exact detachAll_heightInv _ s hh
    · exact hh
  | removeAttributeNode e a =>
    simp only [step]
    repeat' split
    all_goals first
      | exact hh
      | exact detachAll_heightInv _ s hh
  | setAttribute e name value =>
    simp only [step]
    split
    · next en hf =>
      split
      · split
        · exact hh
        · split
          · exact hh
          · next ps hps =>
            have h1 := detachAll_heightInv (sameLocalIds en name) s hh
            have ha : elemHeight (Node.mk s.next (.attr name true) [] [] (mkItems (s.next + 1) ps).1) = 0 := by
              simp [elemHeight_mk, me, isElemKind, elemHeightL, mkItems_height]
            exact (update_heightInv_le _ e _ (mapAttrs_append_flat _ ha) h1).next _
      · exact hh
    · exact hh
  | setAttributeNode e a =>
    simp only [step]
    split
    · next en an hfe hfa =>
      split
      · next nm sp hk =>
        split
        · exact hh
        · split
          · exact hh
          · have hs1 := detachAll_sameIds (sameLocalIds en nm) s hi
            have hi1 : Inv (s.detachAll (sameLocalIds en nm)) := hi.of_sameIds hs1
            have h1 := detachAll_heightInv (sameLocalIds en nm) s hh
            cases hd2 : (s.detachAll (sameLocalIds en nm)).detach a with
            | mk s2 x =>
              cases x with
              | none => exact hh
              | some xn =>
                simp only
                obtain ⟨h2, hx⟩ := detach_height _ s2 a (some xn) hd2 h1
                split
                · exact hh
                · next htd =>
                  have hb := not_tooDeep s2 en xn (by simpa using htd)
                  have hid : en.id = e := (findInL_some e s.roots en hfe).1
                  rw [hid] at hb
                  exact update_heightInv_bound s2 e _ (elemHeight xn) (mapAttrs_append_bound xn)
                    (detach_unique _ s2 a _ hi1.1 hd2) hb h2
      · exact hh
    · exact hh
  | setValue n v =>
    simp only [step]
    split
    · next nn hf =>
      split
      · next nm sp hk =>
        split
        · exact hh
        · next ps hps =>
          have h1 := update_heightInv_le s n _ (mapKids_const_flat (mkItems s.next ps).1 (mkItems_height ps s.next)) hh
          have hk : elemHeightL nn.kids ≤ M := Nat.le_trans (kids_height_le nn) (found_height s hh n nn hf)
          exact (h1.add_detached nn.kids hk _ _).same rfl rfl
      all_goals (first
        | exact hh
        | (split
           · exact update_heightInv_le s n _ (fun m => Nat.le_of_eq (withData_height _ m)) hh
           · exact hh))
    · exact hh
  | splitText n off =>
    simp only [step]
    split
    · next nn hf =>
      split
      all_goals (first
        | exact hh.handles _
        | (split
           · exact hh.handles _
           · next l r hsp =>
             have h1 := update_heightInv_le s n _ (fun m => Nat.le_of_eq (withData_height l m)) hh
             have hnew : ∀ k, (k = Kind.text ∨ k = Kind.cdata) → elemHeight (Node.mk s.next k r [] []) = 0 := by
               intro k hk; rcases hk with rfl | rfl <;> simp [elemHeight_mk, me, isElemKind, elemHeightL]
             have hk : nn.kind = Kind.text ∨ nn.kind = Kind.cdata := by
               first | exact Or.inl (by assumption) | exact Or.inr (by assumption)
             have h0 := hnew nn.kind hk
             cases hp : (s.update n (Node.withData l)).parent n with
             | none =>
               simp only [hp]
               exact ((h1.add_detached [Node.mk s.next nn.kind r [] []] (by simp [elemHeightL_cons, elemHeightL, h0]) _ _).same rfl rfl)
             | some p =>
               simp only [hp]
               refine ((update_heightInv_le _ p _ (mapKids_leaf_flat _ (fun ks => ?_)) h1).same rfl rfl)
               split
               · rw [elemHeightL_insertBeforeL, h0]; omega
               · rw [elemHeightL_append]; simp [elemHeightL_cons, elemHeightL, h0]))
    · exact hh.handles _

end XmlRs.Dom

namespace XmlRs.Dom
open List Gen.Xml

/-! ### the initial state: the height of the tree built from a parsed document is the element nesting of the document -/
mutual
/-- levels of element nesting of an information item -/
def itemDepth : Item → Nat
  | .elem _ _ kids => 1 + itemDepthL kids
  | _ => 0
def itemDepthL : List Item → Nat
  | [] => 0
  | i :: r => max (itemDepth i) (itemDepthL r)
end

def topDepth : TopItem → Nat | .elem e => itemDepth e | _ => 0
def topsDepth : List TopItem → Nat | [] => 0 | t :: r => max (topDepth t) (topsDepth r)

theorem buildAttrs_height : ∀ (as : List Attr) (next : Nat), elemHeightL (buildAttrs next as).1 = 0
  | [], _ => by simp [buildAttrs, elemHeightL]
  | a :: r, next => by
    unfold buildAttrs
    split
    · exact buildAttrs_height r next
    · simp only [elemHeightL_cons, elemHeight_mk, me, isElemKind, elemHeightL, mkItems_height, buildAttrs_height r]
      simp

mutual
theorem buildNode_height : (next : Nat) → (i : Item) → elemHeight (buildNode next i).1 = itemDepth i
  | next, .text s => by simp [buildNode, elemHeight_mk, me, isElemKind, elemHeightL, itemDepth]
  | next, .cdata s => by simp [buildNode, elemHeight_mk, me, isElemKind, elemHeightL, itemDepth]
  | next, .comment s => by simp [buildNode, elemHeight_mk, me, isElemKind, elemHeightL, itemDepth]
  | next, .pi t d => by simp [buildNode, elemHeight_mk, me, isElemKind, elemHeightL, itemDepth]
  | next, .charRef d h => by simp [buildNode, elemHeight_mk, me, isElemKind, elemHeightL, itemDepth]
  | next, .entRef n => by simp [buildNode, elemHeight_mk, me, isElemKind, elemHeightL, itemDepth]
  | next, .elem q attrs kids => by
    have h1 := buildAttrs_height attrs (next + 1)
    have h2 := buildNodes_height (buildAttrs (next + 1) attrs).2 kids
    simp only [buildNode, elemHeight_mk, me, isElemKind, h1, h2, itemDepth]
    simp
theorem buildNodes_height : (next : Nat) → (l : List Item) → elemHeightL (buildNodes next l).1 = itemDepthL l
  | next, [] => by simp [buildNodes, elemHeightL, itemDepthL]
  | next, k :: r => by
    have h1 := buildNode_height next k
    have h2 := buildNodes_height (buildNode next k).2 r
    simp only [buildNodes, elemHeightL_cons, h1, h2, itemDepthL]
end

theorem buildTop_height (next : Nat) (t : TopItem) : elemHeight (buildTop next t).1 = topDepth t := by
  cases t with
  | elem e => simp [buildTop, topDepth, buildNode_height]
  | _ => simp [buildTop, topDepth, elemHeight_mk, me, isElemKind, elemHeightL]

theorem buildTops_height : ∀ (next : Nat) (l : List TopItem), elemHeightL (buildTops next l).1 = topsDepth l
  | next, [] => by simp [buildTops, elemHeightL, topsDepth]
  | next, t :: r => by
    simp only [buildTops, elemHeightL_cons, buildTop_height, buildTops_height _ r, topsDepth]

/-- the state a history starts from is within the bound iff the document nests its elements no deeper than the bound
    (which the parser guarantees: it refuses anything deeper) -/
theorem buildSt_heightInv (d : IDoc) (h : topsDepth d.kids ≤ M) : HeightInv (buildSt d) := by
  rw [heightInv_iff]
  simp only [buildSt, elemHeight_mk, me, isElemKind, elemHeightL, buildTops_height]
  simp; exact h

end XmlRs.Dom
