import XmlRsModel.Lemmas.RunsDoc
/-! The abstraction functions (`absQName`, `absAttribute`, `absTag`, `absContent`, `absElement`, `absDocument`) applied to
    the trees the parser builds for a rendering give back the abstract document: `abs (cst x) = erase x`. -/
namespace XmlRs.Lex
open XmlRs Gen.Xml XmlRs.Names

/-! ### trees without `element` / `children` nodes have depth 0 -/
mutual
def noEl : CST → Bool
  | .leaf _ => true
  | .node n c => n != N.element && n != N.children && noEl c
  | .seq ks => noElL ks
  | .many ks => noElL ks
def noElL : List CST → Bool
  | [] => true
  | c :: cs => noEl c && noElL cs
end

mutual
theorem noEl_depth : ∀ c : CST, noEl c = true → c.elemDepth = 0 ∧ c.ntDepth N.children = 0
  | .leaf _, _ => by simp [CST.elemDepth, CST.ntDepth]
  | .node n c, h => by
    simp only [noEl, Bool.and_eq_true, bne_iff_ne, ne_eq] at h
    have := noEl_depth c h.2
    have h1 : (n == N.element) = false := by simpa using h.1.1
    have h2 : (n == N.children) = false := by simpa using h.1.2
    simp [CST.elemDepth, CST.ntDepth, h1, h2, this]
  | .seq ks, h => by simpa [CST.elemDepth, CST.ntDepth] using noElL_depth ks (by simpa [noEl] using h)
  | .many ks, h => by simpa [CST.elemDepth, CST.ntDepth] using noElL_depth ks (by simpa [noEl] using h)
theorem noElL_depth : ∀ cs : List CST, noElL cs = true → elemDepthL cs = 0 ∧ ntDepthL N.children cs = 0
  | [], _ => by simp [elemDepthL, ntDepthL]
  | c :: cs, h => by
    simp only [noElL, Bool.and_eq_true] at h
    have h1 := noEl_depth c h.1
    have h2 := noElL_depth cs h.2
    simp [elemDepthL, ntDepthL, h1, h2]
end

theorem noElL_map {α : Type} (f : α → CST) (l : List α) (h : ∀ x ∈ l, noEl (f x) = true) : noElL (l.map f) = true := by
  induction l with
  | nil => rfl
  | cons x xs ih =>
    simp only [List.map_cons, noElL, Bool.and_eq_true]
    exact ⟨h x (by simp), ih (fun y hy => h y (by simp [hy]))⟩

mutual
theorem noEl_of_leafy : ∀ c : CST, leafy c = true → noEl c = true
  | .leaf _, _ => rfl
  | .node _ _, h => by simp [leafy] at h
  | .seq ks, h => by simpa [noEl] using noElL_of_leafy ks (by simpa [leafy] using h)
  | .many ks, h => by simpa [noEl] using noElL_of_leafy ks (by simpa [leafy] using h)
theorem noElL_of_leafy : ∀ cs : List CST, leafyL cs = true → noElL cs = true
  | [], _ => rfl
  | c :: cs, h => by
    simp only [leafyL, Bool.and_eq_true] at h
    simp [noElL, noEl_of_leafy c h.1, noElL_of_leafy cs h.2]
end

theorem noEl_nc (a : Str) : noEl (cstNc a) = true := by
  simp only [cstNc, noEl, noElL]
  split <;> simp [noEl, noElL, N.ncname, N.element, N.children]

theorem noEl_qn (q : QN) : noEl (cstQN q) = true := by
  obtain ⟨pre, loc⟩ := q
  cases pre <;> simp [cstQN, noEl, noElL, noEl_nc, N.qname, N.prefixed_name, N.element, N.children]

theorem noEl_name (t : Str) : noEl (cstName t) = true := by
  simp [cstName, noEl, noElL, N.name, N.multinamestartchar0, N.multinamechar0, N.element, N.children]

theorem noEl_ref (pc : Piece) : noEl (cstRef pc) = true := by
  cases pc with
  | charRef d h => cases h <;> simp [cstRef, noEl, noElL, N.reference, N.char_ref, N.element, N.children]
  | entRef n => simp [cstRef, noEl, noElL, noEl_name, N.reference, N.entity_ref, N.element, N.children]
  | _ => rfl

theorem noEl_piece (pc : Piece) : noEl (cstPiece pc) = true := by
  cases pc with
  | text s => rfl
  | charRef d h => simp only [cstPiece]; exact noEl_ref _
  | entRef n => simp only [cstPiece]; exact noEl_ref _
  | peRef n => simp only [cstPiece]; exact noEl_ref _

theorem noEl_attr (a : CAttr) : noEl (cstAttr a) = true := by
  have h1 : noEl (cstAttrName a.name) = true := by
    unfold cstAttrName
    split
    · simp [noEl, noElL, noEl_nc, N.ns_att_name, N.element, N.children]
    · split
      · simp [noEl, N.ns_att_name, N.element, N.children]
      · exact noEl_qn _
  have h2 : noElL (a.vals.map cstPiece) = true := noElL_map _ _ (fun x _ => noEl_piece x)
  simp [cstAttr, cstEq, cstAttValue, noEl, noElL, h1, h2, N.attribute_, N.eq, N.att_value, N.element, N.children]

theorem noElL_attrIters (as : List CAttr) : noElL (as.map cstAttrIter) = true :=
  noElL_map _ _ (fun a _ => by simp [cstAttrIter, noEl, noElL, noEl_attr])

theorem noEl_stag (n : QN) (as : List CAttr) (w : Str) : noEl (cstSTag n as w) = true := by
  simp [cstSTag, noEl, noElL, noEl_qn, noElL_attrIters, N.stag, N.element, N.children]

theorem noEl_emptyTag (n : QN) (as : List CAttr) (w : Str) : noEl (cstEmptyTag n as w) = true := by
  simp [cstEmptyTag, noEl, noElL, noEl_qn, noElL_attrIters, N.empty_entity_tag, N.element, N.children]

theorem noEl_etag (n : QN) (w : Str) : noEl (cstETag n w) = true := by
  simp [cstETag, noEl, noElL, noEl_qn, N.etag, N.element, N.children]

theorem noEl_charData (s : Str) : noEl (cstCharData s) = true := by
  simp [cstCharData, noEl, N.char_data, N.element, N.children]

theorem noEl_cdata (s : Str) : noEl (cstCData s) = true := by
  simp [cstCData, noEl, noElL, N.cdsect, N.element, N.children]

theorem noEl_pi (t b : Str) : noEl (cstPI t b) = true := by
  simp only [cstPI, piBody]
  split <;> simp [noEl, noElL, noEl_name, N.pi, N.pi_target, N.element, N.children]

theorem noEl_comment (s : Str) : noEl (cstComment s) = true := by
  simp [cstComment, noEl, noElL, noElL_of_leafy _ (commentIters_leafy _ _), N.comment, N.element, N.children]

theorem noEl_misc (m : CMisc) : noEl (cstMisc m) = true := by
  cases m with
  | comment s => simpa [cstMisc, noEl, N.misc, N.element, N.children] using noEl_comment s
  | pi t b => simpa [cstMisc, noEl, N.misc, N.element, N.children] using noEl_pi t b
  | ws w => simp [cstMisc, noEl, N.misc, N.element, N.children]

/-! ### element depth of the trees of items -/
mutual
theorem depth_item : ∀ i : CItem, (cstItemNode i).elemDepth ≤ i.depth ∧ (cstItemNode i).ntDepth N.children = 0
  | .text _ => by simp [cstItemNode, CST.elemDepth, CST.ntDepth]
  | .charRef d h => by have := noEl_depth _ (noEl_ref (.charRef d h)); simp [cstItemNode, this]
  | .entRef n => by have := noEl_depth _ (noEl_ref (.entRef n)); simp [cstItemNode, this]
  | .cdata s => by have := noEl_depth _ (noEl_cdata s); simp [cstItemNode, this]
  | .pi t b => by have := noEl_depth _ (noEl_pi t b); simp [cstItemNode, this]
  | .comment s => by have := noEl_depth _ (noEl_comment s); simp [cstItemNode, this]
  | .elem n as w e ks w' => by
    have ih := depth_iters ks
    have h1 := noEl_depth _ (noEl_stag n as w)
    have h2 := noEl_depth _ (noEl_emptyTag n as w)
    have h3 := noEl_depth _ (noEl_etag n w')
    have h4 := noEl_depth _ (noEl_charData (leadText ks))
    have e1 : (N.element_body == N.element) = false := by decide
    have e2 : (N.element_body == N.children) = false := by decide
    have e3 : (N.element == N.children) = false := by decide
    have e4 : (N.content == N.element) = false := by decide
    have e5 : (N.content == N.children) = false := by decide
    cases e with
    | true =>
      simp [cstItemNode, CST.elemDepth, CST.ntDepth, CItem.depth, h2, e1, e2, e3]
    | false =>
      simp only [cstItemNode, Bool.false_eq_true, if_false, CST.elemDepth, CST.ntDepth, elemDepthL, ntDepthL, CItem.depth,
        h1, h3, h4, ih.2, e1, e2, e3, e4, e5, beq_self_eq_true, if_true]
      simp
      exact ih.1
theorem depth_iters : ∀ l : List CItem, elemDepthL (cstIters l) ≤ depthL l ∧ ntDepthL N.children (cstIters l) = 0
  | [] => by simp [cstIters, elemDepthL, ntDepthL]
  | i :: rest => by
    have ih := depth_iters rest
    have hi := depth_item i
    cases i with
    | text s => simp only [cstIters, depthL]; exact ⟨Nat.le_trans ih.1 (Nat.le_max_right _ _), ih.2⟩
    | _ =>
      have h4 := noEl_depth _ (noEl_charData (leadText rest))
      simp only [cstIters, elemDepthL, ntDepthL, CST.elemDepth, CST.ntDepth, depthL, h4, hi.2, ih.2]
      refine ⟨?_, by simp⟩
      have := hi.1
      omega
end

end XmlRs.Lex
