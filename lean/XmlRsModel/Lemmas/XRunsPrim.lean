import XmlRsModel.Lemmas.XRunsTest2
/-! The trees of concrete XPath expressions, and the failure of the `primary_expr` alternatives on the text of a
    location step (a relative location path is tried as a filter expression first). -/
namespace XmlRs.XLex
open XmlRs XmlRs.XPath XmlRs.Lex
open Gen.XPath

/-! ### trees -/
def ntOfLevel : Nat → Nat
  | 6 => N.unary_expr | 7 => N.union_expr | 8 => N.path_expr | 9 => N.filter_expr | 10 => N.primary_expr
  | l => levelNt l

def cstMinus (ms : List Str) : List CST := ms.map fun w => CST.seq [.leaf ['-'], .leaf w]

mutual
def cstX : CX → CST
  | .chain l f r => .node (levelNt l) (.seq [cstX f, .many (cstTail r)])
  | .unary ms e => .node N.unary_expr (.seq [.many (cstMinus ms), cstX e])
  | .union f r => .node N.union_expr (.seq [cstX f, .many (cstTail r)])
  | .pathF f => .node N.path_expr (.seq [cstX f, .seq []])
  | .pathFR f w1 ds w2 rel => .node N.path_expr (.seq [cstX f, .seq [.seq [.leaf w1, .leaf (slashText ds), .leaf w2], cstRel rel]])
  | .pathAbs ds w rel => .node N.path_expr (.seq [.seq [.leaf (slashText ds), .leaf w], cstRel rel])
  | .pathRel rel => .node N.path_expr (cstRel rel)
  | .pathRoot => .node N.path_expr (.leaf ['/'])
  | .filter p preds => .node N.filter_expr (.seq [cstX p, .many (cstPreds preds)])
  | .var q => .node N.primary_expr (.node N.variable_reference (.seq [.leaf ['$'], cstQN q]))
  | .paren w1 e w2 => .node N.primary_expr (.seq [.seq [.leaf ['('], .leaf w1], .node N.expr (cstX e), .seq [.leaf w2, .leaf [')']]])
  | .lit q s => .node N.primary_expr (cstLit q s)
  | .num s => .node N.primary_expr (cstNum s)
  | .call f w1 w2 args w3 => .node N.primary_expr (.node N.function_call (.seq [.node N.function_name (cstQN f),
      .seq [.seq [.leaf w1, .leaf ['('], .leaf w2], cstArgs args, .seq [.leaf w3, .leaf [')']]]]))
def cstTail : CXTail → List CST
  | .nil => []
  | .cons w1 op w2 e t => .seq [.seq [.leaf w1, .leaf (opText op), .leaf w2], cstX e] :: cstTail t
def cstArgs : CArgs → CST
  | .none => .seq []
  | .some f r => .seq [.node N.argument (.node N.expr (cstX f)), .many (cstArgTail r)]
def cstArgTail : CArgTail → List CST
  | .nil => []
  | .cons w1 w2 e t => .seq [.seq [.leaf w1, .leaf [','], .leaf w2], .node N.argument (.node N.expr (cstX e))] :: cstArgTail t
def cstRel : CRel → CST
  | .mk f r => .node N.relative_location_path (.seq [cstStep f, .many (cstRelTail r)])
def cstRelTail : CRelTail → List CST
  | .nil => []
  | .cons w1 ds w2 s t => .seq [.seq [.leaf w1, .leaf (slashText ds), .leaf w2], cstStep s] :: cstRelTail t
def cstStep : CStep → CST
  | .dot => .node N.step (.leaf ['.'])
  | .dotdot => .node N.step (.leaf ['.', '.'])
  | .full ax w test preds => .node N.step (.seq [cstAxis ax, .seq [.leaf w, cstTest test], .many (cstPreds preds)])
def cstPreds : CPreds → List CST
  | .nil => []
  | .cons w w1 e w2 t => .seq [.leaf w, .node N.predicate (.seq [.seq [.leaf ['['], .leaf w1], .node N.predicate_expr (.node N.expr (cstX e)),
      .seq [.leaf w2, .leaf [']']]])] :: cstPreds t
end

/-! ### names in front of `:` + something that starts no name -/
theorem runs_qname_colon {loc : Str} (h : okNc loc = true) (c : Char) (hc : (c != ':' && P.isNameStartChar c) = false) (Y : Str) :
    Runs env (.nt N.qname) (loc ++ (':' :: c :: Y)) (.ok (cstQN ⟨none, loc⟩) (':' :: c :: Y)) := by
  have h58 : Char.ofNat 58 = ':' := rfl
  have hnc := runs_ncname (r := ':' :: c :: Y) h (Stops.cons _ ncRest_colon)
  simp only [cstQN]
  apply Runs.nt_of env_qname
  unfold Prod.qname
  refine Runs.alt (RunsAlt.skip ?_ (RunsAlt.hit hnc))
  apply Runs.nt_fail_of env_prefixed_name
  unfold Prod.prefixed_name
  rw [h58]
  refine Runs.seq_fail (RunsSeq.fail_tail hnc (RunsSeq.fail_head (Runs.seq_fail (RunsSeq.fail_tail (Runs.tag_ok [':'] _) (RunsSeq.fail_head ?_)))))
  exact runs_ncname_fail (Stops.cons _ hc)

theorem ncBody_flatten' (a : Str) : (cstNc a).flatten = a := by
  have key := List.take_append_drop 1 a
  simp only [cstNc, CST.flatten, flattenL]
  split
  · next h => simp only [CST.flatten, flattenL, List.append_nil]; rw [h, List.append_nil] at key; exact key
  · simp only [CST.flatten, List.append_nil]; exact key

theorem cstQN_flatten (q : QN) : (cstQN q).flatten = q.text := by
  obtain ⟨pre, loc⟩ := q
  cases pre with
  | none => simp [cstQN, CST.flatten, QN.text, ncBody_flatten']
  | some p => simp [cstQN, CST.flatten, flattenL, QN.text, ncBody_flatten']

def typeNames : List Str := [typeText .comment, typeText .text, typeText .pi, typeText .node]

theorem function_name_prod : Prod.function_name = G.verify (G.nt N.qname) (fun c => !(typeNames.contains c.flatten)) := rfl

theorem contains_typeNames (q : QN) (h : okQN q = true) : typeNames.contains q.text = isNodeTypeName q := by
  obtain ⟨pre, loc⟩ := q
  cases pre with
  | none =>
    simp only [typeNames, isNodeTypeName, QN.text, List.contains_cons, List.contains_nil, Bool.or_false, Option.isNone_none, Bool.true_and,
      Bool.or_assoc]
  | some p =>
    have hcol : ':' ∈ (QN.mk (some p) loc).text := by simp [QN.text]
    have : typeNames.contains (QN.mk (some p) loc).text = false := by
      cases hc : typeNames.contains (QN.mk (some p) loc).text with
      | false => rfl
      | true =>
        rw [List.contains_iff_mem] at hc
        simp only [typeNames, List.mem_cons, List.mem_nil_iff, or_false] at hc
        rcases hc with e | e | e | e <;> (rw [e] at hcol; revert hcol; decide)
    rw [this]
    simp only [isNodeTypeName, Option.isNone_some, Bool.false_and]

def callOpen : G := G.seq [G.cls0 P.isSpace, G.tag ['('], G.cls0 P.isSpace]

theorem function_call_prod : Prod.function_call = G.seq [G.nt N.function_name, G.seq [callOpen,
    G.alt [G.seq [G.nt N.argument, G.many0 (G.seq [G.seq [G.cls0 P.isSpace, G.tag [','], G.cls0 P.isSpace], G.nt N.argument])], G.seq []],
    G.seq [G.cls0 P.isSpace, G.tag [')']]]] := rfl

/-- `function_call` fails when no name starts -/
theorem function_call_fails_noname {I : Str} (h : NoNameStart I) : Runs env (.nt N.function_call) I .fail := by
  apply Runs.nt_fail_of env_function_call
  rw [function_call_prod]
  refine Runs.seq_fail (RunsSeq.fail_head ?_)
  apply Runs.nt_fail_of env_function_name
  rw [function_name_prod]
  exact Runs.verify_fail (runs_qname_fail h)

/-- `function_call` fails behind a name that is read as the function name when `ws* (` does not follow (or the name is a
    node type) -/
theorem function_call_fails_after {I : Str} {c : CST} {U : Str} (hq : Runs env (.nt N.qname) I (.ok c U))
    (hU : ∃ w T, U = w ++ T ∧ okWs w = true ∧ Stops P.isSpace T ∧ Stops (· == '(') T) : Runs env (.nt N.function_call) I .fail := by
  apply Runs.nt_fail_of env_function_call
  rw [function_call_prod]
  by_cases hv : (!(typeNames.contains c.flatten)) = true
  · have hfn : Runs env (.nt N.function_name) I (.ok (.node N.function_name c) U) := by
      apply Runs.nt_of env_function_name
      rw [function_name_prod]
      exact Runs.verify_ok hq hv
    obtain ⟨w, T, rfl, hw, hs, hp⟩ := hU
    refine Runs.seq_fail (RunsSeq.fail_tail hfn (RunsSeq.fail_head (Runs.seq_fail (RunsSeq.fail_head ?_))))
    unfold callOpen
    exact Runs.seq_fail (RunsSeq.fail_tail (runs_cls0 hw hs) (RunsSeq.fail_head (runs_tag_fail_head hp)))
  · refine Runs.seq_fail (RunsSeq.fail_head ?_)
    apply Runs.nt_fail_of env_function_name
    rw [function_name_prod]
    exact Runs.verify_reject hq (by simpa using hv)

theorem primary_prod : Prod.primary_expr = G.alt [G.nt N.variable_reference,
    G.seq [G.seq [G.tag ['('], G.cls0 P.isSpace], G.nt N.expr, G.seq [G.cls0 P.isSpace, G.tag [')']]],
    G.nt N.literal, G.nt N.number, G.nt N.function_call] := rfl

theorem variable_fails {I : Str} (h : Stops (· == '$') I) : Runs env (.nt N.variable_reference) I .fail := by
  have e : [Char.ofNat 36] = ['$'] := rfl
  apply Runs.nt_fail_of env_variable_reference
  unfold Prod.variable_reference
  rw [e]
  exact Runs.seq_fail (RunsSeq.fail_head (runs_tag_fail_head h))

/-- `primary_expr` fails when its five alternatives do -/
theorem primary_fails {I : Str} (h1 : Stops (· == '$') I) (h2 : Stops (· == '(') I) (h3 : Stops (fun c => c == '"' || c == '\'') I)
    (h4 : Runs env (.nt N.number) I .fail) (h5 : Runs env (.nt N.function_call) I .fail) : Runs env (.nt N.primary_expr) I .fail := by
  apply Runs.nt_fail_of env_primary_expr
  rw [primary_prod]
  exact Runs.alt (RunsAlt.skip (variable_fails h1) (RunsAlt.skip (Runs.seq_fail (RunsSeq.fail_head (Runs.seq_fail (RunsSeq.fail_head (runs_tag_fail_head h2)))))
    (RunsAlt.skip (literal_fails h3) (RunsAlt.skip h4 (RunsAlt.skip h5 (RunsAlt.nil _))))))

end XmlRs.XLex
