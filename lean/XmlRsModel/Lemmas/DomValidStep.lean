import XmlRsModel.Lemmas.DomValid
/-! Every DOM operation keeps `ValidInv Q`, for any node-local `Q` that the library's validity checks establish
    (`QFacts`). -/
namespace XmlRs.Dom
open List

/-- what the library's checks must establish about `Q` -/
structure QFacts (Q : Kind → Str → Bool) : Prop where
  text : ∀ d, validText d = true → Q .text d = true
  comment : ∀ d, validComment d = true → Q .comment d = true
  cdata : ∀ d, validCData d = true → Q .cdata d = true
  pi : ∀ t d, validPITarget t = true → validPI t d = true → Q (.pi t) (storedPIData d) = true
  elem : ∀ n, validQName n = true → Q (.elem n) [] = true
  attr : ∀ n sp, validQName n = true → Q (.attr n sp) [] = true
  ref : ∀ n, validName n = true → (predefined.find? (·.1 == n)).isSome = true → Q (.ref n) [] = true
  pieces : ∀ v ps, parseAttrValue v = some ps → ∀ p ∈ ps, Q (pieceKind p).1 (pieceKind p).2 = true
  edit : ∀ k d0 d', Q k d0 = true → validData k d' = true → Q k (match k with | .pi _ => storedPIData d' | _ => d') = true
  split : ∀ k d off l r, (k = .text ∨ k = .cdata) → Q k d = true → CharData.splitText d off = some (l, r) → Q k l = true ∧ Q k r = true

variable {Q : Kind → Str → Bool} (hQ : QFacts Q)

theorem allQL_toList (p : Option Node) : allQL Q p.toList = (match p with | some x => allQ Q x | none => true) := by
  cases p <;> simp [allQL]

include hQ in
mutual
theorem normNode_allQ : (n : Node) → allQ Q n = true → allQ Q (normNode n).1 = true ∧ allQL Q (normNode n).2 = true
  | .mk j k d as ks, h => by
    simp only [allQ_mk, Bool.and_eq_true] at h
    unfold normNode
    split
    · have h1 := normAttrs_allQ as h.1.2
      have h2 := normList_allQ none ks (by intro p hp; cases hp) h.2
      simp only [allQ_mk, allQL_append, Bool.and_eq_true]
      exact ⟨⟨⟨h.1.1, h1.1⟩, h2.1⟩, h1.2, h2.2⟩
    · simp only [allQ_mk, Bool.and_eq_true, allQL]; exact ⟨⟨⟨h.1.1, h.1.2⟩, h.2⟩, trivial⟩
theorem normAttrs_allQ : (l : List Node) → allQL Q l = true → allQL Q (normAttrs l).1 = true ∧ allQL Q (normAttrs l).2 = true
  | [], _ => by simp [normAttrs, allQL]
  | (.mk j k d as ks) :: r, h => by
    simp only [allQL_cons, allQ_mk, Bool.and_eq_true] at h
    have h1 := normList_allQ none ks (by intro p hp; cases hp) h.1.2
    have h2 := normAttrs_allQ r h.2
    simp only [normAttrs, allQL_cons, allQ_mk, allQL_append, Bool.and_eq_true]
    exact ⟨⟨⟨⟨h.1.1.1, h.1.1.2⟩, h1.1⟩, h2.1⟩, h1.2, h2.2⟩
theorem normList_allQ : (prev : Option Node) → (l : List Node) → (∀ p, prev = some p → p.kind = .text ∧ allQ Q p = true) →
    allQL Q l = true → allQL Q (normList prev l).1 = true ∧ allQL Q (normList prev l).2 = true
  | prev, [], hp, _ => by
    simp only [normList, allQL_toList, allQL, and_true]
    cases prev with
    | none => rfl
    | some p => exact (hp p rfl).2
  | prev, (.mk j k d as ks) :: r, hp, h => by
    simp only [allQL_cons, Bool.and_eq_true] at h
    unfold normList
    split
    · split
      · have ih := normList_allQ prev r hp h.2
        simp only [allQL_cons, Bool.and_eq_true]; exact ⟨ih.1, h.1, ih.2⟩
      · split
        · next p =>
          have hp' := hp p rfl
          split
          · next hv =>
            have ih := normList_allQ (some (p.withData (p.data ++ d))) r (by
              intro q hq; simp only [Option.some.injEq] at hq; subst hq
              refine ⟨by cases p; simpa [Node.withData, Node.kind] using hp'.1, ?_⟩
              exact withData_allQ Q _ p (by rw [hp'.1]; exact hQ.text _ hv) hp'.2) h.2
            simp only [allQL_cons, Bool.and_eq_true]; exact ⟨ih.1, h.1, ih.2⟩
          · have ih := normList_allQ (some (.mk j .text d as ks)) r (by
              intro q hq; simp only [Option.some.injEq] at hq; subst hq; exact ⟨rfl, h.1⟩) h.2
            simp only [allQL_cons, Bool.and_eq_true]; exact ⟨⟨hp'.2, ih.1⟩, ih.2⟩
        · exact normList_allQ (some (.mk j .text d as ks)) r (by
            intro q hq; simp only [Option.some.injEq] at hq; subst hq; exact ⟨rfl, h.1⟩) h.2
    · next nm =>
      have h1 := normNode_allQ (.mk j (.elem nm) d as ks) h.1
      have h2 := normList_allQ none r (by intro p hp; cases hp) h.2
      simp only [allQL_append, allQL_cons, allQL_toList, Bool.and_eq_true]
      refine ⟨⟨?_, h1.1, h2.1⟩, h1.2, h2.2⟩
      cases prev with
      | none => rfl
      | some p => exact (hp p rfl).2
    · have h2 := normList_allQ none r (by intro p hp; cases hp) h.2
      simp only [allQL_append, allQL_cons, allQL_toList, Bool.and_eq_true]
      refine ⟨⟨?_, h.1, h2.1⟩, h2.2⟩
      cases prev with
      | none => rfl
      | some p => exact (hp p rfl).2
end

theorem mkItems_allQ : ∀ (ps : List Piece) (next : Nat), (∀ p ∈ ps, Q (pieceKind p).1 (pieceKind p).2 = true) → allQL Q (mkItems next ps).1 = true
  | [], _, _ => by simp [mkItems, allQL]
  | p :: r, next, h => by
    have ih := mkItems_allQ r (next + 1) (fun q hq => h q (by simp [hq]))
    simp only [mkItems, allQL_cons, allQ_mk, allQL, Bool.and_eq_true, Bool.and_true]
    exact ⟨h p (by simp), ih⟩

end XmlRs.Dom

namespace XmlRs.Dom
open List

variable {Q : Kind → Str → Bool} (hQ : QFacts Q)

theorem replaceChild_valid (s : St) (p new old : Nat) (hh : ValidInv Q s) : ValidInv Q (step s (.replaceChild p new old)).1 := by
  simp only [step]
  split
  · exact hh
  · next pn hp =>
    split
    · have := insertChild_valid Q s p new (some old) hh
      cases hic : insertChild s p new (some old) with
      | mk s' r => rw [hic] at this; cases r <;> exact this
    · cases hrm : removeChild s p old with
      | mk s1 r1 =>
        have h1 : ValidInv Q s1 := by have := removeChild_valid Q s p old hh; rw [hrm] at this; exact this
        cases r1 with
        | node x =>
          simp only
          generalize hr : (Option.map (fun x => x.id)
            (filter (fun x => x.id != new) (drop 1 (dropWhile (fun x => x.id != old) pn.kids))).head?) = ref
          cases hin : insertChild s1 p new ref with
          | mk s2 r2 =>
            have h2 : ValidInv Q s2 := by have := insertChild_valid Q s1 p new ref h1; rw [hin] at this; exact this
            cases r2 <;> first | exact h2 | exact hh
        | _ => exact hh

/-! ### an update at a node that is known: only that node's image has to be valid (ids are pairwise distinct) -/
mutual
theorem updateIn_allQ_at (i : Nat) (f : Node → Node) : (t : Node) → cnt i t ≤ 1 →
    (∀ m, findIn i t = some m → allQ Q m = true → allQ Q (f m) = true) → allQ Q t = true → allQ Q (updateIn i f t) = true
  | .mk j k d as ks, hc, hf, h => by
    unfold updateIn
    split
    · next hij => exact hf _ (by simp [findIn, hij]) h
    · next hij =>
      rw [cnt_mk] at hc
      simp only [allQ_mk, Bool.and_eq_true] at h ⊢
      have hfind : findIn i (.mk j k d as ks) = (findInL i as).orElse fun _ => findInL i ks := by simp [findIn, hij]
      refine ⟨⟨h.1.1, updateInL_allQ_at i f as (by omega) (fun m hm => hf m (by rw [hfind, hm]; rfl)) h.1.2⟩, ?_⟩
      cases hA : findInL i as with
      | none => exact updateInL_allQ_at i f ks (by omega) (fun m hm => hf m (by rw [hfind, hA]; simpa using hm)) h.2
      | some x =>
        have := findInL_some_mem i as x hA
        rw [updateInL_absent i f ks (by omega)]; exact h.2
theorem updateInL_allQ_at (i : Nat) (f : Node → Node) : (l : List Node) → cntL i l ≤ 1 →
    (∀ m, findInL i l = some m → allQ Q m = true → allQ Q (f m) = true) → allQL Q l = true → allQL Q (updateInL i f l) = true
  | [], _, _, _ => by simp [updateInL, allQL]
  | n :: r, hc, hf, h => by
    rw [cntL_cons] at hc
    simp only [allQL_cons, Bool.and_eq_true] at h
    simp only [updateInL, allQL_cons, Bool.and_eq_true]
    have hfind : findInL i (n :: r) = (findIn i n).orElse fun _ => findInL i r := by simp [findInL]
    refine ⟨updateIn_allQ_at i f n (by omega) (fun m hm => hf m (by rw [hfind, hm]; rfl)) h.1, ?_⟩
    cases hA : findIn i n with
    | none => exact updateInL_allQ_at i f r (by omega) (fun m hm => hf m (by rw [hfind, hA]; simpa using hm)) h.2
    | some x =>
      have := findIn_some_mem i n x hA
      rw [updateInL_absent i f r (by omega)]; exact h.2
end

theorem update_valid_at (s : St) (i : Nat) (f : Node → Node) (nn : Node) (hnd : ∀ a, cntL a s.roots ≤ 1) (hfind : s.find i = some nn)
    (hf : allQ Q nn = true → allQ Q (f nn) = true) (hh : ValidInv Q s) : ValidInv Q (s.update i f) := by
  rw [validInv_roots] at hh ⊢
  rw [update_roots]
  exact updateInL_allQ_at i f s.roots (hnd i) (fun m hm => by
    have : m = nn := by unfold St.find at hfind; rw [hfind] at hm; exact (Option.some.inj hm).symm
    subst this; exact hf) hh

include hQ in
theorem dataOp_valid (s : St) (n : Nat) (f : Str → Option Str) (hi : Inv s) (hh : ValidInv Q s) : ValidInv Q (step.dataOp s n f).1 := by
  unfold step.dataOp
  cases hf : s.find n with
  | none => exact hh
  | some nn =>
    have hn := found_valid Q s hh n nn hf
    have key : ∀ d', validData nn.kind d' = true →
        ValidInv Q (s.update n (Node.withData (match nn.kind with | .pi _ => storedPIData d' | _ => d'))) := fun d' hv =>
      update_valid_at s n _ nn hi.1 hf (fun _ => withData_allQ Q _ nn (hQ.edit nn.kind nn.data d' (own_Q Q nn hn) hv) hn) hh
    cases hk : nn.kind <;> simp only [hk, isCharData, if_true, Bool.or_false, Bool.or_true, Bool.false_or, Bool.true_or, Bool.false_eq_true, if_false] at key ⊢ <;>
      first
      | exact hh
      | (cases hd : f nn.data with
         | none => exact hh
         | some d' =>
           simp only
           split
           · next hv => exact key d' hv
           · exact hh)

theorem append_one_allQ (x : Node) (hx : allQ Q x = true) (ks : List Node) (h : allQL Q ks = true) : allQL Q (ks ++ [x]) = true := by
  simp only [allQL_append, allQL_cons, allQL, Bool.and_eq_true, Bool.and_true]; exact ⟨h, hx⟩

include hQ in
theorem step_valid (s : St) (op : Op) (hi : Inv s) (hh : ValidInv Q s) : ValidInv Q (step s op).1 := by
  cases op with
  | createElement name =>
    simp only [step]; split
    · next hv => exact (fresh_valid Q s _ _ (hQ.elem name hv) hh).handles Q _
    · exact hh.handles Q _
  | createText d =>
    simp only [step]; split
    · next hv => exact (fresh_valid Q s _ _ (hQ.text d hv) hh).handles Q _
    · exact hh.handles Q _
  | createComment d =>
    simp only [step]; split
    · next hv => exact (fresh_valid Q s _ _ (hQ.comment d hv) hh).handles Q _
    · exact hh.handles Q _
  | createCData d =>
    simp only [step]; split
    · next hv => exact (fresh_valid Q s _ _ (hQ.cdata d hv) hh).handles Q _
    · exact hh.handles Q _
  | createPI t d =>
    simp only [step]; split
    · next hv =>
      simp only [Bool.and_eq_true] at hv
      exact (fresh_valid Q s _ _ (hQ.pi t d hv.1 hv.2) hh).handles Q _
    · exact hh.handles Q _
  | createAttribute name =>
    simp only [step]; split
    · next hv => exact (fresh_valid Q s _ _ (hQ.attr name true hv) hh).handles Q _
    · exact hh.handles Q _
  | createEntityRef name =>
    simp only [step]; split
    · exact hh.handles Q _
    · next hv =>
      split
      · next hp => exact (fresh_valid Q s _ _ (hQ.ref name (by simpa using hv) hp) hh).handles Q _
      · exact hh.handles Q _
  | appendChild p c => simp only [step]; exact insertChild_valid Q s p c none hh
  | insertBefore p c r => simp only [step]; exact insertChild_valid Q s p c r hh
  | removeChild p c => simp only [step]; exact removeChild_valid Q s p c hh
  | replaceChild p new old => exact replaceChild_valid s p new old hh
  | normalize e =>
    simp only [step]
    cases hf : s.find e with
    | none => exact hh
    | some en =>
      have hen := found_valid Q s hh e en hf
      have h1 := update_valid Q s e (fun n => (normNode n).1) (fun n hn => (normNode_allQ hQ n hn).1) hh
      have := h1.add_detached Q (normNode en).2 (normNode_allQ hQ en hen).2 (s.update e fun n => (normNode n).1).next (s.update e fun n => (normNode n).1).handles
      exact this.same Q rfl rfl
  | setData n d => simp only [step]; exact dataOp_valid hQ s n _ hi hh
  | appendData n d => simp only [step]; exact dataOp_valid hQ s n _ hi hh
  | insertData n off d => simp only [step]; exact dataOp_valid hQ s n _ hi hh
  | deleteData n off cnt => simp only [step]; exact dataOp_valid hQ s n _ hi hh
  | replaceData n off cnt d => simp only [step]; exact dataOp_valid hQ s n _ hi hh
  | getAttributeNode e name => simp only [step]; repeat' split
                               all_goals exact hh.handles Q _
  | childAt n i => simp only [step]; repeat' split
                   all_goals exact hh.handles Q _
  | removeAttribute e name =>
    simp only [step]
    split
    · exact detachAll_valid Q _ s hh
    · exact hh
  | removeAttributeNode e a =>
    simp only [step]
    repeat' split
    all_goals first
      | exact hh
      | exact detachAll_valid Q _ s hh
  | setAttribute e name value =>
    simp only [step]
    split
    · next en hf =>
      split
      · split
        · exact hh
        · next hvn =>
          split
          · exact hh
          · next ps hps =>
            have h1 := detachAll_valid Q (sameLocalIds en name) s hh
            have ha : allQ Q (Node.mk s.next (.attr name true) [] [] (mkItems (s.next + 1) ps).1) = true := by
              simp only [allQ_mk, allQL, Bool.and_true, Bool.and_eq_true]
              exact ⟨hQ.attr name true (by simpa using hvn), mkItems_allQ ps _ (hQ.pieces value ps hps)⟩
            exact (update_valid Q _ e _ (mapAttrs_allQ Q _ (append_one_allQ _ ha)) h1).next Q _
      · exact hh
    · exact hh
  | setAttributeNode e a =>
    simp only [step]
    split
    · next en an hfe hfa =>
      split
      · next nm sp hk =>
        split
        · exact hh
        · split
          · exact hh
          · have h1 := detachAll_valid Q (sameLocalIds en nm) s hh
            cases hd2 : (s.detachAll (sameLocalIds en nm)).detach a with
            | mk s2 x =>
              cases x with
              | none => exact hh
              | some xn =>
                simp only
                obtain ⟨h2, hx⟩ := detach_valid Q _ s2 a (some xn) hd2 h1
                split
                · exact hh
                · exact update_valid Q s2 e _ (mapAttrs_allQ Q _ (append_one_allQ _ (hx xn rfl))) h2
      · exact hh
    · exact hh
  | setValue n v =>
    simp only [step]
    cases hf : s.find n with
    | none => exact hh
    | some nn =>
      have hn := found_valid Q s hh n nn hf
      simp only
      cases hk : nn.kind <;> simp only [hk] <;>
        first
        | exact hh
        | (split
           · next hv =>
             refine update_valid_at s n _ nn hi.1 hf (fun _ => withData_allQ Q _ nn ?_ hn) hh
             have := hQ.edit nn.kind nn.data v (own_Q Q nn hn) (by rw [hk]; exact hv)
             simpa [hk] using this
           · exact hh)
        | (split
           · exact hh
           · next ps hps =>
             have h1 := update_valid Q s n _ (mapKids_allQ Q (fun _ => (mkItems s.next ps).1) (fun _ _ => mkItems_allQ ps _ (hQ.pieces v ps hps))) hh
             exact (h1.add_detached Q nn.kids (kids_allQ Q nn hn) _ _).same Q rfl rfl)
  | splitText n off =>
    simp only [step]
    cases hf : s.find n with
    | none => exact hh.handles Q _
    | some nn =>
      have hn := found_valid Q s hh n nn hf
      simp only
      have key : (nn.kind = Kind.text ∨ nn.kind = Kind.cdata) → ∀ l r, CharData.splitText nn.data off = some (l, r) →
          ValidInv Q ({ (match (s.update n (Node.withData l)).parent n with
                | some p => (s.update n (Node.withData l)).update p (Node.mapKids fun (ks : List Node) =>
                    match (ks.dropWhile (fun (x : Node) => x.id != n)).drop 1 with
                    | nx :: _ => insertBeforeL (Node.mk s.next nn.kind r [] []) (some nx.id) ks
                    | [] => ks ++ [Node.mk s.next nn.kind r [] []])
                | none => { (s.update n (Node.withData l)) with detached := (s.update n (Node.withData l)).detached ++ [Node.mk s.next nn.kind r [] []] }) with
              next := s.next + 1, handles := s.handles ++ [some s.next] } : St) := by
        intro hk l r hsp
        obtain ⟨ql, qr⟩ := hQ.split nn.kind nn.data off l r hk (own_Q Q nn hn) hsp
        have h1 := update_valid_at s n (Node.withData l) nn hi.1 hf (fun _ => withData_allQ Q _ nn ql hn) hh
        have hnew : allQ Q (Node.mk s.next nn.kind r [] []) = true := by simp [allQ_mk, allQL, qr]
        cases hp : (s.update n (Node.withData l)).parent n with
        | none => exact ((h1.add_detached Q [Node.mk s.next nn.kind r [] []] (by simp [allQL, hnew]) _ _).same Q rfl rfl)
        | some p =>
          refine ((update_valid Q _ p _ (mapKids_allQ Q _ (fun ks hks => ?_)) h1).same Q rfl rfl)
          split
          · exact insertBeforeL_allQ Q _ _ hnew ks hks
          · exact append_one_allQ _ hnew ks hks
      cases hk : nn.kind <;> simp only [hk] at key ⊢ <;>
        first
        | exact hh.handles Q _
        | (cases hsp : CharData.splitText nn.data off with
           | none => exact hh.handles Q _
           | some lr =>
             obtain ⟨l, r⟩ := lr
             exact key (by simp) l r hsp)

end XmlRs.Dom
