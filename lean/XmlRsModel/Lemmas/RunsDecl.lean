import XmlRsModel.Lemmas.RunsContent
/-! Completeness of the XML declaration production. -/
namespace XmlRs.Lex
open XmlRs Gen.Xml XmlRs.Names

theorem isQuote_cases {q : Char} (h : isQuote q = true) : q = '"' ∨ q = '\'' := by
  simpa [isQuote] using h

theorem sp_of_quote {q : Char} (h : isQuote q = true) : P.isSpace q = false := space_quote q (isQuote_cases h)

theorem digit_of_quote {q : Char} (h : isQuote q = true) : P.isDigit q = false := by
  rcases isQuote_cases h with rfl | rfl <;> decide

/-- a literal between two equal quotes: the grammar tries the single quote first -/
theorem runs_two_quotes {g : G} {q : Char} (hq : isQuote q = true) {s Y : Str} {c : CST}
    (h : Runs env g (s ++ q :: Y) (.ok c (q :: Y))) :
    Runs env (.alt [.seq [.tag ['\''], g, .tag ['\'']], .seq [.tag ['"'], g, .tag ['"']]]) (q :: (s ++ q :: Y))
      (.ok (.seq [.leaf [q], c, .leaf [q]]) Y) := by
  have body : RunsSeq env [.tag [q], g, .tag [q]] (q :: (s ++ q :: Y)) (.ok [.leaf [q], c, .leaf [q]] Y) :=
    RunsSeq.cons (Runs.tag_ok [q] _) (RunsSeq.cons h (RunsSeq.cons (Runs.tag_ok [q] Y) (RunsSeq.nil _)))
  rcases isQuote_cases hq with rfl | rfl
  · refine Runs.alt (RunsAlt.skip ?_ (RunsAlt.hit (Runs.seq body)))
    exact Runs.seq_fail (RunsSeq.fail_head (Runs.tag_fail (strip_cons_ne _ _ (by decide))))
  · exact Runs.alt (RunsAlt.hit (Runs.seq body))

def cstVersionInfo (x : CDecl) : CST :=
  .node N.version_info (.seq [.seq [.leaf x.wsV, .leaf kwVersion, cstEq x.eqV1 x.eqV2],
    .seq [.leaf [x.qV], .node N.version_num (.seq [.leaf ['1', '.'], .leaf x.minor]), .leaf [x.qV]]])

def encAlpha (name : Str) : Str := (spanP P.isAlpha name).1
def encRest (name : Str) : Str := (spanP P.isAlpha name).2

def cstEnc : Option (Str × Str × Str × Char × Str) → CST
  | none => .seq []
  | some (w, e1, e2, q, name) =>
    .node N.encoding_decl (.seq [.seq [.leaf w, .leaf kwEncoding, cstEq e1 e2],
      .seq [.leaf [q], .node N.enc_name (.seq [.leaf (encAlpha name), .leaf (encRest name)]), .leaf [q]]])

def cstSd : Option (Str × Str × Str × Char × Bool) → CST
  | none => .seq []
  | some (w, e1, e2, q, b) =>
    .node N.sd_decl (.seq [.seq [.leaf w, .leaf kwStandalone, cstEq e1 e2], .seq [.leaf [q], .leaf (yesNo b), .leaf [q]]])

def cstDecl (x : CDecl) : CST :=
  .node N.xml_decl (.seq [.leaf ['<', '?', 'x', 'm', 'l'], .seq [cstVersionInfo x, cstEnc x.enc, cstSd x.sd],
    .seq [.leaf x.wsEnd, .leaf ['?', '>']]])

theorem okDecl_parts {x : CDecl} (h : okDecl x = true) :
    x.wsV ≠ [] ∧ okWs x.wsV = true ∧ okWs x.eqV1 = true ∧ okWs x.eqV2 = true ∧ isQuote x.qV = true ∧ x.minor ≠ [] ∧
    x.minor.all P.isDigit = true ∧
    (∀ w e1 e2 q name, x.enc = some (w, e1, e2, q, name) → w ≠ [] ∧ okWs w = true ∧ okWs e1 = true ∧ okWs e2 = true ∧ isQuote q = true ∧ okEncName name = true) ∧
    (∀ w e1 e2 q b, x.sd = some (w, e1, e2, q, b) → w ≠ [] ∧ okWs w = true ∧ okWs e1 = true ∧ okWs e2 = true ∧ isQuote q = true) ∧
    okWs x.wsEnd = true := by
  simp only [okDecl, Bool.and_eq_true, Bool.not_eq_true', List.isEmpty_eq_false_iff] at h
  obtain ⟨⟨⟨⟨⟨⟨⟨⟨⟨h1, h2⟩, h3⟩, h4⟩, h5⟩, h6⟩, h7⟩, h8⟩, h9⟩, h10⟩ := h
  refine ⟨h1, h2, h3, h4, h5, h6, h7, ?_, ?_, h10⟩
  · intro w e1 e2 q name he
    rw [he] at h8
    simp only [Bool.and_eq_true, Bool.not_eq_true', List.isEmpty_eq_false_iff] at h8
    obtain ⟨⟨⟨⟨⟨a1, a2⟩, a3⟩, a4⟩, a5⟩, a6⟩ := h8
    exact ⟨a1, a2, a3, a4, a5, a6⟩
  · intro w e1 e2 q b he
    rw [he] at h9
    simp only [Bool.and_eq_true, Bool.not_eq_true', List.isEmpty_eq_false_iff] at h9
    obtain ⟨⟨⟨⟨a1, a2⟩, a3⟩, a4⟩, a5⟩ := h9
    exact ⟨a1, a2, a3, a4, a5⟩

theorem sp_v : P.isSpace 'v' = false := by decide
theorem sp_e : P.isSpace 'e' = false := by decide
theorem sp_s : P.isSpace 's' = false := by decide

theorem runs_version_info {x : CDecl} (h : okDecl x = true) (Y : Str) :
    Runs env (.nt N.version_info)
      (x.wsV ++ (kwVersion ++ (x.eqV1 ++ ('=' :: (x.eqV2 ++ (x.qV :: ('1' :: '.' :: (x.minor ++ (x.qV :: Y)))))))))
      (.ok (cstVersionInfo x) Y) := by
  obtain ⟨h1, h2, h3, h4, h5, h6, h7, _, _, _⟩ := okDecl_parts h
  have e0 : [Char.ofNat 118,Char.ofNat 101,Char.ofNat 114,Char.ofNat 115,Char.ofNat 105,Char.ofNat 111,Char.ofNat 110] = kwVersion := rfl
  have e1 : [Char.ofNat 39] = ['\''] := rfl
  have e2 : [Char.ofNat 34] = ['"'] := rfl
  have e3 : [Char.ofNat 49, Char.ofNat 46] = ['1', '.'] := rfl
  apply Runs.nt_of env_version_info
  unfold Prod.version_info
  rw [e0, e1, e2]
  have hnum : Runs env (.nt N.version_num) (('1' :: '.' :: x.minor) ++ x.qV :: Y)
      (.ok (.node N.version_num (.seq [.leaf ['1', '.'], .leaf x.minor])) (x.qV :: Y)) := by
    apply Runs.nt_of env_version_num
    unfold Prod.version_num
    rw [e3]
    exact Runs.seq (RunsSeq.cons (Runs.tag_ok ['1', '.'] _) (RunsSeq.cons (runs_cls1 h6 h7 (Stops.cons _ (digit_of_quote h5))) (RunsSeq.nil _)))
  have hq := runs_two_quotes h5 hnum
  have hhead : Runs env (.seq [.cls1 P.isSpace, .tag kwVersion, .nt N.eq])
      (x.wsV ++ (kwVersion ++ (x.eqV1 ++ ('=' :: (x.eqV2 ++ (x.qV :: (('1' :: '.' :: x.minor) ++ x.qV :: Y)))))))
      (.ok (.seq [.leaf x.wsV, .leaf kwVersion, cstEq x.eqV1 x.eqV2]) (x.qV :: (('1' :: '.' :: x.minor) ++ x.qV :: Y))) :=
    Runs.seq (RunsSeq.cons (runs_cls1 h1 h2 (Stops.cons _ sp_v)) (RunsSeq.cons (Runs.tag_ok kwVersion _)
      (RunsSeq.cons (runs_eq h3 h4 (Stops.cons _ (sp_of_quote h5))) (RunsSeq.nil _))))
  exact Runs.seq (RunsSeq.cons hhead (RunsSeq.cons hq (RunsSeq.nil _)))

/-- a keyword pseudo-attribute fails where the text continues with something else -/
theorem pseudo_attr_fails (kw : Str) (g : G) (c : Char) (kw' : Str) (hkw : kw = c :: kw') (Y : Str)
    (hY : ∃ w d r, Y = w ++ d :: r ∧ okWs w = true ∧ P.isSpace d = false ∧ d ≠ c) :
    Runs env (.seq [.seq [.cls1 P.isSpace, .tag kw, .nt N.eq], g]) Y .fail := by
  obtain ⟨w, d, r, rfl, hw, hd, hdc⟩ := hY
  subst hkw
  refine Runs.seq_fail (RunsSeq.fail_head (Runs.seq_fail ?_))
  cases w with
  | nil => exact RunsSeq.fail_head (runs_cls1_fail (Stops.cons _ hd))
  | cons a as =>
    exact RunsSeq.fail_tail (runs_cls1 (by simp) hw (Stops.cons _ hd)) (RunsSeq.fail_head (Runs.tag_fail (strip_cons_ne _ _ (Ne.symm hdc))))

theorem alpha_sub_encName (c : Char) (h : P.isAlpha c = true) : P.isEncName c = true := by
  have := C18.isEncNameChar_spec c.toNat
  simp only [P.isAlpha, Bool.or_eq_true, Bool.and_eq_true, decide_eq_true_eq] at h
  simp only [P.isEncName, this, Spec.isEncNameChar, Spec.encNameRanges, inRanges, Bool.or_eq_true, Bool.and_eq_true, decide_eq_true_eq, Bool.or_false]
  have h1 : ∀ a b : Char, a ≤ b ↔ a.toNat ≤ b.toNat := fun a b => Char.le_def
  simp only [h1] at h
  have e1 : 'a'.toNat = 97 := rfl
  have e2 : 'z'.toNat = 122 := rfl
  have e3 : 'A'.toNat = 65 := rfl
  have e4 : 'Z'.toNat = 90 := rfl
  rw [e1, e2, e3, e4] at h
  omega

theorem runs_enc_name {name : Str} (h : okEncName name = true) {Y : Str} (hY : Stops P.isEncName Y) :
    Runs env (.nt N.enc_name) (name ++ Y) (.ok (.node N.enc_name (.seq [.leaf (encAlpha name), .leaf (encRest name)])) Y) := by
  cases name with
  | nil => simp [okEncName] at h
  | cons c r =>
    simp only [okEncName, Bool.and_eq_true] at h
    apply Runs.nt_of env_enc_name
    unfold Prod.enc_name
    have hYa : Stops P.isAlpha Y := hY.mono fun d hd => by
      cases ha : P.isAlpha d with
      | false => rfl
      | true => simp [alpha_sub_encName d ha] at hd
    have hsp := span_append_stops P.isAlpha hYa (c :: r)
    have hne : (spanP P.isAlpha ((c :: r) ++ Y)).1 ≠ [] := by rw [hsp]; simp [spanP, h.1]
    have h1 := Runs.cls1_ok (env := env) hne
    rw [hsp] at h1
    have hrest : ((spanP P.isAlpha (c :: r)).2).all P.isEncName = true :=
      all_of_all_span P.isAlpha P.isEncName (c :: r) (by simp [alpha_sub_encName c h.1, h.2])
    exact Runs.seq (RunsSeq.cons h1 (RunsSeq.cons (runs_cls0 hrest hY) (RunsSeq.nil _)))

theorem encName_of_quote {q : Char} (h : isQuote q = true) : P.isEncName q = false := by
  rcases isQuote_cases h with rfl | rfl <;> decide

theorem runs_encoding {w e1 e2 : Str} {q : Char} {name : Str} (hw : w ≠ []) (hws : okWs w = true) (h1 : okWs e1 = true)
    (h2 : okWs e2 = true) (hq : isQuote q = true) (hn : okEncName name = true) (Y : Str) :
    Runs env (.nt N.encoding_decl) (encText (some (w, e1, e2, q, name)) ++ Y) (.ok (cstEnc (some (w, e1, e2, q, name))) Y) := by
  have e0 : [Char.ofNat 101,Char.ofNat 110,Char.ofNat 99,Char.ofNat 111,Char.ofNat 100,Char.ofNat 105,Char.ofNat 110,Char.ofNat 103] = kwEncoding := rfl
  have e1' : [Char.ofNat 39] = ['\''] := rfl
  have e2' : [Char.ofNat 34] = ['"'] := rfl
  apply Runs.nt_of env_encoding_decl
  unfold Prod.encoding_decl
  rw [e0, e1', e2']
  have hname := runs_enc_name hn (Y := q :: Y) (Stops.cons _ (encName_of_quote hq))
  have hquoted := runs_two_quotes hq hname
  have htxt : encText (some (w, e1, e2, q, name)) ++ Y = w ++ (kwEncoding ++ (e1 ++ ('=' :: (e2 ++ (q :: (name ++ q :: Y)))))) := by
    simp [encText]
  rw [htxt]
  have hhead : Runs env (.seq [.cls1 P.isSpace, .tag kwEncoding, .nt N.eq])
      (w ++ (kwEncoding ++ (e1 ++ ('=' :: (e2 ++ (q :: (name ++ q :: Y)))))))
      (.ok (.seq [.leaf w, .leaf kwEncoding, cstEq e1 e2]) (q :: (name ++ q :: Y))) :=
    Runs.seq (RunsSeq.cons (runs_cls1 hw hws (Stops.cons _ sp_e)) (RunsSeq.cons (Runs.tag_ok kwEncoding _)
      (RunsSeq.cons (runs_eq h1 h2 (Stops.cons _ (sp_of_quote hq))) (RunsSeq.nil _))))
  exact Runs.seq (RunsSeq.cons hhead (RunsSeq.cons hquoted (RunsSeq.nil _)))

theorem runs_sd {w e1 e2 : Str} {q : Char} {b : Bool} (hw : w ≠ []) (hws : okWs w = true) (h1 : okWs e1 = true)
    (h2 : okWs e2 = true) (hq : isQuote q = true) (Y : Str) :
    Runs env (.nt N.sd_decl) (sdText (some (w, e1, e2, q, b)) ++ Y) (.ok (cstSd (some (w, e1, e2, q, b))) Y) := by
  have e0 : [Char.ofNat 115,Char.ofNat 116,Char.ofNat 97,Char.ofNat 110,Char.ofNat 100,Char.ofNat 97,Char.ofNat 108,Char.ofNat 111,Char.ofNat 110,Char.ofNat 101] = kwStandalone := rfl
  have e1' : [Char.ofNat 39] = ['\''] := rfl
  have e2' : [Char.ofNat 34] = ['"'] := rfl
  have e3 : [Char.ofNat 121,Char.ofNat 101,Char.ofNat 115] = ['y', 'e', 's'] := rfl
  have e4 : [Char.ofNat 110,Char.ofNat 111] = ['n', 'o'] := rfl
  apply Runs.nt_of env_sd_decl
  unfold Prod.sd_decl
  rw [e0, e1', e2', e3, e4]
  have htxt : sdText (some (w, e1, e2, q, b)) ++ Y = w ++ (kwStandalone ++ (e1 ++ ('=' :: (e2 ++ (q :: (yesNo b ++ q :: Y)))))) := by
    simp [sdText]
  rw [htxt]
  have hhead : Runs env (.seq [.cls1 P.isSpace, .tag kwStandalone, .nt N.eq])
      (w ++ (kwStandalone ++ (e1 ++ ('=' :: (e2 ++ (q :: (yesNo b ++ q :: Y)))))))
      (.ok (.seq [.leaf w, .leaf kwStandalone, cstEq e1 e2]) (q :: (yesNo b ++ q :: Y))) :=
    Runs.seq (RunsSeq.cons (runs_cls1 hw hws (Stops.cons _ sp_s)) (RunsSeq.cons (Runs.tag_ok kwStandalone _)
      (RunsSeq.cons (runs_eq h1 h2 (Stops.cons _ (sp_of_quote hq))) (RunsSeq.nil _))))
  refine Runs.seq (RunsSeq.cons hhead (RunsSeq.cons ?_ (RunsSeq.nil _)))
  have ok3 : ∀ (t : Str), RunsSeq env [.tag [q], .tag t, .tag [q]] (q :: (t ++ q :: Y)) (.ok [.leaf [q], .leaf t, .leaf [q]] Y) := fun t =>
    RunsSeq.cons (Runs.tag_ok [q] _) (RunsSeq.cons (Runs.tag_ok t _) (RunsSeq.cons (Runs.tag_ok [q] Y) (RunsSeq.nil _)))
  have failq : ∀ (q' : Char) (t : Str) (I : Str), q' ≠ q → Runs env (.seq [.tag [q'], .tag t, .tag [q']]) (q :: I) .fail := fun q' t I hne =>
    Runs.seq_fail (RunsSeq.fail_head (Runs.tag_fail (strip_cons_ne _ _ hne)))
  have failyes : ∀ (I : Str), Runs env (.seq [.tag [q], .tag ['y', 'e', 's'], .tag [q]]) (q :: ('n' :: 'o' :: I)) .fail := fun I =>
    Runs.seq_fail (RunsSeq.fail_tail (Runs.tag_ok [q] _) (RunsSeq.fail_head (Runs.tag_fail (strip_cons_ne _ _ (by decide)))))
  rcases isQuote_cases hq with rfl | rfl <;> cases b
  · -- "no"
    exact Runs.alt (RunsAlt.skip (failq _ _ _ (by decide)) (RunsAlt.skip (failyes _) (RunsAlt.skip (failq _ _ _ (by decide))
      (RunsAlt.hit (Runs.seq (ok3 _))))))
  · -- "yes"
    exact Runs.alt (RunsAlt.skip (failq _ _ _ (by decide)) (RunsAlt.hit (Runs.seq (ok3 _))))
  · -- 'no'
    exact Runs.alt (RunsAlt.skip (failyes _) (RunsAlt.skip (failq _ _ _ (by decide)) (RunsAlt.hit (Runs.seq (ok3 _)))))
  · -- 'yes'
    exact Runs.alt (RunsAlt.hit (Runs.seq (ok3 _)))

/-- what can follow the pseudo-attributes: white space and `?>`, or (after `version` / `encoding`) a later pseudo-attribute -/
theorem sp_q' : P.isSpace '?' = false := by decide

theorem runs_xml_decl {x : CDecl} (h : okDecl x = true) (Y : Str) :
    Runs env (.nt N.xml_decl) (x.str ++ Y) (.ok (cstDecl x) Y) := by
  obtain ⟨_, _, _, _, _, _, _, henc, hsd, hend⟩ := okDecl_parts h
  have e0 : [Char.ofNat 60,Char.ofNat 63,Char.ofNat 120,Char.ofNat 109,Char.ofNat 108] = ['<', '?', 'x', 'm', 'l'] := rfl
  have e1 : [Char.ofNat 63, Char.ofNat 62] = ['?', '>'] := rfl
  have e2 : [Char.ofNat 101,Char.ofNat 110,Char.ofNat 99,Char.ofNat 111,Char.ofNat 100,Char.ofNat 105,Char.ofNat 110,Char.ofNat 103] = kwEncoding := rfl
  have e3 : [Char.ofNat 115,Char.ofNat 116,Char.ofNat 97,Char.ofNat 110,Char.ofNat 100,Char.ofNat 97,Char.ofNat 108,Char.ofNat 111,Char.ofNat 110,Char.ofNat 101] = kwStandalone := rfl
  apply Runs.nt_of env_xml_decl
  unfold Prod.xml_decl
  rw [e0, e1]
  have htxt : x.str ++ Y = ['<', '?', 'x', 'm', 'l'] ++ (x.wsV ++ (kwVersion ++ (x.eqV1 ++ ('=' :: (x.eqV2 ++ (x.qV :: ('1' :: '.' :: (x.minor ++ (x.qV ::
      (encText x.enc ++ (sdText x.sd ++ (x.wsEnd ++ ('?' :: '>' :: Y))))))))))))) := by simp [CDecl.str]
  rw [htxt]
  have hv := runs_version_info h (encText x.enc ++ (sdText x.sd ++ (x.wsEnd ++ ('?' :: '>' :: Y))))
  have hclose : Runs env (.seq [.cls0 P.isSpace, .tag ['?', '>']]) (x.wsEnd ++ ('?' :: '>' :: Y)) (.ok (.seq [.leaf x.wsEnd, .leaf ['?', '>']]) Y) :=
    Runs.seq (RunsSeq.cons (runs_cls0 hend (Stops.cons _ sp_q')) (RunsSeq.cons (Runs.tag_ok ['?', '>'] Y) (RunsSeq.nil _)))
  -- the tail `S? ?>` makes both optional pseudo-attributes fail
  have endY : ∃ w d r, x.wsEnd ++ ('?' :: '>' :: Y) = w ++ d :: r ∧ okWs w = true ∧ P.isSpace d = false ∧ d ≠ 'e' ∧ d ≠ 's' :=
    ⟨x.wsEnd, '?', '>' :: Y, rfl, hend, sp_q', by decide, by decide⟩
  have hsdpart : Runs env (.alt [.nt N.sd_decl, .seq []]) (sdText x.sd ++ (x.wsEnd ++ ('?' :: '>' :: Y))) (.ok (cstSd x.sd) (x.wsEnd ++ ('?' :: '>' :: Y))) := by
    cases hs : x.sd with
    | none =>
      simp only [sdText, cstSd, List.nil_append]
      apply Runs.opt_none
      apply Runs.nt_fail_of env_sd_decl
      unfold Prod.sd_decl
      rw [e3]
      obtain ⟨w, d, r, e, hw, hd, _, hds⟩ := endY
      exact pseudo_attr_fails kwStandalone _ 's' _ rfl _ ⟨w, d, r, e, hw, hd, hds⟩
    | some v =>
      obtain ⟨w, e1', e2', q, b⟩ := v
      obtain ⟨a1, a2, a3, a4, a5⟩ := hsd w e1' e2' q b hs
      exact Runs.opt_some (runs_sd a1 a2 a3 a4 a5 _)
  have hencpart : Runs env (.alt [.nt N.encoding_decl, .seq []]) (encText x.enc ++ (sdText x.sd ++ (x.wsEnd ++ ('?' :: '>' :: Y))))
      (.ok (cstEnc x.enc) (sdText x.sd ++ (x.wsEnd ++ ('?' :: '>' :: Y)))) := by
    cases he : x.enc with
    | none =>
      simp only [encText, cstEnc, List.nil_append]
      apply Runs.opt_none
      apply Runs.nt_fail_of env_encoding_decl
      unfold Prod.encoding_decl
      rw [e2]
      apply pseudo_attr_fails kwEncoding _ 'e' _ rfl
      cases hs : x.sd with
      | none =>
        obtain ⟨w, d, r, e, hw, hd, hde, _⟩ := endY
        exact ⟨w, d, r, by simpa [sdText] using e, hw, hd, hde⟩
      | some v =>
        obtain ⟨w, e1', e2', q, b⟩ := v
        obtain ⟨_, a2, _⟩ := hsd w e1' e2' q b hs
        exact ⟨w, 's', (['t', 'a', 'n', 'd', 'a', 'l', 'o', 'n', 'e'] ++ (e1' ++ ('=' :: (e2' ++ (q :: (yesNo b ++ [q])))))) ++ (x.wsEnd ++ ('?' :: '>' :: Y)),
          by simp [sdText, kwStandalone], a2, sp_s, by decide⟩
    | some v =>
      obtain ⟨w, e1', e2', q, name⟩ := v
      obtain ⟨a1, a2, a3, a4, a5, a6⟩ := henc w e1' e2' q name he
      exact Runs.opt_some (runs_encoding a1 a2 a3 a4 a5 a6 _)
  exact Runs.seq (RunsSeq.cons (Runs.tag_ok _ _) (RunsSeq.cons (Runs.seq (RunsSeq.cons hv (RunsSeq.cons hencpart (RunsSeq.cons hsdpart (RunsSeq.nil _)))))
    (RunsSeq.cons hclose (RunsSeq.nil _))))

end XmlRs.Lex
