import XmlRsModel.Lemmas.RunsDtdLex
/-! Completeness of the declarations of the internal subset: attribute-list, entity and notation declarations. -/
namespace XmlRs.Lex
open XmlRs Gen.Xml XmlRs.Names

/-! ### `S? | S?` separated token lists -/
def barSep : G := G.seq [G.cls0 P.isSpace, G.tag ['|'], G.cls0 P.isSpace]
def cstBar (a b : Str) : CST := .seq [.leaf a, .leaf ['|'], .leaf b]

theorem sp_bar : P.isSpace '|' = false := by decide
theorem sp_rpar : P.isSpace ')' = false := by decide
theorem nc_bar : P.isNameChar '|' = false := by decide
theorem nc_rpar : P.isNameChar ')' = false := by decide

theorem runs_bar {a b Y : Str} (ha : okWs a = true) (hb : okWs b = true) (hY : Stops P.isSpace Y) :
    Runs env barSep (a ++ ('|' :: (b ++ Y))) (.ok (cstBar a b) Y) :=
  Runs.seq (RunsSeq.cons (runs_cls0 ha (Stops.cons _ sp_bar)) (RunsSeq.cons (Runs.tag_ok ['|'] _) (RunsSeq.cons (runs_cls0 hb hY) (RunsSeq.nil _))))

theorem bar_fails_at_rpar {w : Str} (hw : okWs w = true) (Y : Str) : Runs env barSep (w ++ ')' :: Y) .fail :=
  Runs.seq_fail (RunsSeq.fail_tail (runs_cls0 hw (Stops.cons _ sp_rpar)) (RunsSeq.fail_head (Runs.tag_fail (strip_cons_ne _ _ (by decide)))))

theorem stops_nc_of_ws_then {w : Str} (hw : okWs w = true) {c : Char} (hc : P.isNameChar c = false) (Y : Str) :
    Stops P.isNameChar (w ++ c :: Y) := by
  cases w with
  | nil => exact Stops.cons _ hc
  | cons d ds =>
    simp only [okWs, List.all_cons, Bool.and_eq_true] at hw
    apply Stops.cons
    cases h : P.isNameChar d with
    | false => rfl
    | true => have := space_not_nameChar d h; simp [hw.1] at this

section sepLoop
variable {α : Type} (txt : α → Str) (okT : α → Bool) (g : G) (cst : α → CST)
  (hhead : ∀ x, okT x = true → ∃ c t, txt x = c :: t ∧ P.isNameChar c = true)
  (hg : ∀ x Y, okT x = true → Stops P.isNameChar Y → Runs env g (txt x ++ Y) (.ok (cst x) Y))

def okSepItem (y : Str × Str × α) : Bool := okWs y.1 && okWs y.2.1 && okT y.2.2

theorem stops_nc_sep (rest : List (Str × Str × α)) (w2 : Str) (Y : Str) (hrest : rest.all (okSepItem okT) = true) (hw2 : okWs w2 = true) :
    Stops P.isNameChar (sepTextG txt rest ++ (w2 ++ ')' :: Y)) := by
  cases rest with
  | nil => exact stops_nc_of_ws_then hw2 nc_rpar Y
  | cons y r =>
    obtain ⟨a, b, x⟩ := y
    simp only [List.all_cons, Bool.and_eq_true, okSepItem] at hrest
    simp only [sepTextG, List.append_assoc, List.cons_append]
    exact stops_nc_of_ws_then hrest.1.1.1 nc_bar _

include hhead hg in
theorem runs_sep_loop : ∀ (rest : List (Str × Str × α)) (w2 Y : Str), rest.all (okSepItem okT) = true → okWs w2 = true →
    RunsMany env (G.seq [barSep, g]) (sepTextG txt rest ++ (w2 ++ ')' :: Y))
      (.ok (rest.map fun y => CST.seq [cstBar y.1 y.2.1, cst y.2.2]) (w2 ++ ')' :: Y))
  | [], w2, Y, _, hw2 => by
    simp only [sepTextG, List.nil_append, List.map_nil]
    exact RunsMany.stop (Runs.seq_fail (RunsSeq.fail_head (bar_fails_at_rpar hw2 Y)))
  | (a, b, x) :: r, w2, Y, hrest, hw2 => by
    have hrest' := hrest
    simp only [List.all_cons, Bool.and_eq_true, okSepItem] at hrest
    obtain ⟨⟨⟨ha, hb⟩, hx⟩, hr⟩ := hrest
    have ih := runs_sep_loop r w2 Y hr hw2
    obtain ⟨c, t, e, hc⟩ := hhead x hx
    have hst : Stops P.isSpace (txt x ++ (sepTextG txt r ++ (w2 ++ ')' :: Y))) := by
      rw [e]; exact Stops.cons _ (space_not_nameChar c hc)
    simp only [sepTextG, List.map_cons, List.append_assoc, List.cons_append]
    refine RunsMany.step (r := sepTextG txt r ++ (w2 ++ ')' :: Y)) ?_ ?_ ih
    · exact Runs.seq (RunsSeq.cons (runs_bar ha hb hst) (RunsSeq.cons (hg x _ hx (stops_nc_sep txt okT r w2 Y hr hw2)) (RunsSeq.nil _)))
    · simp only [List.length_append, List.length_cons]; omega
end sepLoop

/-! ### names and name tokens as list members -/
def cstNmtoken (n : Str) : CST := .node N.nmtoken (.leaf n)

theorem okNameTok_parts {n : Str} (h : okNameTok n = true) : n ≠ [] ∧ n.all P.isNameChar = true := by
  simpa [okNameTok] using h

theorem okNameTok_head {n : Str} (h : okNameTok n = true) : ∃ c t, id n = c :: t ∧ P.isNameChar c = true := by
  obtain ⟨h1, h2⟩ := okNameTok_parts h
  cases n with
  | nil => exact absurd rfl h1
  | cons c t => simp only [List.all_cons, Bool.and_eq_true] at h2; exact ⟨c, t, rfl, h2.1⟩

theorem runs_nmtoken {n Y : Str} (h : okNameTok n = true) (hY : Stops P.isNameChar Y) :
    Runs env (.nt N.nmtoken) (id n ++ Y) (.ok (cstNmtoken n) Y) := by
  obtain ⟨h1, h2⟩ := okNameTok_parts h
  apply Runs.nt_of env_nmtoken
  unfold Prod.nmtoken
  exact runs_cls1 h1 h2 hY

theorem runs_name_tok {n Y : Str} (h : okNameTok n = true) (hY : Stops P.isNameChar Y) :
    Runs env (.nt N.name) (id n ++ Y) (.ok (cstName n) Y) :=
  runs_name (okNameTok_parts h).2 hY

/-! ### attribute types -/
def kwOfType : AttType → Str := printAttType

def sepCsts {α : Type} (cst : α → CST) (rest : List (Str × Str × α)) : List CST :=
  rest.map fun y => CST.seq [cstBar y.1 y.2.1, cst y.2.2]

def cstAttType : CAttType → CST
  | .kw t => .node N.att_type (.leaf (printAttType t))
  | .notationTy w0 w1 f rest w2 => .node N.att_type (.node N.enumerated_type (.node N.notation_type
      (.seq [.seq [.leaf kwNOTATIONty, .leaf w0, .leaf ['('], .leaf w1], .seq [cstName f, .many (sepCsts cstName rest)], .seq [.leaf w2, .leaf [')']]])))
  | .enumeration w0 f rest w1 => .node N.att_type (.node N.enumerated_type (.node N.enumeration
      (.seq [.seq [.leaf ['('], .leaf w0], .seq [cstNmtoken f, .many (sepCsts cstNmtoken rest)], .seq [.leaf w1, .leaf [')']]])))

theorem sp_lpar : P.isSpace '(' = false := by decide

theorem all_sep_tok {rest : List (Str × Str × Str)} (h : rest.all (fun (a, b, n) => okWs a && okWs b && okNameTok n) = true) :
    rest.all (okSepItem okNameTok) = true := by
  rw [List.all_eq_true] at h ⊢
  intro y hy; obtain ⟨a, b, n⟩ := y; simpa [okSepItem] using h _ hy

/-- keyword types: the text after the keyword starts with white space -/
theorem runs_att_type_kw (t : AttType) (ht : isKwType t = true) (c : Char) (hc : P.isSpace c = true) (Y : Str) :
    Runs env (.nt N.att_type) (printAttType t ++ c :: Y) (.ok (cstAttType (.kw t)) (c :: Y)) := by
  have hen : Runs env (.nt N.enumerated_type) (printAttType t ++ c :: Y) .fail := by
    apply Runs.nt_fail_of env_enumerated_type
    unfold Prod.enumerated_type
    refine Runs.alt (RunsAlt.skip ?_ (RunsAlt.skip ?_ (RunsAlt.nil _)))
    · apply Runs.nt_fail_of env_notation_type
      unfold Prod.notation_type
      refine Runs.seq_fail (RunsSeq.fail_head (Runs.seq_fail (RunsSeq.fail_head (Runs.tag_fail ?_))))
      cases t <;> simp [isKwType] at ht <;> simp [printAttType, stripPrefix]
    · apply Runs.nt_fail_of env_enumeration
      unfold Prod.enumeration
      refine Runs.seq_fail (RunsSeq.fail_head (Runs.seq_fail (RunsSeq.fail_head (Runs.tag_fail ?_))))
      cases t <;> simp [isKwType] at ht <;> simp [printAttType, stripPrefix]
  have k1 : [Char.ofNat 67,Char.ofNat 68,Char.ofNat 65,Char.ofNat 84,Char.ofNat 65] = ['C', 'D', 'A', 'T', 'A'] := rfl
  have k2 : [Char.ofNat 73,Char.ofNat 68,Char.ofNat 82,Char.ofNat 69,Char.ofNat 70,Char.ofNat 83] = ['I', 'D', 'R', 'E', 'F', 'S'] := rfl
  have k3 : [Char.ofNat 73,Char.ofNat 68,Char.ofNat 82,Char.ofNat 69,Char.ofNat 70] = ['I', 'D', 'R', 'E', 'F'] := rfl
  have k4 : [Char.ofNat 73,Char.ofNat 68] = ['I', 'D'] := rfl
  have k5 : [Char.ofNat 69,Char.ofNat 78,Char.ofNat 84,Char.ofNat 73,Char.ofNat 84,Char.ofNat 73,Char.ofNat 69,Char.ofNat 83] = ['E', 'N', 'T', 'I', 'T', 'I', 'E', 'S'] := rfl
  have k6 : [Char.ofNat 69,Char.ofNat 78,Char.ofNat 84,Char.ofNat 73,Char.ofNat 84,Char.ofNat 89] = ['E', 'N', 'T', 'I', 'T', 'Y'] := rfl
  have k7 : [Char.ofNat 78,Char.ofNat 77,Char.ofNat 84,Char.ofNat 79,Char.ofNat 75,Char.ofNat 69,Char.ofNat 78,Char.ofNat 83] = ['N', 'M', 'T', 'O', 'K', 'E', 'N', 'S'] := rfl
  have k8 : [Char.ofNat 78,Char.ofNat 77,Char.ofNat 84,Char.ofNat 79,Char.ofNat 75,Char.ofNat 69,Char.ofNat 78] = ['N', 'M', 'T', 'O', 'K', 'E', 'N'] := rfl
  apply Runs.nt_of env_att_type
  unfold Prod.att_type
  rw [k1, k2, k3, k4, k5, k6, k7, k8]
  refine Runs.alt (RunsAlt.skip hen ?_)
  have hsp := C15.space_cases c hc
  cases t <;> simp [isKwType] at ht
  all_goals
    rcases hsp with rfl | rfl | rfl | rfl
    all_goals
      simp only [printAttType]
      first
        | exact RunsAlt.hit (Runs.tag_ok _ _)
        | exact RunsAlt.skip (Runs.tag_fail (by simp [stripPrefix])) (RunsAlt.hit (Runs.tag_ok _ _))
        | exact RunsAlt.skip (Runs.tag_fail (by simp [stripPrefix])) (RunsAlt.skip (Runs.tag_fail (by simp [stripPrefix])) (RunsAlt.hit (Runs.tag_ok _ _)))
        | exact RunsAlt.skip (Runs.tag_fail (by simp [stripPrefix])) (RunsAlt.skip (Runs.tag_fail (by simp [stripPrefix])) (RunsAlt.skip (Runs.tag_fail (by simp [stripPrefix])) (RunsAlt.hit (Runs.tag_ok _ _))))
        | exact RunsAlt.skip (Runs.tag_fail (by simp [stripPrefix])) (RunsAlt.skip (Runs.tag_fail (by simp [stripPrefix])) (RunsAlt.skip (Runs.tag_fail (by simp [stripPrefix])) (RunsAlt.skip (Runs.tag_fail (by simp [stripPrefix])) (RunsAlt.hit (Runs.tag_ok _ _)))))
        | exact RunsAlt.skip (Runs.tag_fail (by simp [stripPrefix])) (RunsAlt.skip (Runs.tag_fail (by simp [stripPrefix])) (RunsAlt.skip (Runs.tag_fail (by simp [stripPrefix])) (RunsAlt.skip (Runs.tag_fail (by simp [stripPrefix])) (RunsAlt.skip (Runs.tag_fail (by simp [stripPrefix])) (RunsAlt.hit (Runs.tag_ok _ _))))))
        | exact RunsAlt.skip (Runs.tag_fail (by simp [stripPrefix])) (RunsAlt.skip (Runs.tag_fail (by simp [stripPrefix])) (RunsAlt.skip (Runs.tag_fail (by simp [stripPrefix])) (RunsAlt.skip (Runs.tag_fail (by simp [stripPrefix])) (RunsAlt.skip (Runs.tag_fail (by simp [stripPrefix])) (RunsAlt.skip (Runs.tag_fail (by simp [stripPrefix])) (RunsAlt.hit (Runs.tag_ok _ _)))))))
        | exact RunsAlt.skip (Runs.tag_fail (by simp [stripPrefix])) (RunsAlt.skip (Runs.tag_fail (by simp [stripPrefix])) (RunsAlt.skip (Runs.tag_fail (by simp [stripPrefix])) (RunsAlt.skip (Runs.tag_fail (by simp [stripPrefix])) (RunsAlt.skip (Runs.tag_fail (by simp [stripPrefix])) (RunsAlt.skip (Runs.tag_fail (by simp [stripPrefix])) (RunsAlt.skip (Runs.tag_fail (by simp [stripPrefix])) (RunsAlt.hit (Runs.tag_ok _ _))))))))

theorem tokensText_eq (rest : List (Str × Str × Str)) : tokensText rest = sepTextG id rest := rfl

theorem runs_att_type {ty : CAttType} (h : okAttType ty = true) (c : Char) (hc : P.isSpace c = true) (Y : Str) :
    Runs env (.nt N.att_type) (ty.str ++ c :: Y) (.ok (cstAttType ty) (c :: Y)) := by
  cases ty with
  | kw t => exact runs_att_type_kw t (by simpa [okAttType] using h) c hc Y
  | notationTy w0 w1 f rest w2 =>
    simp only [okAttType, Bool.and_eq_true] at h
    obtain ⟨⟨⟨⟨h0, h1⟩, hf⟩, hrest⟩, h2⟩ := h
    obtain ⟨a1, a2⟩ := okWs1_parts h0
    have hrest' := all_sep_tok hrest
    have e0 : [Char.ofNat 78,Char.ofNat 79,Char.ofNat 84,Char.ofNat 65,Char.ofNat 84,Char.ofNat 73,Char.ofNat 79,Char.ofNat 78] = kwNOTATIONty := rfl
    have e1 : [Char.ofNat 40] = ['('] := rfl
    have e2 : [Char.ofNat 41] = [')'] := rfl
    have e3 : [Char.ofNat 124] = ['|'] := rfl
    have htxt : (CAttType.notationTy w0 w1 f rest w2).str ++ c :: Y =
        kwNOTATIONty ++ (w0 ++ ('(' :: (w1 ++ (id f ++ (sepTextG id rest ++ (w2 ++ ')' :: (c :: Y))))))) := by
      simp [CAttType.str, tokensText_eq]
    rw [htxt]
    apply Runs.nt_of env_att_type
    unfold Prod.att_type
    refine Runs.alt (RunsAlt.hit ?_)
    apply Runs.nt_of env_enumerated_type
    unfold Prod.enumerated_type
    refine Runs.alt (RunsAlt.hit ?_)
    apply Runs.nt_of env_notation_type
    unfold Prod.notation_type
    rw [e0, e1, e2, e3]
    obtain ⟨d, t, ed, hd⟩ := okNameTok_head hf
    have hstf : Stops P.isSpace (id f ++ (sepTextG id rest ++ (w2 ++ ')' :: (c :: Y)))) := by
      rw [ed]; exact Stops.cons _ (space_not_nameChar d hd)
    have hhead : Runs env (.seq [.tag kwNOTATIONty, .cls1 P.isSpace, .tag ['('], .cls0 P.isSpace])
        (kwNOTATIONty ++ (w0 ++ ('(' :: (w1 ++ (id f ++ (sepTextG id rest ++ (w2 ++ ')' :: (c :: Y))))))))
        (.ok (.seq [.leaf kwNOTATIONty, .leaf w0, .leaf ['('], .leaf w1]) (id f ++ (sepTextG id rest ++ (w2 ++ ')' :: (c :: Y))))) :=
      Runs.seq (RunsSeq.cons (Runs.tag_ok kwNOTATIONty _) (RunsSeq.cons (runs_cls1 a1 a2 (Stops.cons _ sp_lpar))
        (RunsSeq.cons (Runs.tag_ok ['('] _) (RunsSeq.cons (runs_cls0 h1 hstf) (RunsSeq.nil _)))))
    have hloop := runs_sep_loop id okNameTok (.nt N.name) cstName (fun x hx => okNameTok_head hx)
      (fun x Y hx hY => runs_name_tok hx hY) rest w2 (c :: Y) hrest' h2
    have hfirst := runs_name_tok hf (stops_nc_sep id okNameTok rest w2 (c :: Y) hrest' h2)
    have hclose : Runs env (.seq [.cls0 P.isSpace, .tag [')']]) (w2 ++ ')' :: (c :: Y)) (.ok (.seq [.leaf w2, .leaf [')']]) (c :: Y)) :=
      Runs.seq (RunsSeq.cons (runs_cls0 h2 (Stops.cons _ sp_rpar)) (RunsSeq.cons (Runs.tag_ok [')'] _) (RunsSeq.nil _)))
    exact Runs.seq (RunsSeq.cons hhead (RunsSeq.cons (Runs.seq (RunsSeq.cons hfirst (RunsSeq.cons (Runs.many hloop) (RunsSeq.nil _))))
      (RunsSeq.cons hclose (RunsSeq.nil _))))
  | enumeration w0 f rest w1 =>
    simp only [okAttType, Bool.and_eq_true] at h
    obtain ⟨⟨⟨h0, hf⟩, hrest⟩, h1⟩ := h
    have hrest' := all_sep_tok hrest
    have e0 : [Char.ofNat 78,Char.ofNat 79,Char.ofNat 84,Char.ofNat 65,Char.ofNat 84,Char.ofNat 73,Char.ofNat 79,Char.ofNat 78] = kwNOTATIONty := rfl
    have e1 : [Char.ofNat 40] = ['('] := rfl
    have e2 : [Char.ofNat 41] = [')'] := rfl
    have e3 : [Char.ofNat 124] = ['|'] := rfl
    have htxt : (CAttType.enumeration w0 f rest w1).str ++ c :: Y =
        '(' :: (w0 ++ (id f ++ (sepTextG id rest ++ (w1 ++ ')' :: (c :: Y))))) := by
      simp [CAttType.str, tokensText_eq]
    rw [htxt]
    apply Runs.nt_of env_att_type
    unfold Prod.att_type
    refine Runs.alt (RunsAlt.hit ?_)
    apply Runs.nt_of env_enumerated_type
    unfold Prod.enumerated_type
    have hnot : Runs env (.nt N.notation_type) ('(' :: (w0 ++ (id f ++ (sepTextG id rest ++ (w1 ++ ')' :: (c :: Y)))))) .fail := by
      apply Runs.nt_fail_of env_notation_type
      unfold Prod.notation_type
      rw [e0]
      exact Runs.seq_fail (RunsSeq.fail_head (Runs.seq_fail (RunsSeq.fail_head (Runs.tag_fail (by simp [kwNOTATIONty, stripPrefix])))))
    refine Runs.alt (RunsAlt.skip hnot (RunsAlt.hit ?_))
    apply Runs.nt_of env_enumeration
    unfold Prod.enumeration
    rw [e1, e2, e3]
    obtain ⟨d, t, ed, hd⟩ := okNameTok_head hf
    have hstf : Stops P.isSpace (id f ++ (sepTextG id rest ++ (w1 ++ ')' :: (c :: Y)))) := by
      rw [ed]; exact Stops.cons _ (space_not_nameChar d hd)
    have hhead : Runs env (.seq [.tag ['('], .cls0 P.isSpace]) ('(' :: (w0 ++ (id f ++ (sepTextG id rest ++ (w1 ++ ')' :: (c :: Y))))))
        (.ok (.seq [.leaf ['('], .leaf w0]) (id f ++ (sepTextG id rest ++ (w1 ++ ')' :: (c :: Y))))) :=
      Runs.seq (RunsSeq.cons (Runs.tag_ok ['('] _) (RunsSeq.cons (runs_cls0 h0 hstf) (RunsSeq.nil _)))
    have hloop := runs_sep_loop id okNameTok (.nt N.nmtoken) cstNmtoken (fun x hx => okNameTok_head hx)
      (fun x Y hx hY => runs_nmtoken hx hY) rest w1 (c :: Y) hrest' h1
    have hfirst := runs_nmtoken hf (stops_nc_sep id okNameTok rest w1 (c :: Y) hrest' h1)
    have hclose : Runs env (.seq [.cls0 P.isSpace, .tag [')']]) (w1 ++ ')' :: (c :: Y)) (.ok (.seq [.leaf w1, .leaf [')']]) (c :: Y)) :=
      Runs.seq (RunsSeq.cons (runs_cls0 h1 (Stops.cons _ sp_rpar)) (RunsSeq.cons (Runs.tag_ok [')'] _) (RunsSeq.nil _)))
    exact Runs.seq (RunsSeq.cons hhead (RunsSeq.cons (Runs.seq (RunsSeq.cons hfirst (RunsSeq.cons (Runs.many hloop) (RunsSeq.nil _))))
      (RunsSeq.cons hclose (RunsSeq.nil _))))

/-! ### default declarations -/
def cstDefault : CDefault → CST
  | .required => .node N.default_decl (.leaf kwREQUIRED)
  | .implied => .node N.default_decl (.leaf kwIMPLIED)
  | .value none q vals => .node N.default_decl (.seq [.seq [], cstAttValue q vals])
  | .value (some w) q vals => .node N.default_decl (.seq [.seq [.leaf kwFIXED, .leaf w], cstAttValue q vals])

theorem runs_default {d : CDefault} (h : okDefault d = true) (Y : Str) :
    Runs env (.nt N.default_decl) (d.str ++ Y) (.ok (cstDefault d) Y) := by
  have e1 : [Char.ofNat 35,Char.ofNat 82,Char.ofNat 69,Char.ofNat 81,Char.ofNat 85,Char.ofNat 73,Char.ofNat 82,Char.ofNat 69,Char.ofNat 68] = kwREQUIRED := rfl
  have e2 : [Char.ofNat 35,Char.ofNat 73,Char.ofNat 77,Char.ofNat 80,Char.ofNat 76,Char.ofNat 73,Char.ofNat 69,Char.ofNat 68] = kwIMPLIED := rfl
  have e3 : [Char.ofNat 35,Char.ofNat 70,Char.ofNat 73,Char.ofNat 88,Char.ofNat 69,Char.ofNat 68] = kwFIXED := rfl
  cases d with
  | required =>
    apply Runs.nt_of env_default_decl
    unfold Prod.default_decl
    rw [e1]
    exact Runs.alt (RunsAlt.hit (Runs.tag_ok kwREQUIRED Y))
  | implied =>
    apply Runs.nt_of env_default_decl
    unfold Prod.default_decl
    rw [e1, e2]
    exact Runs.alt (RunsAlt.skip (Runs.tag_fail (by simp [CDefault.str, kwREQUIRED, kwIMPLIED, stripPrefix])) (RunsAlt.hit (Runs.tag_ok kwIMPLIED Y)))
  | value fixed q vals =>
    simp only [okDefault, Bool.and_eq_true, Bool.not_eq_true'] at h
    obtain ⟨⟨⟨hfx, hq⟩, hall⟩, hadj⟩ := h
    have hqq := isQuote_cases hq
    have hav := runs_att_value q hqq vals Y hall hadj
    have hqh : q ≠ '#' := by rcases hqq with rfl | rfl <;> decide
    cases fixed with
    | none =>
      have htxt : (CDefault.value none q vals).str ++ Y = q :: (printPieces vals ++ q :: Y) := by simp [CDefault.str]
      rw [htxt]
      apply Runs.nt_of env_default_decl
      unfold Prod.default_decl
      rw [e1, e2, e3]
      refine Runs.alt (RunsAlt.skip (Runs.tag_fail (strip_cons_ne _ _ (Ne.symm hqh))) (RunsAlt.skip (Runs.tag_fail (strip_cons_ne _ _ (Ne.symm hqh))) (RunsAlt.hit ?_)))
      refine Runs.seq (RunsSeq.cons (Runs.opt_none (Runs.seq_fail (RunsSeq.fail_head (Runs.tag_fail (strip_cons_ne _ _ (Ne.symm hqh)))))) (RunsSeq.cons hav (RunsSeq.nil _)))
    | some w =>
      obtain ⟨a1, a2⟩ := okWs1_parts hfx
      have htxt : (CDefault.value (some w) q vals).str ++ Y = kwFIXED ++ (w ++ (q :: (printPieces vals ++ q :: Y))) := by simp [CDefault.str]
      rw [htxt]
      apply Runs.nt_of env_default_decl
      unfold Prod.default_decl
      rw [e1, e2, e3]
      refine Runs.alt (RunsAlt.skip (Runs.tag_fail (by simp [kwREQUIRED, kwFIXED, stripPrefix])) (RunsAlt.skip (Runs.tag_fail (by simp [kwIMPLIED, kwFIXED, stripPrefix])) (RunsAlt.hit ?_)))
      refine Runs.seq (RunsSeq.cons (Runs.opt_some (Runs.seq (RunsSeq.cons (Runs.tag_ok kwFIXED _)
        (RunsSeq.cons (runs_cls1 a1 a2 (Stops.cons _ (sp_of_quote hq))) (RunsSeq.nil _))))) (RunsSeq.cons hav (RunsSeq.nil _)))

/-! ### attribute definitions and attribute-list declarations -/
def cstAttDef (a : CAttDef) : CST :=
  .node N.att_def (.seq [.seq [.leaf a.ws0, cstQN a.name], .seq [.leaf a.ws1, cstAttType a.ty], .seq [.leaf a.ws2, cstDefault a.dflt]])

theorem okAttDef_parts {a : CAttDef} (h : okAttDef a = true) :
    okWs1 a.ws0 = true ∧ okQN a.name = true ∧ okWs1 a.ws1 = true ∧ okAttType a.ty = true ∧ okWs1 a.ws2 = true ∧ okDefault a.dflt = true := by
  simp only [okAttDef, Bool.and_eq_true] at h
  obtain ⟨⟨⟨⟨⟨h1, h2⟩, h3⟩, h4⟩, h5⟩, h6⟩ := h
  exact ⟨h1, h2, h3, h4, h5, h6⟩

theorem stops_nc_ws1 {w : Str} (h : okWs1 w = true) (Y : Str) : Stops P.isNameChar (w ++ Y) := by
  obtain ⟨h1, h2⟩ := okWs1_parts h
  cases w with
  | nil => exact absurd rfl h1
  | cons d ds =>
    simp only [okWs, List.all_cons, Bool.and_eq_true] at h2
    apply Stops.cons
    cases hd : P.isNameChar d with
    | false => rfl
    | true => have := space_not_nameChar d hd; simp [h2.1] at this

theorem runs_att_def {a : CAttDef} (h : okAttDef a = true) (Y : Str) :
    Runs env (.nt N.att_def) (a.str ++ Y) (.ok (cstAttDef a) Y) := by
  obtain ⟨h0, hn, h1, hty, h2, hd⟩ := okAttDef_parts h
  obtain ⟨a1, a2⟩ := okWs1_parts h0
  obtain ⟨b1, b2⟩ := okWs1_parts h1
  obtain ⟨c1, c2⟩ := okWs1_parts h2
  apply Runs.nt_of env_att_def
  unfold Prod.att_def
  have htxt : a.str ++ Y = a.ws0 ++ (a.name.text ++ (a.ws1 ++ (a.ty.str ++ (a.ws2 ++ (a.dflt.str ++ Y))))) := by simp [CAttDef.str]
  rw [htxt]
  -- the white space behind the type keyword starts with a space character
  obtain ⟨c, cs, hcs, hc⟩ : ∃ c cs, a.ws2 = c :: cs ∧ P.isSpace c = true := by
    cases hw : a.ws2 with
    | nil => exact absurd hw c1
    | cons c cs => rw [hw] at c2; simp only [okWs, List.all_cons, Bool.and_eq_true] at c2; exact ⟨c, cs, rfl, c2.1⟩
  have hty' := runs_att_type hty c hc (cs ++ (a.dflt.str ++ Y))
  have e' : c :: (cs ++ (a.dflt.str ++ Y)) = a.ws2 ++ (a.dflt.str ++ Y) := by rw [hcs]; simp
  rw [e'] at hty'
  have hname : Runs env (.alt [.nt N.qname, .nt N.ns_att_name]) (a.name.text ++ (a.ws1 ++ (a.ty.str ++ (a.ws2 ++ (a.dflt.str ++ Y)))))
      (.ok (cstQN a.name) (a.ws1 ++ (a.ty.str ++ (a.ws2 ++ (a.dflt.str ++ Y))))) :=
    Runs.alt (RunsAlt.hit (runs_qname hn (stops_nc_ws1 h1 _)))
  -- what the type starts with is not white space
  have hsty : Stops P.isSpace (a.ty.str ++ (a.ws2 ++ (a.dflt.str ++ Y))) := by
    cases hty2 : a.ty with
    | kw t => rw [hty2] at hty; cases t <;> simp [okAttType, isKwType] at hty <;> exact Stops.cons _ (by decide)
    | notationTy w0 w1 f rest w2 => exact Stops.cons _ (by decide)
    | enumeration w0 f rest w1 => exact Stops.cons _ (by decide)
  have hsd : Stops P.isSpace (a.dflt.str ++ Y) := by
    cases hd2 : a.dflt with
    | required => exact Stops.cons _ (by decide)
    | implied => exact Stops.cons _ (by decide)
    | value fixed q vals =>
      rw [hd2] at hd
      simp only [okDefault, Bool.and_eq_true] at hd
      cases fixed with
      | none => exact Stops.cons _ (sp_of_quote hd.1.1.2)
      | some w => exact Stops.cons _ (by decide)
  exact Runs.seq (RunsSeq.cons (Runs.seq (RunsSeq.cons (runs_cls1 a1 a2 (stops_space_name hn _)) (RunsSeq.cons hname (RunsSeq.nil _))))
    (RunsSeq.cons (Runs.seq (RunsSeq.cons (runs_cls1 b1 b2 hsty) (RunsSeq.cons hty' (RunsSeq.nil _))))
    (RunsSeq.cons (Runs.seq (RunsSeq.cons (runs_cls1 c1 c2 hsd) (RunsSeq.cons (runs_default hd Y) (RunsSeq.nil _)))) (RunsSeq.nil _))))

end XmlRs.Lex
