import XmlRsModel.Lemmas.PegSound
import XmlRsModel.Lemmas.DomNormal
import XmlRsModel.DomOK
/-! What the `att_value` production accepts, read off a derivation: every text piece of an accepted attribute value
    consists of characters other than `<` and `&`. -/
namespace XmlRs.Dom
open XmlRs Gen.Xml

theorem except_av (q : Char) (c : Char) (h : P.except P.isChar [Char.ofNat 60, Char.ofNat 38, q] c = true) : avChar c = true := by
  have e1 : Char.ofNat 60 = '<' := by decide
  have e2 : Char.ofNat 38 = '&' := by decide
  simp only [P.except, e1, e2, Bool.and_eq_true, List.contains_cons, Bool.not_eq_true', Bool.or_eq_false_iff] at h
  simp only [avChar, Bool.and_eq_true, bne_iff_ne, ne_eq]
  refine ⟨⟨h.1, ?_⟩, ?_⟩
  · intro hc; subst hc; simp at h
  · intro hc; subst hc; simp at h

theorem absReference_not_text (b : CST) : pieceOK (absReference b) = true := by
  unfold absReference
  split
  · split
    · unfold absCharRef; simp only; split <;> rfl
    · split <;> rfl
  · rfl

theorem items_pieces (q : Char) : ∀ items : List CST,
    DerivesAll env (.alt [.cls1 (P.except P.isChar [Char.ofNat 60, Char.ofNat 38, q]), .nt N.reference]) items →
    ∀ t ∈ toksL items, pieceOK (match t with
      | .leaf s => .text s
      | .node n b => if n == N.reference then absReference b
                     else if n == N.pe_reference then (match b.kidsL with | [(_, nm)] => .peRef nm.flatten | _ => .peRef [])
                     else .text b.flatten) = true
  | [], _, t, ht => by simp [toksL] at ht
  | c :: cs, h, t, ht => by
    cases h with
    | cons _ _ _ hc hcs =>
      simp only [toksL, List.mem_append] at ht
      rcases ht with ht | ht
      · cases hc with
        | alt _ g _ hg hd =>
          simp only [List.mem_cons, List.mem_nil_iff, or_false] at hg
          rcases hg with rfl | rfl
          · cases hd with
            | cls1 _ s hne hall =>
              simp only [CST.toks] at ht
              split at ht
              · simp at ht
              · simp only [List.mem_singleton] at ht; subst ht
                simp only [pieceOK, weakText, List.all_eq_true]
                exact fun ch hch => except_av q ch (hall ch hch)
          · cases hd with
            | nt _ c' _ =>
              simp only [CST.toks, List.mem_singleton] at ht; subst ht
              simp only [beq_self_eq_true, if_true]
              exact absReference_not_text c'
      · exact items_pieces q cs hcs t ht

theorem quoted_pieces (q : Char) (b : CST)
    (h : Derives env (.seq [.tag [q], .many0 (.alt [.cls1 (P.except P.isChar [Char.ofNat 60, Char.ofNat 38, q]), .nt N.reference]), .tag [q]]) b) :
    ∀ p ∈ absPieces b, pieceOK p = true := by
  cases h with
  | seq _ ks hs =>
    cases hs with
    | cons _ _ c1 cs1 h1 hs1 =>
      cases hs1 with
      | cons _ _ c2 cs2 h2 hs2 =>
        cases hs2 with
        | cons _ _ c3 cs3 h3 hs3 =>
          cases hs3
          cases h1; cases h3
          cases h2 with
          | many _ items hit =>
            intro p hp
            have ht : (CST.seq [.leaf [q], .many items, .leaf [q]]).toks = Tok.leaf [q] :: (toksL items ++ [Tok.leaf [q]]) := by
              simp [CST.toks, toksL]
            simp only [absPieces, ht, List.drop_one, List.tail_cons, List.dropLast_concat, List.mem_map] at hp
            obtain ⟨t, htm, rfl⟩ := hp
            exact items_pieces q items hit t htm

/-- every text piece of a value the attribute production accepts consists of attribute-value characters -/
theorem parseAttrValue_pieces (v : Str) (ps : List Piece) (h : parseAttrValue v = some ps) : ∀ p ∈ ps, pieceOK p = true := by
  unfold parseAttrValue at h
  simp only at h
  split at h
  · next n b hr =>
    split at h
    · simp only [Option.some.injEq] at h; subst h
      obtain ⟨hd, _⟩ := (run_sound env _).1 _ _ _ _ hr
      cases hd with
      | nt _ _ hb =>
        rw [env_att_value] at hb
        unfold Prod.att_value at hb
        cases hb with
        | alt _ g _ hg hd =>
          simp only [List.mem_cons, List.mem_nil_iff, or_false] at hg
          rcases hg with rfl | rfl
          · exact quoted_pieces _ b hd
          · exact quoted_pieces _ b hd
    · cases h
  · cases h

end XmlRs.Dom
