import XmlRsModel.Lemmas.XAbsMain
/-! Token lists of the composite trees, and the `abs` functions on them (everything except the recursion into
    sub-expressions, which `XAbsFinal.lean` supplies). -/
namespace XmlRs.XLex
open XmlRs XmlRs.XPath XmlRs.Lex
open Gen.XPath

/-! ### shapes forced by the layer -/
theorem ok9_filter {f : CX} (h : okAt 9 f = true) : ∃ p preds, f = .filter p preds := by
  cases f <;> simp_all [okAt]

theorem ok8_path {f : CX} (h : okAt 8 f = true) :
    (∃ g, f = .pathF g) ∨ (∃ g w1 ds w2 rel, f = .pathFR g w1 ds w2 rel) ∨ (∃ ds w rel, f = .pathAbs ds w rel) ∨ (∃ rel, f = .pathRel rel) ∨ f = .pathRoot := by
  cases f <;> simp_all [okAt]

/-! ### predicates -/
def predBody (w1 : Str) (e : CX) (w2 : Str) : CST :=
  .seq [.seq [.leaf ['['], .leaf w1], .node N.predicate_expr (.node N.expr (cstX e)), .seq [.leaf w2, .leaf [']']]]

/-- the predicate bodies of a predicate list, in order -/
def predBodies : CPreds → List CST
  | .nil => []
  | .cons _ w1 e w2 t => predBody w1 e w2 :: predBodies t

theorem sig_preds : ∀ (p : CPreds), okPreds p = true → sigToks (.many (cstPreds p)) = (predBodies p).map (fun b => Tok.node N.predicate b)
  | .nil, _ => by simp [cstPreds, predBodies, sig_many_nil]
  | .cons w w1 e w2 t, h => by
    simp only [okPreds, Bool.and_eq_true] at h
    have ih := sig_preds t h.2
    simp only [cstPreds, predBodies, List.map_cons]
    rw [sig_many_cons, sig_seq_cons, sig_seq_cons, sig_seq_nil, sig_leaf_ws h.1.1.1.1, sig_node, ih]
    rfl

theorem kidsLL_preds : ∀ (p : CPreds), kidsLL (cstPreds p) = (predBodies p).map (fun b => (N.predicate, b))
  | .nil => rfl
  | .cons w w1 e w2 t => by simp [cstPreds, predBodies, kidsLL, CST.kidsL, kidsLL_preds t, predBody]

theorem predBody_kidsL (w1 : Str) (e : CX) (w2 : Str) : (predBody w1 e w2).kidsL = [(N.predicate_expr, .node N.expr (cstX e))] := by
  simp [predBody, CST.kidsL, kidsLL]

/-! ### operator tails -/
theorem sig_tail_cons (w1 : Str) (op : BinOp) (w2 : Str) (e : CX) (t : CXTail) (h1 : okWs w1 = true) (h2 : okWs w2 = true) :
    sigToks (.many (cstTail (.cons w1 op w2 e t))) = Tok.leaf (opText op) :: Tok.node (xLabel e) (xBody e) :: sigToks (.many (cstTail t)) := by
  simp only [cstTail]
  rw [sig_many_cons, sig_seq_cons, sig_seq_cons, sig_seq_cons, sig_seq_cons, sig_seq_nil, sig_seq_cons, sig_seq_nil, sig_leaf_ws h1, sig_leaf_ws h2, sig_op, cstX_eq, sig_node]
  rfl

/-! ### relative paths -/
theorem sig_reltail_cons (w1 : Str) (ds : Bool) (w2 : Str) (s : CStep) (t : CRelTail) (h1 : okWs w1 = true) (h2 : okWs w2 = true) :
    sigToks (.many (cstRelTail (.cons w1 ds w2 s t))) = Tok.leaf (slashText ds) :: Tok.node N.step (stepBody s) :: sigToks (.many (cstRelTail t)) := by
  simp only [cstRelTail]
  rw [sig_many_cons, sig_seq_cons, sig_seq_cons, sig_seq_cons, sig_seq_cons, sig_seq_nil, sig_seq_cons, sig_seq_nil, sig_leaf_ws h1, sig_leaf_ws h2, sig_slash, cstStep_eq, sig_node]
  rfl

theorem absRel_go_leaf (f : Nat) (ds : Bool) (r : List Tok) :
    absRel.go f (Tok.leaf (slashText ds) :: r) = (if ds then [dosStep] else []) ++ absRel.go f r := by
  cases ds <;> simp [absRel.go, slashText]

theorem absRel_go_step (f : Nat) (b : CST) (r : List Tok) : absRel.go f (Tok.node N.step b :: r) = absStep f b :: absRel.go f r := by
  simp [absRel.go]

/-! ### arguments -/
def argBodies : CArgs → List CX
  | .none => []
  | .some f r => f :: (let rec go : CArgTail → List CX | .nil => [] | .cons _ _ e t => e :: go t; go r)

end XmlRs.XLex
