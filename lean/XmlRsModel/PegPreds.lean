import XmlRsModel.Peg
import XmlRsModel.Gen.CharTables
/-! Character predicates and tree predicates referred to by the generated grammars.  The five XML
    classes are the tables extracted from the running code (`Gen.CharTables`). -/
namespace XmlRs.P

def isChar (c : Char) : Bool := Gen.isChar c.toNat
def isNameStartChar (c : Char) : Bool := Gen.isNameStartChar c.toNat
def isNameChar (c : Char) : Bool := Gen.isNameChar c.toNat
def isPubidChar (c : Char) : Bool := Gen.isPubidChar c.toNat
def isEncName (c : Char) : Bool := Gen.isEncNameChar c.toNat

/-- nom `multispace0/1`: space, tab, CR, LF (= XML production [3] S) -/
def isSpace (c : Char) : Bool := c == ' ' || c == '\t' || c == '\r' || c == '\n'
/-- nom `digit0/1`: ASCII digits -/
def isDigit (c : Char) : Bool := '0' ≤ c && c ≤ '9'
/-- nom `hex_digit1` -/
def isHexDigit (c : Char) : Bool := ('0' ≤ c && c ≤ '9') || ('a' ≤ c && c ≤ 'f') || ('A' ≤ c && c ≤ 'F')
/-- nom `alpha1`: ASCII letters -/
def isAlpha (c : Char) : Bool := ('a' ≤ c && c ≤ 'z') || ('A' ≤ c && c ≤ 'Z')

/-- the `xmlchar::*_except*` wrappers: in the class and not one of the listed characters -/
def except (p : Char → Bool) (ex : Str) (c : Char) : Bool := p c && !ex.contains c

def lowerAscii (c : Char) : Char := if 'A' ≤ c && c ≤ 'Z' then Char.ofNat (c.toNat + 32) else c

/-- `str::eq_ignore_ascii_case` -/
def eqIgnoreAsciiCase (a b : Str) : Bool := a.map lowerAscii == b.map lowerAscii

/-- first tree produced by nonterminal `n`, searching left to right, outermost first -/
partial def findNode (n : Nat) : CST → Option CST
  | .leaf _ => none
  | .node m c => if m == n then some c else findNode n c
  | .seq ks => ks.findSome? (findNode n)
  | .many ks => ks.findSome? (findNode n)

end XmlRs.P

namespace XmlRs.P
/-- `verify(tuple((stag, content, etag)), |(s, _, e)| s.name == *e)`: the first labelled node of the
    start tag and of the end tag is the QName; QName equality is equality of the name text -/
def tagNamesMatch (c : CST) : Bool :=
  match c with
  | .seq [.node _ s, _, .node _ e] =>
      (match s.kidsL.head?, e.kidsL.head? with
       | some (_, a), some (_, b) => a.flatten == b.flatten
       | _, _ => false)
  | _ => false
end XmlRs.P
