import XmlRsModel.Basic
/-! Deep-embedded PEG DSL with nom 7's semantics (ordered choice, `many0` stops at the first error
    and fails on a success that consumes nothing, no cut/failure), a fuel interpreter `run`, the
    generic concrete syntax tree, and the context-free reading `Derives` of the same grammar.
    The grammars themselves are GENERATED from the Rust sources (`Gen/XmlGrammar.lean`,
    `Gen/XPathGrammar.lean`) by tools/translate.py. Import-free. -/
namespace XmlRs

/-- generic concrete syntax tree; `node n c` is produced by nonterminal `n` -/
inductive CST where
  | leaf (s : Str)
  | seq (kids : List CST)
  | many (kids : List CST)
  | node (n : Nat) (c : CST)
  deriving Inhabited

mutual
def CST.flatten : CST → Str
  | .leaf s => s
  | .seq ks => flattenL ks
  | .many ks => flattenL ks
  | .node _ c => c.flatten
def flattenL : List CST → Str
  | [] => []
  | c :: cs => c.flatten ++ flattenL cs
end

/-- does `pat` occur in `s`?  split at the first occurrence: (before, from the occurrence on) -/
def splitAtSub (pat : Str) : Str → Option (Str × Str)
  | [] => if pat = [] then some ([], []) else none
  | c :: cs => match stripPrefix pat (c :: cs) with
      | some _ => some ([], c :: cs)
      | none => match splitAtSub pat cs with
          | some (a, b) => some (c :: a, b)
          | none => none

def hasSub (pat : Str) (s : Str) : Bool := (splitAtSub pat s).isSome

inductive G where
  /-- `tag("...")` / `char('c')` -/
  | tag (s : Str)
  /-- `satisfy(p)`: exactly one character satisfying `p` -/
  | one (p : Char → Bool)
  /-- `split_at_position_complete`: zero or more characters satisfying `p` -/
  | cls0 (p : Char → Bool)
  /-- `split_at_position1_complete`: one or more -/
  | cls1 (p : Char → Bool)
  /-- `helper::take_until(cls0 p, stop)`: the run of `p` characters cut before the first `stop` -/
  | until0 (p : Char → Bool) (stop : Str)
  | seq (gs : List G)
  | alt (gs : List G)
  | many0 (g : G)
  /-- `verify(g, pred)`; the predicate sees the tree -/
  | verify (g : G) (p : CST → Bool)
  | nt (n : Nat)

inductive Res (α : Type) where
  | ok (c : α) (rest : Str)
  | fail
  | fuel
  deriving Inhabited

abbrev Env := Nat → G

def runUntil0 (p : Char → Bool) (stop : Str) (s : Str) : CST × Str :=
  match splitAtSub stop (spanP p s).1 with
  | some (a, b) => (.leaf a, b ++ (spanP p s).2)
  | none => (.leaf (spanP p s).1, (spanP p s).2)

mutual
def run (env : Env) : Nat → G → Str → Res CST
  | 0, _, _ => .fuel
  | _+1, .tag t, s => match stripPrefix t s with
      | some r => .ok (.leaf t) r
      | none => .fail
  | _+1, .one p, s => match s with
      | c :: r => if p c then .ok (.leaf [c]) r else .fail
      | [] => .fail
  | _+1, .cls0 p, s => .ok (.leaf (spanP p s).1) (spanP p s).2
  | _+1, .cls1 p, s => if (spanP p s).1 = [] then .fail else .ok (.leaf (spanP p s).1) (spanP p s).2
  | _+1, .until0 p stop, s => .ok (runUntil0 p stop s).1 (runUntil0 p stop s).2
  | f+1, .seq gs, s => match runSeq env f gs s with
      | .ok ks r => .ok (.seq ks) r
      | .fail => .fail
      | .fuel => .fuel
  | f+1, .alt gs, s => runAlt env f gs s
  | f+1, .many0 g, s => match runMany env f g s with
      | .ok ks r => .ok (.many ks) r
      | .fail => .fail
      | .fuel => .fuel
  | f+1, .verify g p, s => match run env f g s with
      | .ok c r => if p c then .ok c r else .fail
      | .fail => .fail
      | .fuel => .fuel
  | f+1, .nt n, s => match run env f (env n) s with
      | .ok c r => .ok (.node n c) r
      | .fail => .fail
      | .fuel => .fuel
def runSeq (env : Env) : Nat → List G → Str → Res (List CST)
  | _, [], s => .ok [] s
  | f, g :: gs, s => match run env f g s with
      | .ok c r => match runSeq env f gs r with
          | .ok ks r' => .ok (c :: ks) r'
          | .fail => .fail
          | .fuel => .fuel
      | .fail => .fail
      | .fuel => .fuel
def runAlt (env : Env) : Nat → List G → Str → Res CST
  | _, [], _ => .fail
  | f, g :: gs, s => match run env f g s with
      | .ok c r => .ok c r
      | .fail => runAlt env f gs s
      | .fuel => .fuel
def runMany (env : Env) : Nat → G → Str → Res (List CST)
  | 0, _, _ => .fuel
  | f+1, g, s => match run env f g s with
      | .ok c r => if r.length < s.length then
                     match runMany env f g r with
                     | .ok ks r' => .ok (c :: ks) r'
                     | .fail => .fail
                     | .fuel => .fuel
                   else .fail
      | .fail => .ok [] s
      | .fuel => .fuel
end

/-! ### the context-free reading of the same grammar -/
mutual
inductive Derives (env : Env) : G → CST → Prop where
  | tag (t) : Derives env (.tag t) (.leaf t)
  | one (p c) : p c = true → Derives env (.one p) (.leaf [c])
  | cls0 (p s) : (∀ c ∈ s, p c = true) → Derives env (.cls0 p) (.leaf s)
  | cls1 (p s) : s ≠ [] → (∀ c ∈ s, p c = true) → Derives env (.cls1 p) (.leaf s)
  | until0 (p stop s) : (∀ c ∈ s, p c = true) → (stop ≠ [] → hasSub stop s = false) →
      Derives env (.until0 p stop) (.leaf s)
  | seq (gs ks) : DerivesSeq env gs ks → Derives env (.seq gs) (.seq ks)
  | alt (gs g c) : g ∈ gs → Derives env g c → Derives env (.alt gs) c
  | many (g ks) : DerivesAll env g ks → Derives env (.many0 g) (.many ks)
  | verify (g p c) : Derives env g c → p c = true → Derives env (.verify g p) c
  | nt (n c) : Derives env (env n) c → Derives env (.nt n) (.node n c)
inductive DerivesSeq (env : Env) : List G → List CST → Prop where
  | nil : DerivesSeq env [] []
  | cons (g gs c cs) : Derives env g c → DerivesSeq env gs cs → DerivesSeq env (g :: gs) (c :: cs)
inductive DerivesAll (env : Env) : G → List CST → Prop where
  | nil (g) : DerivesAll env g []
  | cons (g c cs) : Derives env g c → DerivesAll env g cs → DerivesAll env g (c :: cs)
end

/-! ### generic tree access -/
mutual
/-- outermost labelled nodes, left to right, not descending into them -/
def CST.kidsL : CST → List (Nat × CST)
  | .leaf _ => []
  | .node n c => [(n, c)]
  | .seq ks => kidsLL ks
  | .many ks => kidsLL ks
def kidsLL : List CST → List (Nat × CST)
  | [] => []
  | c :: cs => c.kidsL ++ kidsLL cs
end

inductive Tok where
  | leaf (s : Str)
  | node (n : Nat) (c : CST)

mutual
/-- leaves and outermost labelled nodes in order (empty leaves dropped) -/
def CST.toks : CST → List Tok
  | .leaf s => if s.isEmpty then [] else [.leaf s]
  | .node n c => [.node n c]
  | .seq ks => toksL ks
  | .many ks => toksL ks
def toksL : List CST → List Tok
  | [] => []
  | c :: cs => c.toks ++ toksL cs
end


mutual
def CST.size : CST → Nat
  | .leaf _ => 1
  | .node _ c => c.size + 1
  | .seq ks => sizeL ks + 1
  | .many ks => sizeL ks + 1
def sizeL : List CST → Nat
  | [] => 0
  | c :: cs => c.size + sizeL cs
end


end XmlRs
