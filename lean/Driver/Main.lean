import Driver.Proto
import Driver.Ops
/-! `xmlmodel`: model side of the line protocol.  One request per line, one response per line.
    A request that runs longer than the limit (a grammar translated from a source that backtracks
    exponentially makes the model exponential too) is answered with `timeout` and the process ends
    with status 3; the caller resumes with the next line (same convention as the Rust harness). -/
open Driver

/-- poll with back-off: most requests finish within a millisecond (spin first), the limit only matters for run-aways -/
partial def waitFor (t : Task String) (limitMs : Nat) (waited : Nat) (spins : Nat := 0) : IO (Option String) := do
  if (← IO.hasFinished t) then return some t.get
  if spins < 2000 then waitFor t limitMs waited (spins + 1)
  else if waited ≥ limitMs then return none
  else
    let step := if waited < 20 then 1 else if waited < 200 then 5 else 20
    IO.sleep step.toUInt32
    waitFor t limitMs (waited + step) spins

partial def loop (h : IO.FS.Stream) (out : IO.FS.Stream) (limitMs : Nat) : IO Unit := do
  let line ← h.getLine
  if line.isEmpty then return ()
  let line := (line.dropEndWhile (fun c => c == '\n' || c == '\r')).toString
  let parts := line.splitOn "\t"
  let op := parts.headD ""
  let args := (parts.drop 1).map decode
  let t ← IO.asTask (prio := .dedicated) (IO.lazyPure fun _ => dispatch op args)
  let t' : Task String := t.map fun r => match r with | .ok s => s | .error _ => "model-error"
  -- fast path: most requests finish at once
  match ← waitFor t' limitMs 0 with
  | some s =>
    out.putStrLn s
    out.flush
    loop h out limitMs
  | none =>
    out.putStrLn "timeout"
    out.flush
    IO.Process.exit 3

def main : IO Unit := do
  let lim := ((← IO.getEnv "XMLRS_LINE_TIMEOUT_MS").bind String.toNat?).getD 60000
  loop (← IO.getStdin) (← IO.getStdout) lim
