import Driver.Proto
import Driver.Ops
/-! `xmlmodel`: model side of the line protocol.  One request per line, one response per line. -/
open Driver

partial def loop (h : IO.FS.Stream) (out : IO.FS.Stream) : IO Unit := do
  let line ← h.getLine
  if line.isEmpty then return ()
  let line := (line.dropEndWhile (fun c => c == '\n' || c == '\r')).toString
  let parts := line.splitOn "\t"
  let op := parts.headD ""
  let args := (parts.drop 1).map decode
  out.putStrLn (dispatch op args)
  out.flush
  loop h out

def main : IO Unit := do loop (← IO.getStdin) (← IO.getStdout)
