import Driver.Proto
import Driver.Dump
import XmlRsModel.Dom
/-! `dom` histories, model side: same operations, same handles, same dump as harness/src/ops_domhist.rs -/
namespace Driver
open XmlRs XmlRs.Dom

def hOf (s : St) (id : Nat) : String :=
  match s.handles.idxOf? (some id) with
  | some i => s!"h{i}"
  | none => "h?"

partial def dumpNode (s : St) : Node → String
  | .mk id k d as ks =>
    let kids := String.join (ks.map (dumpNode s))
    let body := match k with
      | .doc => s!"D[{kids}]"
      | .elem n => s!"E({encode n})[{String.join (as.map (dumpNode s))}][{kids}]"
      | .attr n sp => s!"A({encode (localName n)},{if sp then 1 else 0})[{kids}]"   -- the DOM names attributes by local part
      | .text => s!"T({encode d})"
      | .cdata => s!"S({encode d})"
      | .comment => s!"C({encode d})"
      | .pi t => s!"P({encode t},{encode d})"
      | .ref n => s!"R({encode n})"
      | .doctype n => s!"Y({encode n})"
    s!"{hOf s id}:{body}"

/-- the document, then the detached ROOTS that have a handle, in handle order -/
def snapshot (s : St) : String :=
  let roots := (s.handles.filterMap id).eraseDups.filterMap fun i => s.detached.find? (·.id == i)
  dumpNode s s.doc ++ String.join (roots.map fun r => " ~ " ++ dumpNode s r)

def excClass : Exc → String
  | .hierarchy => "hierarchy" | .wrongDoc => "wrongdoc" | .notFound => "notfound" | .inUse => "inuse"
  | .indexSize => "index" | .invalidChar => "invalidchar" | .noData => "nodata" | .invalid => "invalid"

def showRes (s : St) : Res → String
  | .ok => "ok"
  | .node id => s!"ok={hOf s id}"
  | .none_ => "ok=-"
  | .err e => s!"err:{excClass e}"
  | .panic => "panic"

def handleId (s : St) (t : String) : Option Nat :=
  let body := if t.startsWith "h" then (t.drop 1).toString else t
  match body.toNat? with
  | some i => (s.handles[i]?).join
  | none => none

def numArg (t : String) : Nat := if t == "M" then 18446744073709551615 else t.toNat?.getD 0

/-- an operation line `name:arg:arg...`; string arguments are percent-encoded once more -/
def parseOp (s : St) (line : String) : Option Op :=
  let ps := line.splitOn ":"
  let str (i : Nat) : Str := decode (ps.getD i "")
  let h (i : Nat) : Option Nat := handleId s (ps.getD i "")
  match ps.headD "" with
  | "ce" => some (.createElement (str 1))
  | "ct" => some (.createText (str 1))
  | "cc" => some (.createComment (str 1))
  | "cd" => some (.createCData (str 1))
  | "cp" => some (.createPI (str 1) (str 2))
  | "ca" => some (.createAttribute (str 1))
  | "cr" => some (.createEntityRef (str 1))
  | "ap" => do some (.appendChild (← h 1) (← h 2))
  | "ib" => do
      let r ← (if ps.getD 3 "" == "-" then some none else (h 3).map some)
      some (.insertBefore (← h 1) (← h 2) r)
  | "rc" => do some (.replaceChild (← h 1) (← h 2) (← h 3))
  | "rm" => do some (.removeChild (← h 1) (← h 2))
  | "sa" => do some (.setAttribute (← h 1) (str 2) (str 3))
  | "ra" => do some (.removeAttribute (← h 1) (str 2))
  | "san" => do some (.setAttributeNode (← h 1) (← h 2))
  | "ran" => do some (.removeAttributeNode (← h 1) (← h 2))
  | "ga" => do some (.getAttributeNode (← h 1) (str 2))
  | "ch" => do some (.childAt (← h 1) (numArg (ps.getD 2 "0")))
  | "sv" => do some (.setValue (← h 1) (str 2))
  | "sd" => do some (.setData (← h 1) (str 2))
  | "ad" => do some (.appendData (← h 1) (str 2))
  | "id" => do some (.insertData (← h 1) (numArg (ps.getD 2 "0")) (str 3))
  | "dd" => do some (.deleteData (← h 1) (numArg (ps.getD 2 "0")) (numArg (ps.getD 3 "0")))
  | "rd" => do some (.replaceData (← h 1) (numArg (ps.getD 2 "0")) (numArg (ps.getD 3 "0")) (str 4))
  | "st" => do some (.splitText (← h 1) (numArg (ps.getD 2 "0")))
  | "nz" => do some (.normalize (← h 1))
  | _ => none

/-- does the call type-check in the harness (Rust's traits exist for that receiver / argument kind)?  Calls that do
    not are reported as `unsupported` by both drivers: they are not behaviour of the library -/
def supported (s : St) (op : Op) : Bool :=
  let kindOf (i : Nat) : Option Kind := (s.find i).map (·.kind)
  let isElem (i : Nat) := match kindOf i with | some (.elem _) => true | _ => false
  let isAttr (i : Nat) := match kindOf i with | some (.attr _ _) => true | _ => false
  let cd (i : Nat) := match kindOf i with | some .text | some .comment | some .cdata => true | _ => false
  let isPI (i : Nat) := match kindOf i with | some (.pi _) => true | _ => false
  let nodeMut (i : Nat) := isElem i || isAttr i || cd i || isPI i || kindOf i == some .doc
  match op with
  | .setAttribute e _ _ | .removeAttribute e _ | .getAttributeNode e _ | .normalize e => isElem e
  | .setAttributeNode e a | .removeAttributeNode e a => isElem e && isAttr a
  | .setData n _ => cd n || isPI n
  | .appendData n _ | .insertData n _ _ | .deleteData n _ _ | .replaceData n _ _ _ => cd n
  | .splitText n _ => (match kindOf n with | some .text | some .cdata => true | _ => false)
  | .setValue n _ => nodeMut n
  | .appendChild p _ | .removeChild p _ | .insertBefore p _ _ => nodeMut p
  | .replaceChild p _ _ => isElem p || isAttr p || kindOf p == some .doc || kindOf p == some .text || kindOf p == some .comment
  | _ => true

def isAlloc : Op → Bool
  | .createElement _ | .createText _ | .createComment _ | .createCData _ | .createPI _ _ | .createAttribute _
  | .createEntityRef _ | .splitText _ _ | .getAttributeNode _ _ | .childAt _ _ => true
  | _ => false

def opDom (text : Str) (ops : List Str) : String :=
  match parseDoc text with
  | .ok (d, []) =>
    let s0 := buildSt d
    let rec go (s : St) : List Str → List String
      | [] => []
      | o :: r =>
        -- NamedNodeMap: setNamedItem / getNamedItem are the Element calls under another name, removeNamedItem is composite
        let ps := (String.ofList o).splitOn ":"
        let o := match ps.headD "" with
          | "sni" => (":".intercalate ("san" :: ps.drop 1)).toList
          | "gni" => (":".intercalate ("ga" :: ps.drop 1)).toList
          | _ => o
        if ps.headD "" == "rni" then
          match handleId s (ps.getD 1 "") with
          | none => ("bad-handle {" ++ snapshot s ++ "}") :: go s r
          | some e =>
            if !((s.find e).map (fun n => match n.kind with | .elem _ => true | _ => false)).getD false then
              ("unsupported {" ++ snapshot s ++ "}") :: go s r
            else
            let (s', res) := removeNamedItem s e (decode (ps.getD 2 ""))
            (showRes s' res ++ " {" ++ snapshot s' ++ "}") :: go s' r
        else
        match parseOp s (String.ofList o) with
        | none =>
          let alloc := ["ce", "ct", "cc", "cd", "cp", "ca", "cr", "st", "ga", "ch", "gni"].contains (((String.ofList o).splitOn ":").headD "")
          let s := if alloc then { s with handles := s.handles ++ [none] } else s
          ("bad-handle {" ++ snapshot s ++ "}") :: go s r
        | some op =>
          if !supported s op then
            let s := if isAlloc op then { s with handles := s.handles ++ [none] } else s
            ("unsupported {" ++ snapshot s ++ "}") :: go s r
          else
          let (s', res) := step s op
          (showRes s' res ++ " {" ++ snapshot s' ++ "}") :: go s' r
    " | ".intercalate (("init {" ++ snapshot s0 ++ "}") :: go s0 ops)
  | _ => "err:doc"

end Driver
