import Driver.Proto
import XmlRsModel.AttrNorm
import XmlRsModel.Concrete
import XmlRsModel.DomOK
/-! Canonical dump of an `IDoc` — the same text the Rust harness produces from the real items. -/
namespace Driver
open XmlRs

def e (s : Str) : String := encode s
def optS : Option Str → String | some s => e s | none => "~"

def dumpPiece : Piece → String
  | .text s => s!"t({e s})"
  | .charRef d h => s!"c({e d},{if h then 16 else 10})"
  | .entRef n => s!"e({e n})"
  | .peRef n => s!"p({e n})"

def dumpPieces (ps : List Piece) : String := String.join (ps.map dumpPiece)

def dumpPI (t : Str) (d : Option Str) : String := s!"P({e t},{optS d})"

def insertSorted (x : String × String) : List (String × String) → List (String × String)
  | [] => [x]
  | y :: r => if x.1 < y.1 || (x.1 == y.1 && x.2 ≤ y.2) then x :: y :: r else y :: insertSorted x r

def sortPairs (l : List (String × String)) : List (String × String) := l.foldl (fun acc x => insertSorted x acc) []

partial def dumpItem (dt : Option Doctype) : Item → String
  | .text s => s!"t({e s})"
  | .charRef d h => s!"c({e d},{if h then 16 else 10})"
  | .entRef n => s!"e({e n})"
  | .cdata s => s!"d({e s})"
  | .pi t d => dumpPI t d
  | .comment s => s!"C({e s})"
  | .elem n attrs kids =>
      let as := (elemAttrs true dt n attrs).map fun (a, sp) =>
        (e a.name.text, s!"A({e a.name.text},{if sp then 1 else 0})[{dumpPieces a.vals}]")
      let as := sortPairs as
      s!"E({e n.text})[{String.join (as.map (·.2))}][{String.join (kids.map (dumpItem dt))}]"

def dumpDoctype (d : Doctype) : String :=
  let ls := d.kids.filterMap fun | .attlist n defs => some s!"L({e (printDtdItem (.attlist n defs))})" | _ => none
  let ys := d.kids.filterMap fun
    | .entity n (.internal vs) => some s!"Y({e n},i)[{dumpPieces vs}]"
    | .entity n (.external p s nd) => some s!"Y({e n},x,{optS p},{e s},{optS nd})"
    | _ => none
  let ns := d.kids.filterMap fun | .notation n p s => some s!"N({e n},{optS p},{optS s})" | _ => none
  let ps := d.kids.filterMap fun | .pi t x => some (dumpPI t x) | _ => none
  s!"T({e d.name.text},{optS d.pub},{optS d.sys})[{String.join (ls ++ ys ++ ns ++ ps)}]"

def docDoctype (d : IDoc) : Option Doctype := d.kids.findSome? fun | .doctype x => some x | _ => none

def dumpDoc (d : IDoc) : String :=
  let dt := docDoctype d
  let tops := d.kids.map fun
    | .comment s => s!"C({e s})"
    | .pi t x => dumpPI t x
    | .doctype x => dumpDoctype x
    | .elem x => dumpItem dt x
  let enc := match d.encoding with | some x => (if x.isEmpty then "~" else e x) | none => "~"
  let sd := match d.standalone with | some true => "y" | some false => "n" | none => "~"
  s!"D({optS d.version},{enc},{sd})[{String.join tops}]"

def errClass : XErr → String
  | .syntax => "syntax" | .rest => "rest" | .reference => "reference" | .duplicateAttr => "invalid"
  | .unsupported => "invalid" | .shape => "shape" | .fuel => "fuel"


/-- declared type of attribute `a` on element type `el` (first binding definition) -/
def attrTypeOf (dt : Option Doctype) (el a : QN) : Option AttType :=
  ((attDefsFor dt el).find? (·.name == a)).map (·.ty)

/-- `attrs`: per element in document order, the attributes with normalized value and specified flag -/
partial def attrsItem (req : Bool) (dt : Option Doctype) (t : EntTable) : Item → String
  | .elem n attrs kids =>
      let as := (elemAttrs req dt n attrs).map fun (a, sp) =>
        let v := match normalizedValue t (attrTypeOf dt n a.name) a.vals with
          | .ok v => e v
          | .error x => "!" ++ errClass x
        (e a.name.text, s!"A({e a.name.text},{if sp then 1 else 0},{v})")
      s!"E({e n.text})[{String.join ((sortPairs as).map (·.2))}]" ++ String.join (kids.map (attrsItem req dt t))
  | _ => ""

def opAttrs (req : Bool) (s : Str) : String :=
  match parseDoc s with
  | .ok (d, []) =>
      let dt := docDoctype d
      let t := match dt with | some x => entTableOf x | none => []
      (match d.kids.findSome? fun | .elem x => some x | _ => none with
       | some root => "ok " ++ attrsItem req dt t root
       | none => "err:noroot")
  | .ok (_, _) => "err:rest"
  | .error x => s!"err:{errClass x}"

def opParse (s : Str) : String :=
  match parseDoc s with
  | .ok (d, rest) => s!"ok rest={e rest} {dumpDoc d}"
  | .error x => s!"err:{errClass x}"

/-- outcome class only: ok | rest | err -/
def opAccept (which : String) (s : Str) : String :=
  -- "refspec" / "ref": the reviewed grammar (with / without the specification-side repairs of the recorded findings)
  match (if which == "spec" then parseDocSpec s else if which == "strict" then parseDocStrictOnly s
         else if which == "refspec" then parseDocRef true s else if which == "ref" then parseDocRef false s else parseDoc s) with
  | .ok (_, []) => "ok"
  | .ok (_, _) => "rest"
  | .error .fuel => "fuel"
  | .error .shape => "shape"
  | .error _ => "err"

def opPrint (s : Str) : String :=
  match parseDoc s with
  | .ok (d, _) => s!"ok {e (printDoc d)}"
  | .error x => s!"err:{errClass x}"

def opRoundtrip (s : Str) : String :=
  match parseDoc s with
  | .error x => s!"err:{errClass x}"
  | .ok (d1, _) =>
    let s1 := printDoc d1
    match parseDoc s1 with
    | .error x => s!"reparse-err:{errClass x} {e s1}"
    | .ok (d2, rest2) =>
      let same := dumpDoc d1 == dumpDoc d2
      let fix := printDoc d2 == s1
      s!"ok rest2={e rest2} same={if same then 1 else 0} eq={if same then 1 else 0} fix={if fix then 1 else 0}"

/-- does the round-trip theorem (Thm/C04 `print_parse_roundtrip`) speak about the document this text parses to?
    profile: what `canonDoc` can write (no DOCTYPE with a public identifier only, ...); then each hypothesis of the theorem, evaluated -/
def opThm04 (s : Str) : String :=
  match parseDoc s with
  | .error x => s!"err:{errClass x}"
  | .ok (d, _) =>
    match canonDoc d with
    | none => "profile=0"
    | some cd =>
      let b (x : Bool) : Nat := if x then 1 else 0
      s!"profile=1 ok={b cd.ok} faithful={b (d.kids.all faithfulTop)} depth={b (cd.root.depth ≤ Gen.Xml.maxDepth_element && doctypeDepth cd.doctype ≤ Gen.Xml.maxDepth_children)} canon={b (printDoc d == cd.str)}"

/-- does the hypothesis of the C15 invariant theorem (`Thm/C15Valid.lean: document_stays_valid`) hold of the document this text
    parses to?  every item of the document would pass the validity check the DOM applies to supplied data of its kind -/
def opThm15 (s : Str) : String :=
  match parseDoc s with
  | .error x => s!"err:{errClass x}"
  | .ok (d, _) => s!"docok={if Dom.docOK d then 1 else 0}"

end Driver
