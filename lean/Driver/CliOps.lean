import Driver.Proto
import Driver.XPathOps
import XmlRsModel.Cli
/-! The command-line tools: `xq` / `xe` operations of the model driver. -/
namespace Driver
open XmlRs XmlRs.Cli

def showCli : CliOut → String
  | .ok s => s!"ok:{encode s}"
  | .fail => "fail"

/-- quirks: r = #REQUIRED attributes are materialised, z = string() of negative zero is "-0" -/
def opXq (quirks : String) (text bind expr : Str) : String :=
  showCli (xq (quirks.contains 'r') (quirks.contains 'z') text (parseBindings bind) expr)

def opXe (quirks : String) (text bind expr value : Str) : String :=
  showCli (xe (quirks.contains 'r') text (parseBindings bind) expr value)

end Driver
