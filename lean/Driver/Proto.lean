import XmlRsModel.Basic
/-! Line protocol helpers of the model driver (glue, not part of the model). -/
namespace Driver
open XmlRs

def hexVal (c : Char) : Nat :=
  if '0' ≤ c && c ≤ '9' then c.toNat - 48
  else if 'A' ≤ c && c ≤ 'F' then c.toNat - 55
  else if 'a' ≤ c && c ≤ 'f' then c.toNat - 87
  else 0

partial def decodeBytes : List Char → ByteArray → ByteArray
  | '%' :: a :: b :: rest, acc => decodeBytes rest (acc.push (UInt8.ofNat (hexVal a * 16 + hexVal b)))
  | c :: rest, acc => decodeBytes rest (acc.push (UInt8.ofNat c.toNat))
  | [], acc => acc

def decode (s : String) : Str :=
  let bytes := decodeBytes s.toList ByteArray.empty
  match String.fromUTF8? bytes with
  | some t => t.toList
  | none => []

def hexDigit (n : Nat) : Char := if n < 10 then Char.ofNat (48 + n) else Char.ofNat (55 + n)

def isSafe (b : UInt8) : Bool :=
  let n := b.toNat
  (48 ≤ n && n ≤ 57) || (65 ≤ n && n ≤ 90) || (97 ≤ n && n ≤ 122) || n == 46 || n == 95 || n == 45

def encode (s : Str) : String :=
  let bytes := (String.ofList s).toUTF8
  String.ofList (bytes.toList.flatMap fun b =>
    if isSafe b then [Char.ofNat b.toNat] else ['%', hexDigit (b.toNat / 16), hexDigit (b.toNat % 16)])

end Driver
