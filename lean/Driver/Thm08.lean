import Driver.Proto
import XmlRsModel.XPath.Concrete
/-! `thm08`: does the completeness theorem of C08 (`Thm/C08.lean: spelling_parses`) speak about this expression text?
    The parse tree of the model is read back into a concrete expression `e` (an unverified reader: its answer is
    CHECKED, `e.str = text`), then every hypothesis of the theorem is evaluated on `e`, and its conclusion is compared
    with what the model's parser answers. -/
namespace Driver
open XmlRs XmlRs.XPath Gen.XPath

def levelOf (n : Nat) : Option Nat :=
  if n == N.or_expr then some 0 else if n == N.and_expr then some 1 else if n == N.equality_expr then some 2
  else if n == N.relation_expr then some 3 else if n == N.additive_expr then some 4 else if n == N.multiplicative_expr then some 5 else none

def opOfText (s : Str) : Option BinOp :=
  [BinOp.or, .and, .eq, .ne, .lt, .le, .gt, .ge, .add, .sub, .mul, .div, .mod, .union].find? (fun o => opText o == s)

def typeOfText (s : Str) : Option NodeType := [NodeType.comment, .text, .pi, .node].find? (fun t => typeText t == s)

def readQN : CST → Option QN
  | .node _ b => some (absQ b)
  | _ => none

def readAxis : CST → Option CAxis
  | .node _ (.seq [.node _ (.leaf t), .seq [.leaf w, .leaf _]]) => some (.named (axisOfStr t) w)
  | .node _ (.leaf _) => some .attr
  | .node _ (.seq []) => some .omitted
  | _ => none

def readTest : CST → Option CTest
  | .node _ (.node _ (.leaf _)) => some .star
  | .node _ (.node _ (.seq [nc, .leaf [':', '*']])) => some (.nsStar nc.flatten)
  | .node _ (.seq [.node _ (.leaf t), .seq [.leaf w1, .leaf _, .leaf w2, .leaf _]]) => (typeOfText t).map fun ty => .typeTest ty w1 w2
  | .node _ (.seq [.seq [.leaf _, .leaf w1, .leaf _, .leaf w2], .node _ (.seq [.leaf [q], .leaf s, .leaf _]), .seq [.leaf w3, .leaf _]]) => some (.piLit w1 w2 q s w3)
  | .node _ (.node _ qn) => (readQN qn).map .name
  | _ => none

mutual
partial def readX : CST → Option CX
  | .node n body =>
    if n == N.unary_expr then
      match body with
      | .seq [.many ms, x] => do
        let ws ← ms.mapM fun | .seq [.leaf _, .leaf w] => some w | _ => none
        some (.unary ws (← readX x))
      | _ => none
    else if n == N.union_expr then
      match body with
      | .seq [a, .many t] => do some (.union (← readX a) (← readTail t))
      | _ => none
    else if n == N.path_expr then
      match body with
      | .leaf _ => some .pathRoot
      | .node _ _ => do some (.pathRel (← readRel body))
      | .seq [.seq [.leaf sl, .leaf w], rel] => do some (.pathAbs (sl == ['/', '/']) w (← readRel rel))
      | .seq [f, .seq []] => do some (.pathF (← readX f))
      | .seq [f, .seq [.seq [.leaf w1, .leaf sl, .leaf w2], rel]] => do some (.pathFR (← readX f) w1 (sl == ['/', '/']) w2 (← readRel rel))
      | _ => none
    else if n == N.filter_expr then
      match body with
      | .seq [p, .many ps] => do some (.filter (← readX p) (← readPreds ps))
      | _ => none
    else if n == N.primary_expr then
      match body with
      | .seq [.seq [.leaf _, .leaf w1], .node _ x, .seq [.leaf w2, .leaf _]] => do some (.paren w1 (← readX x) w2)
      | .node m b =>
        if m == N.variable_reference then
          match b with
          | .seq [.leaf _, qn] => (readQN qn).map .var
          | _ => none
        else if m == N.literal then
          match b with
          | .seq [.leaf [q], .leaf s, .leaf _] => some (.lit q s)
          | _ => none
        else if m == N.number then some (.num b.flatten)
        else if m == N.function_call then
          match b with
          | .seq [.node _ qn, .seq [.seq [.leaf w1, .leaf _, .leaf w2], args, .seq [.leaf w3, .leaf _]]] => do
            some (.call (← readQN qn) w1 w2 (← readArgs args) w3)
          | _ => none
        else none
      | _ => none
    else
      match levelOf n, body with
      | some l, .seq [a, .many t] => do some (.chain l (← readX a) (← readTail t))
      | _, _ => none
  | _ => none
partial def readTail : List CST → Option CXTail
  | [] => some .nil
  | .seq [.seq [.leaf w1, .leaf o, .leaf w2], x] :: t => do some (.cons w1 (← opOfText o) w2 (← readX x) (← readTail t))
  | _ => none
partial def readArgs : CST → Option CArgs
  | .seq [] => some .none
  | .seq [.node _ (.node _ x), .many t] => do some (.some (← readX x) (← readArgTail t))
  | _ => none
partial def readArgTail : List CST → Option CArgTail
  | [] => some .nil
  | .seq [.seq [.leaf w1, .leaf _, .leaf w2], .node _ (.node _ x)] :: t => do some (.cons w1 w2 (← readX x) (← readArgTail t))
  | _ => none
partial def readRel : CST → Option CRel
  | .node _ (.seq [s, .many t]) => do some (.mk (← readStep s) (← readRelTail t))
  | _ => none
partial def readRelTail : List CST → Option CRelTail
  | [] => some .nil
  | .seq [.seq [.leaf w1, .leaf sl, .leaf w2], s] :: t => do some (.cons w1 (sl == ['/', '/']) w2 (← readStep s) (← readRelTail t))
  | _ => none
partial def readStep : CST → Option CStep
  | .node _ (.leaf s) => some (if s == ['.', '.'] then .dotdot else .dot)
  | .node _ (.seq [ax, .seq [.leaf w, test], .many ps]) => do some (.full (← readAxis ax) w (← readTest test) (← readPreds ps))
  | _ => none
partial def readPreds : List CST → Option CPreds
  | [] => some .nil
  | .seq [.leaf w, .node _ (.seq [.seq [.leaf _, .leaf w1], .node _ (.node _ x), .seq [.leaf w2, .leaf _]])] :: t => do
    some (.cons w w1 (← readX x) w2 (← readPreds t))
  | _ => none
end

mutual
partial def showExpr : Expr → String
  | .bin op a b => s!"b({encode (opText op)},{showExpr a},{showExpr b})"
  | .neg x => s!"n({showExpr x})"
  | .lit s => s!"l({encode s})"
  | .num s => s!"d({encode s})"
  | .var q => s!"v({encode q.text})"
  | .call f args => s!"c({encode f.text},{",".intercalate (args.map showExpr)})"
  | .filter x ps => s!"f({showExpr x},{",".intercalate (ps.map showExpr)})"
  | .path st ab steps => s!"p({match st with | some x => showExpr x | none => "~"},{if ab then 1 else 0},{",".intercalate (steps.map showStep)})"
partial def showStep : Step → String
  | .mk ax t ps =>
    let ts := match t with
      | .any => "*" | .nsAny p => s!"{encode p}:*" | .name q => s!"q{encode q.text}" | .comment => "comment" | .text => "text" | .node => "node"
      | .pi none => "pi" | .pi (some s) => s!"pi{encode s}"
    s!"s({encode (axisText ax)},{ts},{",".intercalate (ps.map showExpr)})"
end

def opThm08 (s : Str) : String :=
  match run Gen.XPath.env (xpathFuel s) (.nt N.parse) s with
  | .fuel => "err:fuel"
  | .fail => "err:syntax"
  | .ok c rest =>
    if !rest.isEmpty then "err:remain" else
    let b (x : Bool) : Nat := if x then 1 else 0
    match c with
    | .node _ (.node _ x) =>
      match readX x with
      | none => "profile=0"
      | some ce =>
        if ce.str != s then "profile=0 str=0" else
        let depthOk := maxDepth_expr == 0 || ce.nest + 1 ≤ maxDepth_expr
        let concl := match parseExpr s with
          | .ok ex => showExpr ex == showExpr ce.erase
          | .error _ => false
        let accepted := match parseExpr s with | .ok _ => true | .error _ => false
        s!"profile=1 ok={b ce.ok} depth={b depthOk} accepted={b accepted} concl={b concl}"
    | _ => "profile=0"

end Driver
