import Driver.Proto
import Driver.Dump
import XmlRsModel.XPath.Eval
import XmlRsModel.XPath.Safe
/-! XPath operations of the model driver. -/
namespace Driver
open XmlRs XmlRs.XPath

def hex16 (n : Nat) : String :=
  let ds := (Nat.toDigits 16 n).map fun c => if 'a' ≤ c && c ≤ 'f' then Char.ofNat (c.toNat - 32) else c
  String.ofList (List.replicate (16 - ds.length) '0' ++ ds)

/-- the canonical name of a node: the path of child indices; attributes by local name; namespace
    nodes by prefix and URI (the library's namespace nodes carry no owner) -/
def keyPath (d : XDoc) (k : Key) : String :=
  match lookup d k with
  | some (.ns _ p u) => s!"ns:{encode (if p.isEmpty then "xmlns".toList else p)}={encode u}"
  | some (.attr _ q _) =>
      let owner := (parentKey k).getD []
      -- two attributes of one element may share their local part (p:n and n): the path names the prefix too
      let shown := match q.pre with | some pf => pf ++ [':'] ++ q.loc | none => q.loc
      String.join (owner.map fun i => s!"/{i - 2}") ++ s!"/@{encode shown}"
  | _ => if k.isEmpty then "/" else String.join (k.map fun i => s!"/{i - 2}")

def showValue (d : XDoc) : Value → String
  | .bool b => s!"b:{if b then 1 else 0}"
  | .num x => s!"n:{hex16 (canonBits x)}"
  | .str s => s!"s:{encode s}"
  | .nodes ks => "N:[" ++ ";".intercalate (ks.map (keyPath d)) ++ "]"

def xpErrClass : XPErr → String
  | .type => "type" | .arity => "arity" | .nofunc => "nofunc" | .nons => "nons" | .unsupported => "unsupported"

def parseBindings (s : Str) : List (Option Str × Str) :=
  let parts := (String.ofList s).splitOn ";"
  -- later bindings of the same prefix replace earlier ones (`Context::add_ns`)
  -- `!p` / `!` takes the binding of prefix p / the default binding out again (`Context::remove_ns`): `none` as URI below
  let bs : List (Option Str × Option Str) := parts.filterMap fun b =>
    if b.startsWith "!" then
      let p := (b.drop 1).toString
      some ((if p.isEmpty then none else some p.toList), none)
    else
    match b.splitOn "=" with
    | p :: u :: rest => some ((if p.isEmpty then none else some p.toList), some ("=".intercalate (u :: rest)).toList)
    | _ => none
  bs.foldl (fun acc (p, u) => match u with
    | some u => (acc.filter (·.1 != p)) ++ [(p, u)]
    | none => acc.filter (·.1 != p)) []

/-- quirk switches of the `query` op: w = entity references in content are white-space normalised,
    r = #REQUIRED attributes are materialised, z = string() of negative zero is "-0" -/
def opQuery (quirks : String) (text bind : Str) (exprs : List Str) : String :=
  match parseDoc text with
  | .ok (idoc, []) =>
    (match buildDoc (quirks.contains 'w') (quirks.contains 'r') idoc with
     | .error _ => "err:doc"
     | .ok d =>
       let d := { d with negZeroQuirk := quirks.contains 'z' }
       let env : XPath.Env := ⟨d, parseBindings bind⟩
       let outs := exprs.map fun ex =>
         -- quirk switch g: parse with the REVIEWED grammar instead of the one translated from the current source
         match (if quirks.contains 'g' then XPath.queryRef env ex else XPath.query env ex) with
         | .ok v => showValue d v
         | .error .syntax => "err:syntax"
         | .error .remain => "err:remain"
         | .error .fuel => "err:fuel"
         | .error (.eval x) => s!"err:{xpErrClass x}"
       " | ".intercalate outs ++ " || doc=same")
  | _ => "err:doc"


/-- `nsinfo`: the namespace view of the document (model: the in-scope computation of `buildDoc`) - for every element in
    document order its name and namespace name, its attributes with theirs, its in-scope namespaces -/
def sortStrings (xs : List String) : List String := (xs.toArray.qsort (· < ·)).toList

def dedupAdj : List String → List String
  | a :: b :: r => if a == b then dedupAdj (b :: r) else a :: dedupAdj (b :: r)
  | l => l

def uriShow (u : Str) : String := if u.isEmpty then "~" else encode u

partial def nsInfoNode : XNode → String
  | .elem q ns as ks =>
      let own := match q.pre with
        | some p => ((ns.find? (·.1 == p)).map (·.2)).getD []
        | none => ((ns.find? (·.1.isEmpty)).map (·.2)).getD []
      let attrs := sortStrings (as.map fun (aq, _) =>
        let u := match aq.pre with | some p => ((ns.find? (·.1 == p)).map (·.2)).getD [] | none => []
        s!"A({encode aq.text}={uriShow u})")
      let nss := dedupAdj (sortStrings (ns.map fun (p, u) => s!"N({if p.isEmpty then "~" else encode p}={encode u})"))
      s!"E({encode q.text}={uriShow own})[{String.join attrs}][{String.join nss}]" ++ String.join (ks.map nsInfoNode)
  | _ => ""

def opNsInfo (quirks : String) (text : Str) : String :=
  match parseDoc text with
  | .ok (idoc, []) =>
    (match buildDoc (quirks.contains 'w') (quirks.contains 'r') idoc with
     | .error _ => "err:doc"
     | .ok d => match d.kids.find? (fun | .elem .. => true | _ => false) with
       | some root => "ok " ++ nsInfoNode root
       | none => "err:noroot")
  | .ok (_, _) => "err:rest"
  | .error x => s!"err:{errClass x}"

/-- `thm10`: is the expression one that Thm/C10 `eval_ren` speaks about (`safeE`: no `name()` / `local-name()`, no name test on
    the namespace axis)?  `err` = not an expression -/
def opThm10 (expr : Str) : String :=
  match parseExpr expr with
  | .ok e => if safeE e then "safe=1" else "safe=0"
  | .error _ => "err"

end Driver
