import Driver.Proto
import XmlRsModel.Chars
import XmlRsModel.Names
/-! Operations of the model driver. -/
namespace Driver
open XmlRs

def bigFuel (s : Str) : Nat := 100000 + 64 * s.length

/-- run production `n` of the XML grammar on the whole text -/
def runXml (n : Nat) (s : Str) : Res CST := run Gen.Xml.env (bigFuel s) (.nt n) s

def b2s (b : Bool) : String := if b then "1" else "0"

/-- all trees produced by nonterminal `n`, outermost first, left to right -/
partial def findAll (n : Nat) : CST → List CST
  | .leaf _ => []
  | .node m c => if m == n then [c] else findAll n c
  | .seq ks => ks.flatMap (findAll n)
  | .many ks => ks.flatMap (findAll n)

open Gen.Xml in
def nameok (kind : String) (s : Str) : String :=
  match kind with
  | "ncname" => b2s (match runXml N.ncname s with | .ok _ [] => true | _ => false)
  | "qname" => b2s (match runXml N.qname s with | .ok _ [] => true | _ => false)
  | "element" =>
      b2s (match runXml N.element ("<".toList ++ s ++ "/>".toList) with
        | .ok c [] => (match findAll N.empty_entity_tag c with
            | [t] => (match findAll N.qname t with
                | q :: _ => q.flatten == s && (findAll N.attribute_ t).isEmpty
                | [] => false)
            | _ => false)
        | _ => false)
  | "attr" =>
      b2s (match runXml N.attribute_ (s ++ "='v'".toList) with
        | .ok c [] => (match findAll N.ns_att_name c, findAll N.qname c with
            | n :: _, _ => n.flatten == s
            | [], q :: _ => q.flatten == s
            | _, _ => false)
        | _ => false)
  | "pi" =>
      b2s (match runXml N.pi ("<?".toList ++ s ++ "?>".toList) with
        | .ok c [] => (match findAll N.pi_target c with
            | t :: _ => t.flatten == s && c.flatten.length == s.length + 4
            | [] => false)
        | _ => false)
  | "entity" =>
      b2s (match runXml N.reference ("&".toList ++ s ++ ";".toList) with
        | .ok c [] => (match findAll N.entity_ref c with
            | [t] => (match findAll N.name t with | n :: _ => n.flatten == s | [] => false)
            | _ => false)
        | _ => false)
  -- the Recommendation's answer (specification side, used by the monitor)
  | "spec-name" => b2s (Spec.isName s)
  | "spec-ncname" => b2s (Spec.isNCName s)
  | "spec-qname" => b2s (Spec.isQName s)
  | "spec-pitarget" => b2s (Spec.isPITarget s)
  | "spec-attr" => b2s (Spec.isQName s)
  -- classifier of the known finding `name-lax` (Thm/C18 `name_current_behaviour`)
  | "lax-pi" => b2s (s.all P.isNameChar && !Spec.isXmlReserved s)
  | "lax-entity" => b2s (s.all P.isNameChar)
  | "lax-ncname" | "lax-qname" | "lax-element" | "lax-attr" => "0"
  | _ => "bad-op"

def dispatch (op : String) (args : List Str) : String :=
  match op, args with
  | "nameok", [k, s] => nameok (String.ofList k) s
  | _, _ => "bad-op"

end Driver
