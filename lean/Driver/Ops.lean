import Driver.Thm08
import Driver.Proto
import XmlRsModel.Chars
import XmlRsModel.Names
import XmlRsModel.CharData
import Driver.Dump
import Driver.XPathOps
import Driver.DomOps
import Driver.CliOps
/-! Operations of the model driver. -/
namespace Driver
open XmlRs

def bigFuel (s : Str) : Nat := 100000 + 64 * s.length

/-- run production `n` of the XML grammar on the whole text -/
def runXml (n : Nat) (s : Str) : Res CST := run Gen.Xml.env (bigFuel s) (.nt n) s

def b2s (b : Bool) : String := if b then "1" else "0"

/-- all trees produced by nonterminal `n`, outermost first, left to right -/
partial def findAll (n : Nat) : CST → List CST
  | .leaf _ => []
  | .node m c => if m == n then [c] else findAll n c
  | .seq ks => ks.flatMap (findAll n)
  | .many ks => ks.flatMap (findAll n)

open Gen.Xml in
def nameok (kind : String) (s : Str) : String :=
  match kind with
  | "ncname" => b2s (match runXml N.ncname s with | .ok _ [] => true | _ => false)
  | "qname" => b2s (match runXml N.qname s with | .ok _ [] => true | _ => false)
  | "element" =>
      b2s (match runXml N.element ("<".toList ++ s ++ "/>".toList) with
        | .ok c [] => (match findAll N.empty_entity_tag c with
            | [t] => (match findAll N.qname t with
                | q :: _ => q.flatten == s && (findAll N.attribute_ t).isEmpty
                | [] => false)
            | _ => false)
        | _ => false)
  | "attr" =>
      b2s (match runXml N.attribute_ (s ++ "='v'".toList) with
        | .ok c [] => (match findAll N.ns_att_name c, findAll N.qname c with
            | n :: _, _ => n.flatten == s
            | [], q :: _ => q.flatten == s
            | _, _ => false)
        | _ => false)
  | "pi" =>
      b2s (match runXml N.pi ("<?".toList ++ s ++ "?>".toList) with
        | .ok c [] => (match findAll N.pi_target c with
            | t :: _ => t.flatten == s && c.flatten.length == s.length + 4
            | [] => false)
        | _ => false)
  | "entity" =>
      b2s (match runXml N.reference ("&".toList ++ s ++ ";".toList) with
        | .ok c [] => (match findAll N.entity_ref c with
            | [t] => (match findAll N.name t with | n :: _ => n.flatten == s | [] => false)
            | _ => false)
        | _ => false)
  -- names in declarations: the one attribute an attribute-list declaration defines, the name of the document type
  | "decl-attr" =>
      b2s (match parseDoc ("<!DOCTYPE r [<!ATTLIST r ".toList ++ s ++ " CDATA 'v'>]><r/>".toList) with
        | .ok (d, []) => (match docDoctype d with
            | some dt => dt.kids.any (fun | .attlist _ [a] => a.name.text == s | _ => false)
            | none => false)
        | _ => false)
  | "doctype-name" =>
      b2s (match parseDoc ("<!DOCTYPE ".toList ++ s ++ "><r/>".toList) with
        | .ok (d, []) => (match docDoctype d with | some dt => dt.name.text == s | none => false)
        | _ => false)
  -- the DOM factories (what the model's `step` accepts as a name)
  | "dom-pi" => b2s (Dom.validPITarget s && Dom.validPI s ['d'])
  | "dom-elem" | "dom-attr" => b2s (Dom.validQName s)
  | "dom-entref" => b2s (Dom.validName s && (predefined.find? (·.1 == s)).isSome)
  | "spec-dom-entref" => b2s ((predefined.find? (·.1 == s)).isSome)
  | "lax-dom-pi" | "lax-dom-elem" | "lax-dom-attr" | "lax-dom-entref" | "lax-decl-attr" | "lax-doctype-name" => "0"
  -- the Recommendation's answer (specification side, used by the monitor)
  | "spec-name" => b2s (Spec.isName s)
  | "spec-ncname" => b2s (Spec.isNCName s)
  | "spec-qname" => b2s (Spec.isQName s)
  | "spec-pitarget" => b2s (Spec.isPITarget s)
  | "spec-attr" => b2s (Spec.isQName s)
  -- classifier of the known finding `name-lax` (Thm/C18 `name_current_behaviour`)
  | "lax-pi" => b2s (s.all P.isNameChar && !Spec.isXmlReserved s)
  | "lax-entity" => b2s (s.all P.isNameChar)
  | "lax-ncname" | "lax-qname" | "lax-element" | "lax-attr" => "0"
  | _ => "bad-op"

def parseNum (s : String) : Nat := if s == "M" then 18446744073709551615 else s.toNat!

/-- `name:a:b:rest` split at most `n` times (the last field may contain ':') -/
def splitN (s : Str) (n : Nat) : List Str :=
  match n with
  | 0 => [s]
  | n+1 => match spanP (· != ':') s with
      | (a, _ :: r) => a :: splitN r n
      | (a, []) => [a]

def parseCdOp (s : Str) : Option CharData.Op :=
  let str := String.ofList
  match splitN s 3 with
  | [n] => if str n == "len" then some .len else if str n == "app" then some (.app []) else
           if str n == "set" then some (.set []) else none
  | [n, a] => match str n with
      | "app" => some (.app a) | "set" => some (.set a) | "split" => some (.split (parseNum (str a)))
      | "ins" => some (.ins (parseNum (str a)) [])
      | _ => none
  | [n, a, b] => match str n with
      | "sub" => some (.sub (parseNum (str a)) (parseNum (str b)))
      | "del" => some (.del (parseNum (str a)) (parseNum (str b)))
      | "ins" => some (.ins (parseNum (str a)) b)
      | "app" => some (.app (a ++ ':' :: b)) | "set" => some (.set (a ++ ':' :: b))
      | "rep" => some (.rep (parseNum (str a)) (parseNum (str b)) [])
      | _ => none
  | [n, a, b, c] => match str n with
      | "rep" => some (.rep (parseNum (str a)) (parseNum (str b)) c)
      | "ins" => some (.ins (parseNum (str a)) (b ++ ':' :: c))
      | "app" => some (.app (a ++ ':' :: b ++ ':' :: c)) | "set" => some (.set (a ++ ':' :: b ++ ':' :: c))
      | _ => none
  | _ => none

def cdSupported (kind : String) : CharData.Op → Bool
  | .len => true
  | .sub _ _ => true
  | .split _ => kind == "text" || kind == "cdata"
  | _ => kind != "merged"

def chardata (kind : String) (content : Str) (ops : List Str) : String :=
  let rec go (s : Str) : List Str → List String
    | [] => []
    | o :: os =>
      match parseCdOp o with
      | none => ["bad-op"]
      | some op =>
        if !cdSupported kind op then
          s!"unsupported data={encode s},len={s.length}" :: go s os
        else
          let (s', out) := CharData.step s op
          -- an edit is refused when its OUTCOME is not data the node can hold (`Dom.validData`, the productions the library
          -- validates with; INDEX_SIZE_ERR from the offset comes first): the node then holds what it held
          let mutating := match op with | .app _ | .set _ | .ins _ _ | .del _ _ | .rep _ _ _ => true | _ => false
          let holds : Bool := if kind == "text" then Dom.validData .text s' else if kind == "comment" then Dom.validData .comment s'
            else if kind == "cdata" then Dom.validData .cdata s' else true
          let refused := mutating && !holds && (match out with | .indexSize => false | _ => true)
          if refused then s!"err:invalid data={encode s},len={s.length}" :: go s os else
          let r := match out with
            | .okNat n => s!"ok={n}"
            | .okStr t => s!"ok={encode t}"
            | .okUnit => "ok"
            | .okSplit l r => s!"ok={encode l},{encode r},adj=1"
            | .indexSize => "err:index"
          s!"{r} data={encode s'},len={s'.length}" :: go s' os
  " | ".intercalate (go content ops)

def dispatch (op : String) (args : List Str) : String :=
  match op, args with
  | "nameok", [k, s] => nameok (String.ofList k) s
  | "parse", [s] => opParse s
  | "accept", [s] => opAccept "cur" s
  | "accept", [w, s] => opAccept (String.ofList w) s
  | "print", [s] => opPrint s
  | "nsinfo", [s] => opNsInfo "" s
  | "nsinfo", [q, s] => opNsInfo (String.ofList q) s
  | "attrs", [s] => opAttrs false s
  | "attrs", [w, s] => opAttrs (String.ofList w == "cur") s
  | "pipeline", [s] => opAccept "cur" s
  | "roundtrip", [s] => opRoundtrip s
  | "thm04", [s] => opThm04 s
  | "thm08", [s] => opThm08 s
  | "thm10", [s] => opThm10 s
  | "thm15", [s] => opThm15 s
  -- `deeptext` / `deepcdata`: the same node kinds at the deepest place the parser allows (the model of the data does not care)
  | "chardata", ('d' :: 'e' :: 'e' :: 'p' :: k) :: c :: ops => chardata (String.ofList k) c ops
  | "chardata", k :: c :: ops => chardata (String.ofList k) c ops
  | "dom", t :: _ :: ops => opDom t ops
  | "query", t :: b :: es => opQuery "rz" t b es
  | "qfresh", t :: b :: es => opQuery "rz" t b es
  | "queryq", q :: t :: b :: es => opQuery (String.ofList q) t b es
  | "xq", [q, t, b, e] => opXq (String.ofList q) t b e
  | "xe", [q, t, b, e, v] => opXe (String.ofList q) t b e v
  | _, _ => "bad-op"

end Driver
