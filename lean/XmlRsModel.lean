-- root of the `XmlRsModel` library
import XmlRsModel.Basic
import XmlRsModel.Chars
