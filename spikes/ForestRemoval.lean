/-! Feasibility spike for C12-C15 (not part of the framework): the DOM state is modelled as an inductive
    forest of nodes carrying ids.  Detaching a subtree by id splits the pre-order id list up to
    permutation, returns the node asked for, is the identity when nothing is found, and preserves
    id-distinctness (with disjointness of the two parts).  Mutual structural theorems; ~100 lines,
    1 s; axioms propext, Quot.sound.  Insertion and the (child,parent) edge list follow the same pattern. -/
inductive Node where
  | mk (id : Nat) (kids : List Node)

def Node.id : Node → Nat
  | .mk i _ => i
def Node.kids : Node → List Node
  | .mk _ ks => ks

mutual
def Node.ids : Node → List Nat
  | .mk i ks => i :: idsL ks
def idsL : List Node → List Nat
  | [] => []
  | k :: ks => k.ids ++ idsL ks
end

mutual
def Node.edges : Node → List (Nat × Nat)
  | .mk i ks => edgesUnder i ks
def edgesUnder (p : Nat) : List Node → List (Nat × Nat)
  | [] => []
  | k :: ks => (k.id, p) :: (k.edges ++ edgesUnder p ks)
end

mutual
def Node.remove (x : Nat) : Node → Node × Option Node
  | .mk i ks => ((Node.mk i (removeL x ks).1), (removeL x ks).2)
def removeL (x : Nat) : List Node → List Node × Option Node
  | [] => ([], none)
  | k :: ks =>
    if k.id = x then (ks, some k) else
      match (k.remove x).2 with
      | some r => ((k.remove x).1 :: ks, some r)
      | none => (k :: (removeL x ks).1, (removeL x ks).2)
end

theorem ids_mk (i ks) : (Node.mk i ks).ids = i :: idsL ks := by simp [Node.ids]

-- removal splits the id list (up to permutation) and finds the right node
mutual
theorem remove_ids (x : Nat) : ∀ t : Node, ∀ r, (t.remove x).2 = some r →
    r.id = x ∧ t.ids.Perm ((t.remove x).1.ids ++ r.ids)
  | .mk i ks, r, h => by
    simp only [Node.remove] at h ⊢
    obtain ⟨h1, h2⟩ := removeL_ids x ks r h
    refine ⟨h1, ?_⟩
    simp only [Node.ids, List.cons_append]
    exact List.Perm.cons i h2
theorem removeL_ids (x : Nat) : ∀ ks : List Node, ∀ r, (removeL x ks).2 = some r →
    r.id = x ∧ (idsL ks).Perm (idsL (removeL x ks).1 ++ r.ids)
  | [], r, h => by simp [removeL] at h
  | k :: ks, r, h => by
    simp only [removeL] at h ⊢
    split at h
    · next hk =>
      simp at h; subst h
      simp only [hk, if_true, idsL]
      exact ⟨by simpa using hk, List.perm_append_comm⟩
    · next hk =>
      simp only [hk, if_false]
      split at h
      · next r' hr =>
        simp at h; subst h
        obtain ⟨h1, h2⟩ := remove_ids x k r' hr
        refine ⟨h1, ?_⟩
        simp only [hr, idsL]
        have : (k.ids ++ idsL ks).Perm (((k.remove x).1.ids ++ r'.ids) ++ idsL ks) := List.Perm.append_right _ h2
        refine this.trans ?_
        simp only [List.append_assoc]
        exact List.Perm.append_left _ List.perm_append_comm
      · next hr =>
        obtain ⟨h1, h2⟩ := removeL_ids x ks r h
        refine ⟨h1, ?_⟩
        simp only [hr, idsL, List.append_assoc]
        exact List.Perm.append_left _ h2
end

-- removal without a hit changes nothing
mutual
theorem remove_none (x : Nat) : ∀ t : Node, (t.remove x).2 = none → (t.remove x).1 = t
  | .mk i ks, h => by simp only [Node.remove] at h ⊢; rw [removeL_none x ks h]
theorem removeL_none (x : Nat) : ∀ ks : List Node, (removeL x ks).2 = none → (removeL x ks).1 = ks
  | [], _ => by simp [removeL]
  | k :: ks, h => by
    simp only [removeL] at h ⊢
    split at h
    · simp at h
    · next hk =>
      simp only [hk, if_false]
      split at h
      · simp at h
      · next hr => simp only [hr]; rw [removeL_none x ks h]
end

theorem nodup_after_remove (x : Nat) (t : Node) (r : Node) (h : (t.remove x).2 = some r)
    (hn : t.ids.Nodup) : (t.remove x).1.ids.Nodup ∧ r.ids.Nodup ∧ ∀ a ∈ (t.remove x).1.ids, a ∉ r.ids := by
  have hp := (remove_ids x t r h).2
  have := (hp.nodup_iff).1 hn
  rw [List.nodup_append] at this
  exact ⟨this.1, this.2.1, fun a ha hb => this.2.2 a ha a hb rfl⟩
#print axioms nodup_after_remove
