/-! Feasibility spike for C18 (not part of the framework): a range table as extracted from the code
    (maximal runs) is proved equal, for every natural number, to the Recommendation's production
    written in the Recommendation's order.  `lean RangesOmega.lean` : ~3.6 s, axioms propext,
    Classical.choice, Quot.sound. -/
def inRanges : List (Nat × Nat) → Nat → Bool
  | [], _ => false
  | (lo, hi) :: rs, c => (lo ≤ c && c ≤ hi) || inRanges rs c

-- [4] NameStartChar, order of the Recommendation
def specNSC : List (Nat × Nat) := [(0x3A,0x3A),(0x41,0x5A),(0x5F,0x5F),(0x61,0x7A),(0xC0,0xD6),(0xD8,0xF6),(0xF8,0x2FF),(0x370,0x37D),(0x37F,0x1FFF),(0x200C,0x200D),(0x2070,0x218F),(0x2C00,0x2FEF),(0x3001,0xD7FF),(0xF900,0xFDCF),(0xFDF0,0xFFFD),(0x10000,0xEFFFF)]
-- [4a] NameChar = NameStartChar | "-" | "." | [0-9] | #xB7 | [#x0300-#x036F] | [#x203F-#x2040]
def specNC : List (Nat × Nat) := specNSC ++ [(0x2D,0x2D),(0x2E,0x2E),(0x30,0x39),(0xB7,0xB7),(0x300,0x36F),(0x203F,0x2040)]
-- what exhaustive evaluation of a correct is_name_char yields (sorted maximal runs)
def implNC : List (Nat × Nat) := [(0x2D,0x2E),(0x30,0x3A),(0x41,0x5A),(0x5F,0x5F),(0x61,0x7A),(0xB7,0xB7),(0xC0,0xD6),(0xD8,0xF6),(0xF8,0x37D),(0x37F,0x1FFF),(0x200C,0x200D),(0x203F,0x2040),(0x2070,0x218F),(0x2C00,0x2FEF),(0x3001,0xD7FF),(0xF900,0xFDCF),(0xFDF0,0xFFFD),(0x10000,0xEFFFF)]

set_option maxRecDepth 4000 in
theorem nameChar_spec : ∀ c, inRanges implNC c = inRanges specNC c := by
  intro c
  simp only [implNC, specNC, specNSC, inRanges, List.cons_append, List.nil_append, Bool.or_false]
  rw [Bool.eq_iff_iff]
  simp only [Bool.or_eq_true, Bool.and_eq_true, decide_eq_true_eq]
  omega
#print axioms nameChar_spec
