/-! Feasibility spike for C01/C04/C08 (not part of the framework): three-valued fuel interpreter with nom's
    many0 rule, Ford-style big-step PEG semantics with explicit failure (Big/BigSeq/BigAlt/BigMany),
    adequacy big_run : a derivation yields a fuel bound from which on the interpreter returns exactly
    that answer, and a completeness-style use (every nesting depth of S := '(' S ')' | 'x' is accepted)
    proved in the relational semantics and transported to the interpreter.  ~190 lines, 2.5 s;
    axioms propext, Quot.sound. -/
abbrev Str := List Char
inductive CST where
  | leaf (s : Str)
  | node (label : Nat) (kids : List CST)
inductive G where
  | tag (s : Str)
  | cls0 (p : Char → Bool)
  | seq (gs : List G)
  | alt (gs : List G)
  | many0 (g : G)
  | nt (n : Nat)
inductive Res (α : Type) where
  | ok (c : α) (rest : Str)
  | fail
  | fuel
def stripPrefix : Str → Str → Option Str
  | [], s => some s
  | _ :: _, [] => none
  | a :: as, b :: bs => if a = b then stripPrefix as bs else none
def spanP (p : Char → Bool) : Str → Str × Str
  | [] => ([], [])
  | c :: cs => if p c then ((c :: (spanP p cs).1), (spanP p cs).2) else ([], c :: cs)
abbrev Env := Nat → G

mutual
def run (env : Env) : Nat → G → Str → Res CST
  | 0, _, _ => .fuel
  | _+1, .tag t, s => match stripPrefix t s with
      | some r => .ok (.leaf t) r
      | none => .fail
  | _+1, .cls0 p, s => .ok (.leaf (spanP p s).1) (spanP p s).2
  | f+1, .seq gs, s => match runSeq env f gs s with
      | .ok ks r => .ok (.node 0 ks) r
      | .fail => .fail
      | .fuel => .fuel
  | f+1, .alt gs, s => runAlt env f gs s
  | f+1, .many0 g, s => match runMany env f g s with
      | .ok ks r => .ok (.node 2 ks) r
      | .fail => .fail
      | .fuel => .fuel
  | f+1, .nt n, s => run env f (env n) s
def runSeq (env : Env) : Nat → List G → Str → Res (List CST)
  | _, [], s => .ok [] s
  | f, g :: gs, s => match run env f g s with
      | .ok c r => match runSeq env f gs r with
          | .ok ks r' => .ok (c :: ks) r'
          | .fail => .fail
          | .fuel => .fuel
      | .fail => .fail
      | .fuel => .fuel
def runAlt (env : Env) : Nat → List G → Str → Res CST
  | _, [], _ => .fail
  | f, g :: gs, s => match run env f g s with
      | .ok c r => .ok c r
      | .fail => runAlt env f gs s
      | .fuel => .fuel
-- nom many0: stop at first error; a success that consumes nothing is an error of many0 itself
def runMany (env : Env) : Nat → G → Str → Res (List CST)
  | 0, _, _ => .fuel
  | f+1, g, s => match run env f g s with
      | .ok c r => if r.length < s.length then
                     match runMany env f g r with
                     | .ok ks r' => .ok (c :: ks) r'
                     | .fail => .fail
                     | .fuel => .fuel
                   else .fail
      | .fail => .ok [] s
      | .fuel => .fuel
end

-- Ford-style big-step semantics with explicit failure; no fuel
mutual
inductive Big (env : Env) : G → Str → Res CST → Prop where
  | tagOk (t s r) : stripPrefix t s = some r → Big env (.tag t) s (.ok (.leaf t) r)
  | tagFail (t s) : stripPrefix t s = none → Big env (.tag t) s .fail
  | cls0 (p s) : Big env (.cls0 p) s (.ok (.leaf (spanP p s).1) (spanP p s).2)
  | seqOk (gs s ks r) : BigSeq env gs s (.ok ks r) → Big env (.seq gs) s (.ok (.node 0 ks) r)
  | seqFail (gs s) : BigSeq env gs s .fail → Big env (.seq gs) s .fail
  | alt (gs s out) : BigAlt env gs s out → Big env (.alt gs) s out
  | manyOk (g s ks r) : BigMany env g s (.ok ks r) → Big env (.many0 g) s (.ok (.node 2 ks) r)
  | manyFail (g s) : BigMany env g s .fail → Big env (.many0 g) s .fail
  | nt (n s out) : Big env (env n) s out → Big env (.nt n) s out
inductive BigSeq (env : Env) : List G → Str → Res (List CST) → Prop where
  | nil (s) : BigSeq env [] s (.ok [] s)
  | consOk (g gs s c r ks r') : Big env g s (.ok c r) → BigSeq env gs r (.ok ks r') → BigSeq env (g :: gs) s (.ok (c :: ks) r')
  | consFail1 (g gs s) : Big env g s .fail → BigSeq env (g :: gs) s .fail
  | consFail2 (g gs s c r) : Big env g s (.ok c r) → BigSeq env gs r .fail → BigSeq env (g :: gs) s .fail
inductive BigAlt (env : Env) : List G → Str → Res CST → Prop where
  | nil (s) : BigAlt env [] s .fail
  | first (g gs s c r) : Big env g s (.ok c r) → BigAlt env (g :: gs) s (.ok c r)
  | skip (g gs s out) : Big env g s .fail → BigAlt env gs s out → BigAlt env (g :: gs) s out
inductive BigMany (env : Env) : G → Str → Res (List CST) → Prop where
  | stop (g s) : Big env g s .fail → BigMany env g s (.ok [] s)
  | step (g s c r ks r') : Big env g s (.ok c r) → r.length < s.length → BigMany env g r (.ok ks r') → BigMany env g s (.ok (c :: ks) r')
  | stuck (g s c r) : Big env g s (.ok c r) → ¬ r.length < s.length → BigMany env g s .fail
  | stepFail (g s c r) : Big env g s (.ok c r) → r.length < s.length → BigMany env g r .fail → BigMany env g s .fail
end

-- adequacy, the direction completeness proofs need: a derivation gives a fuel bound from which on
-- the interpreter returns exactly that answer
mutual
theorem big_run (env : Env) : ∀ {g s out}, Big env g s out → ∃ f0, ∀ f, f0 ≤ f → run env f g s = out
  | _, _, _, .tagOk t s r h => ⟨1, fun f hf => by
      obtain ⟨f', rfl⟩ : ∃ f', f = f' + 1 := ⟨f - 1, by omega⟩
      simp [run, h]⟩
  | _, _, _, .tagFail t s h => ⟨1, fun f hf => by
      obtain ⟨f', rfl⟩ : ∃ f', f = f' + 1 := ⟨f - 1, by omega⟩
      simp [run, h]⟩
  | _, _, _, .cls0 p s => ⟨1, fun f hf => by
      obtain ⟨f', rfl⟩ : ∃ f', f = f' + 1 := ⟨f - 1, by omega⟩
      simp [run]⟩
  | _, _, _, .seqOk gs s ks r h => by
      obtain ⟨f0, h0⟩ := bigSeq_run env h
      exact ⟨f0 + 1, fun f hf => by
        obtain ⟨f', rfl⟩ : ∃ f', f = f' + 1 := ⟨f - 1, by omega⟩
        simp [run, h0 f' (by omega)]⟩
  | _, _, _, .seqFail gs s h => by
      obtain ⟨f0, h0⟩ := bigSeq_run env h
      exact ⟨f0 + 1, fun f hf => by
        obtain ⟨f', rfl⟩ : ∃ f', f = f' + 1 := ⟨f - 1, by omega⟩
        simp [run, h0 f' (by omega)]⟩
  | _, _, _, .alt gs s out h => by
      obtain ⟨f0, h0⟩ := bigAlt_run env h
      exact ⟨f0 + 1, fun f hf => by
        obtain ⟨f', rfl⟩ : ∃ f', f = f' + 1 := ⟨f - 1, by omega⟩
        simp [run, h0 f' (by omega)]⟩
  | _, _, _, .manyOk g s ks r h => by
      obtain ⟨f0, h0⟩ := bigMany_run env h
      exact ⟨f0 + 1, fun f hf => by
        obtain ⟨f', rfl⟩ : ∃ f', f = f' + 1 := ⟨f - 1, by omega⟩
        simp [run, h0 f' (by omega)]⟩
  | _, _, _, .manyFail g s h => by
      obtain ⟨f0, h0⟩ := bigMany_run env h
      exact ⟨f0 + 1, fun f hf => by
        obtain ⟨f', rfl⟩ : ∃ f', f = f' + 1 := ⟨f - 1, by omega⟩
        simp [run, h0 f' (by omega)]⟩
  | _, _, _, .nt n s out h => by
      obtain ⟨f0, h0⟩ := big_run env h
      exact ⟨f0 + 1, fun f hf => by
        obtain ⟨f', rfl⟩ : ∃ f', f = f' + 1 := ⟨f - 1, by omega⟩
        simp [run, h0 f' (by omega)]⟩
theorem bigSeq_run (env : Env) : ∀ {gs s out}, BigSeq env gs s out → ∃ f0, ∀ f, f0 ≤ f → runSeq env f gs s = out
  | _, _, _, .nil s => ⟨0, fun f _ => by simp [runSeq]⟩
  | _, _, _, .consOk g gs s c r ks r' h1 h2 => by
      obtain ⟨a, ha⟩ := big_run env h1
      obtain ⟨b, hb⟩ := bigSeq_run env h2
      exact ⟨max a b, fun f hf => by simp [runSeq, ha f (by omega), hb f (by omega)]⟩
  | _, _, _, .consFail1 g gs s h1 => by
      obtain ⟨a, ha⟩ := big_run env h1
      exact ⟨a, fun f hf => by simp [runSeq, ha f hf]⟩
  | _, _, _, .consFail2 g gs s c r h1 h2 => by
      obtain ⟨a, ha⟩ := big_run env h1
      obtain ⟨b, hb⟩ := bigSeq_run env h2
      exact ⟨max a b, fun f hf => by simp [runSeq, ha f (by omega), hb f (by omega)]⟩
theorem bigAlt_run (env : Env) : ∀ {gs s out}, BigAlt env gs s out → ∃ f0, ∀ f, f0 ≤ f → runAlt env f gs s = out
  | _, _, _, .nil s => ⟨0, fun f _ => by simp [runAlt]⟩
  | _, _, _, .first g gs s c r h1 => by
      obtain ⟨a, ha⟩ := big_run env h1
      exact ⟨a, fun f hf => by simp [runAlt, ha f hf]⟩
  | _, _, _, .skip g gs s out h1 h2 => by
      obtain ⟨a, ha⟩ := big_run env h1
      obtain ⟨b, hb⟩ := bigAlt_run env h2
      exact ⟨max a b, fun f hf => by simp [runAlt, ha f (by omega), hb f (by omega)]⟩
theorem bigMany_run (env : Env) : ∀ {g s out}, BigMany env g s out → ∃ f0, ∀ f, f0 ≤ f → runMany env f g s = out
  | _, _, _, .stop g s h1 => by
      obtain ⟨a, ha⟩ := big_run env h1
      exact ⟨a + 1, fun f hf => by
        obtain ⟨f', rfl⟩ : ∃ f', f = f' + 1 := ⟨f - 1, by omega⟩
        simp [runMany, ha f' (by omega)]⟩
  | _, _, _, .step g s c r ks r' h1 hl h2 => by
      obtain ⟨a, ha⟩ := big_run env h1
      obtain ⟨b, hb⟩ := bigMany_run env h2
      exact ⟨max a b + 1, fun f hf => by
        obtain ⟨f', rfl⟩ : ∃ f', f = f' + 1 := ⟨f - 1, by omega⟩
        simp [runMany, ha f' (by omega), hb f' (by omega), hl]⟩
  | _, _, _, .stuck g s c r h1 hl => by
      obtain ⟨a, ha⟩ := big_run env h1
      exact ⟨a + 1, fun f hf => by
        obtain ⟨f', rfl⟩ : ∃ f', f = f' + 1 := ⟨f - 1, by omega⟩
        simp [runMany, ha f' (by omega), hl]⟩
  | _, _, _, .stepFail g s c r h1 hl h2 => by
      obtain ⟨a, ha⟩ := big_run env h1
      obtain ⟨b, hb⟩ := bigMany_run env h2
      exact ⟨max a b + 1, fun f hf => by
        obtain ⟨f', rfl⟩ : ∃ f', f = f' + 1 := ⟨f - 1, by omega⟩
        simp [runMany, ha f' (by omega), hb f' (by omega), hl]⟩
end
#print axioms big_run

-- a tiny completeness-style use: grammar  S := '(' S ')' | 'x'  accepts nested parentheses, by a
-- derivation in the relational semantics (no fuel in sight)
def env1 : Env := fun _ => .alt [.seq [.tag ['('], .nt 0, .tag [')']], .tag ['x']]
def nest : Nat → Str
  | 0 => ['x']
  | n+1 => '(' :: (nest n ++ [')'])
theorem nest_accepted : ∀ n rest, ∃ c, Big env1 (.nt 0) (nest n ++ rest) (.ok c rest)
  | 0, rest => ⟨_, .nt _ _ _ (.alt _ _ _ (.skip _ _ _ _ (.seqFail _ _ (.consFail1 _ _ _ (.tagFail _ _ (by simp [nest, stripPrefix]))))
        (.first _ _ _ _ _ (.tagOk _ _ _ (by simp [nest, stripPrefix])))))⟩
  | n+1, rest => by
      obtain ⟨c, hc⟩ := nest_accepted n (')' :: rest)
      refine ⟨_, .nt _ _ _ (.alt _ _ _ (.first _ _ _ _ _ (.seqOk _ _ _ _
        (.consOk _ _ _ _ _ _ _ (.tagOk _ _ (nest n ++ ')' :: rest) (by simp [nest, stripPrefix]))
          (.consOk _ _ _ _ _ _ _ (by simpa using hc)
            (.consOk _ _ _ _ _ _ _ (.tagOk _ _ rest (by simp [stripPrefix])) (.nil _)))))))⟩
theorem nest_run (n : Nat) : ∃ c f0, ∀ f, f0 ≤ f → run env1 f (.nt 0) (nest n) = .ok c [] := by
  obtain ⟨c, hc⟩ := nest_accepted n []
  obtain ⟨f0, h⟩ := big_run env1 (by simpa using hc)
  exact ⟨c, f0, h⟩
#print axioms nest_run
