/-! Feasibility spike for C02/C06 (not part of the framework): deep-embedded PEG with fuel, CST,
    declarative (context-free) reading `Derives`, and the generic soundness theorem `run_sound`:
    whatever the interpreter accepts is a derivation of the same grammar and consumes exactly what it
    returns.  `lean PegSoundness.lean` : ~3 s, axioms propext, Quot.sound. -/
abbrev Str := List Char

inductive CST where
  | leaf (s : Str)
  | node (label : Nat) (kids : List CST)

mutual
def CST.flatten : CST → Str
  | .leaf s => s
  | .node _ ks => flattenL ks
def flattenL : List CST → Str
  | [] => []
  | c :: cs => c.flatten ++ flattenL cs
end

inductive G where
  | tag (s : Str)
  | cls0 (p : Char → Bool)
  | cls1 (p : Char → Bool)
  | seq (gs : List G)
  | alt (gs : List G)
  | opt (g : G)
  | many0 (g : G)
  | nt (n : Nat)
  | node (label : Nat) (g : G)

inductive Res where
  | ok (c : CST) (rest : Str)
  | fail
  | fuel

def stripPrefix : Str → Str → Option Str
  | [], s => some s
  | _ :: _, [] => none
  | a :: as, b :: bs => if a = b then stripPrefix as bs else none

theorem stripPrefix_sound : ∀ (t s r : Str), stripPrefix t s = some r → t ++ r = s := by
  intro t; induction t with
  | nil => intro s r h; simp [stripPrefix] at h; simp [h]
  | cons a as ih =>
    intro s r h
    cases s with
    | nil => simp [stripPrefix] at h
    | cons b bs =>
      simp only [stripPrefix] at h
      split at h
      · next hab => subst hab; simp [ih bs r h]
      · simp at h

def spanP (p : Char → Bool) : Str → Str × Str
  | [] => ([], [])
  | c :: cs => if p c then let (a, b) := spanP p cs; (c :: a, b) else ([], c :: cs)

theorem spanP_app (p : Char → Bool) : ∀ s, (spanP p s).1 ++ (spanP p s).2 = s := by
  intro s; induction s with
  | nil => simp [spanP]
  | cons c cs ih => simp only [spanP]; split <;> simp [ih]

theorem spanP_all (p : Char → Bool) : ∀ s, ∀ c ∈ (spanP p s).1, p c = true := by
  intro s; induction s with
  | nil => simp [spanP]
  | cons c cs ih =>
    simp only [spanP]; split
    · next h => intro x hx; simp at hx; rcases hx with rfl | hx; exact h; exact ih x hx
    · simp

abbrev Env := Nat → G

mutual
def run (env : Env) : Nat → G → Str → Res
  | 0, _, _ => .fuel
  | f+1, .tag t, s => match stripPrefix t s with
      | some r => .ok (.leaf t) r
      | none => .fail
  | f+1, .cls0 p, s => .ok (.leaf (spanP p s).1) (spanP p s).2
  | f+1, .cls1 p, s => if (spanP p s).1 = [] then .fail else .ok (.leaf (spanP p s).1) (spanP p s).2
  | f+1, .seq gs, s => match runSeq env f gs s with
      | (some ks, r) => .ok (.node 0 ks) r
      | (none, _) => .fail   -- (fuel conflated in spike)
  | f+1, .alt gs, s => runAlt env f gs s
  | f+1, .opt g, s => match run env f g s with
      | .ok c r => .ok (.node 1 [c]) r
      | .fail => .ok (.node 1 []) s
      | .fuel => .fuel
  | f+1, .many0 g, s => match runMany env f f g s with
      | (ks, r) => .ok (.node 2 ks) r
  | f+1, .nt n, s => run env f (env n) s
  | f+1, .node l g, s => match run env f g s with
      | .ok c r => .ok (.node l [c]) r
      | x => x
def runSeq (env : Env) : Nat → List G → Str → Option (List CST) × Str
  | _, [], s => (some [], s)
  | f, g :: gs, s => match run env f g s with
      | .ok c r => match runSeq env f gs r with
          | (some ks, r') => (some (c :: ks), r')
          | (none, r') => (none, r')
      | _ => (none, s)
def runAlt (env : Env) : Nat → List G → Str → Res
  | _, [], _ => .fail
  | f, g :: gs, s => match run env f g s with
      | .ok c r => .ok c r
      | .fail => runAlt env f gs s
      | .fuel => .fuel
def runMany (env : Env) : Nat → Nat → G → Str → List CST × Str
  | _, 0, _, s => ([], s)
  | f, k+1, g, s => match run env f g s with
      | .ok c r => if r.length < s.length then
                     let (ks, r') := runMany env f k g r; (c :: ks, r')
                   else ([], s)
      | _ => ([], s)
end

-- declarative (context-free) reading
mutual
inductive Derives (env : Env) : G → CST → Prop where
  | tag (t) : Derives env (.tag t) (.leaf t)
  | cls0 (p s) : (∀ c ∈ s, p c = true) → Derives env (.cls0 p) (.leaf s)
  | cls1 (p s) : s ≠ [] → (∀ c ∈ s, p c = true) → Derives env (.cls1 p) (.leaf s)
  | seq (gs ks) : DerivesSeq env gs ks → Derives env (.seq gs) (.node 0 ks)
  | alt (gs g c) : g ∈ gs → Derives env g c → Derives env (.alt gs) c
  | optSome (g c) : Derives env g c → Derives env (.opt g) (.node 1 [c])
  | optNone (g) : Derives env (.opt g) (.node 1 [])
  | many (g ks) : DerivesAll env g ks → Derives env (.many0 g) (.node 2 ks)
  | nt (n c) : Derives env (env n) c → Derives env (.nt n) c
  | node (l g c) : Derives env g c → Derives env (.node l g) (.node l [c])
inductive DerivesSeq (env : Env) : List G → List CST → Prop where
  | nil : DerivesSeq env [] []
  | cons (g gs c cs) : Derives env g c → DerivesSeq env gs cs → DerivesSeq env (g :: gs) (c :: cs)
inductive DerivesAll (env : Env) : G → List CST → Prop where
  | nil (g) : DerivesAll env g []
  | cons (g c cs) : Derives env g c → DerivesAll env g cs → DerivesAll env g (c :: cs)
end

theorem run_sound (env : Env) : ∀ f,
    (∀ g s c r, run env f g s = .ok c r → Derives env g c ∧ c.flatten ++ r = s) ∧
    (∀ gs s ks r, runSeq env f gs s = (some ks, r) → DerivesSeq env gs ks ∧ flattenL ks ++ r = s) ∧
    (∀ gs s c r, runAlt env f gs s = .ok c r → (∃ g ∈ gs, Derives env g c) ∧ c.flatten ++ r = s) ∧
    (∀ k g s ks r, runMany env f k g s = (ks, r) → DerivesAll env g ks ∧ flattenL ks ++ r = s) := by
  intro f
  induction f with
  | zero =>
    refine ⟨?_, ?_, ?_, ?_⟩
    · intro g s c r h; simp [run] at h
    · intro gs; induction gs with
      | nil => intro s ks r h; simp [runSeq] at h; obtain ⟨rfl, rfl⟩ := h; exact ⟨.nil, by simp [flattenL]⟩
      | cons g gs ih => intro s ks r h; simp [runSeq, run] at h
    · intro gs; induction gs with
      | nil => intro s c r h; simp [runAlt] at h
      | cons g gs ih => intro s c r h; simp [runAlt, run] at h
    · intro k; induction k with
      | zero => intro g s ks r h; simp [runMany] at h; obtain ⟨rfl, rfl⟩ := h; exact ⟨.nil _, by simp [flattenL]⟩
      | succ k ih => intro g s ks r h; simp [runMany, run] at h; obtain ⟨rfl, rfl⟩ := h; exact ⟨.nil _, by simp [flattenL]⟩
  | succ f ih =>
    obtain ⟨ihRun, ihSeq, ihAlt, ihMany⟩ := ih
    have hRun : ∀ g s c r, run env (f+1) g s = .ok c r → Derives env g c ∧ c.flatten ++ r = s := by
      intro g s c r h
      cases g with
      | tag t =>
        simp only [run] at h; split at h
        · next r' hs => cases h; exact ⟨.tag t, by simpa [CST.flatten] using stripPrefix_sound _ _ _ hs⟩
        · cases h
      | cls0 p => simp only [run] at h; cases h; exact ⟨.cls0 p _ (spanP_all p s), by simpa [CST.flatten] using spanP_app p s⟩
      | cls1 p =>
        simp only [run] at h; split at h
        · cases h
        · next hne => cases h; exact ⟨.cls1 p _ hne (spanP_all p s), by simpa [CST.flatten] using spanP_app p s⟩
      | seq gs =>
        simp only [run] at h; split at h
        · next ks r' hs => cases h; obtain ⟨h1, h2⟩ := ihSeq _ _ _ _ hs; exact ⟨.seq _ _ h1, by simpa [CST.flatten] using h2⟩
        · cases h
      | alt gs =>
        simp only [run] at h
        obtain ⟨⟨g, hg, hd⟩, h2⟩ := ihAlt _ _ _ _ h
        exact ⟨.alt _ g _ hg hd, h2⟩
      | opt g =>
        simp only [run] at h; split at h
        · next c' r' hr => cases h; obtain ⟨h1, h2⟩ := ihRun _ _ _ _ hr; exact ⟨.optSome _ _ h1, by simpa [CST.flatten, flattenL] using h2⟩
        · cases h; exact ⟨.optNone _, by simp [CST.flatten, flattenL]⟩
        · cases h
      | many0 g =>
        simp only [run] at h
        generalize hm : runMany env f f g s = m at h
        obtain ⟨ks, r'⟩ := m
        cases h
        obtain ⟨h1, h2⟩ := ihMany _ _ _ _ _ hm
        exact ⟨.many _ _ h1, by simpa [CST.flatten] using h2⟩
      | nt n => simp only [run] at h; obtain ⟨h1, h2⟩ := ihRun _ _ _ _ h; exact ⟨.nt _ _ h1, h2⟩
      | node l g =>
        simp only [run] at h; split at h
        · next c' r' hr => cases h; obtain ⟨h1, h2⟩ := ihRun _ _ _ _ hr; exact ⟨.node _ _ _ h1, by simpa [CST.flatten, flattenL] using h2⟩
        · next x hx => rw [h] at hx; exact absurd rfl (hx c r)
    refine ⟨hRun, ?_, ?_, ?_⟩
    · intro gs; induction gs with
      | nil => intro s ks r h; simp [runSeq] at h; obtain ⟨rfl, rfl⟩ := h; exact ⟨.nil, by simp [flattenL]⟩
      | cons g gs ihg =>
        intro s ks r h
        simp only [runSeq] at h
        split at h
        · next c r1 hr =>
          split at h
          · next ks' r2 hs =>
            simp at h; obtain ⟨rfl, rfl⟩ := h
            obtain ⟨h1, h2⟩ := hRun _ _ _ _ hr
            obtain ⟨h3, h4⟩ := ihg _ _ _ hs
            exact ⟨.cons _ _ _ _ h1 h3, by simp [flattenL, ← h2, ← h4]⟩
          · simp at h
        · simp at h
    · intro gs; induction gs with
      | nil => intro s c r h; simp [runAlt] at h
      | cons g gs ihg =>
        intro s c r h
        simp only [runAlt] at h
        split at h
        · next c' r' hr => cases h; obtain ⟨h1, h2⟩ := hRun _ _ _ _ hr; exact ⟨⟨g, by simp, h1⟩, h2⟩
        · obtain ⟨⟨g', hg', hd⟩, h2⟩ := ihg _ _ _ h; exact ⟨⟨g', by simp [hg'], hd⟩, h2⟩
        · cases h
    · intro k; induction k with
      | zero => intro g s ks r h; simp [runMany] at h; obtain ⟨rfl, rfl⟩ := h; exact ⟨.nil _, by simp [flattenL]⟩
      | succ k ihk =>
        intro g s ks r h
        simp only [runMany] at h
        split at h
        · next c r1 hr =>
          split at h
          · generalize hm : runMany env (f+1) k g r1 = m at h
            obtain ⟨ks', r2⟩ := m
            simp at h; obtain ⟨rfl, rfl⟩ := h
            obtain ⟨h1, h2⟩ := hRun _ _ _ _ hr
            obtain ⟨h3, h4⟩ := ihk _ _ _ _ hm
            exact ⟨.cons _ _ _ h1 h3, by simp [flattenL, ← h2, ← h4]⟩
          · simp at h; obtain ⟨rfl, rfl⟩ := h; exact ⟨.nil _, by simp [flattenL]⟩
        · simp at h; obtain ⟨rfl, rfl⟩ := h; exact ⟨.nil _, by simp [flattenL]⟩
#print axioms run_sound
