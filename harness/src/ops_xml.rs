// XML parsing / infoset / printing operations.
use xml_dom::XmlDocument;

// accept <text>: outcome class of XmlDocument::from_raw:  ok | rest | err
pub fn accept(args: &[String]) -> String {
    let text = args.first().cloned().unwrap_or_default();
    match XmlDocument::from_raw(&text) {
        Ok((rest, _)) => {
            if rest.is_empty() {
                "ok".to_string()
            } else {
                "rest".to_string()
            }
        }
        Err(_) => "err".to_string(),
    }
}
