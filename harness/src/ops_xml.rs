// XML parsing / infoset / printing operations (properties C01-C04, C11).
use crate::enc::encode as e;
use std::rc::Rc;
use xml_dom::XmlDocument;
use xml_info as info;
use xml_info::{
    Attribute, Character, Comment, Document, DocumentTypeDeclaration, Element, HasQName, Notation,
    ProcessingInstruction, UnexpandedEntityReference,
};

fn opt(s: Option<&str>) -> String {
    match s {
        Some(v) => e(v),
        None => "~".to_string(),
    }
}

fn qn(prefix: Option<&str>, local: &str) -> String {
    match prefix {
        Some(p) => e(&format!("{}:{}", p, local)),
        None => e(local),
    }
}

// accept <text>: outcome class of XmlDocument::from_raw:  ok | rest | err
pub fn accept(args: &[String]) -> String {
    let text = args.last().cloned().unwrap_or_default();
    match XmlDocument::from_raw(&text) {
        Ok((rest, _)) => {
            if rest.is_empty() {
                "ok".to_string()
            } else {
                "rest".to_string()
            }
        }
        Err(_) => "err".to_string(),
    }
}

pub fn info_err_class(err: &info::error::Error) -> &'static str {
    match err {
        info::error::Error::NotFoundReference(_) => "reference",
        info::error::Error::InvalidData(_) => "invalid",
        info::error::Error::Parse(_) => "syntax",
        _ => "other",
    }
}

fn pieces(values: &[info::XmlAttributeValue]) -> String {
    let mut out = String::new();
    for v in values {
        match v {
            info::XmlAttributeValue::Char(c) => {
                let c = c.as_char_reference().unwrap();
                out.push_str(&format!("c({},{})", e(c.borrow().num()), c.borrow().radix()));
            }
            info::XmlAttributeValue::Entity(r) => {
                let r = r.as_unexpanded().unwrap();
                out.push_str(&format!("e({})", e(r.borrow().name())));
            }
            info::XmlAttributeValue::Text(t) => {
                let t = t.as_text().unwrap();
                out.push_str(&format!("t({})", e(t.borrow().character_code())));
            }
        }
    }
    out
}

fn entity_pieces(values: &[info::XmlEntityValue]) -> String {
    let mut out = String::new();
    for v in values {
        match v {
            info::XmlEntityValue::Character(d, r) => out.push_str(&format!("c({},{})", e(d), r)),
            info::XmlEntityValue::Entity(n) => out.push_str(&format!("e({})", e(n))),
            info::XmlEntityValue::Parameter(n) => out.push_str(&format!("p({})", e(n))),
            info::XmlEntityValue::Text(t) => out.push_str(&format!("t({})", e(t))),
        }
    }
    out
}

fn dump_pi(p: &info::XmlNode<info::XmlProcessingInstruction>) -> String {
    // content() is "" both for a PI without data and for one with empty data; Display tells them apart
    let text = format!("{}", p.borrow());
    let has_data = text.len() > p.borrow().target().len() + 4;
    format!(
        "P({},{})",
        e(p.borrow().target()),
        if has_data { e(p.borrow().content()) } else { "~".to_string() }
    )
}

fn dump_item(item: &Rc<info::XmlItem>, depth: usize) -> String {
    if depth > 2000 {
        return "DEPTH".to_string();
    }
    match &**item {
        info::XmlItem::Text(t) => format!("t({})", e(t.borrow().character_code())),
        info::XmlItem::CharReference(c) => {
            format!("c({},{})", e(c.borrow().num()), c.borrow().radix())
        }
        info::XmlItem::Unexpanded(r) => format!("e({})", e(r.borrow().name())),
        info::XmlItem::CData(c) => format!("d({})", e(c.borrow().character_code())),
        info::XmlItem::PI(p) => dump_pi(p),
        info::XmlItem::Comment(c) => format!("C({})", e(c.borrow().comment())),
        info::XmlItem::Element(el) => dump_element(el, depth),
        _ => "?".to_string(),
    }
}

fn dump_element(el: &info::XmlNode<info::XmlElement>, depth: usize) -> String {
    let el = el.borrow();
    let mut attrs: Vec<(String, String)> = vec![];
    for a in el.namespace_attributes().iter().chain(el.attributes().iter()) {
        let a = a.borrow();
        let name = qn(a.prefix(), a.local_name());
        let body = format!(
            "A({},{})[{}]",
            name,
            a.specified() as u8,
            pieces(a.values().borrow().as_slice())
        );
        attrs.push((name, body));
    }
    attrs.sort();
    let kids: Vec<String> = el.children().iter().map(|k| dump_item(&k, depth + 1)).collect();
    format!(
        "E({})[{}][{}]",
        qn(el.prefix(), el.local_name()),
        attrs.into_iter().map(|a| a.1).collect::<Vec<_>>().join(""),
        kids.join("")
    )
}

fn ext(public: Option<&str>, system: Option<&str>) -> String {
    format!("{},{}", opt(public), opt(system))
}

fn dump_doctype(d: &info::XmlNode<info::XmlDocumentTypeDeclaration>) -> String {
    let d = d.borrow();
    // children in order: the Display of each child identifies its kind; use the typed accessors
    let mut kids: Vec<String> = vec![];
    let text = format!("{}", d);
    let _ = text;
    for a in d.attributes().iter() {
        kids.push(format!("L({})", e(&format!("{}", a.borrow()))));
    }
    for en in d.entities().iter() {
        let en = en.borrow();
        match en.values() {
            Some(v) => kids.push(format!("Y({},i)[{}]", e(en.name()), entity_pieces(v))),
            None => kids.push(format!(
                "Y({},x,{},{})",
                e(en.name()),
                ext(en.public_identifier(), en.system_identifier()),
                opt(en.notation_name())
            )),
        }
    }
    for n in d.notations().iter() {
        let n = n.borrow();
        kids.push(format!(
            "N({},{})",
            e(n.name()),
            ext(n.public_identifier(), n.system_identifier())
        ));
    }
    for p in DocumentTypeDeclaration::children(&*d).iter() {
        kids.push(dump_pi(&p));
    }
    format!(
        "T({},{})[{}]",
        qn(d.prefix(), d.local_name()),
        ext(d.public_identifier(), d.system_identifier()),
        kids.join("")
    )
}

pub fn dump_doc(doc: &info::XmlNode<info::XmlDocument>) -> String {
    let d = doc.borrow();
    let mut tops: Vec<String> = vec![];
    for k in d.children().iter() {
        match &*k {
            info::XmlItem::Comment(c) => tops.push(format!("C({})", e(c.borrow().comment()))),
            info::XmlItem::PI(p) => tops.push(dump_pi(p)),
            info::XmlItem::DocumentType(t) => tops.push(dump_doctype(t)),
            info::XmlItem::Element(el) => tops.push(dump_element(el, 0)),
            _ => tops.push("?".to_string()),
        }
    }
    let enc = d.character_encoding_scheme();
    format!(
        "D({},{},{})[{}]",
        opt(d.version()),
        if enc.is_empty() { "~".to_string() } else { e(enc) },
        match d.standalone() {
            Some(true) => "y",
            Some(false) => "n",
            None => "~",
        },
        tops.join("")
    )
}

// parse <text>:  `ok rest=<enc> <dump>` | `err:<class>`
pub fn parse(args: &[String]) -> String {
    let text = args.first().cloned().unwrap_or_default();
    let (rest, tree) = match xml_parser::document(&text) {
        Ok(v) => v,
        Err(_) => return "err:syntax".to_string(),
    };
    match info::XmlDocument::new(&tree) {
        Ok(doc) => format!("ok rest={} {}", e(rest), dump_doc(&doc)),
        Err(err) => format!("err:{}", info_err_class(&err)),
    }
}

// print <text>: compact serialization of the parsed document: `ok <enc>` | `err:<class>`
pub fn print(args: &[String]) -> String {
    let text = args.first().cloned().unwrap_or_default();
    match XmlDocument::from_raw(&text) {
        Ok((_, dom)) => format!("ok {}", e(&format!("{}", dom))),
        Err(err) => match err {
            xml_dom::error::Error::Info(i) => format!("err:{}", info_err_class(&i)),
            xml_dom::error::Error::Parse(_) => "err:syntax".to_string(),
            _ => "err:other".to_string(),
        },
    }
}

// parse2 <text>: the same text parsed twice, by both entry points: are the two documents EQUAL (`==`), do they print alike?
//   `ok eq=<0|1> eqdom=<0|1> print=<0|1>` | err:<class>        (property C19)
pub fn parse2(args: &[String]) -> String {
    let text = args.first().cloned().unwrap_or_default();
    let mk = || -> Result<info::XmlNode<info::XmlDocument>, String> {
        let (_, tree) = xml_parser::document(&text).map_err(|_| "err:syntax".to_string())?;
        info::XmlDocument::new(&tree).map_err(|e| format!("err:{}", info_err_class(&e)))
    };
    let (a, b) = match (mk(), mk()) {
        (Ok(a), Ok(b)) => (a, b),
        (Err(e), _) | (_, Err(e)) => return e,
    };
    let eq = *a.borrow() == *b.borrow();
    let pr = format!("{}", a.borrow()) == format!("{}", b.borrow());
    let eqdom = match (XmlDocument::from_raw(&text), XmlDocument::from_raw(&text)) {
        (Ok((_, x)), Ok((_, y))) => (x == y) as u8,
        _ => 2,
    };
    format!("ok eq={} eqdom={} print={}", eq as u8, eqdom, pr as u8)
}

// roundtrip <text>: print, re-parse, compare, print again (property C04)
//   `ok rest2=<enc> same=<0|1> eq=<0|1> fix=<0|1>` | `err:<class>` (first parse) | `reparse-err:<class> <enc s1>`
pub fn roundtrip(args: &[String]) -> String {
    let text = args.first().cloned().unwrap_or_default();
    let (_, tree) = match xml_parser::document(&text) {
        Ok(v) => v,
        Err(_) => return "err:syntax".to_string(),
    };
    let doc1 = match info::XmlDocument::new(&tree) {
        Ok(d) => d,
        Err(err) => return format!("err:{}", info_err_class(&err)),
    };
    let s1 = format!("{}", doc1.borrow());
    let (rest2, tree2) = match xml_parser::document(&s1) {
        Ok(v) => v,
        Err(_) => return format!("reparse-err:syntax {}", e(&s1)),
    };
    let doc2 = match info::XmlDocument::new(&tree2) {
        Ok(d) => d,
        Err(err) => return format!("reparse-err:{} {}", info_err_class(&err), e(&s1)),
    };
    let s2 = format!("{}", doc2.borrow());
    let same = dump_doc(&doc1) == dump_doc(&doc2);
    let eq = *doc1.borrow() == *doc2.borrow();
    format!(
        "ok rest2={} same={} eq={} fix={}",
        e(rest2),
        same as u8,
        eq as u8,
        (s1 == s2) as u8
    )
}

// pipeline <text>: parse + infoset + compact print + pretty print, in both DOM views (property C03)
//   outcome class only: ok | rest | err      (a panic is reported by the dispatcher as `panic`)
// every property of the information set that is COMPUTED when asked for (XML Information Set 2.1 - 2.11): [notations],
// [unparsed entities], [references] and [attribute type] of every attribute, the namespace properties of every element - the
// results are dropped, what counts is that asking returns (round-9 seed C03-M: `unparsed_entities()` took an external parsed
// entity for an unparsed one and unwrapped its missing notation)
fn touch_infoset(text: &str) {
    let tree = match xml_parser::document(text) {
        Ok((_, t)) => t,
        Err(_) => return,
    };
    let doc = match info::XmlDocument::new(&tree) {
        Ok(d) => d,
        Err(_) => return,
    };
    fn walk(el: &info::XmlNode<info::XmlElement>, depth: usize) -> usize {
        if depth > 2000 {
            return 0;
        }
        let elb = el.borrow();
        let mut n = 1;
        for a in elb.namespace_attributes().iter().chain(elb.attributes().iter()) {
            let a = a.borrow();
            n += a.references().map(|_| 1).unwrap_or(0);
            n += a.normalized_value().map(|v| v.len()).unwrap_or(0);
            std::hint::black_box((a.attribute_type(), a.specified(), a.namespace_name().is_ok(), a.owner_element().is_ok()));
        }
        n += elb.in_scope_namespace().map(|s| s.iter().count()).unwrap_or(0);
        std::hint::black_box((Element::namespace_name(&*elb).is_ok(), Element::base_uri(&*elb).len()));
        for k in elb.children().iter() {
            if let info::XmlItem::Element(c) = &*k {
                n += walk(c, depth + 1);
            }
        }
        n
    }
    let d = doc.borrow();
    let mut n = d.unparsed_entities().iter().count();
    n += d.notations().map(|s| s.iter().count()).unwrap_or(0);
    std::hint::black_box((Document::base_uri(&*d).len(), d.all_declarations_processed(), d.standalone(), d.version().map(|v| v.len())));
    if let Ok(root) = d.document_element() {
        n += walk(&root, 0);
    }
    std::hint::black_box(n);
}

pub fn pipeline(args: &[String]) -> String {
    use xml_dom::PrettyPrint;
    let text = args.first().cloned().unwrap_or_default();
    let mut class = "err";
    touch_infoset(&text);
    for expanded in [false, true] {
        match XmlDocument::from_raw_with_context(&text, xml_dom::Context::from_text_expanded(expanded)) {
            Ok((rest, dom)) => {
                let s = format!("{}", dom);
                let mut buf: Vec<u8> = vec![];
                let _ = dom.pretty(&mut buf);
                // walk the tree through the DOM API as a caller would
                let n = count_nodes(&xml_dom::XmlNode::Document(dom.clone()), 0);
                std::hint::black_box((s.len(), buf.len(), n));
                class = if rest.is_empty() { "ok" } else { "rest" };
            }
            Err(_) => {
                class = "err";
            }
        }
    }
    class.to_string()
}

// pipelinek <kib> <text>: `pipeline` on a thread whose stack has <kib> KiB: a wide, shallow document (thousands of siblings,
// attributes, references) must not need stack in proportion to its WIDTH (property C03: never exhaust the stack)
pub fn pipelinek(args: &[String]) -> String {
    let kib: usize = args.first().and_then(|v| v.parse().ok()).unwrap_or(512);
    let rest: Vec<String> = args.iter().skip(1).cloned().collect();
    let h = std::thread::Builder::new().stack_size(kib * 1024).spawn(move || pipeline(&rest));
    match h {
        Ok(j) => match j.join() {
            Ok(s) => s,
            Err(_) => "panic".to_string(),
        },
        Err(_) => "err:thread".to_string(),
    }
}

// sinks <text>: pretty-print and compact-print the document into sinks that misbehave the way real sinks do (property C03:
// printing terminates and returns a value or an error): a sink of fixed capacity that answers Ok(0) once it is full (as
// `&mut [u8]` does), one that answers an error once it is full, and one that takes a single byte per call.
//   `ok caps=<n> len=<bytes>` | `hang <sink> cap=<c>` (data offered again and again to a sink that refuses it) |
//   `wrong <sink> cap=<c>` (success reported although not everything was written / a short writer changes the output) | err:<class>
pub fn sinks(args: &[String]) -> String {
    use std::io;
    use xml_dom::PrettyPrint;
    struct Fixed {
        room: usize,
        refused: usize,
        fail: bool,
    }
    impl io::Write for Fixed {
        fn write(&mut self, buf: &[u8]) -> io::Result<usize> {
            let n = buf.len().min(self.room);
            self.room -= n;
            if n == 0 && !buf.is_empty() {
                self.refused += 1;
                if self.refused > 20_000 {
                    panic!("sink-hang");
                }
                if self.fail {
                    return Err(io::Error::new(io::ErrorKind::Other, "full"));
                }
            }
            Ok(n)
        }
        fn flush(&mut self) -> io::Result<()> {
            Ok(())
        }
    }
    struct OneByte(Vec<u8>);
    impl io::Write for OneByte {
        fn write(&mut self, buf: &[u8]) -> io::Result<usize> {
            match buf.first() {
                Some(b) => {
                    self.0.push(*b);
                    Ok(1)
                }
                None => Ok(0),
            }
        }
        fn flush(&mut self) -> io::Result<()> {
            Ok(())
        }
    }
    struct FmtFixed {
        room: usize,
        refused: usize,
    }
    impl std::fmt::Write for FmtFixed {
        fn write_str(&mut self, s: &str) -> std::fmt::Result {
            if s.len() > self.room {
                self.refused += 1;
                if self.refused > 20_000 {
                    panic!("sink-hang");
                }
                return Err(std::fmt::Error);
            }
            self.room -= s.len();
            Ok(())
        }
    }
    let text = args.first().cloned().unwrap_or_default();
    let dom = match XmlDocument::from_raw(&text) {
        Ok((_, d)) => d,
        Err(_) => return "err:doc".to_string(),
    };
    let mut whole: Vec<u8> = vec![];
    if dom.pretty(&mut whole).is_err() {
        return "wrong vec cap=inf".to_string();
    }
    let mut one = OneByte(vec![]);
    if dom.pretty(&mut one).is_err() || one.0 != whole {
        return "wrong onebyte cap=inf".to_string();
    }
    let compact = format!("{}", dom);
    let step = if whole.len() <= 600 { 1 } else { whole.len() / 300 };
    let mut caps = 0;
    let mut c = 0;
    while c <= whole.len() {
        for fail in [false, true] {
            let mut sink = Fixed { room: c, refused: 0, fail };
            let r = std::panic::catch_unwind(std::panic::AssertUnwindSafe(|| dom.pretty(&mut sink)));
            match r {
                Err(_) => return format!("hang {} cap={}", if fail { "failing" } else { "full" }, c),
                Ok(Ok(())) if c < whole.len() => return format!("wrong {} cap={}", if fail { "failing" } else { "full" }, c),
                Ok(Err(_)) if c >= whole.len() => return format!("wrong {} cap={}", if fail { "failing" } else { "full" }, c),
                _ => {}
            }
        }
        if c <= compact.len() {
            use std::fmt::Write;
            let mut sink = FmtFixed { room: c, refused: 0 };
            let r = std::panic::catch_unwind(std::panic::AssertUnwindSafe(|| write!(sink, "{}", dom)));
            match r {
                Err(_) => return format!("hang fmt cap={}", c),
                Ok(Ok(())) if c < compact.len() => return format!("wrong fmt cap={}", c),
                _ => {}
            }
        }
        caps += 1;
        c += step;
    }
    format!("ok caps={} len={}", caps, whole.len())
}

fn count_nodes(n: &xml_dom::XmlNode, depth: usize) -> usize {
    use xml_dom::{Node, NodeList};
    let mut total = 1;
    let _ = n.node_name();
    let _ = n.node_value();
    if let Some(attrs) = n.attributes() {
        use xml_dom::NamedNodeMap;
        for i in 0..attrs.length() {
            if let Some(a) = attrs.item(i) {
                use xml_dom::Attr;
                let _ = a.value();
                total += 1;
            }
        }
    }
    let kids = n.child_nodes();
    for i in 0..kids.length() {
        if let Some(k) = kids.item(i) {
            total += count_nodes(&k, depth + 1);
        }
    }
    total
}

// attrs <text>: per element in document order, the attributes with normalized value and specified flag (property C11)
//   `ok E(name)[A(qname,spec,value)...]...`  attributes sorted by qualified name; value `!` + class when value() fails;
//   a trailing ` dom=...` reports whether the DOM view (Attr::value/specified, get_attribute) agrees with the info view
pub fn attrs(args: &[String]) -> String {
    use xml_dom::{Attr, Element as DomElement, NamedNodeMap, Node, NodeList};
    let text = args.first().cloned().unwrap_or_default();
    let (rest, tree) = match xml_parser::document(&text) {
        Ok(v) => v,
        Err(_) => return "err:syntax".to_string(),
    };
    if !rest.is_empty() {
        return "err:rest".to_string();
    }
    let doc = match info::XmlDocument::new(&tree) {
        Ok(d) => d,
        Err(err) => return format!("err:{}", info_err_class(&err)),
    };
    fn walk(el: &info::XmlNode<info::XmlElement>, out: &mut String, depth: usize) {
        if depth > 2000 {
            return;
        }
        let elb = el.borrow();
        let mut attrs: Vec<(String, String)> = vec![];
        for a in elb.namespace_attributes().iter().chain(elb.attributes().iter()) {
            let a = a.borrow();
            let name = qn(a.prefix(), a.local_name());
            let value = match a.normalized_value() {
                Ok(v) => e(&v),
                Err(err) => format!("!{}", info_err_class(&err)),
            };
            attrs.push((name.clone(), format!("A({},{},{})", name, a.specified() as u8, value)));
        }
        attrs.sort();
        out.push_str(&format!(
            "E({})[{}]",
            qn(elb.prefix(), elb.local_name()),
            attrs.into_iter().map(|a| a.1).collect::<Vec<_>>().join("")
        ));
        for k in elb.children().iter() {
            if let info::XmlItem::Element(c) = &*k {
                walk(c, out, depth + 1);
            }
        }
    }
    let mut out = String::new();
    match doc.borrow().document_element() {
        Ok(root) => walk(&root, &mut out, 0),
        Err(_) => return "err:noroot".to_string(),
    }
    // DOM view of the same text: Attr::value / Attr::specified / get_attribute per element, same order
    let mut dom_out = String::new();
    let mut bad: Vec<String> = vec![];
    if let Ok((_, dom)) = XmlDocument::from_raw(&text) {
        fn dwalk(n: &xml_dom::XmlNode, out: &mut String, bad: &mut Vec<String>, depth: usize) {
            if depth > 2000 {
                return;
            }
            if let Some(el) = n.as_element() {
                let mut attrs: Vec<(String, String)> = vec![];
                if let Some(map) = n.attributes() {
                    for i in 0..map.length() {
                        if let Some(a) = map.item(i) {
                            let value = match a.value() {
                                Ok(v) => e(&v),
                                Err(_) => "!".to_string(),
                            };
                            let nm = a.node_name();
                            if let Ok(v) = a.value() {
                                let g = el.get_attribute(&a.name());
                                if g != v && map.length() == 1 {
                                    bad.push(format!("get_attribute({})={}", e(&a.name()), e(&g)));
                                }
                            }
                            attrs.push((e(&nm), format!("A({},{},{})", e(&nm), a.specified() as u8, value)));
                        }
                    }
                }
                attrs.sort();
                out.push_str(&format!("E[{}]", attrs.into_iter().map(|a| a.1).collect::<Vec<_>>().join("")));
            }
            let kids = n.child_nodes();
            for i in 0..kids.length() {
                if let Some(k) = kids.item(i) {
                    dwalk(&k, out, bad, depth + 1);
                }
            }
        }
        dwalk(&xml_dom::XmlNode::Document(dom.clone()), &mut dom_out, &mut bad, 0);
        // Element.normalize() only merges adjacent Text nodes; the value every attribute reports is what it was
        {
            use xml_dom::{Document, ElementMut};
            if let Ok(root) = dom.document_element() {
                let _ = std::panic::catch_unwind(std::panic::AssertUnwindSafe(|| root.normalize()));
                let mut again = String::new();
                let mut bad2: Vec<String> = vec![];
                dwalk(&xml_dom::XmlNode::Document(dom.clone()), &mut again, &mut bad2, 0);
                if again != dom_out {
                    bad.push(format!("after-normalize={}", again));
                }
            }
        }
    }
    format!("ok {} dom={} bad={}", out, dom_out, bad.join(";"))
}

// nsinfo <text>: the namespace view of the INFORMATION SET itself (not of the DOM or of XPath): for every element in
// document order its name and namespace name, its (non-declaration) attributes with theirs, and its in-scope namespaces:
//   ok E(<qname>=<uri|~>)[A(<qname>=<uri|~>)...sorted][N(<prefix|~>=<uri>)...sorted]...  |  err:<class>
pub fn nsinfo(args: &[String]) -> String {
    let text = args.first().cloned().unwrap_or_default();
    let (rest, tree) = match xml_parser::document(&text) {
        Ok(v) => v,
        Err(_) => return "err:syntax".to_string(),
    };
    if !rest.is_empty() {
        return "err:rest".to_string();
    }
    let doc = match info::XmlDocument::new(&tree) {
        Ok(d) => d,
        Err(err) => return format!("err:{}", info_err_class(&err)),
    };
    fn uri(v: info::error::Result<Option<info::NamespaceUri>>) -> String {
        match v {
            Ok(Some(u)) if !u.is_empty() => e(&u),
            Ok(_) => "~".to_string(),
            Err(err) => format!("!{}", info_err_class(&err)),
        }
    }
    fn walk(el: &info::XmlNode<info::XmlElement>, out: &mut String, depth: usize) {
        if depth > 2000 {
            return;
        }
        let elb = el.borrow();
        let mut attrs: Vec<String> = vec![];
        for a in elb.attributes().iter() {
            let a = a.borrow();
            attrs.push(format!("A({}={})", qn(a.prefix(), a.local_name()), uri(a.namespace_name())));
        }
        attrs.sort();
        let mut nss: Vec<String> = vec![];
        match elb.in_scope_namespace() {
            Ok(set) => {
                for n in set.iter() {
                    let n = n.borrow();
                    nss.push(format!("N({}={})", opt(info::Namespace::prefix(&*n)), e(info::Namespace::namespace_name(&*n))));
                }
            }
            Err(err) => nss.push(format!("!{}", info_err_class(&err))),
        }
        nss.sort();
        nss.dedup();
        out.push_str(&format!(
            "E({}={})[{}][{}]",
            qn(elb.prefix(), elb.local_name()),
            uri(Element::namespace_name(&*elb)),
            attrs.join(""),
            nss.join("")
        ));
        for k in elb.children().iter() {
            if let info::XmlItem::Element(c) = &*k {
                walk(c, out, depth + 1);
            }
        }
    }
    let mut out = String::new();
    match doc.borrow().document_element() {
        Ok(root) => walk(&root, &mut out, 0),
        Err(_) => return "err:noroot".to_string(),
    }
    format!("ok {}", out)
}
