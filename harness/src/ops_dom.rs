// DOM operations: `chardata` (property C16) and `dom` histories (C12-C15).
use crate::enc;
use std::panic::{catch_unwind, AssertUnwindSafe};
use xml_dom::error::{DomException, Error};
use xml_dom::{
    CharacterData, CharacterDataMut, Context, Document, Node, TextMut, XmlDocument, XmlNode,
};

pub fn err_class(e: &Error) -> String {
    match e {
        Error::Dom(d) => match d {
            DomException::IndexSizeErr => "index".to_string(),
            DomException::HierarchyRequestErr => "hierarchy".to_string(),
            DomException::WrongDocumentErr => "wrongdoc".to_string(),
            DomException::InvalidCharacterErr => "invalidchar".to_string(),
            DomException::NoModificationAllowedErr => "nomod".to_string(),
            DomException::NotFoundErr => "notfound".to_string(),
            DomException::InuseAttributeErr => "inuse".to_string(),
            DomException::NoDataAllowedErr => "nodata".to_string(),
            DomException::NotSupportErr => "notsupported".to_string(),
            DomException::DomStringSizeErr => "stringsize".to_string(),
        },
        Error::Info(i) => format!("info-{}", format!("{:?}", i).split('(').next().unwrap_or("")),
        Error::Parse(_) => "parse".to_string(),
    }
}

fn num(s: &str) -> usize {
    if s == "M" {
        usize::MAX
    } else {
        s.parse().unwrap_or(0)
    }
}

enum CD {
    Text(xml_dom::XmlText),
    Comment(xml_dom::XmlComment),
    CData(xml_dom::XmlCDataSection),
    Merged(xml_dom::XmlExpandedText),
}

impl CD {
    fn data(&self) -> String {
        let r = match self {
            CD::Text(v) => v.data(),
            CD::Comment(v) => v.data(),
            CD::CData(v) => v.data(),
            CD::Merged(v) => v.data(),
        };
        match r {
            Ok(s) => s,
            Err(_) => "\u{0}ERR".to_string(),
        }
    }
    fn length(&self) -> usize {
        match self {
            CD::Text(v) => v.length(),
            CD::Comment(v) => v.length(),
            CD::CData(v) => v.length(),
            CD::Merged(v) => v.length(),
        }
    }
}

fn res_unit(r: Result<(), Error>) -> String {
    match r {
        Ok(()) => "ok".to_string(),
        Err(e) => format!("err:{}", err_class(&e)),
    }
}

fn apply(cd: &CD, op: &str) -> String {
    let parts: Vec<&str> = op.splitn(4, ':').collect();
    let name = parts[0];
    macro_rules! mutate {
        ($f:expr) => {
            match cd {
                CD::Text(v) => res_unit($f(v as &dyn CharacterDataMut)),
                CD::Comment(v) => res_unit($f(v as &dyn CharacterDataMut)),
                CD::CData(v) => res_unit($f(v as &dyn CharacterDataMut)),
                CD::Merged(_) => "unsupported".to_string(),
            }
        };
    }
    match name {
        "len" => format!("ok={}", cd.length()),
        "sub" => {
            let (o, c) = (num(parts[1]), num(parts[2]));
            let r = match cd {
                CD::Text(v) => v.substring_data(o, c),
                CD::Comment(v) => v.substring_data(o, c),
                CD::CData(v) => v.substring_data(o, c),
                CD::Merged(v) => v.substring_data(o, c),
            };
            match r {
                Ok(s) => format!("ok={}", enc::encode(&s)),
                Err(e) => format!("err:{}", err_class(&e)),
            }
        }
        "app" => {
            let a = parts.get(1).copied().unwrap_or("").to_string();
            mutate!(|v: &dyn CharacterDataMut| v.append_data(&a))
        }
        "set" => {
            let a = parts.get(1).copied().unwrap_or("").to_string();
            mutate!(|v: &dyn CharacterDataMut| v.set_data(&a))
        }
        "ins" => {
            let o = num(parts[1]);
            let a = parts.get(2).copied().unwrap_or("").to_string();
            mutate!(|v: &dyn CharacterDataMut| v.insert_data(o, &a))
        }
        "del" => {
            let (o, c) = (num(parts[1]), num(parts[2]));
            mutate!(|v: &dyn CharacterDataMut| v.delete_data(o, c))
        }
        "rep" => {
            let (o, c) = (num(parts[1]), num(parts[2]));
            let a = parts.get(3).copied().unwrap_or("").to_string();
            mutate!(|v: &dyn CharacterDataMut| v.replace_data(o, c, &a))
        }
        "split" => {
            let o = num(parts[1]);
            match cd {
                CD::Text(v) => match v.split_text(o) {
                    Ok(r) => {
                        let adj = match (v.next_sibling(), r.previous_sibling()) {
                            (Some(n), Some(p)) => {
                                n.id() == XmlNode::Text(r.clone()).id()
                                    && p.id() == XmlNode::Text(v.clone()).id()
                            }
                            _ => false,
                        };
                        format!(
                            "ok={},{},adj={}",
                            enc::encode(&v.data().unwrap_or_default()),
                            enc::encode(&r.data().unwrap_or_default()),
                            adj as u8
                        )
                    }
                    Err(e) => format!("err:{}", err_class(&e)),
                },
                CD::CData(v) => match v.split_text(o) {
                    Ok(r) => {
                        let adj = match (v.next_sibling(), r.previous_sibling()) {
                            (Some(n), Some(p)) => {
                                n.id() == XmlNode::CData(r.clone()).id()
                                    && p.id() == XmlNode::CData(v.clone()).id()
                            }
                            _ => false,
                        };
                        format!(
                            "ok={},{},adj={}",
                            enc::encode(&v.data().unwrap_or_default()),
                            enc::encode(&r.data().unwrap_or_default()),
                            adj as u8
                        )
                    }
                    Err(e) => format!("err:{}", err_class(&e)),
                },
                _ => "unsupported".to_string(),
            }
        }
        _ => "bad-op".to_string(),
    }
}

// chardata <kind> <content> <op>...   kinds: text | comment | cdata | merged
pub fn chardata(args: &[String]) -> String {
    let kind = args.first().map(|s| s.as_str()).unwrap_or("");
    let content = args.get(1).cloned().unwrap_or_default();
    let chars: Vec<char> = content.chars().collect();
    let (text, ctx) = match kind {
        "text" => (format!("<r>{}</r>", content), false),
        // the same nodes at the deepest place the parser allows (element nesting 128): whatever a call needs from the parent
        // (split_text inserts the tail there) must work at the limit as it does anywhere else
        "deeptext" => (format!("{}<r>{}</r>{}", "<a>".repeat(127), content, "</a>".repeat(127)), false),
        "deepcdata" => (format!("{}<r><![CDATA[{}]]></r>{}", "<a>".repeat(127), content, "</a>".repeat(127)), false),
        "comment" => (format!("<r><!--{}--></r>", content), false),
        "cdata" => (format!("<r><![CDATA[{}]]></r>", content), false),
        "merged" => {
            // first half as character data, second half as a CDATA section: one merged text node
            let h = chars.len() / 2;
            let a: String = chars[..h].iter().collect();
            let b: String = chars[h..].iter().collect();
            (format!("<r>{}<![CDATA[{}]]></r>", a, b), true)
        }
        "mergedent" => {
            // ... with references to declared entities in the run: one of three characters, an empty one, a predefined one
            let h = chars.len() / 2;
            let a: String = chars[..h].iter().collect();
            let b: String = chars[h..].iter().collect();
            (format!("<!DOCTYPE r [<!ENTITY e 'xyz'><!ENTITY z ''>]><r>{}&e;{}&z;&amp;</r>", a, b), true)
        }
        _ => return "bad-op".to_string(),
    };
    let doc = match XmlDocument::from_raw_with_context(&text, Context::from_text_expanded(ctx)) {
        Ok(("", d)) => d,
        _ => return "setup-failed".to_string(),
    };
    let root = match doc.document_element() {
        Ok(r) => r,
        Err(_) => return "setup-failed".to_string(),
    };
    let mut holder: XmlNode = xml_dom::AsNode::as_node(&root);
    if kind.starts_with("deep") {
        for _ in 0..127 {
            holder = match holder.first_child() {
                Some(n) => n,
                None => return "setup-failed".to_string(),
            };
        }
    }
    let first = match holder.first_child() {
        Some(n) => n,
        None => return "setup-failed".to_string(),
    };
    let kind = kind.trim_start_matches("deep");
    let cd = match (kind, first) {
        ("text", XmlNode::Text(v)) => CD::Text(v),
        ("comment", XmlNode::Comment(v)) => CD::Comment(v),
        ("cdata", XmlNode::CData(v)) => CD::CData(v),
        ("merged", XmlNode::ExpandedText(v)) => CD::Merged(v),
        ("mergedent", XmlNode::ExpandedText(v)) => CD::Merged(v),
        _ => return "setup-failed".to_string(),
    };
    let mut out: Vec<String> = vec![];
    for op in &args[2..] {
        let r = catch_unwind(AssertUnwindSafe(|| apply(&cd, op)));
        let r = match r {
            Ok(s) => s,
            Err(_) => "panic".to_string(),
        };
        let st = catch_unwind(AssertUnwindSafe(|| {
            format!("data={},len={}", enc::encode(&cd.data()), cd.length())
        }))
        .unwrap_or_else(|_| "data=panic".to_string());
        out.push(format!("{} {}", r, st));
    }
    out.join(" | ")
}
