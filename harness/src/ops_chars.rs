// Exhaustive extraction of the five character-class predicates (property C18).
use xml_nom::xmlchar;

fn runs(name: &str, f: fn(char) -> bool, panics: &mut Vec<String>) -> String {
    // maximal runs of scalar values on which f is true, as lo-hi in hex, comma separated; a predicate that panics on a
    // value counts as false there and the value is reported in `panics`
    let mut out: Vec<String> = vec![];
    let mut start: Option<u32> = None;
    let mut prev: u32 = 0;
    for cp in 0u32..=0x10FFFF {
        let v = match char::from_u32(cp) {
            Some(c) => match std::panic::catch_unwind(|| f(c)) {
                Ok(b) => b,
                Err(_) => {
                    if panics.len() < 8 {
                        panics.push(format!("{}:{:X}", name, cp));
                    }
                    false
                }
            },
            None => false,
        };
        if v {
            if start.is_none() {
                start = Some(cp);
            }
            prev = cp;
        } else if let Some(s) = start.take() {
            out.push(format!("{:X}-{:X}", s, prev));
        }
    }
    if let Some(s) = start.take() {
        out.push(format!("{:X}-{:X}", s, prev));
    }
    out.join(",")
}

pub fn classes() -> String {
    let mut panics: Vec<String> = vec![];
    let a = runs("char", xmlchar::is_char, &mut panics);
    let b = runs("namestart", xmlchar::is_name_start_char, &mut panics);
    let c = runs("namechar", xmlchar::is_name_char, &mut panics);
    let d = runs("pubid", xmlchar::is_pubid_char, &mut panics);
    let e = runs("encname", xmlchar::is_enc_name, &mut panics);
    format!("char={} namestart={} namechar={} pubid={} encname={} panics={}", a, b, c, d, e, panics.join(","))
}

// class1 <hex code point>: the five answers for one scalar value (used by replays)
pub fn class1(args: &[String]) -> String {
    let cp = u32::from_str_radix(args.first().map(|s| s.as_str()).unwrap_or("0"), 16).unwrap_or(0);
    match char::from_u32(cp) {
        Some(c) => format!(
            "char={} namestart={} namechar={} pubid={} encname={}",
            xmlchar::is_char(c) as u8,
            xmlchar::is_name_start_char(c) as u8,
            xmlchar::is_name_char(c) as u8,
            xmlchar::is_pubid_char(c) as u8,
            xmlchar::is_enc_name(c) as u8
        ),
        None => "not-scalar".to_string(),
    }
}

// wrapper <name> <except>: exhaustive check of one `xmlchar::*_except*` parser constructor (and enc_name0): on every
// scalar value c the parser applied to the one-character string must accept c  iff  class(c) && !except.contains(c)
// (zero-or-more wrappers: "consumes the character").  Answer: `ok` or `diff:<hex>,<hex>...` (first 8 offenders).
pub fn wrapper(args: &[String]) -> String {
    type E<'a> = nom::error::Error<&'a str>;
    let name = args.first().map(|s| s.as_str()).unwrap_or("");
    let except = args.get(1).map(|s| s.as_str()).unwrap_or("");
    let mut bad: Vec<String> = vec![];
    let mut buf = [0u8; 4];
    for cp in 0u32..=0x10FFFF {
        let c = match char::from_u32(cp) {
            Some(c) => c,
            None => continue,
        };
        let s: &str = c.encode_utf8(&mut buf);
        let (got, class) = match name {
            "char_except0" => (
                matches!(xmlchar::char_except0::<&str, E>(except)(s), Ok((r, _)) if r.is_empty()),
                xmlchar::is_char(c),
            ),
            "char_except1" => (
                matches!(xmlchar::char_except1::<&str, E>(except)(s), Ok((r, _)) if r.is_empty()),
                xmlchar::is_char(c),
            ),
            "name_char_except1" => (
                matches!(xmlchar::name_char_except1::<&str, E>(except)(s), Ok((r, _)) if r.is_empty()),
                xmlchar::is_name_char(c),
            ),
            "pubid_char_except0" => (
                matches!(xmlchar::pubid_char_except0::<&str, E>(except)(s), Ok((r, _)) if r.is_empty()),
                xmlchar::is_pubid_char(c),
            ),
            "enc_name0" => (
                matches!(xmlchar::enc_name0::<&str, E>(s), Ok((r, _)) if r.is_empty()),
                xmlchar::is_enc_name(c),
            ),
            _ => return "bad-op".to_string(),
        };
        let want = class && !except.contains(c);
        if got != want {
            bad.push(format!("{:X}", cp));
            if bad.len() >= 8 {
                break;
            }
        }
    }
    if bad.is_empty() {
        "ok".to_string()
    } else {
        format!("diff:{}", bad.join(","))
    }
}
