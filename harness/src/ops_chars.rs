// Exhaustive extraction of the five character-class predicates (property C18).
use xml_nom::xmlchar;

fn runs(f: fn(char) -> bool) -> String {
    // maximal runs of scalar values on which f is true, as lo-hi in hex, comma separated
    let mut out: Vec<String> = vec![];
    let mut start: Option<u32> = None;
    let mut prev: u32 = 0;
    for cp in 0u32..=0x10FFFF {
        let v = match char::from_u32(cp) {
            Some(c) => f(c),
            None => false,
        };
        if v {
            if start.is_none() {
                start = Some(cp);
            }
            prev = cp;
        } else if let Some(s) = start.take() {
            out.push(format!("{:X}-{:X}", s, prev));
        }
    }
    if let Some(s) = start.take() {
        out.push(format!("{:X}-{:X}", s, prev));
    }
    out.join(",")
}

pub fn classes() -> String {
    format!(
        "char={} namestart={} namechar={} pubid={} encname={}",
        runs(xmlchar::is_char),
        runs(xmlchar::is_name_start_char),
        runs(xmlchar::is_name_char),
        runs(xmlchar::is_pubid_char),
        runs(xmlchar::is_enc_name)
    )
}

// class1 <hex code point>: the five answers for one scalar value (used by replays)
pub fn class1(args: &[String]) -> String {
    let cp = u32::from_str_radix(args.first().map(|s| s.as_str()).unwrap_or("0"), 16).unwrap_or(0);
    match char::from_u32(cp) {
        Some(c) => format!(
            "char={} namestart={} namechar={} pubid={} encname={}",
            xmlchar::is_char(c) as u8,
            xmlchar::is_name_start_char(c) as u8,
            xmlchar::is_name_char(c) as u8,
            xmlchar::is_pubid_char(c) as u8,
            xmlchar::is_enc_name(c) as u8
        ),
        None => "not-scalar".to_string(),
    }
}
