// xmlrs-driver: implementation side of the line protocol (see /verif/DESIGN.md section 3).
// One request per line: OP<TAB>arg..., arguments percent-encoded; one response line per request.
// Every request is run under catch_unwind; a panic is reported as the outcome class `panic`.

mod enc;
mod ops_chars;
mod ops_dom;
mod ops_domhist;
mod ops_names;
mod ops_xml;
mod ops_xpath;

use std::io::{self, BufRead, Write};
use std::panic;

fn dispatch(op: &str, args: &[String]) -> String {
    match op {
        "classes" => ops_chars::classes(),
        "class1" => ops_chars::class1(args),
        "wrapper" => ops_chars::wrapper(args),
        "accept" => ops_xml::accept(args),
        "parse" => ops_xml::parse(args),
        "pipeline" => ops_xml::pipeline(args),
        "pipelinek" => ops_xml::pipelinek(args),
        "roundtrip" => ops_xml::roundtrip(args),
        "parse2" => ops_xml::parse2(args),
        "print" => ops_xml::print(args),
        "sinks" => ops_xml::sinks(args),
        "attrs" => ops_xml::attrs(args),
        "nsinfo" => ops_xml::nsinfo(args),
        "chardata" => ops_dom::chardata(args),
        "dom" => ops_domhist::dom(args),
        "domx" => ops_domhist::domx(args),
        "foreign" => ops_domhist::foreign(args),
        "nameok" => ops_names::nameok(args),
        "query" => ops_xpath::query(args),
        "qfresh" => ops_xpath::qfresh(args),
        "qswitch" => ops_xpath::qswitch(args),
        _ => "bad-op".to_string(),
    }
}

fn main() {
    // Keep panic messages off stderr unless asked for: the outcome class is what is compared.
    if std::env::var("XMLRS_DRIVER_VERBOSE").is_err() {
        panic::set_hook(Box::new(|_| {}));
    }
    // Watchdog: a request that runs longer than the limit (a cycle in the tree, an exponential parse) is answered
    // with the outcome class `timeout` and the process ends with status 3; the caller resumes with the next line.
    let limit_ms: u64 = std::env::var("XMLRS_LINE_TIMEOUT_MS").ok().and_then(|v| v.parse().ok()).unwrap_or(20_000);
    let started = std::sync::Arc::new(std::sync::atomic::AtomicU64::new(0));
    let clock = std::time::Instant::now();
    {
        let started = started.clone();
        std::thread::spawn(move || loop {
            std::thread::sleep(std::time::Duration::from_millis(50));
            let s = started.load(std::sync::atomic::Ordering::SeqCst);
            if s != 0 && clock.elapsed().as_millis() as u64 > s + limit_ms {
                // nothing of the running request has been written yet (responses are written whole)
                let _ = writeln!(io::stdout(), "timeout");
                let _ = io::stdout().flush();
                std::process::exit(3);
            }
        });
    }
    let stdin = io::stdin();
    for line in stdin.lock().lines() {
        let line = match line {
            Ok(l) => l,
            Err(_) => break,
        };
        let mut parts = line.split('\t');
        let op = parts.next().unwrap_or("").to_string();
        let args: Vec<String> = parts.map(enc::decode).collect();
        started.store(clock.elapsed().as_millis() as u64 + 1, std::sync::atomic::Ordering::SeqCst);
        let res = panic::catch_unwind(|| dispatch(&op, &args));
        started.store(0, std::sync::atomic::Ordering::SeqCst);
        let text = match res {
            Ok(s) => s,
            Err(_) => "panic".to_string(),
        };
        let mut out = io::stdout().lock();
        let _ = writeln!(out, "{}", text);
        let _ = out.flush();
    }
}
