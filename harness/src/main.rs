// xmlrs-driver: implementation side of the line protocol (see /verif/DESIGN.md section 3).
// One request per line: OP<TAB>arg..., arguments percent-encoded; one response line per request.
// Every request is run under catch_unwind; a panic is reported as the outcome class `panic`.

mod enc;
mod ops_chars;
mod ops_dom;
mod ops_domhist;
mod ops_names;
mod ops_xml;
mod ops_xpath;

use std::io::{self, BufRead, Write};
use std::panic;

fn dispatch(op: &str, args: &[String]) -> String {
    match op {
        "classes" => ops_chars::classes(),
        "class1" => ops_chars::class1(args),
        "wrapper" => ops_chars::wrapper(args),
        "accept" => ops_xml::accept(args),
        "parse" => ops_xml::parse(args),
        "pipeline" => ops_xml::pipeline(args),
        "roundtrip" => ops_xml::roundtrip(args),
        "print" => ops_xml::print(args),
        "attrs" => ops_xml::attrs(args),
        "chardata" => ops_dom::chardata(args),
        "dom" => ops_domhist::dom(args),
        "nameok" => ops_names::nameok(args),
        "query" => ops_xpath::query(args),
        "qfresh" => ops_xpath::qfresh(args),
        _ => "bad-op".to_string(),
    }
}

fn main() {
    // Keep panic messages off stderr unless asked for: the outcome class is what is compared.
    if std::env::var("XMLRS_DRIVER_VERBOSE").is_err() {
        panic::set_hook(Box::new(|_| {}));
    }
    let stdin = io::stdin();
    let stdout = io::stdout();
    let mut out = stdout.lock();
    for line in stdin.lock().lines() {
        let line = match line {
            Ok(l) => l,
            Err(_) => break,
        };
        let mut parts = line.split('\t');
        let op = parts.next().unwrap_or("").to_string();
        let args: Vec<String> = parts.map(enc::decode).collect();
        let res = panic::catch_unwind(|| dispatch(&op, &args));
        let text = match res {
            Ok(s) => s,
            Err(_) => "panic".to_string(),
        };
        let _ = writeln!(out, "{}", text);
        let _ = out.flush();
    }
}
