// DOM edit histories (properties C12 - C15).
//   dom <text> <exprs> <op> <op> ...
//     <text>  initial document (raw DOM view).  <exprs>: `;`-separated XPath expressions evaluated after every step on the
//     edited document and on a fresh parse of its serialization (C14), may be empty.
//     Handles: h0 = the document, then its nodes in pre-order (element, its attributes, their value items, its children);
//     every node returned by a later operation gets the next handle.
//     Operations (fields separated by `:`; strings percent-encoded once more inside the field):
//       ce:name ct:data cc:data cd:data cp:target:data ca:name cr:name      factories
//       ap:p:c  ib:p:c:ref|-  rc:p:new:old  rm:p:c                         NodeMut
//       sa:e:name:value  ra:e:name  san:e:a  ran:e:a  ga:e:name  ch:n:i    attributes / navigation that hands out handles
//       sni:e:a  rni:e:name  gni:e:name                                    the same through Node.attributes (NamedNodeMap)
//       sv:n:value  sd:n:data  ad:n:data  id:n:off:data  dd:n:off:cnt  rd:n:off:cnt:data  st:n:off  nz:e
//     Answer: one record per step separated by ` | `:
//       <status> {<dump>} inv=<ok|BAD(..)> ord=<ok|BAD(..)> rt=<ok|skip|BAD(..)> q=<ok|skip|BAD(..)>
//     status: ok | ok=hN | ok=<enc string> | err:<class> | panic
//     dump: the document tree and the detached trees of live handles, with handles (h? = a node without handle)
use crate::enc::{decode, encode as e};
use crate::ops_dom::err_class;
use std::collections::HashMap;
use std::panic::{catch_unwind, AssertUnwindSafe};
use xml_dom::{
    AsNode, Attr, AttrMut, CharacterData, CharacterDataMut, Context, Document, DocumentMut, DocumentType, Element, ElementMut,
    NamedNodeMap, NamedNodeMapMut, Node, NodeList, NodeMut, NodeType, ProcessingInstruction, ProcessingInstructionMut, TextMut,
    XmlDocument, XmlNode,
};

struct St {
    doc: XmlDocument,
    handles: Vec<Option<XmlNode>>,
    by_id: HashMap<usize, usize>,
    // the document was read with text expansion on (the view xq / xe use): `domx`
    expanded: bool,
    // the XPath evaluation context of the caller, kept across the whole history
    qctx: std::cell::RefCell<xml_xpath::eval::model::Context>,
    // SECOND HANDLES: the child list of every node that can have children, obtained when the node was first seen and kept
    // (a NodeList is live: whenever it is read it must list what a fresh child_nodes() lists)
    held: Vec<(XmlNode, xml_dom::XmlNodeList)>,
    held_maps: Vec<(XmlNode, xml_dom::XmlNamedNodeMap<xml_dom::XmlAttr>)>,
}

impl St {
    // every allocating operation consumes exactly one handle slot, whether it yields a node or not, so that the
    // numbering of handles does not depend on the outcome of earlier operations
    fn slot(&mut self, n: Option<XmlNode>) -> usize {
        if let Some(node) = &n {
            let id = node.id();
            if id != 0 && !self.by_id.contains_key(&id) {
                self.by_id.insert(id, self.handles.len());
                if !self.expanded && matches!(node.node_type(), NodeType::Element | NodeType::Document | NodeType::Attribute) {
                    self.held.push((node.clone(), node.child_nodes()));
                    if let Some(m) = node.attributes() {
                        self.held_maps.push((node.clone(), m));
                    }
                }
            }
        }
        self.handles.push(n);
        self.handles.len() - 1
    }

    fn add(&mut self, n: XmlNode) -> usize {
        self.slot(Some(n))
    }

    fn number(&mut self, n: &XmlNode, depth: usize) {
        if depth > 500 {
            return;
        }
        self.add(n.clone());
        if let Some(map) = n.attributes() {
            for i in 0..map.length() {
                if let Some(a) = map.item(i) {
                    self.number(&a.as_node(), depth + 1);
                }
            }
        }
        let kids = n.child_nodes();
        for i in 0..kids.length() {
            if let Some(k) = kids.item(i) {
                self.number(&k, depth + 1);
            }
        }
    }

    fn h(&self, n: &XmlNode) -> String {
        match self.by_id.get(&n.id()) {
            Some(h) if n.id() != 0 => format!("h{}", h),
            _ => "h?".to_string(),
        }
    }

    fn get(&self, s: &str) -> Option<XmlNode> {
        let i: usize = s.trim_start_matches('h').parse().ok()?;
        self.handles.get(i).cloned().flatten()
    }
}

fn dump(st: &St, n: &XmlNode, depth: usize, seen: &mut Vec<usize>) -> String {
    if depth > 300 {
        return "DEPTH".to_string();
    }
    let id = n.id();
    if id != 0 && seen.contains(&id) {
        return format!("{}:CYCLE-OR-SHARED", st.h(n));
    }
    seen.push(id);
    let kids = |st: &St, n: &XmlNode, seen: &mut Vec<usize>| -> String {
        let l = n.child_nodes();
        let mut out = String::new();
        for i in 0..l.length() {
            if let Some(k) = l.item(i) {
                out.push_str(&dump(st, &k, depth + 1, seen));
            }
        }
        out
    };
    let body = match n {
        XmlNode::Document(_) => format!("D[{}]", kids(st, n, seen)),
        XmlNode::DocumentFragment(_) => format!("F[{}]", kids(st, n, seen)),
        XmlNode::Element(_) => {
            let mut attrs = String::new();
            if let Some(map) = n.attributes() {
                for i in 0..map.length() {
                    if let Some(a) = map.item(i) {
                        attrs.push_str(&dump(st, &a.as_node(), depth + 1, seen));
                    }
                }
            }
            format!("E({})[{}][{}]", e(&n.node_name()), attrs, kids(st, n, seen))
        }
        XmlNode::Attribute(a) => format!("A({},{})[{}]", e(&a.node_name()), a.specified() as u8, kids(st, n, seen)),
        XmlNode::Text(t) => format!("T({})", e(&t.data().unwrap_or_else(|_| "\u{0}ERR".to_string()))),
        XmlNode::CData(t) => format!("S({})", e(&t.data().unwrap_or_else(|_| "\u{0}ERR".to_string()))),
        XmlNode::Comment(t) => format!("C({})", e(&t.data().unwrap_or_else(|_| "\u{0}ERR".to_string()))),
        XmlNode::PI(p) => format!("P({},{})", e(&p.target()), e(&ProcessingInstruction::data(p))),
        XmlNode::EntityReference(_) => format!("R({})", e(&n.node_name())),
        XmlNode::DocumentType(_) => format!("Y({})", e(&n.node_name())),
        XmlNode::ExpandedText(t) => format!("M({})", e(&t.data().unwrap_or_default())),
        _ => "?".to_string(),
    };
    format!("{}:{}", st.h(n), body)
}

fn same(a: &Option<XmlNode>, b: &Option<XmlNode>) -> bool {
    match (a, b) {
        (None, None) => true,
        (Some(x), Some(y)) => x.id() == y.id() && x.id() != 0,
        _ => false,
    }
}

// property C12 evaluated directly on the real navigation views, for one subtree
fn inv_walk(n: &XmlNode, bad: &mut Vec<String>, seen: &mut Vec<usize>, depth: usize, attached: bool, ords: &mut Vec<usize>) {
    if depth > 300 {
        bad.push("depth".to_string());
        return;
    }
    let id = n.id();
    if seen.contains(&id) {
        bad.push(format!("node {} occurs twice or beneath itself", id));
        return;
    }
    seen.push(id);
    ords.push(n.order());
    // nodeValue is the data / value of the kinds that have one and null for the others; getAttribute is the value of the
    // attribute node of that name
    let nv = n.node_value().unwrap_or(Some("\u{0}ERR".to_string()));
    let want = match n {
        XmlNode::Text(t) => t.data().ok().map(Some),
        XmlNode::CData(t) => t.data().ok().map(Some),
        XmlNode::Comment(t) => t.data().ok().map(Some),
        XmlNode::PI(p) => Some(Some(ProcessingInstruction::data(p))),
        XmlNode::Attribute(a) => a.value().ok().map(Some),
        XmlNode::Element(_) | XmlNode::Document(_) | XmlNode::DocumentType(_) | XmlNode::EntityReference(_) => Some(None),
        _ => None,
    };
    if let Some(w) = want {
        if w != nv {
            bad.push(format!("node_value of {}: {:?}, the typed accessor says {:?}", id, nv, w));
        }
    }
    // the value an attribute reports is the value its items denote NOW (compared modulo white space, which the declared type
    // may collapse): an attribute whose items are all Text nodes reports their data, one after the other
    if let XmlNode::Attribute(a) = n {
        let kids = n.child_nodes();
        let mut all_text = true;
        let mut cat = String::new();
        for i in 0..kids.length() {
            match kids.item(i) {
                Some(XmlNode::Text(t)) => cat.push_str(&t.data().unwrap_or_default()),
                _ => all_text = false,
            }
        }
        if all_text {
            let squeeze = |s: &str| s.split(|c| c == ' ' || c == '\t' || c == '\r' || c == '\n').filter(|p| !p.is_empty()).collect::<Vec<_>>().join(" ");
            if let Ok(v) = a.value() {
                if squeeze(&v) != squeeze(&cat) {
                    bad.push(format!("attribute {} reports the value {:?}, its items hold {:?}", id, v, cat));
                }
            }
        }
    }
    if let XmlNode::Element(el) = n {
        if let Some(map) = n.attributes() {
            for i in 0..map.length() {
                if let Some(a) = map.item(i) {
                    let nm = a.name();
                    let first = el.get_attribute_node(&nm).and_then(|x| x.value().ok()).unwrap_or_default();
                    if el.get_attribute(&nm) != first {
                        bad.push(format!("get_attribute({}) of {} differs from the value of get_attribute_node", nm, id));
                    }
                }
            }
        }
    }
    if let Some(map) = n.attributes() {
        for i in 0..map.length() {
            if let Some(a) = map.item(i) {
                let an = a.as_node();
                if a.specified() {
                    inv_walk(&an, bad, seen, depth + 1, attached, ords);
                }
            }
        }
    }
    let l = n.child_nodes();
    let len = l.length();
    let kids: Vec<XmlNode> = (0..len).filter_map(|i| l.item(i)).collect();
    if kids.len() != len {
        bad.push(format!("child_nodes of {}: length {} but {} items", id, len, kids.len()));
    }
    if !same(&n.first_child(), &kids.first().cloned()) {
        bad.push(format!("first_child of {}", id));
    }
    if !same(&n.last_child(), &kids.last().cloned()) {
        bad.push(format!("last_child of {}", id));
    }
    if n.has_child() != !kids.is_empty() {
        bad.push(format!("has_child of {}", id));
    }
    for (i, k) in kids.iter().enumerate() {
        match k.parent_node() {
            Some(p) if p.id() == id => {}
            other => bad.push(format!(
                "child {} of {} reports parent {:?}",
                k.id(),
                id,
                other.map(|p| p.id())
            )),
        }
        let prev = if i > 0 { Some(kids[i - 1].clone()) } else { None };
        let next = kids.get(i + 1).cloned();
        if !same(&k.previous_sibling(), &prev) {
            bad.push(format!("previous_sibling of {} (child {} of {})", k.id(), i, id));
        }
        if !same(&k.next_sibling(), &next) {
            bad.push(format!("next_sibling of {} (child {} of {})", k.id(), i, id));
        }
        inv_walk(k, bad, seen, depth + 1, attached, ords);
    }
}

fn snapshot(st: &St) -> String {
    let mut seen: Vec<usize> = vec![];
    let mut s = dump(st, &st.doc.as_node(), 0, &mut seen);
    for n in st.handles.iter().flatten() {
        if seen.contains(&n.id()) {
            continue;
        }
        // detached roots only (a node whose parent is alive is dumped with its parent)
        if n.parent_node().is_some() {
            continue;
        }
        if let XmlNode::Attribute(a) = n {
            // an attribute owned by an element is dumped with that element
            if a.owner_element().is_some() {
                continue;
            }
        }
        s.push_str(" ~ ");
        s.push_str(&dump(st, n, 0, &mut seen));
    }
    s
}

fn monitors(st: &St, exprs: &[String]) -> String {
    let mut bad: Vec<String> = vec![];
    let mut seen: Vec<usize> = vec![];
    let mut ords: Vec<usize> = vec![];
    let root = st.doc.as_node();
    inv_walk(&root, &mut bad, &mut seen, 0, true, &mut ords);
    // at most one document element and one document type
    let l = root.child_nodes();
    let mut ne = 0;
    let mut nt = 0;
    for i in 0..l.length() {
        match l.item(i).map(|k| k.node_type()) {
            Some(NodeType::Element) => ne += 1,
            Some(NodeType::DocumentType) => nt += 1,
            _ => {}
        }
    }
    if ne > 1 || nt > 1 {
        bad.push(format!("document has {} elements and {} doctypes", ne, nt));
    }
    for (n, m) in st.held_maps.iter() {
        let ids = |m: &xml_dom::XmlNamedNodeMap<xml_dom::XmlAttr>| -> Vec<usize> { (0..m.length()).filter_map(|i| m.item(i)).map(|k| k.as_node().id()).collect() };
        if let Some(f) = n.attributes() {
            let (a, b) = (ids(m), ids(&f));
            if a != b {
                bad.push(format!("a NamedNodeMap obtained earlier from element {} lists {:?} where a fresh attributes() lists {:?}", n.id(), a, b));
                break;
            }
        }
    }
    // the lists held since the nodes were first seen are live
    for (n, l) in st.held.iter() {
        let ids = |l: &xml_dom::XmlNodeList| -> Vec<usize> { (0..l.length()).filter_map(|i| l.item(i)).map(|k| k.id()).collect() };
        let (a, b) = (ids(l), ids(&n.child_nodes()));
        if a != b {
            bad.push(format!("a NodeList obtained earlier from node {} lists {:?} where a fresh child_nodes() lists {:?}", n.id(), a, b));
            break;
        }
    }
    // every node of the document names that document as its owner; the document itself has none
    {
        fn owners(n: &XmlNode, doc_id: usize, bad: &mut Vec<String>, depth: usize) {
            if depth > 300 {
                return;
            }
            let l = n.child_nodes();
            for i in 0..l.length() {
                if let Some(k) = l.item(i) {
                    match k.owner_document() {
                        Some(d) if d.as_node().id() == doc_id => {}
                        other => bad.push(format!("owner_document of node {} is {:?}", k.id(), other.map(|d| d.as_node().id()))),
                    }
                    owners(&k, doc_id, bad, depth + 1);
                }
            }
        }
        if root.owner_document().is_some() {
            bad.push("the document node has an owner document".to_string());
        }
        owners(&root, root.id(), &mut bad, 0);
    }
    // another view of the same tree: getElementsByTagName("*") lists the elements below the document in pre-order
    {
        fn pre(n: &XmlNode, out: &mut Vec<usize>, depth: usize) {
            if depth > 300 {
                return;
            }
            let l = n.child_nodes();
            for i in 0..l.length() {
                if let Some(k) = l.item(i) {
                    if k.node_type() == NodeType::Element {
                        out.push(k.id());
                    }
                    pre(&k, out, depth + 1);
                }
            }
        }
        let mut walk: Vec<usize> = vec![];
        pre(&root, &mut walk, 0);
        let list = st.doc.get_elements_by_tag_name("*");
        let got: Vec<usize> = (0..list.length()).filter_map(|i| list.item(i)).map(|x| x.id()).collect();
        if got != walk {
            bad.push(format!("get_elements_by_tag_name(*) lists {:?}, the child lists give {:?}", got, walk));
        }
        // ... and by name, from the document and from the document element (its descendants only)
        if let Ok(re) = st.doc.document_element() {
            fn named(n: &XmlNode, name: &str, out: &mut Vec<usize>, depth: usize) {
                if depth > 300 {
                    return;
                }
                let l = n.child_nodes();
                for i in 0..l.length() {
                    if let Some(k) = l.item(i) {
                        if k.node_type() == NodeType::Element && (name == "*" || k.node_name() == name) {
                            out.push(k.id());
                        }
                        named(&k, name, out, depth + 1);
                    }
                }
            }
            for name in ["a", "b", re.tag_name().as_str(), "*"] {
                let mut w1: Vec<usize> = vec![];
                named(&root, name, &mut w1, 0);
                let l1 = st.doc.get_elements_by_tag_name(name);
                let g1: Vec<usize> = (0..l1.length()).filter_map(|i| l1.item(i)).map(|x| x.id()).collect();
                let mut w2: Vec<usize> = vec![];
                named(&re.as_node(), name, &mut w2, 0);
                let l2 = re.get_elements_by_tag_name(name);
                let g2: Vec<usize> = (0..l2.length()).filter_map(|i| l2.item(i)).map(|x| x.id()).collect();
                // (the element's own list: whether the element itself is listed when it matches is not part of any
                // property checked here - the library lists it -, the descendants and their order are)
                let g2d: Vec<usize> = g2.iter().cloned().filter(|x| *x != re.as_node().id()).collect();
                if g1 != w1 || g2d != w2 {
                    bad.push(format!("get_elements_by_tag_name({}) document {:?} vs {:?}, element {:?} vs {:?}", name, g1, w1, g2, w2));
                }
            }
        }
    }
    // the entity and notation maps of the document type are read-only: NO_MODIFICATION_ALLOWED_ERR, nothing changes
    for i in 0..l.length() {
        if let Some(XmlNode::DocumentType(y)) = l.item(i) {
            let en = y.entities();
            let no = y.notations();
            let (le, ln) = (en.length(), no.length());
            let mut rs: Vec<String> = vec![];
            rs.push(en.remove_named_item("e").map(|_| "ok".to_string()).unwrap_or_else(|er| err_class(&er)));
            rs.push(no.remove_named_item("n").map(|_| "ok".to_string()).unwrap_or_else(|er| err_class(&er)));
            if let Some(it) = en.item(0) {
                rs.push(en.set_named_item(it).map(|_| "ok".to_string()).unwrap_or_else(|er| err_class(&er)));
            }
            if let Some(it) = no.item(0) {
                rs.push(no.set_named_item(it).map(|_| "ok".to_string()).unwrap_or_else(|er| err_class(&er)));
            }
            if rs.iter().any(|r| r != "nomod") || en.length() != le || no.length() != ln {
                bad.push(format!("entity / notation map of the document type is not read-only: {:?}", rs));
            }
        }
    }
    // C14: keys of attached nodes non-zero, strictly increasing along the walk
    let mut obad: Vec<String> = vec![];
    for w in ords.windows(2) {
        if w[0] >= w[1] {
            obad.push(format!("{}>={}", w[0], w[1]));
            break;
        }
    }
    if ords.iter().any(|o| *o == 0) {
        obad.push("zero key on an attached node".to_string());
    }
    // detached trees: a root without parent, consistent views, all keys 0
    for (h, n) in st.handles.iter().enumerate() {
        let n = match n {
            Some(n) => n,
            None => continue,
        };
        if seen.contains(&n.id()) {
            continue;
        }
        // climb to the root of the detached tree
        let mut top = n.clone();
        let mut guard = 0;
        while let Some(p) = top.parent_node() {
            top = p;
            guard += 1;
            if guard > 400 {
                bad.push(format!("h{}: parent chain does not end", h));
                break;
            }
        }
        // an attribute is not a child of its element: continue from the element that bears it
        let mut guard2 = 0;
        while let XmlNode::Attribute(a) = &top {
            match a.owner_element() {
                Some(el) => {
                    top = el.as_node();
                    while let Some(p) = top.parent_node() {
                        top = p;
                        guard2 += 1;
                        if guard2 > 400 {
                            break;
                        }
                    }
                }
                None => break,
            }
            guard2 += 1;
            if guard2 > 400 {
                break;
            }
        }
        if seen.contains(&top.id()) {
            if let XmlNode::Attribute(_) = n {
                continue; // attribute of an attached element reached through its handle
            }
            if top.id() == root.id() {
                bad.push(format!("h{} (id {}) is not listed under the document although its parent chain ends there", h, n.id()));
            }
            continue;
        }
        let mut dords: Vec<usize> = vec![];
        inv_walk(&top, &mut bad, &mut seen, 0, false, &mut dords);
        if dords.iter().any(|o| *o != 0) {
            obad.push(format!("detached tree of h{} has non-zero keys {:?}", h, dords));
        }
    }
    // C15 / C14: serialize, re-parse, compare dumps and query results
    let text = format!("{}", st.doc);
    let (rt, q) = match XmlDocument::from_raw_with_context(&text, Context::from_text_expanded(st.expanded)) {
        Ok(("", d2)) => {
            let fresh = St { doc: d2.clone(), handles: vec![], by_id: HashMap::new(), expanded: st.expanded, qctx: Default::default(), held: vec![], held_maps: vec![] };
            let a = plain_dump(&st.doc.as_node());
            let b = plain_dump(&fresh.doc.as_node());
            // with text expansion on, the segmentation of character data into merged nodes is not comparable
            let (a, b) = if st.expanded { (String::new(), String::new()) } else { (a, b) };
            let rt = if st.expanded { "skip".to_string() } else if a == b { "ok".to_string() } else { format!("BAD(reparsed differs: {} vs {} text={})", a, b, e(&text)) };
            let mut qbad: Vec<String> = vec![];
            if a == b {
                // C19: evaluating a query changes nothing in the document (tree shape, node identities, segmentation
                // of character data): the full snapshot before and after the queries must be the same
                let before = snapshot(st);
                for ex in exprs {
                    let la = crate::ops_xpath::Locator::new_merged(&st.doc);
                    let lb = crate::ops_xpath::Locator::new_merged(&d2);
                    // the edited document is queried through ONE evaluation context that lives as long as the history
                    // (a caller that edits and queries in turn keeps its context); the fresh parse gets a fresh one
                    let mut c1 = st.qctx.borrow_mut();
                    let mut c2 = xml_xpath::eval::model::Context::default();
                    let r1 = xml_xpath::query(st.doc.clone(), ex, &mut c1)
                        .map(|v| strip(&crate::ops_xpath::show_value(&v, &la)))
                        .unwrap_or_else(|er| format!("err:{}", crate::ops_xpath::err_class(&format!("{:?}", er))));
                    let r2 = xml_xpath::query(d2.clone(), ex, &mut c2)
                        .map(|v| strip(&crate::ops_xpath::show_value(&v, &lb)))
                        .unwrap_or_else(|er| format!("err:{}", crate::ops_xpath::err_class(&format!("{:?}", er))));
                    if r1 != r2 {
                        qbad.push(format!("{}: edited {} reparsed {}", e(ex), r1, r2));
                    }
                }
                let after = snapshot(st);
                if before != after {
                    qbad.push(format!("SIDE-EFFECT the queries changed the document: {} -> {}", before, after));
                }
            }
            (rt, if qbad.is_empty() { "ok".to_string() } else { format!("BAD({})", qbad.join(";")) })
        }
        Ok((rest, _)) => (format!("BAD(rest={} text={})", e(rest), e(&text)), "skip".to_string()),
        Err(_) => {
            if st.doc.document_element().is_err() {
                ("skip".to_string(), "skip".to_string()) // no document element: not a document the parser could accept
            } else {
                (format!("BAD(serialization does not parse: {})", e(&text)), "skip".to_string())
            }
        }
    };
    format!(
        "inv={} ord={} rt={} q={}",
        if bad.is_empty() { "ok".to_string() } else { format!("BAD({})", bad.join(";")) },
        if obad.is_empty() { "ok".to_string() } else { format!("BAD({})", obad.join(";")) },
        rt,
        q
    )
}

fn strip(f: &str) -> String {
    if let Some(body) = f.strip_prefix("N:[") {
        let body = body.trim_end_matches(']');
        let items: Vec<&str> = if body.is_empty() { vec![] } else { body.split(';').collect() };
        // positions in a numbering that ignores how character data is cut into nodes: an empty text node has no
        // counterpart in a re-parse, the pieces of one run of character data share one position
        let mut paths: Vec<&str> = vec![];
        for i in items.iter().map(|i| i.split('~').next().unwrap_or("")) {
            if i.ends_with("/!empty") || paths.last() == Some(&i) {
                continue;
            }
            paths.push(i);
        }
        format!("N:[{}]", paths.join(";"))
    } else {
        f.to_string()
    }
}

// dump without handles, adjacent text nodes merged (what a re-parse can reproduce)
fn plain_dump(n: &XmlNode) -> String {
    let empty = St { doc: match n { XmlNode::Document(d) => d.clone(), _ => return String::new() }, handles: vec![], by_id: HashMap::new(), expanded: false, qctx: Default::default(), held: vec![], held_maps: vec![] };
    let mut seen = vec![];
    let d = dump(&empty, n, 0, &mut seen).replace("h?:", "");
    // an empty text node denotes no character; adjacent text nodes read back as one; a reference to a predefined
    // entity denotes its character (the printer writes `>` after `]]` as `&gt;`)
    let mut out = d
        .replace("R(amp)", "T(%26)")
        .replace("R(lt)", "T(%3C)")
        .replace("R(gt)", "T(%3E)")
        .replace("R(quot)", "T(%22)")
        .replace("R(apos)", "T(%27)")
        .replace("T()", "");
    loop {
        let next = merge_text(&out);
        if next == out {
            break;
        }
        out = next;
    }
    out
}

fn merge_text(s: &str) -> String {
    // T(a)T(b) -> T(ab)   (percent-encoded payloads concatenate); every occurrence is tried
    let mut from = 0;
    while let Some(off) = s[from..].find(")T(") {
        let i = from + off;
        if let Some(j) = s[..i].rfind('(') {
            // the bracket that closes at i was opened at j: it must belong to a text node `T(`
            if j >= 1 && &s[j - 1..j] == "T" && (j < 2 || !s[j - 2..j - 1].chars().all(|c| c.is_ascii_alphabetic())) {
                return format!("{}{}", &s[..i], &s[i + 3..]);
            }
        }
        from = i + 1;
    }
    s.to_string()
}

fn field(parts: &[&str], i: usize) -> String {
    decode(parts.get(i).copied().unwrap_or(""))
}

fn unit(r: Result<(), xml_dom::error::Error>) -> String {
    match r {
        Ok(()) => "ok".to_string(),
        Err(er) => format!("err:{}", err_class(&er)),
    }
}

fn apply(st: &mut St, op: &str) -> String {
    let parts: Vec<&str> = op.split(':').collect();
    let name = parts[0];
    let node = |st: &St, i: usize| -> Result<XmlNode, String> { st.get(parts.get(i).copied().unwrap_or("")).ok_or_else(|| "bad-handle".to_string()) };
    macro_rules! n {
        ($i:expr) => {
            match node(st, $i) {
                Ok(v) => v,
                Err(s) => return s,
            }
        };
    }
    let newnode = |st: &mut St, r: Result<XmlNode, xml_dom::error::Error>| -> String {
        match r {
            Ok(v) => {
                let h = st.slot(Some(v.clone()));
                let _ = h;
                format!("ok={}", st.h(&v))
            }
            Err(er) => {
                st.slot(None);
                format!("err:{}", err_class(&er))
            }
        }
    };
    match name {
        "ce" => {
            let r = st.doc.create_element(&field(&parts, 1)).map(|v| v.as_node());
            newnode(st, r)
        }
        "ct" => {
            // the factory may panic (recorded finding): the slot is consumed first
            let slot = st.slot(None);
            let v = st.doc.create_text_node(&field(&parts, 1)).as_node();
            if v.id() != 0 && !st.by_id.contains_key(&v.id()) {
                st.by_id.insert(v.id(), slot);
            }
            st.handles[slot] = Some(v.clone());
            format!("ok={}", st.h(&v))
        }
        "cc" => {
            // the factory may panic (recorded finding): the slot is consumed first
            let slot = st.slot(None);
            let v = st.doc.create_comment(&field(&parts, 1)).as_node();
            if v.id() != 0 && !st.by_id.contains_key(&v.id()) {
                st.by_id.insert(v.id(), slot);
            }
            st.handles[slot] = Some(v.clone());
            format!("ok={}", st.h(&v))
        }
        "cd" => {
            // the factory may panic (recorded finding): the slot is consumed first
            let slot = st.slot(None);
            let v = st.doc.create_cdata_section(&field(&parts, 1)).as_node();
            if v.id() != 0 && !st.by_id.contains_key(&v.id()) {
                st.by_id.insert(v.id(), slot);
            }
            st.handles[slot] = Some(v.clone());
            format!("ok={}", st.h(&v))
        }
        "cp" => {
            let r = st.doc.create_processing_instruction(&field(&parts, 1), &field(&parts, 2)).map(|v| v.as_node());
            newnode(st, r)
        }
        "ca" => {
            let r = st.doc.create_attribute(&field(&parts, 1)).map(|v| v.as_node());
            newnode(st, r)
        }
        "cr" => {
            let r = st.doc.create_entity_reference(&field(&parts, 1)).map(|v| v.as_node());
            newnode(st, r)
        }
        "ap" | "ib" | "rc" | "rm" => {
            let p = n!(1);
            let c = n!(2);
            let r = match (&p, name) {
                (XmlNode::Element(x), "ap") => x.append_child(c),
                (XmlNode::Document(x), "ap") => x.append_child(c),
                (XmlNode::Attribute(x), "ap") => x.append_child(c),
                (XmlNode::Element(x), "rm") => x.remove_child(&c),
                (XmlNode::Document(x), "rm") => x.remove_child(&c),
                (XmlNode::Attribute(x), "rm") => x.remove_child(&c),
                (_, "ib") => {
                    let r = if parts.get(3).copied() == Some("-") { None } else { Some(n!(3)) };
                    match &p {
                        XmlNode::Element(x) => x.insert_before(c, r.as_ref()),
                        XmlNode::Document(x) => x.insert_before(c, r.as_ref()),
                        XmlNode::Attribute(x) => x.insert_before(c, r.as_ref()),
                        XmlNode::Text(x) => x.insert_before(c, r.as_ref()),
                        XmlNode::Comment(x) => x.insert_before(c, r.as_ref()),
                        XmlNode::CData(x) => x.insert_before(c, r.as_ref()),
                        XmlNode::PI(x) => x.insert_before(c, r.as_ref()),
                        _ => return "unsupported".to_string(),
                    }
                }
                (_, "rc") => {
                    let old = n!(3);
                    match &p {
                        XmlNode::Element(x) => x.replace_child(c, &old),
                        XmlNode::Document(x) => x.replace_child(c, &old),
                        XmlNode::Attribute(x) => x.replace_child(c, &old),
                        XmlNode::Text(x) => x.replace_child(c, &old),
                        XmlNode::Comment(x) => x.replace_child(c, &old),
                        _ => return "unsupported".to_string(),
                    }
                }
                (XmlNode::Text(x), "ap") => x.append_child(c),
                (XmlNode::Comment(x), "ap") => x.append_child(c),
                (XmlNode::CData(x), "ap") => x.append_child(c),
                (XmlNode::PI(x), "ap") => x.append_child(c),
                (XmlNode::Text(x), "rm") => x.remove_child(&c),
                (XmlNode::Comment(x), "rm") => x.remove_child(&c),
                (XmlNode::CData(x), "rm") => x.remove_child(&c),
                (XmlNode::PI(x), "rm") => x.remove_child(&c),
                _ => return "unsupported".to_string(),
            };
            match r {
                Ok(v) => format!("ok={}", st.h(&v)),
                Err(er) => format!("err:{}", err_class(&er)),
            }
        }
        "sa" => match n!(1) {
            XmlNode::Element(x) => unit(x.set_attribute(&field(&parts, 2), &field(&parts, 3))),
            _ => "unsupported".to_string(),
        },
        "ra" => match n!(1) {
            XmlNode::Element(x) => unit(x.remove_attribute(&field(&parts, 2))),
            _ => "unsupported".to_string(),
        },
        "san" => match (n!(1), n!(2)) {
            (XmlNode::Element(x), XmlNode::Attribute(a)) => match x.set_attribute_node(a) {
                Ok(Some(old)) => format!("ok={}", st.h(&old.as_node())),
                Ok(None) => "ok=-".to_string(),
                Err(er) => format!("err:{}", err_class(&er)),
            },
            _ => "unsupported".to_string(),
        },
        "ran" => match (n!(1), n!(2)) {
            (XmlNode::Element(x), XmlNode::Attribute(a)) => match x.remove_attribute_node(a) {
                Ok(old) => format!("ok={}", st.h(&old.as_node())),
                Err(er) => format!("err:{}", err_class(&er)),
            },
            _ => "unsupported".to_string(),
        },
        // the same three through Node.attributes (NamedNodeMap)
        "sni" => match (n!(1), n!(2)) {
            (XmlNode::Element(x), XmlNode::Attribute(a)) => match x.attributes() {
                Some(map) => match map.set_named_item(a) {
                    Ok(Some(old)) => format!("ok={}", st.h(&old.as_node())),
                    Ok(None) => "ok=-".to_string(),
                    Err(er) => format!("err:{}", err_class(&er)),
                },
                None => "err:nomap".to_string(),
            },
            _ => "unsupported".to_string(),
        },
        "rni" => match n!(1) {
            XmlNode::Element(x) => match x.attributes() {
                Some(map) => match map.remove_named_item(&field(&parts, 2)) {
                    Ok(old) => format!("ok={}", st.h(&old.as_node())),
                    Err(er) => format!("err:{}", err_class(&er)),
                },
                None => "err:nomap".to_string(),
            },
            _ => "unsupported".to_string(),
        },
        "gni" => match n!(1) {
            XmlNode::Element(x) => match x.attributes().and_then(|m| m.get_named_item(&field(&parts, 2))) {
                Some(a) => {
                    st.slot(Some(a.as_node()));
                    format!("ok={}", st.h(&a.as_node()))
                }
                None => {
                    st.slot(None);
                    "ok=-".to_string()
                }
            },
            _ => {
                st.slot(None);
                "unsupported".to_string()
            }
        },
        "ga" => match n!(1) {
            XmlNode::Element(x) => match x.get_attribute_node(&field(&parts, 2)) {
                Some(a) => {
                    st.slot(Some(a.as_node()));
                    format!("ok={}", st.h(&a.as_node()))
                }
                None => {
                    st.slot(None);
                    "ok=-".to_string()
                }
            },
            _ => {
                st.slot(None);
                "unsupported".to_string()
            }
        },
        "ch" => {
            let p = n!(1);
            let i: usize = parts.get(2).and_then(|s| s.parse().ok()).unwrap_or(0);
            match p.child_nodes().item(i) {
                Some(k) => {
                    st.slot(Some(k.clone()));
                    format!("ok={}", st.h(&k))
                }
                None => {
                    st.slot(None);
                    "ok=-".to_string()
                }
            }
        }
        "sv" => {
            let v = field(&parts, 2);
            match n!(1) {
                XmlNode::Element(x) => unit(x.set_node_value(&v)),
                XmlNode::Document(x) => unit(x.set_node_value(&v)),
                XmlNode::Attribute(x) => unit(x.set_value(&v)),
                XmlNode::Text(x) => unit(x.set_node_value(&v)),
                XmlNode::Comment(x) => unit(x.set_node_value(&v)),
                XmlNode::CData(x) => unit(x.set_node_value(&v)),
                XmlNode::PI(x) => unit(x.set_node_value(&v)),
                _ => "unsupported".to_string(),
            }
        }
        "sd" | "ad" | "id" | "dd" | "rd" => {
            let target = n!(1);
            let num = |i: usize| -> usize {
                let s = parts.get(i).copied().unwrap_or("0");
                if s == "M" { usize::MAX } else { s.parse().unwrap_or(0) }
            };
            macro_rules! cdm {
                ($x:expr) => {
                    match name {
                        "sd" => unit($x.set_data(&field(&parts, 2))),
                        "ad" => unit($x.append_data(&field(&parts, 2))),
                        "id" => unit($x.insert_data(num(2), &field(&parts, 3))),
                        "dd" => unit($x.delete_data(num(2), num(3))),
                        _ => unit($x.replace_data(num(2), num(3), &field(&parts, 4))),
                    }
                };
            }
            match target {
                XmlNode::Text(x) => cdm!(x),
                XmlNode::Comment(x) => cdm!(x),
                XmlNode::CData(x) => cdm!(x),
                XmlNode::PI(x) if name == "sd" => unit(ProcessingInstructionMut::set_data(&x, &field(&parts, 2))),
                _ => "unsupported".to_string(),
            }
        }
        "st" => {
            let off: usize = match parts.get(2).copied().unwrap_or("0") {
                "M" => usize::MAX,
                s => s.parse().unwrap_or(0),
            };
            match n!(1) {
                XmlNode::Text(x) => newnode(st, x.split_text(off).map(|v| v.as_node())),
                XmlNode::CData(x) => newnode(st, x.split_text(off).map(|v| v.as_node())),
                _ => {
                    st.slot(None);
                    "unsupported".to_string()
                }
            }
        }
        // dtm:<what>[:name] - the maps of the document type declaration (DOM Level 1: DocumentType.entities / notations, read-only):
        //   read = their content through length / item / getNamedItem and the Entity / Notation accessors;
        //   esn / nsn = setNamedItem with the first item of the map itself; ern / nrn = removeNamedItem(name)
        "dtm" => {
            use xml_dom::{Entity, Notation};
            let dt = match st.doc.doc_type() {
                Some(d) => d,
                None => return "ok=-".to_string(),
            };
            let o = |v: Option<String>| v.map(|s| e(&s)).unwrap_or_else(|| "~".to_string());
            match parts.get(1).copied().unwrap_or("") {
                "read" => {
                    let (em, nm) = (dt.entities(), dt.notations());
                    let mut es: Vec<String> = vec![];
                    let mut bad: Vec<String> = vec![];
                    for i in 0..em.length() {
                        match em.item(i) {
                            Some(x) => {
                                let name = x.node_name();
                                match em.get_named_item(&name) {
                                    Some(y) if y.node_name() == name => {}
                                    _ => bad.push(format!("getNamedItem({}) does not give the entity item({}) gives", name, i)),
                                }
                                if x.parent_node().is_some() {
                                    bad.push(format!("entity {} has a parent", name));
                                }
                                es.push(format!("E({}|{}|{}|{})", e(&name), o(x.public_id()), o(x.system_id()), o(x.notation_name())));
                            }
                            None => bad.push(format!("entities.item({}) is nothing although length is {}", i, em.length())),
                        }
                    }
                    if em.item(em.length()).is_some() {
                        bad.push("entities.item(length) is a node".to_string());
                    }
                    let mut ns: Vec<String> = vec![];
                    for i in 0..nm.length() {
                        match nm.item(i) {
                            Some(x) => {
                                let name = x.node_name();
                                match nm.get_named_item(&name) {
                                    Some(y) if y.node_name() == name => {}
                                    _ => bad.push(format!("getNamedItem({}) does not give the notation item({}) gives", name, i)),
                                }
                                if x.parent_node().is_some() {
                                    bad.push(format!("notation {} has a parent", name));
                                }
                                ns.push(format!("N({}|{}|{})", e(&name), o(x.public_id()), o(x.system_id())));
                            }
                            None => bad.push(format!("notations.item({}) is nothing although length is {}", i, nm.length())),
                        }
                    }
                    format!("ok={}{}{}", es.join(""), ns.join(""), if bad.is_empty() { String::new() } else { format!("BAD({})", bad.join(";")) })
                }
                "esn" => match dt.entities().item(0) {
                    Some(x) => match dt.entities().set_named_item(x) { Ok(_) => "ok".to_string(), Err(er) => format!("err:{}", err_class(&er)) },
                    None => "ok=-".to_string(),
                },
                "nsn" => match dt.notations().item(0) {
                    Some(x) => match dt.notations().set_named_item(x) { Ok(_) => "ok".to_string(), Err(er) => format!("err:{}", err_class(&er)) },
                    None => "ok=-".to_string(),
                },
                "ern" => match dt.entities().remove_named_item(&field(&parts, 2)) { Ok(_) => "ok".to_string(), Err(er) => format!("err:{}", err_class(&er)) },
                "nrn" => match dt.notations().remove_named_item(&field(&parts, 2)) { Ok(_) => "ok".to_string(), Err(er) => format!("err:{}", err_class(&er)) },
                _ => "unsupported".to_string(),
            }
        }
        // pd: print (compact and pretty) every node the history has a handle on - the document, every tree outside it, every
        // part of them: printing returns for whatever the calls so far have built (property C03)
        "pd" => {
            use xml_dom::PrettyPrint;
            let mut total = 0usize;
            let nodes: Vec<XmlNode> = st.handles.iter().flatten().cloned().collect();
            for n in nodes {
                total += n.to_string().len();
                let mut buf: Vec<u8> = vec![];
                let _ = n.pretty(&mut buf);
                total += buf.len();
            }
            std::hint::black_box(total);
            "ok=printed".to_string()
        }
        "nz" => match n!(1) {
            XmlNode::Element(x) => {
                x.normalize();
                "ok".to_string()
            }
            _ => "unsupported".to_string(),
        },
        _ => "bad-op".to_string(),
    }
}

pub fn dom(args: &[String]) -> String {
    dom_with(args, false)
}

// the same histories on a document read with text expansion on (monitors only: the DOM model is the raw view)
pub fn domx(args: &[String]) -> String {
    dom_with(args, true)
}

fn dom_with(args: &[String], expanded: bool) -> String {
    if args.len() < 2 {
        return "bad-op".to_string();
    }
    let doc = match XmlDocument::from_raw_with_context(&args[0], Context::from_text_expanded(expanded)) {
        Ok(("", d)) => d,
        _ => return "err:doc".to_string(),
    };
    let exprs: Vec<String> = args[1].split(';').filter(|s| !s.is_empty()).map(|s| s.to_string()).collect();
    let mut st = St { doc: doc.clone(), handles: vec![], by_id: HashMap::new(), expanded, qctx: Default::default(), held: vec![], held_maps: vec![] };
    let root = doc.as_node();
    st.number(&root, 0);
    let mut out: Vec<String> = vec![];
    out.push(format!("init {{{}}} {}", snapshot(&st), monitors(&st, &exprs)));
    // `quiet` / `loud` among the operations: while quiet, the calls are made and NOTHING is read in between - no dump, no
    // navigation, no order keys, no query, no serialization - so that whatever a call leaves behind meets the next call as it is
    // (reading order keys renumbers, a query clears caches: observing after every step hides what several calls do together)
    let mut quiet = false;
    for op in &args[2..] {
        if op == "quiet" || op == "loud" {
            quiet = op == "quiet";
            let snap = if quiet {
                "{quiet} inv=skip ord=skip rt=skip q=skip".to_string()
            } else {
                catch_unwind(AssertUnwindSafe(|| format!("{{{}}} {}", snapshot(&st), monitors(&st, &exprs))))
                    .unwrap_or_else(|_| "{dump-panic}".to_string())
            };
            out.push(format!("ok {}", snap));
            continue;
        }
        let before = st.handles.len();
        let r = catch_unwind(AssertUnwindSafe(|| apply(&mut st, op)));
        let status = match r {
            Ok(s) => s,
            Err(_) => "panic".to_string(),
        };
        // an allocating operation consumes exactly one handle slot whatever happened
        let name = op.split(':').next().unwrap_or("");
        if ["ce", "ct", "cc", "cd", "cp", "ca", "cr", "st", "ga", "ch", "gni"].contains(&name) && st.handles.len() == before {
            st.handles.push(None);
        }
        if quiet {
            out.push(format!("{} {{quiet}} inv=skip ord=skip rt=skip q=skip", status));
            continue;
        }
        let snap = catch_unwind(AssertUnwindSafe(|| format!("{{{}}} {}", snapshot(&st), monitors(&st, &exprs))))
            .unwrap_or_else(|_| "{dump-panic}".to_string());
        out.push(format!("{} {}", status, snap));
    }
    out.join(" | ")
}

// foreign <text>: the same text read twice gives two documents whose nodes carry the SAME ids.  Every mutator of the first
// document is called with a node of the second one where its own node should stand.  Answer: `call=outcome` pairs separated by
// `;`, then `|`, then `same` if both documents print as before and the first one still satisfies the tree invariant.
pub fn foreign(args: &[String]) -> String {
    let text = match args.first() {
        Some(t) => decode(t),
        None => return "bad-args".to_string(),
    };
    let (d1, d2) = match (XmlDocument::from_raw(&text), XmlDocument::from_raw(&text)) {
        (Ok(("", a)), Ok(("", b))) => (a, b),
        _ => return "err:doc".to_string(),
    };
    let before = (format!("{}", d1), format!("{}", d2));
    let (r1, r2) = match (d1.document_element(), d2.document_element()) {
        (Ok(a), Ok(b)) => (a, b),
        _ => return "err:doc".to_string(),
    };
    let cls = |r: Result<String, xml_dom::error::Error>| -> String {
        match r {
            Ok(s) => s,
            Err(er) => format!("err:{}", err_class(&er)),
        }
    };
    let ok = |_: XmlNode| "ok".to_string();
    let mut out: Vec<String> = vec![];
    let mut call = |name: &str, f: &mut dyn FnMut() -> String| {
        let r = catch_unwind(AssertUnwindSafe(|| f())).unwrap_or_else(|_| "panic".to_string());
        out.push(format!("{}={}", name, r));
    };
    // the counterparts: the root of the other document, its first child, a node the other document made
    let k1 = r1.first_child();
    let k2 = r2.first_child();
    let made2 = d2.create_element("made").ok().map(|e| e.as_node());
    let made1 = d1.create_element("made").ok().map(|e| e.as_node());
    if let (Some(made2), Some(made1)) = (made2.clone(), made1.clone()) {
        // newChild of another document
        call("append(new2)", &mut || cls(r1.append_child(made2.clone()).map(ok)));
        call("insert(new2,-)", &mut || cls(r1.insert_before(made2.clone(), None).map(ok)));
        call("doc.append(new2)", &mut || cls(d1.append_child(d2.create_comment("c").as_node()).map(ok)));
        if let Some(k1) = k1.clone() {
            call("insert(new2,own)", &mut || cls(r1.insert_before(made2.clone(), Some(&k1)).map(ok)));
            call("replace(new2,own)", &mut || cls(r1.replace_child(made2.clone(), &k1).map(ok)));
        }
        // refChild / oldChild of another document (same id as the own child)
        if let Some(k2) = k2.clone() {
            call("insert(own,ref2)", &mut || cls(r1.insert_before(made1.clone(), Some(&k2)).map(ok)));
            call("replace(own,old2)", &mut || cls(r1.replace_child(made1.clone(), &k2).map(ok)));
            call("remove(old2)", &mut || cls(r1.remove_child(&k2).map(ok)));
        }
        call("doc.remove(root2)", &mut || cls(d1.remove_child(&r2.as_node()).map(ok)));
        call("remove(made2)", &mut || cls(r1.remove_child(&made2).map(ok)));
    }
    // attributes
    if let Ok(a2) = d2.create_attribute("zz") {
        let a2c = a2.clone();
        call("setAttributeNode(a2)", &mut || cls(r1.set_attribute_node(a2c.clone()).map(|_| "ok".to_string())));
        if let Some(map) = r1.as_node().attributes() {
            let a2d = a2.clone();
            call("setNamedItem(a2)", &mut || cls(map.set_named_item(a2d.clone()).map(|_| "ok".to_string())));
        }
    }
    if let Some(map2) = r2.as_node().attributes() {
        if let Some(own2) = map2.item(0) {
            let o = own2.clone();
            call("removeAttributeNode(attr2)", &mut || cls(r1.remove_attribute_node(o.clone()).map(|_| "ok".to_string())));
            if let Some(map1) = r1.as_node().attributes() {
                if let Some(own1) = map1.item(0) {
                    if let (Some(t2), Some(_t1)) = (own2.as_node().first_child(), own1.as_node().first_child()) {
                        call("attr.remove(item2)", &mut || cls(own1.remove_child(&t2).map(ok)));
                        call("attr.append(item2)", &mut || cls(own1.append_child(t2.clone()).map(ok)));
                    }
                }
            }
        }
    }
    let after = (format!("{}", d1), format!("{}", d2));
    let st = St { doc: d1.clone(), handles: vec![], by_id: HashMap::new(), expanded: false, qctx: Default::default(), held: vec![], held_maps: vec![] };
    let mon = monitors(&st, &[]);
    let same = if before == after && mon.starts_with("inv=ok") { "same".to_string() } else { format!("CHANGED {} -> {} / {}", e(&before.0), e(&after.0), mon) };
    format!("{} | {}", out.join(";"), same)
}
