// nameok <kind> <candidate>: is the candidate accepted as a name of that kind?   (property C18)
// The candidate is embedded in the smallest piece of markup that uses it as a name; the answer is
// `1` only when the production consumes everything AND reports exactly the candidate as the name,
// so that a candidate containing markup characters cannot be accepted by accident.
use xml_nom::model::QName;
use xml_parser::model::{AttributeName, Reference};

fn qname_text(q: &QName) -> String {
    match q {
        QName::Prefixed(p) => format!("{}:{}", p.prefix, p.local_part),
        QName::Unprefixed(n) => n.to_string(),
    }
}

pub fn nameok(args: &[String]) -> String {
    let kind = args.first().map(|s| s.as_str()).unwrap_or("");
    let s = args.get(1).cloned().unwrap_or_default();
    let ok = match kind {
        "ncname" => matches!(xml_nom::ncname(&s), Ok(("", n)) if n == s),
        "qname" => matches!(xml_nom::qname(&s), Ok(("", q)) if qname_text(&q) == s),
        "element" => {
            let text = format!("<{}/>", s);
            match xml_parser::element(&text) {
                Ok(("", e)) => qname_text(&e.name) == s && e.attributes.is_empty() && e.content.is_none(),
                _ => false,
            }
        }
        "attr" => {
            let text = format!("{}='v'", s);
            match xml_parser::attribute(&text) {
                Ok(("", a)) => match &a.name {
                    AttributeName::QName(q) => qname_text(q) == s,
                    AttributeName::DefaultNamespace => s == "xmlns",
                    AttributeName::Namespace(p) => format!("xmlns:{}", p) == s,
                },
                _ => false,
            }
        }
        "pi" => {
            let text = format!("<?{}?>", s);
            match xml_parser::pi(&text) {
                Ok(("", p)) => p.target == s && p.value.is_none(),
                _ => false,
            }
        }
        "entity" => {
            let text = format!("&{};", s);
            match xml_parser::reference(&text) {
                Ok(("", Reference::Entity(n))) => n == s,
                _ => false,
            }
        }
        // names in declarations: the attribute name of an attribute-list declaration (the attribute it supplies to <r/> must be
        // there, alone, under exactly that name), the name of the document type
        "decl-attr" | "doctype-name" => {
            use xml_info::{DocumentTypeDeclaration, Document, Element, HasQName};
            let text = if kind == "decl-attr" { format!("<!DOCTYPE r [<!ATTLIST r {} CDATA 'v'>]><r/>", s) } else { format!("<!DOCTYPE {}><r/>", s) };
            let shown = |p: Option<&str>, l: &str| match p { Some(p) => format!("{}:{}", p, l), None => l.to_string() };
            match xml_parser::document(&text) {
                Ok(("", tree)) => match xml_info::XmlDocument::new(&tree) {
                    Ok(doc) => {
                        let d = doc.borrow();
                        if kind == "decl-attr" {
                            match d.document_element() {
                                Ok(root) => {
                                    let r = root.borrow();
                                    let names: Vec<String> = r.namespace_attributes().iter().chain(r.attributes().iter())
                                        .map(|a| { let a = a.borrow(); shown(a.prefix(), a.local_name()) }).collect();
                                    names.len() == 1 && names[0] == s
                                }
                                Err(_) => false,
                            }
                        } else {
                            match d.document_declaration() {
                                Some(t) => { let t = t.borrow(); let _ = DocumentTypeDeclaration::children(&*t); shown(t.prefix(), t.local_name()) == s }
                                None => false,
                            }
                        }
                    }
                    Err(_) => false,
                },
                _ => false,
            }
        }
        // the DOM factories: the name a node is created with has to be a name of its kind, all of it
        "dom-pi" | "dom-elem" | "dom-attr" | "dom-entref" => {
            use xml_dom::DocumentMut;
            let doc = match xml_dom::XmlDocument::from_raw("<r/>") {
                Ok((_, d)) => d,
                Err(_) => return "bad-op".to_string(),
            };
            match kind {
                "dom-pi" => doc.create_processing_instruction(&s, "d").is_ok(),
                "dom-elem" => doc.create_element(&s).is_ok(),
                "dom-attr" => doc.create_attribute(&s).is_ok(),
                _ => doc.create_entity_reference(&s).is_ok(),
            }
        }
        _ => return "bad-op".to_string(),
    };
    if ok { "1".to_string() } else { "0".to_string() }
}
