// Percent-encoding of protocol arguments: bytes outside [A-Za-z0-9._-] are written %XX.

pub fn encode(s: &str) -> String {
    let mut out = String::with_capacity(s.len());
    for b in s.bytes() {
        if b.is_ascii_alphanumeric() || b == b'.' || b == b'_' || b == b'-' {
            out.push(b as char);
        } else {
            out.push_str(&format!("%{:02X}", b));
        }
    }
    out
}

pub fn decode(s: &str) -> String {
    let bytes = s.as_bytes();
    let mut out: Vec<u8> = Vec::with_capacity(bytes.len());
    let mut i = 0;
    while i < bytes.len() {
        if bytes[i] == b'%' && i + 2 < bytes.len() + 1 {
            let h = std::str::from_utf8(&bytes[i + 1..i + 3]).unwrap_or("00");
            out.push(u8::from_str_radix(h, 16).unwrap_or(b'?'));
            i += 3;
        } else {
            out.push(bytes[i]);
            i += 1;
        }
    }
    String::from_utf8_lossy(&out).into_owned()
}
