// XPath operations (properties C05-C10, C19).
//   query <text> <bindings> <expr> [<expr> ...]
//     bindings: `p=uri;q=uri2;=defaulturi` (may be empty).  The document is parsed once in the merged-text view
//     (text_expanded, as xq/xe do), ONE evaluation context is used for all expressions in order.
//     Answer: one field per expression, separated by ` | `:
//       b:0|1    n:<16 hex digits of the IEEE bit pattern, NaN canonical>    s:<enc>
//       N:[<node>;<node>...]   node = <path>~<order key>~<id>
//       err:<class>            syntax | remain | type | arity | nofunc | nons | unsupported | dom | other
//     followed by ` || doc=<enc serialization after all queries, compared with the one before: same|changed>`
use crate::enc::encode as e;
use std::collections::HashMap;
use xml_dom::{AsNode, NamedNodeMap, Node, NodeList, XmlDocument, XmlNode};
use xml_xpath::eval::model::{Context, Value};

pub fn parse_bindings(ctx: &mut Context, s: &str) {
    for b in s.split(';') {
        if b.is_empty() {
            continue;
        }
        // `!p` / `!`: the binding of prefix p / the default binding is taken out again (Context::remove_ns)
        if let Some(p) = b.strip_prefix('!') {
            ctx.remove_ns(if p.is_empty() { None } else { Some(p) });
            continue;
        }
        if let Some((p, u)) = b.split_once('=') {
            if p.is_empty() {
                ctx.add_ns(None, u);
            } else {
                ctx.add_ns(Some(p), u);
            }
        }
    }
}

// id -> path for every node reachable from the document (children in the current DOM view, attributes)
pub struct Locator {
    by_id: HashMap<usize, String>,
    attrs: Vec<(String, String, String)>, // (owner path, local name, value) for attributes with id 0
    merge_text: bool,
}

fn local(name: &str) -> &str {
    name.rsplit(':').next().unwrap_or(name)
}

impl Locator {
    pub fn new(doc: &XmlDocument) -> Locator {
        let mut l = Locator { by_id: HashMap::new(), attrs: vec![], merge_text: false };
        l.walk(&doc.as_node(), "", 0);
        l
    }

    // numbering that does not depend on how character data is cut into Text nodes: a run of adjacent Text nodes
    // takes one child index and an empty Text node none (used to compare an edited document with its re-parse)
    pub fn new_merged(doc: &XmlDocument) -> Locator {
        let mut l = Locator { by_id: HashMap::new(), attrs: vec![], merge_text: true };
        l.walk(&doc.as_node(), "", 0);
        l
    }

    fn walk(&mut self, n: &XmlNode, path: &str, depth: usize) {
        if depth > 3000 {
            return;
        }
        let shown = if path.is_empty() { "/".to_string() } else { path.to_string() };
        self.by_id.entry(n.id()).or_insert(shown);
        if let Some(map) = n.attributes() {
            for i in 0..map.length() {
                if let Some(a) = map.item(i) {
                    use xml_dom::Attr;
                    let nm = a.node_name();
                    // two attributes of one element may share their local part (p:n and n): the path names the prefix too
                    use xml_dom::AsExpandedName;
                    let shown_name = match a.as_expanded_name() {
                        // (the library reports the pseudo-prefix `xmlns` for an unprefixed attribute)
                        Ok(Some((l, Some(pfx), _))) if pfx != "xmlns" => format!("{}:{}", pfx, l),
                        _ => local(&nm).to_string(),
                    };
                    let p = format!("{}/@{}", path, e(&shown_name));
                    let id = a.as_node().id();
                    if id != 0 {
                        self.by_id.entry(id).or_insert(p.clone());
                    }
                    self.attrs.push((p, local(&nm).to_string(), a.value().unwrap_or_default()));
                }
            }
        }
        // the document type declaration is not a node of the XPath data model: it gets no child index
        let kids = n.child_nodes();
        let mut j = 0;
        let mut in_text_run = false;
        for i in 0..kids.length() {
            if let Some(k) = kids.item(i) {
                if let XmlNode::DocumentType(_) = k {
                    self.by_id.entry(k.id()).or_insert(format!("{}/!doctype", path));
                    continue;
                }
                if self.merge_text {
                    if let XmlNode::Text(t) = &k {
                        use xml_dom::CharacterData;
                        if t.length() == 0 {
                            self.by_id.entry(k.id()).or_insert(format!("{}/!empty", path));
                            continue;
                        }
                        if in_text_run {
                            self.by_id.entry(k.id()).or_insert(format!("{}/{}", path, j - 1));
                            continue;
                        }
                        in_text_run = true;
                    } else if let XmlNode::ExpandedText(t) = &k {
                        // text expansion on: adjacent merged-text nodes (after edits) read back as one
                        use xml_dom::CharacterData;
                        if t.length() == 0 {
                            self.by_id.entry(k.id()).or_insert(format!("{}/!empty", path));
                            continue;
                        }
                        if in_text_run {
                            self.by_id.entry(k.id()).or_insert(format!("{}/{}", path, j - 1));
                            continue;
                        }
                        in_text_run = true;
                    } else if let XmlNode::EntityReference(_) = &k {
                        // `>` after `]]` is printed as `&gt;`: a reference belongs to the run of character data around it
                        if in_text_run {
                            self.by_id.entry(k.id()).or_insert(format!("{}/{}", path, j - 1));
                            continue;
                        }
                        in_text_run = true;
                    } else {
                        in_text_run = false;
                    }
                }
                self.walk(&k, &format!("{}/{}", path, j), depth + 1);
                j += 1;
            }
        }
    }

    pub fn path(&self, n: &XmlNode) -> String {
        use xml_dom::AsStringValue;
        match n {
            XmlNode::Namespace(_) => {
                format!("ns:{}={}", e(&n.node_name()), e(&n.as_string_value().unwrap_or_default()))
            }
            XmlNode::Attribute(a) => {
                use xml_dom::Attr;
                let id = n.id();
                if id != 0 {
                    if let Some(p) = self.by_id.get(&id) {
                        return p.clone();
                    }
                }
                let nm = a.node_name();
                let v = a.value().unwrap_or_default();
                for (p, l, val) in &self.attrs {
                    if l == local(&nm) && *val == v {
                        return p.clone();
                    }
                }
                format!("?attr:{}", e(&nm))
            }
            _ => match self.by_id.get(&n.id()) {
                Some(p) => p.clone(),
                None => format!("?node:{}", n.id()),
            },
        }
    }
}

pub fn err_class(dbg: &str) -> &'static str {
    if dbg.starts_with("ExprSyntax") {
        "syntax"
    } else if dbg.starts_with("ExprRemain") {
        "remain"
    } else if dbg.contains("InvalidType") {
        "type"
    } else if dbg.contains("InvalidArgumentCount") {
        "arity"
    } else if dbg.contains("NotFoundFunction") {
        "nofunc"
    } else if dbg.contains("NotFoundNamespace") {
        "nons"
    } else if dbg.contains("Unsupported") || dbg.contains("NotSupported") || dbg.contains("Unimplemented") {
        "unsupported"
    } else if dbg.contains("Dom(") {
        "dom"
    } else {
        "other"
    }
}

pub fn show_value(v: &Value, loc: &Locator) -> String {
    match v {
        Value::Boolean(b) => format!("b:{}", *b as u8),
        Value::Number(x) => {
            let bits = if x.is_nan() { 0x7FF8000000000000u64 } else { x.to_bits() };
            format!("n:{:016X}", bits)
        }
        Value::Text(s) => format!("s:{}", e(s)),
        Value::Node(ns) => {
            let items: Vec<String> =
                ns.iter().map(|n| format!("{}~{}~{}", loc.path(n), n.order(), n.id())).collect();
            format!("N:[{}]", items.join(";"))
        }
    }
}

pub fn query(args: &[String]) -> String {
    if args.len() < 3 {
        return "bad-op".to_string();
    }
    let text = &args[0];
    let dctx = xml_dom::Context::from_text_expanded(true);
    let dom = match XmlDocument::from_raw_with_context(text, dctx) {
        Ok((rest, d)) if rest.is_empty() => d,
        _ => return "err:doc".to_string(),
    };
    let before = format!("{}", dom);
    let loc = Locator::new(&dom);
    let mut ctx = Context::default();
    parse_bindings(&mut ctx, &args[1]);
    let mut out: Vec<String> = vec![];
    for ex in &args[2..] {
        let r = std::panic::catch_unwind(std::panic::AssertUnwindSafe(|| {
            match xml_xpath::query(dom.clone(), ex.as_str(), &mut ctx) {
                Ok(v) => show_value(&v, &loc),
                Err(err) => format!("err:{}", err_class(&format!("{:?}", err))),
            }
        }));
        out.push(match r {
            Ok(s) => s,
            Err(_) => "panic".to_string(),
        });
    }
    let after = format!("{}", dom);
    format!("{} || doc={}", out.join(" | "), if before == after { "same" } else { "changed" })
}

// qfresh: like `query` but every expression gets a fresh context and a fresh parse of the document (property C19)
pub fn qfresh(args: &[String]) -> String {
    if args.len() < 3 {
        return "bad-op".to_string();
    }
    let mut out: Vec<String> = vec![];
    for ex in &args[2..] {
        let one = vec![args[0].clone(), args[1].clone(), ex.clone()];
        let r = query(&one);
        out.push(r.split(" || ").next().unwrap_or("").to_string());
    }
    format!("{} || doc=same", out.join(" | "))
}

// qswitch <docA> <docB> <bindings> <n> <expr 1..n on A> <exprs on B...>: ONE context; the first n expressions are evaluated on
// document A (their answers are not reported), then the others on document B with the same context.  The answers must be
// those a fresh context gives on B (property C19: a context carries nothing from one query to the next, whatever the
// earlier ones did and whichever document they looked at).
pub fn qswitch(args: &[String]) -> String {
    if args.len() < 5 {
        return "bad-op".to_string();
    }
    let n: usize = args[3].parse().unwrap_or(0);
    let parse = |t: &str| match XmlDocument::from_raw_with_context(t, xml_dom::Context::from_text_expanded(true)) {
        Ok((rest, d)) if rest.is_empty() => Some(d),
        _ => None,
    };
    let (a, b) = match (parse(&args[0]), parse(&args[1])) {
        (Some(a), Some(b)) => (a, b),
        _ => return "err:doc".to_string(),
    };
    let loc = Locator::new(&b);
    let mut ctx = Context::default();
    parse_bindings(&mut ctx, &args[2]);
    let rest = &args[4..];
    for ex in rest.iter().take(n) {
        let _ = std::panic::catch_unwind(std::panic::AssertUnwindSafe(|| {
            let _ = xml_xpath::query(a.clone(), ex.as_str(), &mut ctx);
        }));
    }
    let mut out: Vec<String> = vec![];
    for ex in rest.iter().skip(n) {
        let r = std::panic::catch_unwind(std::panic::AssertUnwindSafe(|| {
            match xml_xpath::query(b.clone(), ex.as_str(), &mut ctx) {
                Ok(v) => show_value(&v, &loc),
                Err(err) => format!("err:{}", err_class(&format!("{:?}", err))),
            }
        }));
        out.push(match r {
            Ok(s) => s,
            Err(_) => "panic".to_string(),
        });
    }
    format!("{} || doc=same", out.join(" | "))
}
