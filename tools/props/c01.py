"""C01 — well-formed documents are accepted and yield the infoset they denote; surface syntax is irrelevant."""
import random
import lib
from gen import xmlgen
from props import xmlcommon as X


def run(chk):
    thorough = chk.tier == "thorough"
    rng = random.Random(lib.seed())
    tabs, problems = lib.regenerate()
    pr = X.standard_proof(chk, "C01", thorough)
    ndocs = 3000 if thorough else 500
    styles = 6 if thorough else 3
    docs = X.boundary_docs() + X.gen_docs(rng, ndocs, styles=styles)
    cases = []
    for i, (d, rs) in enumerate(docs):
        for t in rs:
            cases.append((i, t))
    impl, model = lib.both([lib.req("parse", t) for _, t in cases], resume=True)
    findings = {f["id"]: f for f in lib.load_findings("C01") if f["kind"] == "known"}
    mfail, tdis = [], []
    per_doc = {}
    for (i, t), a, b in zip(cases, impl, model):
        d = docs[i][0]
        exp = "ok rest= " + xmlgen.denote(d)
        chk.count(t, nontrivial=True)
        per_doc.setdefault(i, set()).add(a)
        if a != exp:
            mfail.append((t, a, exp, b))
        if a != b:
            tdis.append((t, a, b))
    chk.cov["documents"] = ndocs
    chk.cov["renderings_per_document"] = styles + 1
    chk.cov["documents_with_one_dump_for_all_renderings"] = sum(1 for v in per_doc.values() if len(v) == 1)
    chk.cov["features"] = X.feature_histogram(docs)
    chk.cov["disagreements_checked"] = len(tdis)
    chk.cov["rule"] = ("%d abstract documents from the feature mixer x %d renderings (quote style, white space in tags and "
                       "declarations, empty-element tag vs pair, internal-subset layout) + the canonical rendering; oracle: "
                       "the denotation computed from the abstract value (tools/gen/xmlgen.py denote); the real parser must "
                       "accept with empty rest and dump exactly those items (raw view); tie: the model's dump of the same text; "
                       "non-trivial = distinct rendering" % (ndocs, styles))
    # ---- character data / attribute values after reference expansion (merged-text view), fixed documents with the
    #      expected strings written out
    exp_lines = [lib.req("query", t, "", "string(/r)", "string(/r/@t)") for t, _, _ in X.EXPANSION_DOCS]
    exp_impl = lib.run_lines(lib.build_harness(), exp_lines, timeout=120, per_line_resume=True)
    for (t, s1, s2), a in zip(X.EXPANSION_DOCS, exp_impl):
        want = "s:%s | s:%s || doc=same" % (lib.enc(s1), lib.enc(s2))
        chk.count(t, nontrivial=True)
        if a != want:
            chk.violation("expansion_%s" % lib.enc(t)[-50:],
                          "property C01: character data / attribute value after reference expansion\ninput (percent-encoded): %s\n"
                          "implementation (string(/r) | string(/r/@t)): %s\nexpected: %s\n"
                          "replay: printf 'query\\t%s\\t\\tstring(%%2Fr)\\tstring(%%2Fr%%2F%%40t)\\n' | harness/target/debug/xmlrs-driver\n"
                          % (lib.enc(t), a, want, lib.enc(t).replace("%", "%%")))
            mfail.append((t, a, "ok", "ok"))
    # ---- attributes and namespace declarations supplied by attribute-list defaults NEXT TO written ones: a default is used only
    #      when the start tag does not carry that attribute (XML 1.0 3.3.2) - for a namespace declaration as for any other attribute
    #      (round-9 seed C01-N let a written `xmlns:p` and its default both through); items and namespace view against the model
    NSDEF = ['<!DOCTYPE r [<!ATTLIST r xmlns:p CDATA "urn:default">]><r xmlns:p="urn:own"><p:a/></r>',
             '<!DOCTYPE r [<!ATTLIST c xmlns CDATA "urn:d">]><r><c xmlns=""/><c/><c xmlns="urn:own"><d/></c></r>',
             '<!DOCTYPE r [<!ATTLIST r a CDATA "d" xmlns:q CDATA "urn:q" b CDATA "e">]><r a="own"><q:k/></r>',
             '<!DOCTYPE r [<!ATTLIST r xmlns:p CDATA "urn:d1" xmlns:q CDATA "urn:d2" p:a CDATA "pa">]><r xmlns:q="urn:own" p:a="w"/>',
             '<!DOCTYPE r [<!ATTLIST r xmlns CDATA "urn:d"><!ATTLIST r xmlns CDATA "urn:second">]><r><k xmlns=""/></r>']
    for opn in ("parse", "nsinfo"):
        ia = lib.run_lines(lib.build_harness(), [lib.req(opn, t) for t in NSDEF], timeout=120, per_line_resume=True)
        ib = lib.run_lines(lib.model_driver(), [lib.req(opn, t) for t in NSDEF], timeout=120)
        for t, a, b in zip(NSDEF, ia, ib):
            chk.count([opn, t], nontrivial=True)
            if a != b:
                chk.violation("defaults_%s_%s" % (opn, lib.enc(t)[-40:]),
                              "property C01: attributes / namespace declarations of an element with attribute-list defaults next to written "
                              "ones (%s view)\ninput (percent-encoded): %s\nimplementation: %s\nexpected:       %s\n"
                              "replay: printf '%s\\t%s\\n' | harness/target/debug/xmlrs-driver\n"
                              % (opn, lib.enc(t), a[:900], b[:900], opn, lib.enc(t).replace("%", "%%")))
                mfail.append((t, a, "ok", "ok"))
    # ---- the reviewed grammar as reference: whatever it derives (and the model's well-formedness checks pass) must be accepted
    refs = X.reference_stream(rng, 1200 if thorough else 300, 500 if thorough else 150)
    ref_ok = 0
    for t, a, b in refs:
        chk.count(["ref", t], nontrivial=b == "ok")
        ref_ok += b == "ok"
        if b == "ok" and a != "ok":
            chk.violation("refused_%s" % lib.enc(t)[:50],
                          "property C01: a document that the reviewed grammar (tools/ref/xml.json, the grammar as last read against "
                          "XML 1.0 / Namespaces in XML) derives and that passes the well-formedness checks is not accepted\n"
                          "input (percent-encoded): %s\nimplementation: %s   reviewed grammar: %s\n"
                          "productions that differ from the reviewed grammar now: %s\n"
                          "replay: printf 'accept\\t%s\\n' | harness/target/debug/xmlrs-driver\n"
                          % (lib.enc(t), a, b, [d[0] for d in lib.GRAMMAR_DIFFS["xml"]], lib.enc(t).replace("%", "%%")))
            mfail.append((t, a, "ok", "ok"))
        elif a != b and not (a == "ok" and b != "ok"):
            tdis.append((t, a, b))
    chk.cov["reviewed_grammar_stream"] = "%d inputs, %d derivable and well-formed" % (len(refs), ref_ok)
    narrow = [w for w in X.class_table_search(tabs) if w[3] and not w[2] and w[5] != "ok"]
    for key, cp, _, _, text, out in narrow:
        chk.violation("class_%s_%X" % (key, cp),
                      "property C01: U+%04X is a legal %s character in XML 1.0 5th Ed., yet a well-formed document using it is "
                      "not accepted\ninput (percent-encoded): %s\nimplementation: %s\n"
                      "replay: printf 'accept\\t%s\\n' | harness/target/debug/xmlrs-driver\n"
                      % (cp, key, lib.enc(text), out, lib.enc(text).replace("%", "%%")))
        mfail.append((text, out, "ok", "ok"))
    for t, a, exp, b in [m for m in mfail if len(m) == 4 and not (m[2] == "ok" and m[3] == "ok")][:3]:
        chk.violation("infoset_%s" % lib.enc(t)[:50],
                      "property C01: a well-formed document is not parsed to the infoset it denotes\n"
                      "input (percent-encoded): %s\nimplementation: %s\nexpected:       %s\nmodel:          %s\n"
                      "replay: printf 'parse\\t%s\\n' | harness/target/debug/xmlrs-driver\n"
                      % (lib.enc(t), a[:1500], exp[:1500], b[:1500], lib.enc(t).replace("%", "%%")))
    if not mfail:
        if tdis:
            t, a, b = tdis[0]
            chk.violation("tie_parse", "correspondence `parse` no longer holds on %d inputs; first: %s\n impl=%s\n model=%s\n"
                          "No well-formed document with a wrong infoset was found.\n" % (len(tdis), lib.enc(t), a[:600], b[:600]),
                          no_input=True)
        elif problems or not pr["ok"]:
            X.proof_violation(chk, "C01", pr, problems, len(cases))
    chk.assumptions += ["generator profile: no parameter entities, no external subset, ATTLIST defaults use only predefined "
                        "entities and character references",
                        "attributes are compared as a set (sorted by qualified name)"]


def replay(chk, path):
    print(open(path).read())
    return 0
