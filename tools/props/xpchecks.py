"""The XPath checks C05, C06, C07, C08, C10, C19 (shared machinery; thin per-property modules call `run_<id>`)."""
import os
import random
import time
import lib
from gen import xpathgen as G
from props import xmlcommon as X
from props import xpcommon as XP

BAD = ("panic", "abort", "timeout", "not-run")


def _spell(rng, e, **kw):
    return G.spell(e, G.Spelling(rng, **kw))


EVAL_ERRORS = ("err:type", "err:arity", "err:nofunc", "err:nons", "err:unsupported", "err:dom", "err:other")


def _one_error_class(x):
    """XPath 1.0 defines WHEN an expression is in error, not which of several errors of one expression is reported (an unbound
    prefix and a type error in the same expression: the library meets the type error first, the model the prefix): all
    evaluation errors are one outcome class; syntax errors stay apart"""
    return "err:evaluation" if x in EVAL_ERRORS else x


def _fields(ans, n):
    f, doc = XP.split_answer(ans)
    if len(f) != n:
        f = (f + [ans if ans in BAD else "abort"] * n)[:n]
    return [_one_error_class(XP.strip_impl(x)) for x in f], f, doc


def _known(findings, chk, fid):
    if fid in findings:
        chk.known_finding(fid + " " + findings[fid]["text"])
        return True
    return False


def attr_items_removed(f):
    if not f.startswith("N:["):
        return f
    items = [i for i in (f[3:-1].split(";") if f != "N:[]" else []) if "/@" not in i]
    return "N:[" + ";".join(items) + "]"


class Explainer:
    """attributes a difference between the implementation and the specification model to ONE recorded finding, by the
    behaviour it produces on this very input (DESIGN.md 4.4): the model with exactly that quirk switched on must give the
    implementation's answer.  Anything else is a violation."""

    def __init__(self, prop, chk, cases):
        self.findings = {f["id"]: f for f in lib.load_findings(prop) if f["kind"] == "known"}
        self.chk = chk
        self.by_quirk = {}
        for q, fid in (("z", "negzero-string"), ("r", "required-default")):
            if fid in self.findings:
                out = lib.run_lines(lib.model_driver(), [lib.req("queryq", q, t, b, *es) for t, b, es in cases], timeout=900)
                self.by_quirk[fid] = out

    def explained(self, ci, ei, n, t, e, x, y):
        """x = implementation field, y = specification field (already different)"""
        if classify_ns(e, x, y):
            if "namespace-nodes" in self.findings:
                self.chk.known_finding("namespace-nodes " + self.findings["namespace-nodes"]["text"])
                return True
        for fid, outs in self.by_quirk.items():
            f, _, _ = _fields(outs[ci], n)
            if f[ei] == x:
                self.chk.known_finding(fid + " " + self.findings[fid]["text"])
                return True
        if "default-attr-order" in self.findings and "<!ATTLIST" in t and (
                (attr_items_removed(x) == attr_items_removed(y) and x.startswith("N:[") and ("/@dflt" in x + y or "/@n" in x + y))
                or e.startswith("count(//@*)")):
            self.chk.known_finding("default-attr-order " + self.findings["default-attr-order"]["text"])
            return True
        return False


def _strip_ns(field):
    """a node-set field without its namespace nodes (None for a field that is not a node-set)"""
    if not field.startswith("N:["):
        return None
    body = field[3:].rstrip("]")
    items = [i for i in body.split(";") if i]
    return [i.split("~")[0] for i in items if not i.startswith("ns:")]


def classify_ns(e_text, x, y):
    """known finding `namespace-nodes` (namespace nodes are shared objects with key 0: node-sets that CONTAIN namespace nodes
    come out with some of them merged or out of place).  It explains a difference only if the two answers agree once the
    namespace nodes themselves are left out - the elements and attributes reached THROUGH the namespace axis
    (`.../namespace::p/..`) and the other members of a mixed node-set must still be exactly right; for a scalar computed
    through the axis nothing finer can be said."""
    touches = "namespace::" in e_text or "ns:" in x or "ns:" in y
    if not touches:
        return False
    sx, sy = _strip_ns(x), _strip_ns(y)
    if sx is not None and sy is not None:
        # a predicate applied to a parenthesised node-set that holds namespace nodes - `( ... namespace::node() ...)[position()<=2]` -
        # counts positions in a set where the key-0 namespace nodes have collapsed into one: WHICH other members it keeps
        # shifts with them (thorough seed 1: `(/descendant-or-self::p:*|/node()/namespace::node())[position()<=2]` keeps one
        # namespace node and the first p:* element instead of the two namespace nodes of the root element)
        return sx == sy or _filters_ns_group(e_text)
    return True


def _filters_ns_group(e):
    """does the expression apply a predicate to a parenthesised group whose text uses the namespace axis?"""
    for i, ch in enumerate(e):
        if ch != "(":
            continue
        depth, j, q = 0, i, None
        while j < len(e):
            c = e[j]
            if q:
                if c == q:
                    q = None
            elif c in "'\"":
                q = c
            elif c == "(":
                depth += 1
            elif c == ")":
                depth -= 1
                if depth == 0:
                    break
            j += 1
        if j >= len(e):
            continue
        k = j + 1
        while k < len(e) and e[k] in " \t\r\n":
            k += 1
        if k < len(e) and e[k] == "[" and "namespace::" in e[i:j]:
            return True
    return False


# ---------------------------------------------------------------------------------------------------------
CONSTRUCT_DOCS = [
    "<r><a><b>1</b><c><b>2</b><b>3</b></c></a><a><b>4</b></a><s><p>x</p><s><p>y</p><p>z</p></s></s><b>2</b></r>",
    "<r id='1'><a x='1'>t<a x='2'><a x='3'/>u</a></a><!--c--><b x='2'>1</b><b>true</b><b/><?pi d?></r>",
]


# documents with declarations in scope of several elements, and with white space of other scripts in text and attribute values
SPECIAL_DOCS = [
    "<r xmlns:p='urn:u1'><i>  10\u00a0000  </i><p:i a='\u00a0x y\u2003' xmlns:q='urn:u2'>\u3000\u5168\u89d2\u3000<q:k/></p:i><b><i> a  b </i><b p:z='\u2009'/></b></r>",
    "<r><a x=' 1\u00a02 '>t\u2028u<a xmlns:p='urn:u1'><a x='3'/>\u0085 v\u00a0</a></a><b xmlns:p='urn:u1'><p:c/><c>\u1680w\u1680</c></b></r>",
]


SPECIAL_DOCS.append(
    # the NEAREST xml:lang decides, also when it does not match and an outer one would, also the empty one (round-8 seed C05-L)
    "<r xml:lang='en'><i id='p1'>t<a xml:lang='de'><i id='d1' a='x'>u</i><c xml:lang='en-GB'><i id='q1'/></c><b xml:lang=''><i id='n1'>v</i></b></a>"
    "<a xml:lang='EN-us'><i id='r2'>w</i></a></i><c xml:lang='fr'><!--c--><i id='f1' xml:lang='en'/></c></r>")


def special_stream():
    ex = []
    for L in ("en", "EN", "de", "en-GB", "en-gb", "fr", "", "e", "en-", "en-US", "us"):
        ex += ["//*[lang('%s')]" % L, "count(//node()[lang('%s')])" % L, "//@*[lang('%s')]" % L, "boolean(//i[@id='n1'][lang('%s')])" % L,
               "//text()[lang('%s')]" % L, "//i[lang('%s')]/@id" % L]
    for start in ("//*", "/r/*", "/descendant::*", "//i", "//a", "/r//*[1]", "/descendant-or-self::node()", "//b/*"):
        for ns in ("namespace::*", "namespace::xml", "namespace::p", "namespace::q", "namespace::node()"):
            for tail in ("..", "parent::*", "parent::node()/@*", "../..", "ancestor::*", "ancestor-or-self::node()", "self::node()/..",
                         "../*", "../text()", "parent::*[1]", "../namespace::*/..", "..//*"):
                ex.append("%s/%s/%s" % (start, ns, tail))
            ex.append("%s[%s/..]" % (start, ns))
            ex.append("(%s/%s)[1]/.." % (start, ns))
    sets = ["//i", "//i[1]", "//p:i", "//@a", "//@x", "//@p:z", "//c", ".", "/", "//a[2]", "//text()[2]", "(//text())[last()]", "//b", "//a"]
    lits = ["'10\u00a0000'", "'\u3000a\u3000 b'", "' \u2003 '", "'a\u00a0 \u00a0b'", "'\u0085x\u2028'", "' a  b '", "'\u1680'"]
    for a in sets + lits:
        ex.append("normalize-space(%s)" % a)
        ex.append("string-length(normalize-space(%s))" % a)
        ex.append("concat('[', normalize-space(%s), ']')" % a)
        ex.append("normalize-space(%s) = string(%s)" % (a, a))
        ex.append("number(%s)" % a)
        ex.append("string-length(%s)" % a)
        ex.append("translate(%s, '\u00a0\u3000 ', '_=')" % a)
        ex.append("contains(%s, ' ')" % a)
        ex.append("boolean(normalize-space(%s))" % a)
        ex.append("substring-before(normalize-space(%s), ' ')" % a)
    # translate: the FIRST occurrence of a character in the second argument decides (XPath 1.0 4.2), also when it is removed
    for a in sets[:6] + lits[:3] + ["'banana'", "'abcabc'"]:
        for frm, to in (("'aba'", "'xyz'"), ("'aa'", "'1'"), ("'ana'", "'xyz'"), ("'abca'", "'AB'"), ("'  '", "'_'"), ("'a a'", "'12'"),
                        ("'\u00a0\u00a0 '", "'_=+'"), ("'bb'", "''"), ("'xyzx'", "'123456'")):
            ex.append("translate(%s, %s, %s)" % (a, frm, to))
    for e in ("//*[normalize-space() = '']", "//*[normalize-space() = 'a b']", "//*[normalize-space(.) = .]", "//*[normalize-space(@a)]",
              "//*[not(normalize-space())]", "//text()[normalize-space() != .]", "//@*[normalize-space() = '']",
              "count(//*[string-length(normalize-space()) = string-length()])", "//*[number() = number()]", "sum(//i)", "//i[. > 0]",
              "//*[lang('en')]", "//a[normalize-space(@x) = '1\u00a02']", "//a[@x = 3]", "//a[@x > 0]"):
        ex.append(e)
    # rounding where `floor(x + 0.5)` is not round(x): just below one half, odd integers from 2^52 on, ties, both zeros - as
    # values, as arguments of substring and as numeric predicates (round-7 seed C05-I)
    for x in ("0.49999999999999994", "-0.49999999999999994", "4503599627370497", "4503599627370495.5", "9007199254740991", "0.5", "-0.5",
              "1.5", "2.5", "-1.5", "-2.5", "-0", "0", "(0 div 0)", "(1 div 0)", "(-1 div 0)", "1e0"):
        ex += ["round(%s)" % x, "1 div round(%s)" % x, "floor(%s)" % x, "ceiling(%s)" % x, "round(%s) = floor(%s)" % (x, x),
               "substring('abcde', 1, %s)" % x, "substring('abcde', %s, 2)" % x, "substring('abcde', %s)" % x,
               "count(//*[round(%s)])" % x, "string(round(%s))" % x]
    return ex


def construct_stream(thorough):
    """structured (not random) expressions: every comparison operator over every pair of operand types, inner `//`
    and every axis under positional predicates, filters over unions"""
    bools = ["true()", "false()"]
    nums = ["0", "1", "2", "-1", "(0 div 0)", "1.5"]
    strs = ["''", "'a'", "'1'", "'2'", "'true'", "' 1 '"]
    sets = ["//b", "//nosuch", "/r/a[1]//b", "//@x", "//b[1]", "/r/b"]
    pool = bools + nums + strs + sets
    ex = []
    for op in ("=", "!=", "<", "<=", ">", ">="):
        for a in pool:
            for b in pool:
                ex.append("%s %s %s" % (a, op, b))
    names = ["a", "b", "p", "s", "*", "node()", "text()"]
    preds = ["[1]", "[2]", "[last()]", "[position() < 2]", "[position() = last()]", "[2][1]", "[b]", "[not(*)]"]
    for n in names:
        for pr in preds:
            for tmpl in ("/r//%s%s", "r//%s%s", "/r/a//%s%s", "(//a)[1]//%s%s", "//s//%s%s", "/r//s//%s%s", "//%s%s", "/r/*//%s%s",
                         "//a//%s%s/..", "/descendant::%s%s", "/r/descendant-or-self::node()/%s%s", "(/r//%s)%s"):
                ex.append(tmpl % (n, pr))
    from gen import xpathgen as G2
    for ax in G2.AXES:
        for start in ("//b", "//a", "/r/*[2]", "//p", "//@x", "//text()"):
            for pr in ("", "[1]", "[2]", "[last()]"):
                ex.append("%s/%s::*%s" % (start, ax, pr))
                ex.append("%s/%s::node()%s" % (start, ax, pr))
    for u in ("(//a | //b)", "(//b | //a)", "(//p | //s | /r)", "(//@x | //b)"):
        for pr in ("[1]", "[2]", "[last()]", "[position() > 1]"):
            ex.append(u + pr)
            ex.append("count(%s%s)" % (u, pr))
            ex.append("string(%s%s)" % (u, pr))
    for f in ("boolean", "number", "string", "not"):
        for a in pool:
            ex.append("%s(%s)" % (f, a))
    for op in ("and", "or"):
        for a in bools + nums[:3] + strs[:2] + sets[:2]:
            for b in bools + nums[:3] + strs[:2] + sets[:2]:
                ex.append("%s %s %s" % (a, op, b))
    return ex


def construct_asts():
    """structured node-set ASTs (for the spelling and ordering checks): inner `//` followed by a positional
    predicate, every axis as the single step behind a one-node filter expression or inside a predicate"""
    DOS = ("descendant-or-self", ("node",), [])
    preds = [("num", "1"), ("num", "2"), ("call", "last", []), ("bin", "<", ("call", "position", []), ("num", "2")),
             ("bin", "=", ("call", "position", []), ("call", "last", []))]
    tests = [("name", "a"), ("name", "b"), ("name", "p"), ("name", "s"), ("*",), ("node",), ("text",)]
    out = []
    for t in tests:
        for pr in preds:
            st = ("child", t, [pr])
            out.append(("path", None, False, [("child", ("name", "r"), []), DOS, st]))
            out.append(("path", None, True, [("child", ("name", "r"), []), DOS, st]))
            out.append(("path", None, True, [DOS, ("child", ("name", "s"), []), DOS, st]))
            out.append(("path", None, True, [("child", ("name", "r"), []), ("child", ("*",), []), DOS, st]))
            out.append(("path", ("filter", ("path", None, True, [DOS, ("child", ("name", "a"), [])]), [("num", "1")]), False, [DOS, st]))
            out.append(("path", None, True, [DOS, ("child", ("name", "a"), []), DOS, st, ("parent", ("node",), [])]))
    # `..` and `.` from attribute (and namespace) context nodes: parent::node() of an attribute is its element
    for at in (("name", "x"), ("name", "id"), ("*",)):
        for tail in ([("parent", ("node",), [])], [("self", ("node",), [])], [("parent", ("node",), []), ("parent", ("node",), [])],
                     [("parent", ("node",), []), ("attribute", ("*",), [])], [("parent", ("*",), [("num", "1")])],
                     [("ancestor", ("*",), [("num", "1")])], [("ancestor-or-self", ("node",), [])]):
            out.append(("path", None, True, [DOS, ("attribute", at, [])] + tail))
            out.append(("path", None, True, [DOS, ("child", ("*",), []), ("attribute", at, [("num", "1")])] + tail))
            out.append(("path", None, True, [DOS, ("child", ("*",), [("path", None, False, [("attribute", at, [])] + tail)])]))
    # `//` directly in front of `.` (and `..`): `x//.` is x/descendant-or-self::node()/self::node() - all of them, not x itself
    # (round-7 seed C08-J dropped a `.` step together with the `//` in front of it)
    SELF, PARENT = ("self", ("node",), []), ("parent", ("node",), [])
    for head in ([("child", ("name", "r"), []), ("child", ("name", "a"), [])], [("child", ("name", "r"), [])],
                 [DOS, ("child", ("name", "s"), [])], [("child", ("name", "r"), []), ("child", ("*",), [("num", "1")])]):
        out.append(("path", None, True, head + [DOS, SELF]))
        out.append(("path", None, True, head + [DOS, SELF, ("child", ("name", "b"), [])]))
        out.append(("path", None, True, head + [DOS, PARENT]))
        out.append(("path", None, True, head + [SELF, DOS, ("child", ("*",), [])]))
        out.append(("path", ("filter", ("path", None, True, head), [("num", "1")]), False, [DOS, SELF]))
    # numeric predicates whose number depends on the context node: SEVERAL nodes of one step match their own position
    # (`[E]` = `[position() = E]` for each node separately; round-6 seed C08-G stopped at the first match)
    prevs = ("bin", "+", ("call", "count", [("path", None, False, [("preceding-sibling", ("*",), [])])]), ("num", "1"))
    prevn = ("bin", "+", ("call", "count", [("path", None, False, [("preceding-sibling", ("node",), [])])]), ("num", "1"))
    for npd in (("call", "position", []), prevs, prevn, ("call", "number", [("path", None, False, [("attribute", ("name", "x"), [])])]),
                ("bin", "-", ("bin", "+", ("call", "last", []), ("num", "1")),
                 ("bin", "+", ("call", "count", [("path", None, False, [("following-sibling", ("*",), [])])]), ("num", "1")))):
        for t in (("*",), ("node",), ("name", "a"), ("name", "b")):
            out.append(("path", None, True, [("child", ("name", "r"), []), ("child", t, [("numpred", npd)])]))
            out.append(("path", None, True, [DOS, ("child", t, [("numpred", npd)])]))
            out.append(("filter", ("path", None, True, [DOS, ("child", t, [])]), [("numpred", npd)]))
            out.append(("path", None, True, [DOS, ("child", t, [("numpred", npd), ("num", "1")])]))
    for ax in G.AXES:
        for t in (("*",), ("node",)):
            for start in ("b", "a", "p", "s"):
                for k in ("1", "2", "3"):
                    one = ("filter", ("path", None, True, [DOS, ("child", ("name", start), [])]), [("num", k)])
                    out.append(("path", one, False, [(ax, t, [])]))
                    out.append(("path", one, False, [(ax, t, [("num", "1")])]))
                    out.append(("filter", ("path", one, False, [(ax, t, [])]), [("num", "1")]))
                # relative path inside a predicate: one context node per evaluation
                out.append(("path", None, True, [DOS, ("child", ("name", start),
                                                       [("bin", "=", ("call", "name", [("filter", ("path", None, False, [(ax, t, [])]),
                                                                                        [("num", "1")])]), ("lit", "a"))])]))
                out.append(("path", None, True, [DOS, ("child", ("name", start),
                                                       [("bin", "=", ("call", "name", [("path", None, False, [(ax, t, [])])]), ("lit", "r"))])]))
    return out


def _before(k1, k2):
    """document order on path keys; the relative order of the attributes of ONE element is implementation-dependent
    (XPath 1.0 section 5): there only distinctness is required"""
    if k1 and k2 and k1[:-1] == k2[:-1] and k1[-1][0] == 0 and k2[-1][0] == 0:
        return k1 != k2
    return k1 < k2


def run_c05(chk):
    thorough = chk.tier == "thorough"
    rng = random.Random(lib.seed())
    tabs, problems = lib.regenerate()
    pr = X.standard_proof(chk, "C05", thorough)
    ndocs, nexpr = (600, 12) if thorough else (120, 10)
    cases = XP.gen_cases(rng, ndocs, nexpr)
    qs = [(t, rng.choice(XP.BINDING_VARIANTS), [_spell(rng, e) for e in es]) for d, t, es in cases]
    # attributes supplied by ATTLIST defaults: a separate small stream with direct queries (recorded finding
    # default-attr-order is identified there by the defaulted attributes' names)
    DEFQ = ["//@dflt", "string(//@dflt)", "string(/*/@n)", "count(//@*)", "//@*", "//*[@dflt='dv']", "name(//@dflt)", "/*/@n"]
    for _ in range(ndocs // 6):
        dg = G.DocGen(rng, defaults=True)
        dg.dtd = True
        d = dg.document()
        while d["dtd"] is None:
            d = dg.document()
        cases.append((d, G.render_doc(d), [("lit", q) for q in DEFQ]))
        qs.append((G.render_doc(d), XP.BINDINGS, DEFQ))
    cex = construct_stream(thorough) + [_spell(rng, a, abbrev=True) for a in construct_asts()]
    for cd in CONSTRUCT_DOCS:
        for i in range(0, len(cex), 40):
            cases.append(({"root": ("E", "r", {}, [], []), "heads": [], "tails": [], "dtd": None}, cd, [("lit", q) for q in cex[i:i + 40]]))
            qs.append((cd, XP.BINDINGS, cex[i:i + 40]))
    chk.cov["construct_stream"] = "%d structured expressions x %d documents" % (len(cex), len(CONSTRUCT_DOCS))
    sx = special_stream()
    for sd in SPECIAL_DOCS:
        for i in range(0, len(sx), 40):
            cases.append(({"root": ("E", "r", {}, [], []), "heads": [], "tails": [], "dtd": None}, sd, [("lit", q) for q in sx[i:i + 40]]))
            qs.append((sd, XP.BINDINGS, sx[i:i + 40]))
    # name tests on the NAMESPACE axis name a prefix, not a URI: no binding of the caller - in particular not the caller's default
    # namespace - enters them (round-9 seed C05-N let the default namespace into every QName test off the element axis)
    nsax = ["count(//namespace::p)", "count(//namespace::xml)", "count(//namespace::q)", "//d/namespace::p/..", "count(//*/namespace::*)",
            "//c/namespace::q/..", "count(//namespace::*[name() = 'p'])", "count(//@*/../namespace::p)", "//*[namespace::q]",
            "count(//namespace::zz)", "//processing-instruction('t')", "count(//processing-instruction('t'))", "//@a", "//@p:a"]
    for nd in ("<r xmlns:p='urn:p'><c xmlns:q='urn:q' p:a='1' a='2'/><?t x?><d xmlns='urn:d'/></r>",
               "<r xmlns='urn:u1' xmlns:p='urn:u1'><a xmlns:q='urn:u2' a='1'><q:b/><?t y?></a></r>"):
        for bnd in ("=urn:d;p=urn:p;q=urn:q", "=urn:u1;p=urn:u1;q=urn:u2", "=urn:p", XP.BINDINGS):
            cases.append(({"root": ("E", "r", {}, [], []), "heads": [], "tails": [], "dtd": None}, nd, [("lit", q) for q in nsax]))
            qs.append((nd, bnd, nsax))
    ax = []
    for axn in G.AXES:
        for start in ("/node()", "//node()", "/comment()", "/processing-instruction()", "//@*", "/", "/*", "//text()", "/node()[last()]"):
            ax += ["%s/%s::node()" % (start, axn), "count(%s/%s::*)" % (start, axn), "%s/%s::node()[1]" % (start, axn)]
    for sd in SHAPE_DOCS:
        for i in range(0, len(ax), 40):
            cases.append(({"root": ("E", "r", {}, [], []), "heads": [], "tails": [], "dtd": None}, sd, [("lit", q) for q in ax[i:i + 40]]))
            qs.append((sd, XP.BINDINGS, ax[i:i + 40]))
    chk.cov["shape_stream"] = "%d expressions (every axis from every kind of node) x %d documents of every top-level shape" % (len(ax), len(SHAPE_DOCS))
    chk.cov["special_stream"] = ("%d expressions x %d documents: a namespace-axis step FOLLOWED by further steps from several context "
                                 "elements; string functions over text with Unicode white space that is not XML white space"
                                 % (len(sx), len(SPECIAL_DOCS)))
    impl, spec = XP.run_queries("qfresh", qs, quirks="")
    cur = lib.run_lines(lib.model_driver(), [lib.req("queryq", "rz", t, b, *es) for t, b, es in qs], timeout=900)
    ex = Explainer("C05", chk, qs)
    mfail, tdis = [], []
    feats, dfeats, kinds = {}, {}, {}
    for ci, ((d, t, asts), (_, b, es), a, s, c) in enumerate(zip(cases, qs, impl, spec, cur)):
        fa, raw, _ = _fields(a, len(es))
        fs, _, _ = _fields(s, len(es))
        fc, _, _ = _fields(c, len(es))
        for f in G.doc_features(d):
            dfeats[f] = dfeats.get(f, 0) + 1
        for ei, (ast, e, x, y, z) in enumerate(zip(asts, es, fa, fs, fc)):
            for f in G.expr_features(ast):
                feats[f] = feats.get(f, 0) + 1
            cls = x.split(":")[0] if not x.startswith("err") else x
            kinds[cls] = kinds.get(cls, 0) + 1
            nontriv = not x.startswith("err") and x != "N:[]" and x not in BAD
            chk.count([t, e], nontrivial=nontriv)
            if x != y:
                if ex.explained(ci, ei, len(es), t, e, x, y):
                    continue
                mfail.append((t, e, x, y, z))
            elif x != z and not ("namespace::" in e):
                tdis.append((t, e, x, z))
    # the value of an expression does not depend on what was asked before: after expressions nested beyond the limit were
    # refused, expressions within the limit still evaluate to what they evaluate to when asked first (round-8 seed C05-K left the
    # depth counter raised on the refusing path)
    for rdoc_, label_, e_, msg_ in recovery_after_refusals(chk, expr_depth_limit(), xp_families()):
        mfail.append((rdoc_, e_ + "   [asked after deeper expressions were refused]", msg_, "the value it has when asked first", ""))
    chk.cov["documents"] = ndocs
    chk.cov["document_features"] = dict(sorted(dfeats.items()))
    chk.cov["expression_features"] = dict(sorted(feats.items()))
    chk.cov["outcomes_impl"] = dict(sorted(kinds.items()))
    chk.cov["disagreements_checked"] = len(tdis)
    chk.cov["rule"] = ("%d generated namespace-well-formed documents (mixed node kinds, namespaces with shadowing and default "
                       "namespace, attributes incl. xml:lang, references, CDATA, optional DTD with entity and defaults) x %d typed "
                       "expressions each (all path forms, 13 axes, name/type tests, positional and nested predicates, unions, "
                       "filters, arithmetic, comparisons, boolean operators, the core library except id()); merged-text view, "
                       "caller bindings p,q; oracle: the Lean model with every quirk off; values compared exactly (numbers by bit "
                       "pattern, node-sets as ordered lists of paths); plus a structured stream on two nested documents: the six "
                       "comparison operators over every pair of operand types, inner `//` and all 13 axes under positional "
                       "predicates, filters over unions, and/or, boolean()/number()/string() of every operand type; "
                       "non-trivial = neither an error nor the empty node-set" % (ndocs, nexpr))
    for t, e, x, y, z in mfail[:4]:
        chk.violation("value_%s" % lib.enc(e)[:60],
                      "property C05: %s\non document (percent-encoded): %s\nimplementation: %s\nXPath 1.0 (model): %s\n"
                      "replay: printf 'query\\t%s\\t%s\\t%s\\n' | harness/target/debug/xmlrs-driver\n"
                      % (e, lib.enc(t), x[:600], y[:600], lib.enc(t).replace("%", "%%"), lib.enc(XP.BINDINGS).replace("%", "%%"),
                         lib.enc(e).replace("%", "%%")))
    chk.cov["monitor_failures"] = len(mfail)
    _finish(chk, "C05", mfail, tdis, problems, pr, "query")


def _finish(chk, prop, mfail, tdis, problems, pr, op):
    if not mfail:
        if tdis:
            t, e, x, z = tdis[0][:4]
            chk.violation("tie_" + op, "correspondence `%s` no longer holds on %d cases; first: expr=%s doc=%s\n impl=%s\n model=%s\n"
                          % (op, len(tdis), e, lib.enc(t)[:300], str(x)[:300], str(z)[:300]), no_input=True)
        elif problems or not pr["ok"]:
            X.proof_violation(chk, prop, pr, problems, chk.cov["evaluations"])


# ---------------------------------------------------------------------------------------------------------
GARBAGE = list("/@*[]()|.,:$'\"<>=!+-") + [" ", "a", "b", "p:", "::", "//", "..", "1", ".5", "div", "mod", "and", "or", "text()",
                                             "node()", "child::", "ancestor::", "last()", "position()", "count(", "é", "\U0001D4B3", "\t"]


def xp_families():
    return {
        "parens": lambda n: "(" * n + "1" + ")" * n,
        "preds": lambda n: "a" + "[a" * n + "]" * n,
        "union": lambda n: "|".join(["a"] * (n + 1)),
        "dslash": lambda n: "/" + "//a" * (n + 1),
        "minus": lambda n: "-" * n + "1",
        "calls": lambda n: "concat('a'," * n + "'b','c'" + ")" * n if n else "'b'",
        "steps": lambda n: "/".join(["a"] * (n + 1)),
        "arith": lambda n: "+".join(["1"] * (n + 1)),
        "cmp": lambda n: "=".join(["1"] * (n + 1)),
        "filter": lambda n: "(" * n + "//a" + ")[1]" * n,
        "parenpath": lambda n: "(" * n + "/r" + ")/a" * n,
    }


SHAPE_DOCS = [
    "<!--c--><!DOCTYPE r><r/>",
    "<?p d?><!DOCTYPE r [<!ELEMENT r ANY>]><!--c--><r a='1'>t<b/><!--i--><?q?></r><!--e--><?z?>",
    "<!DOCTYPE r><r xmlns:p='urn:u1'><p:a p:b='2'/>x<![CDATA[y]]></r>",
    "<!--a--><?b?><r><a/><a>t</a></r><!--c-->",
    "<?xml version='1.0'?><!DOCTYPE r SYSTEM 's'><?p?><r/><?q?>",
]


def expr_depth_limit():
    try:
        import re as _re
        m_ = _re.search(r"const MAX_EXPR_DEPTH: usize = (\d+);", open(os.path.join(lib.REPO, "xpath/src/expr/mod.rs")).read())
        return int(m_.group(1)) if m_ else None
    except OSError:
        return None


def recovery_after_refusals(chk, lim, fams):
    """expressions within the nesting limit get the same answer after many expressions beyond the limit were refused in the
    same process (same thread) as they get when asked first.  -> [(document, label, expression, message)]"""
    out = []
    if not lim:
        return out
    h0 = lib.build_harness()
    rdoc = "<r><a><a><a/></a></a></r>"
    recovery = ["(" * (lim - 1) + "1" + ")" * (lim - 1), "((1))", "-(1)", "1 + (2)", "not(not(true()))", "/r[a[a[a]]]",
                "count(//a[../a])", "(((//a)))[1]", "(r/a)", "((/r)/a)"]
    for name in ("parens", "preds", "calls"):
        if name not in fams:
            continue
        deep = [fams[name](lim + 1 + (i % 3)) for i in range(lim + 3)]
        first = lib.run_lines(h0, [lib.req("query", rdoc, "", *recovery)], timeout=60)[0]
        after = lib.run_lines(h0, [lib.req("query", rdoc, "", *(deep + recovery))], timeout=120)[0]
        f1, _, _ = _fields(first, len(recovery))
        f2, _, _ = _fields(after, len(deep) + len(recovery))
        chk.count(["recovery", name], nontrivial=True)
        for e, x, y in zip(recovery, f1, f2[len(deep):]):
            if x != y:
                out.append((rdoc, "recovery:%s" % name, e, "answers %s after %d expressions of family %s nested beyond the limit were "
                            "refused in the same process; asked first it answers %s" % (y, len(deep), name, x)))
                break
    return out


HARD_DOCS = [
    "<!DOCTYPE r [<!ENTITY e '&f;'><!ENTITY f '&e;'>]><r a='&e;' b='2'>&e;<k>1</k></r>",
    "<!DOCTYPE r [<!ENTITY e 'x&e;'>]><r a='1&e;' b='2'><k>&e;</k></r>",
    "<r a='\uff11\uff12\uff10' b='\u0661\u0662\u0663'><k>\u00b2</k>\u00bd<k>1e3</k><k>+1</k><k>inf</k></r>",
    "<r xml:lang='\u65e5\u672c\u8a9e-JP' a='1' b='\u00e9'><p xml:lang='\u00e9'>t<k>1</k></p><q xml:lang=''/><p xml:lang='e\u0301-x'>u</p><p xml:lang='\U0001d4b3'/></r>",
]


def run_c06(chk):
    thorough = chk.tier == "thorough"
    rng = random.Random(lib.seed())
    tabs, problems = lib.regenerate()
    pr = X.standard_proof(chk, "C06", thorough)
    docs = XP.gen_cases(rng, 60 if thorough else 20, 0)
    eg = G.ExprGen(rng)
    streams = []
    n = 1500 if thorough else 300
    for _ in range(n):
        streams.append(("valid", _spell(rng, eg.expr(), ws=rng.random() < 0.3)))
    for _ in range(n // 2):
        streams.append(("unsupported", _spell(rng, eg.unsupported_expr())))
    # node-type tests with an argument: only processing-instruction takes one (a literal); anything else in the parentheses
    # is a syntax error, wherever a step may stand
    for nt in ("text", "comment", "node", "processing-instruction"):
        for arg in ("'x'", '"c"', " 'n' ", "''", "1", "a", ".", "'a','b'", "text()", "@x", "*", "'x", "$v"):
            for ctx in ("//%s", "/r/%s", "/r/child::%s", "/r[a = 1 and %s]", "%s", "self::%s", "//a/@x/%s", "(//%s)[1]", "count(%s)"):
                streams.append(("nodetype-arg", ctx % ("%s(%s)" % (nt, arg))))
    for _ in range(n):
        streams.append(("garbage", "".join(rng.choice(GARBAGE) for _ in range(rng.randint(0, 14)))))
    # token-level mutants of valid expressions
    for _ in range(n):
        s = _spell(rng, eg.expr())
        if s:
            i = rng.randrange(len(s))
            k = rng.random()
            s = s[:i] + (rng.choice(GARBAGE) if k < 0.5 else "") + s[i + (1 if k > 0.25 else 0):]
        streams.append(("mutant", s))
    # every core function and operator over a pool of extreme arguments (NaN, infinities, negative and huge numbers,
    # empty / non-ASCII strings, every arity 0..5): no call may panic
    from props import c09
    pool = c09.build(False, rng)
    if not thorough:
        keep = [x for x in pool if x[0] in ("arity", "unary", "substring", "examples", "translate")]
        rest = [x for x in pool if x[0] not in ("arity", "unary", "substring", "examples", "translate")]
        rng.shuffle(rest)
        pool = keep + rest[:1500]
    for kind, e in pool:
        streams.append(("hostile-args", e))
    fams = xp_families()
    sizes = [0, 1, 2, 3, 6, 12, 24] + ([48] if thorough else [])
    for name, f in fams.items():
        for k in sizes:
            streams.append(("family:%s:%d" % (name, k), f(k)))
    streams = [(w, e) for w, e in streams if "\x00" not in e]
    B = 25
    qs, meta = [], []
    for i in range(0, len(streams), B):
        chunk = streams[i:i + B]
        d = docs[(i // B) % len(docs)]
        qs.append((d[1], XP.BINDINGS, [e for _, e in chunk]))
        meta.append(chunk)
    # every axis from every kind of node, on documents of every top-level shape (comments / PIs / a document type declaration
    # before, between and after; attributes, namespace declarations, CDATA): each walk has to END
    axes_ex = []
    for ax in G.AXES:
        for start in ("/node()", "//node()", "/comment()", "/processing-instruction()", "//@*", "//namespace::*", "/", "/*",
                      "//text()", "/node()[last()]", "/node()[1]"):
            axes_ex.append(("axes", "%s/%s::node()" % (start, ax)))
            axes_ex.append(("axes", "count(%s/%s::*)" % (start, ax)))
    for sd in SHAPE_DOCS:
        for i in range(0, len(axes_ex), B):
            chunk = axes_ex[i:i + B]
            qs.append((sd, XP.BINDINGS, [e for _, e in chunk]))
            meta.append(chunk)
    # every operator and function over operands that are HARD to convert: a node whose string-value cannot be computed (a
    # general entity that refers to itself, used in an attribute value and in content), language tags and arguments with
    # multi-byte characters (round-6 seeds C06-G: arithmetic unwrapped the conversion; C06-H: lang() sliced the tag at a byte offset)
    for hd in HARD_DOCS:
        hard = []
        for x in ("/r/@a", "/r", "//k", "/r/text()", "//@*", "/r/@b"):
            for tmpl in ("%s + 1", "1 + %s", "%s - 1", "%s * 2", "%s div 2", "%s mod 2", "-%s", "%s = 1", "%s != 1", "%s < 1", "%s > %s",
                         "string(%s)", "number(%s)", "boolean(%s)", "sum(%s)", "concat(%s,'a')", "string-length(%s)",
                         "normalize-space(%s)", "contains(%s,'a')", "starts-with(%s,'a')", "substring(%s,1,2)",
                         "substring-before(%s,'a')", "substring-after(%s,'a')", "translate(%s,'a','b')", "floor(%s)",
                         "ceiling(%s)", "round(%s)", "count(%s)", "name(%s)", "local-name(%s)", "namespace-uri(%s)",
                         "//*[%s]", "//*[%s = .]", "//*[%s = 'x']", "%s | //k", "(%s)[1]"):
                hard.append(("hard-operand", tmpl.replace("%s", x)))
        for L in ("ja", "j", "\u65e5", "\u65e5\u672c", "\u65e5\u672c\u8a9e", "\u65e5\u672c\u8a9e-JP", "\u00e9", "e\u0301", "en", "", "EN-us-x", "\U0001d4b3"):
            for tmpl in ("//*[lang('%s')]", "boolean(//p[lang('%s')])", "//@*[lang('%s')]", "//text()[lang('%s')]", "count(//node()[lang('%s')])"):
                hard.append(("hard-lang", tmpl % L))
        for i in range(0, len(hard), B):
            chunk = hard[i:i + B]
            qs.append((hd, XP.BINDINGS, [e for _, e in chunk]))
            meta.append(chunk)
    per_line = 20 if thorough else 10
    lines = [lib.req("qfresh", t, b, *es) for t, b, es in qs]
    impl = lib.run_lines(lib.build_harness(), lines, timeout=per_line * len(lines), per_line_resume=True)
    model = lib.run_lines(lib.model_driver(), [lib.req("queryq", "rz", t, b, *es) for t, b, es in qs], timeout=1800,
                          per_line_resume=True)
    bad, tdis = [], []
    kinds, outcomes = {}, {}
    for (t, b, es), chunk, a, m in zip(qs, meta, impl, model):
        fa, raw, _ = _fields(a, len(es))
        fm, _, _ = _fields(m, len(es))
        for (w, e), x, y in zip(chunk, fa, fm):
            k = w.split(":")[0] + (":" + w.split(":")[1] if w.startswith("family") else "")
            kinds[k] = kinds.get(k, 0) + 1
            cls = x if x.startswith("err") or x in BAD else x.split(":")[0]
            outcomes[cls] = outcomes.get(cls, 0) + 1
            chk.count([w, e], nontrivial=True)
            if x in BAD:
                bad.append((t, w, e, x))
            else:
                cx = x if x.startswith("err") else "ok"
                cy = y if y.startswith("err") else "ok"
                # the XPath model builds its document with every reference expanded and refuses a self-referential entity
                # there (err:doc); the library accepts the document and reports the cycle when the value is asked for
                # (err:evaluation or a value that needs no expansion): on those documents only the monitor applies
                if w.startswith("hard") and m.startswith("err:doc"):
                    continue
                if cx != cy and not (classify_ns(e, x, y)):
                    tdis.append((t, e, cx, cy))
    # ---- hostile sizes on the real code only: nesting far beyond the limit read from the source (MAX_EXPR_DEPTH) and long
    # flat expressions must end in a value or an error - never in an abort (stack exhaustion) or a timeout
    h0 = lib.build_harness()
    hostile = []
    lim = None
    try:
        import re as _re
        m_ = _re.search(r"const MAX_EXPR_DEPTH: usize = (\d+);", open(os.path.join(lib.REPO, "xpath/src/expr/mod.rs")).read())
        lim = int(m_.group(1)) if m_ else None
    except OSError:
        pass
    hsizes = sorted(set([200, 3000] + ([lim, lim + 1, lim + 2, 3 * lim] if lim else [])))
    for name in fams:
        for k in hsizes:
            e = fams[name](k)
            out = lib.run_lines(h0, [lib.req("query", "<r><a><a><a/></a></a></r>", "", e)], timeout=60)[0].split(" || ")[0]
            hostile.append((name, k, out if out in BAD or out.startswith("err") else "ok"))
            chk.count(["hostile", name, k], nontrivial=True)
            if out in BAD:
                bad.append(("<r><a><a><a/></a></a></r>", "hostile:%s:%d" % (name, k), e if len(e) < 400 else "family %s(%d) of xp_families()" % (name, k), out))
    chk.cov["hostile_sizes"] = hostile
    # ---- documents EDITED through the DOM, in the text-expanded view xq / xe read: states no parser produces (a Text node without
    # characters, runs cut and joined, detached pieces) queried with a battery that walks every axis over them: still a value or
    # an error, never a crash (round-7 seed C06-J: a run made of empty items only had no first item to ask)
    from gen import domgen as D
    from props import domchecks as DC
    import re as _re2
    ecases = DC.histories(rng, 150 if thorough else 50, 8, 0.15)
    edocs = ["<root><a/>x<b/>y</root>", "<r>t</r>", "<r><a>1</a><![CDATA[c]]>&amp;<b/></r>"]
    einit = lib.run_lines(h0, [lib.req("domx", t, "count(//*)") for t in edocs], timeout=120, per_line_resume=True)
    for t, a in zip(edocs, einit):
        dump0 = D.split_records(a)[0].get("dump", "")
        nh = 1 + max([int(x) for x in _re2.findall(r"h(\d+):", dump0)] or [0])
        texts_ = [int(x) for x in _re2.findall(r"h(\d+):M\(", dump0)]
        elems_ = [int(x) for x in _re2.findall(r"h(\d+):E\(", dump0)]
        for el in elems_:
            ecases.append((t, ["ct:", "ap:h%d:h%d" % (el, nh)]))
            ecases.append((t, ["ct:", "ib:h%d:h%d:h%d" % (elems_[0], nh, el)]))
            ecases.append((t, ["ct:", "ct:", "ap:h%d:h%d" % (el, nh), "ap:h%d:h%d" % (el, nh + 1)]))
        for tx in texts_:
            ecases.append((t, ["sd:h%d:" % tx]))
            ecases.append((t, ["dd:h%d:0:99" % tx]))
            ecases.append((t, ["st:h%d:0" % tx]))
    EQ = DC.battery("//text();//node();//*/following-sibling::node();//*/preceding-sibling::node();//text()/following::node();"
                    "//node()/preceding::text();string(/*);count(//text()[. = '']);//text()/..;//*[text()]")
    eout = lib.run_lines(h0, [lib.req("domx", t, EQ, *ops) for t, ops in ecases], timeout=900, per_line_resume=True)
    for (t, ops), o in zip(ecases, eout):
        chk.count(["edited-expanded", t] + ops, nontrivial=True)
        recs = D.split_records(o) if o not in BAD else []
        worst = o if o in BAD else None
        for i_, r in enumerate(recs):
            if r["status"] in BAD:
                # the factories create_text_node / create_comment / create_cdata_section panic on data they cannot hold: the
                # recorded finding factory-panic of C13 / C15, not a matter of evaluating a query
                if not (r["status"] == "panic" and i_ > 0 and ops[i_ - 1].split(":")[0] in ("ct", "cc", "cd")):
                    worst = r["status"]
                break
            if "panic" in (r["flags"].get("q") or "") or "panic" in (r.get("dump") or ""):
                worst = "panic"            # while the battery was evaluated / while the same nodes were walked for the dump
                break
        if worst:
            bad.append((t, "edited-expanded", "dom history (text-expanded view): " + " ".join(ops) + "  then the query battery", worst))
    chk.cov["edited_documents_queried"] = len(ecases)
    # ---- a refusal leaves nothing behind (shared with C08: redundant parentheses stay harmless after refusals)
    for rdoc_, label_, e_, msg_ in recovery_after_refusals(chk, lim, fams):
        bad.append((rdoc_, label_, e_, msg_))
    # ---- predicates nested to the limit on a document where every one of them is actually evaluated (a chain of elements):
    # the work must not double with every level
    if lim:
        depth = lim + 2
        chain = "<a>" * depth + "</a>" * depth
        for n in (8, 16, 24, lim - 2):
            for name, e in (("nestpred", "/a" + "[a" * n + "]" * n), ("nestnot", "/a" + "[not(a" * (n // 2) + ")]" * (n // 2)),
                            ("nestand", "/a" + "[a and a" * (n // 2) + "]" * (n // 2))):
                t0 = time.time()
                out = lib.run_lines(h0, [lib.req("query", chain, "", e)], timeout=per_line * 2)[0].split(" || ")[0]
                chk.count(["nested-predicates", name, n], nontrivial=True)
                if out in BAD or time.time() - t0 > per_line:
                    bad.append((chain, "%s:%d" % (name, n), e, "%s after %.1fs (predicates nested %d deep on a chain of %d elements)"
                                % (out if out in BAD else "answer", time.time() - t0, n, depth)))
                    break
    # ---- growth: time(2n) / time(n) on the real code
    h = lib.build_harness()
    growth = {}
    doc = "<r><a><a><a/></a></a></r>"
    for name in fams:
        base = 10
        ts = []
        for k in (base, base * 2):
            t0 = time.time()
            out = lib.run_lines(h, [lib.req("query", doc, "", fams[name](k))], timeout=60)[0]
            ts.append(max(time.time() - t0, 0.02))
            if out.split(" || ")[0] in BAD:
                bad.append((doc, "growth:%s:%d" % (name, k), fams[name](k), out.split(" || ")[0]))
        growth[name] = [round(x, 3) for x in ts] + [round(ts[1] / ts[0], 1)]
        if ts[1] > 2.0 and ts[1] / ts[0] > 16:
            bad.append((doc, "growth:" + name, fams[name](base * 2),
                        "time x%.0f when the size doubles (%.2fs -> %.2fs)" % (ts[1] / ts[0], ts[0], ts[1])))
    # ... and on a WIDE document, paths that reach the same nodes again and again from several context nodes (up and down, along
    # the siblings, across the descendants): a node-set holds a node once, so the work per step is bounded by the document,
    # however long the path (found on the unchanged code after a round-8 sub-agent's remark: `/r/*/../*/..` x7 on ten children
    # did not end; repaired in /repo 8f0a0c5)
    wide = "<r>" + "<a><b/><b/><b/></a>" * 8 + "</r>"
    fan = {"updown": lambda n: "/r" + "/*/.." * n, "sibling": lambda n: "/r/*" + "/following-sibling::*" * n,
           "dosup": lambda n: "/r" + "//*/.." * n, "precfoll": lambda n: "/r/*" + "/preceding-sibling::*/following-sibling::*" * n,
           "ancdesc": lambda n: "//b" + "/ancestor::*/descendant::b" * n, "predup": lambda n: "/r/*" + "[../*]" * n + "/..",
           "downup2": lambda n: "/r" + "/a/b/../.." * n}
    for name in fan:
        ts = []
        for k in (6, 12):
            t0 = time.time()
            out = lib.run_lines(h, [lib.req("query", wide, "", fan[name](k))], timeout=60)[0]
            ts.append(max(time.time() - t0, 0.02))
            chk.count(["fanout", name, k], nontrivial=True)
            if out.split(" || ")[0] in BAD:
                bad.append((wide, "growth:fanout-%s:%d" % (name, k), fan[name](k), out.split(" || ")[0]))
        growth["fanout-" + name] = [round(x, 3) for x in ts] + [round(ts[1] / ts[0], 1)]
        if ts[1] > 2.0 and ts[1] / ts[0] > 16:
            bad.append((wide, "growth:fanout-" + name, fan[name](12),
                        "time x%.0f when the path doubles (%.2fs -> %.2fs)" % (ts[1] / ts[0], ts[0], ts[1])))
    chk.cov["growth_seconds_n_2n_ratio"] = growth
    chk.cov["input_kinds"] = dict(sorted(kinds.items()))
    chk.cov["outcomes_impl"] = dict(sorted(outcomes.items()))
    chk.cov["disagreements_checked"] = len(tdis)
    chk.cov["rule"] = ("expression strings from four streams (valid from the typed generator, grammatical-but-unsupported or "
                       "ill-typed, garbage over an XPath token alphabet, single-character mutants of valid ones) and %d families "
                       "at sizes %s, every core function / operator over a pool of extreme arguments at every arity, each against generated documents, evaluated by the real query() in a worker process; "
                       "panic / abort / timeout are outcomes; growth ratio time(2n)/time(n); tie: same outcome class (ok or error "
                       "class) from the model" % (len(fams), sizes))
    for t, w, e, x in bad[:4]:
        chk.violation("total_%s" % lib.enc(w + "_" + e)[:60],
                      "property C06: %s on expression kind %s\nexpression: %s\ndocument (percent-encoded): %s\n"
                      "replay: printf 'query\\t%s\\t%s\\t%s\\n' | harness/target/debug/xmlrs-driver\n"
                      % (x, w, e[:500], lib.enc(t)[:800], lib.enc(t).replace("%", "%%"), lib.enc(XP.BINDINGS).replace("%", "%%"),
                         lib.enc(e).replace("%", "%%")[:1500]))
    chk.cov["monitor_failures"] = len(bad)
    chk.assumptions += ["running time and stack use are measured, not proved", "per-expression limit about %ds" % per_line]
    _finish(chk, "C06", bad, tdis, problems, pr, "query-outcome")


# ---------------------------------------------------------------------------------------------------------
def run_c07(chk):
    thorough = chk.tier == "thorough"
    rng = random.Random(lib.seed())
    tabs, problems = lib.regenerate()
    pr = X.standard_proof(chk, "C07", thorough)
    ndocs = 400 if thorough else 100
    eg = G.ExprGen(rng)
    qs, meta = [], []
    for _ in range(ndocs):
        d = G.DocGen(rng).document()
        t = G.render_doc(d)
        es, m = [], []
        for _ in range(4):
            A, Bx = eg.nodeset(0), eg.nodeset(0)
            a, b = _spell(rng, A), _spell(rng, Bx)
            k = rng.choice([1, 2, 3])
            # several predicates on one parenthesised node-set apply one after the other: a later one counts positions in
            # what the earlier ones left (round-6 seed C07-G applied them all in one pass over the original list)
            p1 = rng.choice(["@*", "*", "position()>1", "position()<last()", "not(self::text())", "text()", "position() mod 2 = 1",
                             "self::*", "not(@*)", "string-length(name())>0"])
            k2 = rng.choice(["1", "2", "last()", "last()-1", "position()=1 or position()=last()"])
            group = [a, b, "(%s)|(%s)" % (a, b), "(%s)|(%s)" % (b, a), "(%s)|(%s)" % (a, a),
                     "count((%s)|(%s))" % (a, b), "count(%s)" % a, "count(%s)" % b, "(%s)[%d]" % (a, k),
                     "(%s)|(%s)|(%s)" % (a, b, a), "((%s)|(%s))|(%s)" % (a, b, b),
                     "(%s)[%s][%s]" % (a, p1, k2), "((%s)[%s])[%s]" % (a, p1, k2)]
            es += group
            m.append((a, b, k))
        qs.append((t, XP.BINDINGS, es))
        meta.append(m)
    impl, model = XP.run_queries("qfresh", qs, quirks="rz")
    findings = {f["id"]: f for f in lib.load_findings("C07") if f["kind"] == "known"}
    mfail, tdis = [], []
    sizes = {"empty": 0, "one": 0, "many": 0}
    # structured stream: every axis as the single step behind a one-node filter or inside a predicate, inner `//` with
    # positional predicates; the same ordering monitor, and A | A = A as ordered lists
    cex = [_spell(rng, a, abbrev=True) for a in construct_asts() if "namespace::" not in _spell(rng, a, abbrev=True)]
    cq = []
    for cd in CONSTRUCT_DOCS:
        for i in range(0, len(cex), 30):
            part = cex[i:i + 30]
            cq.append((cd, XP.BINDINGS, part + ["(%s)|(%s)" % (e, e) for e in part]))
    cimpl, cmodel = XP.run_queries("qfresh", cq, quirks="rz")
    for (t, b, es), a, m in zip(cq, cimpl, cmodel):
        fa, raw, _ = _fields(a, len(es))
        fm, _, _ = _fields(m, len(es))
        half = len(es) // 2
        for j, (e, r, s_, y) in enumerate(zip(es, raw, fa, fm)):
            items = XP.node_items(r)
            chk.count([t, e], nontrivial=len(items) >= 2)
            if r.startswith("N:"):
                orders = [o for _, o, _ in items]
                keys = [XP.path_key(p) for p, _, _ in items]
                if any(x >= y2 for x, y2 in zip(orders, orders[1:])) or any(not _before(x, y2) for x, y2 in zip(keys, keys[1:])):
                    mfail.append((t, e, "not in document order / duplicate node", r))
                    continue
            if j < half and fa[j + half] != s_ and s_.startswith("N:"):
                mfail.append((t, "(%s)|(%s)" % (e, e), "A|A differs from A", fa[j + half] + " / " + s_))
            elif s_ != y:
                tdis.append((t, e, s_, y))
    # node-sets on EDITED documents (split text nodes, moved subtrees, new attributes): document order is the order of the
    # tree as it is now - the order keys along the walk and the node-sets of a query battery, against a fresh parse
    from gen import domgen as D
    from props import domchecks as DC
    ecases = DC.histories(rng, 300 if thorough else 100, 8, 0.1)
    for t_, ops_ in ecases:
        # splitting a text node that is not the last child, then querying at once
        ops_.insert(rng.randrange(len(ops_) + 1), "st:h%d:1" % rng.randint(1, 9))
    # (directed: a NEW node appended to / inserted into the document element while comments and PIs follow it in the document -
    # round-9 seed C07-M numbered such a node behind the epilog; its detection had depended on one random history)
    EPI_ = "<r><a>1</a><b>2</b></r><!--tail--><?pi x?>"      # h0 document, h1 r, h2 a, h3 `1`, h4 b, h5 `2`, h6 comment, h7 PI; h8 = the new node
    for mk_ in ("ce:c", "ct:x", "cc:k", "cp:t:d"):
        for put_ in (["ap:h1:h8"], ["ib:h1:h8:h4"], ["ap:h4:h8"], ["ap:h1:h8", "ap:h1:h2"], ["ib:h1:h8:-"]):
            ecases.append((EPI_, [mk_] + put_))
            ecases.append((EPI_, ["quiet", mk_] + put_ + ["loud"]))
    eimpl = lib.run_lines(lib.build_harness(), [lib.req("dom", t_, DC.battery("//node()[not(self::text())];(//*|//comment())[last()]"), *ops_)
                                                 for t_, ops_ in ecases], timeout=900, per_line_resume=True)
    for (t_, ops_), a in zip(ecases, eimpl):
        for i, x in enumerate(D.split_records(a)):
            chk.count(["edited", t_] + ops_[:i], nontrivial=i > 0 and x["status"].startswith("ok"))
            v, q = x["flags"].get("ord"), x["flags"].get("q")
            if v is not None and v not in ("ok", "skip"):
                mfail.append((t_, "dom history: " + " ".join(ops_[:i]), "document-order keys of the edited document are not increasing "
                              "along the tree walk (node-sets come out of order or lose nodes)", v))
                break
            if q is not None and q not in ("ok", "skip") and "SIDE-EFFECT" not in q:
                mfail.append((t_, "dom history: " + " ".join(ops_[:i]), "a node-set on the edited document differs from the same on a "
                              "fresh parse of its serialization", q[:600]))
                break
    # ... and in the text-expanded view (the view xq / xe use: character data, CDATA sections and references are ONE text node),
    # where an existing text node is moved by its own code path (round-9 seed C07-N: that path did not mark the order stale)
    xcases_ = DC.histories(rng, 300 if thorough else 120, 6, 0.1)
    ximpl_ = lib.run_lines(lib.build_harness(), [lib.req("domx", t_, DC.battery("//text();//node();//text()|//*;(//text()|//*)[1]"), *ops_)
                                                  for t_, ops_ in xcases_], timeout=900, per_line_resume=True)
    for (t_, ops_), a in zip(xcases_, ximpl_):
        for i, x in enumerate(D.split_records(a)):
            chk.count(["edited-expanded", t_] + ops_[:i], nontrivial=i > 0 and x["status"].startswith("ok"))
            v, q = x["flags"].get("ord"), x["flags"].get("q")
            if v is not None and v != "ok":
                mfail.append((t_, "dom history (text-expanded view): " + " ".join(ops_[:i]), "document-order keys of the edited document "
                              "are not increasing along the tree walk (node-sets come out of order or lose nodes)", v))
                break
            if q is not None and q not in ("ok", "skip") and "SIDE-EFFECT" not in q:
                mfail.append((t_, "dom history (text-expanded view): " + " ".join(ops_[:i]), "a node-set on the edited document differs "
                              "from the same on a fresh parse of its serialization", q[:600]))
                break
    # ... and the same after calls made WITHOUT reading anything in between (see domchecks.quiet_stream)
    qm_, qt_, qn_ = DC.quiet_stream(chk, rng, 200 if thorough else 80, queries=DC.battery("//node()[not(self::text())];(//*|//comment())[last()]"))
    for t_, ops_, i_, why_, det_ in qm_:
        mfail.append((t_, "dom history: " + " ".join(ops_), why_, det_))
    chk.cov["quiet_histories"] = qn_
    # ... and namespace nodes after a declaration came to stand on an element as an attribute NODE (createAttribute, value, query,
    # setAttributeNode): each namespace node once, the same set a fresh parse gives
    nsc_ = DC.ns_node_cases(DC.NSDOCS_)
    nso_ = lib.run_lines(lib.build_harness(), [lib.req("dom", t_, DC.NSQ, *ops_) for t_, ops_ in nsc_], timeout=900, per_line_resume=True)
    for (t_, ops_), a in zip(nsc_, nso_):
        for i, x in enumerate(D.split_records(a)):
            chk.count(["edited-ns", t_] + ops_[:i], nontrivial=i > 0 and x["status"].startswith("ok"))
            q = x["flags"].get("q")
            if q is not None and q not in ("ok", "skip") and "SIDE-EFFECT" not in q:
                mfail.append((t_, "dom history: " + " ".join(ops_[:i]), "a node-set of namespace nodes on the edited document differs from "
                              "the same on a fresh parse of its serialization (a node lost or merged)", q[:600]))
                break
    # the namespace nodes of DIFFERENT elements that come from ONE declaration are different nodes: counted each, united without
    # loss, in either order (counts and unions only - the ORDER of namespace nodes is the recorded finding namespace-nodes;
    # round-8 seed C07-K removed duplicates by node id, which such nodes share)
    nsdocs = ["<r xmlns:p='urn:p'><a/><b><c/></b></r>", "<r xmlns:p='urn:p' xmlns='urn:d'><a xmlns:q='urn:q'><c/></a><b xmlns:p='urn:p2'/></r>"]
    nsq = ["count(//namespace::p)", "count(//a/namespace::p | //b/namespace::p)", "count(//b/namespace::p | //a/namespace::p)",
           "count((//namespace::p)[3])", "count(//namespace::*)", "count(//*/namespace::xml)", "count(//a/namespace::* | //b/namespace::*)",
           "count(//a/namespace::* | //a/namespace::*)", "count(//c/namespace::* | //namespace::q)", "count(//namespace::*[name()='p'])",
           "count(//*[namespace::p = 'urn:p'])", "count((//a/namespace::p | //b/namespace::p)/..)", "count(//namespace::p/parent::*)"]
    ni, nm_ = XP.run_queries("qfresh", [(d_, "", nsq) for d_ in nsdocs], quirks="rz")
    for d_, a_, m_ in zip(nsdocs, ni, nm_):
        fa_, _, _ = _fields(a_, len(nsq))
        fm_, _, _ = _fields(m_, len(nsq))
        for e_, x_, y_ in zip(nsq, fa_, fm_):
            chk.count(["nscount", d_, e_], nontrivial=True)
            if x_ != y_:
                mfail.append((d_, e_, "namespace nodes of different elements are counted / united wrongly (a node lost or counted twice)",
                              x_ + " expected " + y_))
    # node-sets of DIFFERENT node kinds united: commutative, and nothing is lost - count(A|B) = count(A) + count(B) when the
    # kinds differ (an element and its own namespace or attribute nodes are distinct nodes)
    KSETS = [("//*", "e"), ("//@*", "a"), ("//namespace::*", "n"), ("//text()", "t"), ("//comment()", "c"), ("/*", "e"),
             ("//b/namespace::*", "n"), ("//a/@*", "a"), ("/*/namespace::xml", "n"), ("//*[last()]", "e"), ("//a/namespace::*", "n")]
    KDOCS = CONSTRUCT_DOCS + ["<a xmlns:p='urn:p' k='v'><b/><p:c x='1'><d/>t</p:c><!--c--><b p:k='2' xmlns:q='urn:q'/></a>",
                              # nodes that read alike: equal names, equal values, equal text - each still its own node
                              "<a><b k='v'>t</b><b k='v'>t</b><!--c--><!--c--><b k='v'>t</b><a k='v'/><a k='v'/></a>"]
    kq, kmeta = [], []
    for kd in KDOCS:
        es, m = [], []
        for (A, ka) in KSETS:
            for (Bx, kb) in KSETS:
                if A < Bx:
                    es += ["(%s)|(%s)" % (A, Bx), "(%s)|(%s)" % (Bx, A), "count((%s)|(%s))" % (A, Bx), "count(%s)" % A, "count(%s)" % Bx]
                    m.append((A, Bx, ka != kb))
        kq.append((kd, XP.BINDINGS, es))
        kmeta.append(m)
    kimpl = lib.run_lines(lib.build_harness(), [lib.req("qfresh", t, b, *es) for t, b, es in kq], timeout=900, per_line_resume=True)
    import struct as _st
    for (t, b, es), m, a in zip(kq, kmeta, kimpl):
        fa, raw, _ = _fields(a, len(es))
        for gi, (A, Bx, disjoint) in enumerate(m):
            ab, ba, cab, ca, cb = fa[gi * 5:(gi + 1) * 5]
            chk.count([t, A, Bx], nontrivial=True)
            if ab != ba:
                mfail.append((t, "(%s)|(%s) vs (%s)|(%s)" % (A, Bx, Bx, A), "union is not commutative", ab + " / " + ba))
            elif disjoint and all(f.startswith("n:") for f in (cab, ca, cb)):
                v = [_st.unpack(">d", int(f[2:], 16).to_bytes(8, "big"))[0] for f in (cab, ca, cb)]
                if v[0] != v[1] + v[2]:
                    mfail.append((t, "count((%s)|(%s))" % (A, Bx), "the union of node-sets of different node kinds loses nodes: %g != %g + %g"
                                  % (v[0], v[1], v[2]), cab))
    # unions of THREE operands with an EMPTY one among them, in every order of the other two: the same ordered node-set as A|B
    # (kept by hand: seed C07-F skipped the final sort when "no operand begins before the end of the one in front of it" and lost
    # track of that end at an empty operand; its detection had depended on a random expression)
    e3q, e3meta = [], []
    for kd in KDOCS:
        es, m = [], []
        for (A, ka) in KSETS:
            for (Bx, kb) in KSETS:
                if A < Bx and "n" not in (ka, kb):
                    es += ["(%s)|(%s)" % (A, Bx), "(%s)|(//nosuch-x)|(%s)" % (A, Bx), "(%s)|(//nosuch-x)|(%s)" % (Bx, A),
                           "(//nosuch-x)|(%s)|(%s)" % (Bx, A), "(%s)|(%s)|(//nosuch-x)" % (Bx, A), "(%s)|(//nosuch-x)|(//nosuch-y)|(%s)" % (Bx, A)]
                    m.append((A, Bx))
        e3q.append((kd, XP.BINDINGS, es))
        e3meta.append(m)
    e3impl = lib.run_lines(lib.build_harness(), [lib.req("qfresh", t, b, *es) for t, b, es in e3q], timeout=900, per_line_resume=True)
    for (t, b, es), m, a in zip(e3q, e3meta, e3impl):
        fa, raw, _ = _fields(a, len(es))
        for gi, (A, Bx) in enumerate(m):
            g = fa[gi * 6:(gi + 1) * 6]
            chk.count([t, "empty-operand", A, Bx], nontrivial=True)
            for j in range(1, 6):
                if g[j] != g[0]:
                    mfail.append((t, es[gi * 6 + j], "a union with an empty operand among three differs from the union of the two others "
                                  "(order or members)", g[j] + " / " + g[0]))
                    break
    chk.cov["structured_stream"] = "%d expressions x %d documents; %d unions of node-sets of different kinds" % (
        2 * len(cex), len(CONSTRUCT_DOCS), sum(len(m) for m in kmeta))

    def bits(field):
        return int(field[2:], 16) if field.startswith("n:") else None

    def fnum(field):
        import struct
        b = bits(field)
        return None if b is None else struct.unpack(">d", b.to_bytes(8, "big"))[0]

    for (t, b, es), ms, a, m in zip(qs, meta, impl, model):
        fa, raw, _ = _fields(a, len(es))
        fm, _, _ = _fields(m, len(es))
        for gi, (ea, eb, k) in enumerate(ms):
            g = raw[gi * 13:(gi + 1) * 13]
            gs = fa[gi * 13:(gi + 1) * 13]
            gm = fm[gi * 13:(gi + 1) * 13]
            ge = es[gi * 13:(gi + 1) * 13]
            for e, r, s_, y in zip(ge, g, gs, gm):
                items = XP.node_items(r)
                nontriv = len(items) >= 2
                chk.count([t, e], nontrivial=nontriv)
                if r.startswith("N:"):
                    sizes["empty" if not items else ("one" if len(items) == 1 else "many")] += 1
                    nsq = classify_ns(e, s_, y)
                    # (1) monitor on the implementation's own result: document order, no duplicates
                    orders = [o for _, o, _ in items]
                    keys = [XP.path_key(p) for p, _, _ in items]
                    ids = [(p, i) for p, _, i in items]
                    why = None
                    if any(x >= y2 for x, y2 in zip(orders, orders[1:])):
                        why = "order keys not strictly increasing: %s" % orders
                    elif any(not _before(x, y2) for x, y2 in zip(keys, keys[1:])) and not nsq:
                        why = "not in document order / duplicate node"
                    elif len(set(p for p, _, _ in items)) != len(items) and not nsq:
                        why = "a node occurs twice"
                    if why:
                        if nsq and _known(findings, chk, "namespace-nodes"):
                            continue
                        mfail.append((t, e, why, r))
                        continue
                if s_ != y and not (classify_ns(e, s_, y) and "namespace-nodes" in findings):
                    tdis.append((t, e, s_, y))
            # (2) set algebra on the implementation's results
            A_, B_, AB, BA, AA, cAB, cA, cB, Ak, ABA, AB_B, PP, PQ = gs
            if PP != PQ and not classify_ns(ea, PP, PQ):
                mfail.append((t, "%s vs %s" % (ge[11], ge[12]), "successive predicates on a parenthesised node-set do not count in what "
                              "the earlier predicate left", PP + " / " + PQ))
            if A_.startswith("N:") and B_.startswith("N:") and not classify_ns(ea + eb, A_, B_):
                if AB != BA:
                    mfail.append((t, "(%s)|(%s) vs (%s)|(%s)" % (ea, eb, eb, ea), "union is not commutative", AB + " / " + BA))
                if AA != A_:
                    mfail.append((t, "(%s)|(%s)" % (ea, ea), "A|A differs from A", AA + " / " + A_))
                if ABA != AB or AB_B != AB:
                    mfail.append((t, "(%s)|(%s)|(%s)" % (ea, eb, ea), "union is not associative / idempotent", ABA + " / " + AB))
                n1, n2, n3 = fnum(cAB), fnum(cA), fnum(cB)
                if None not in (n1, n2, n3) and n1 > n2 + n3:
                    mfail.append((t, "count((%s)|(%s))" % (ea, eb), "count(A|B) > count(A)+count(B)", "%s %s %s" % (n1, n2, n3)))
                la = A_[3:-1].split(";") if A_ != "N:[]" else []
                want = "N:[%s]" % (la[k - 1] if k <= len(la) else "")
                if Ak.startswith("N:") and Ak != want:
                    mfail.append((t, "(%s)[%d]" % (ea, k), "positional filter on a parenthesised node-set does not count in document order",
                                  Ak + " expected " + want))
    # the same node-sets from a context that has been used before - on another document, with queries that failed after they had
    # sorted nodes: still each node once, in document order, i.e. exactly what a fresh context gives
    sw_fail, sw_n = context_switch_stream(chk, rng, lib.build_harness(), [t for t, _, _ in qs], 60 if thorough else 25)
    mfail += sw_fail
    chk.cov["context_switched_between_documents"] = sw_n
    chk.cov["result_sizes"] = sizes
    chk.cov["disagreements_checked"] = len(tdis)
    chk.cov["rule"] = ("%d documents x 4 pairs (A, B) of generated node-set expressions; for A, B, A|B, B|A, A|A, A|B|A, (A|B)|B, "
                       "count(...) and (A)[k]: the real result must have strictly increasing order keys, strictly increasing "
                       "positions in an independent pre-order numbering, no repeated node; union commutative, associative, "
                       "idempotent; count(A|B) <= count(A)+count(B); (A)[k] = k-th of A; tie: same node lists from the model; "
                       "non-trivial = a node-set with at least two nodes" % ndocs)
    for t, e, why, r in mfail[:4]:
        chk.violation("nodeset_%s" % lib.enc(e)[:60],
                      "property C07: %s\nexpression: %s\ndocument (percent-encoded): %s\nimplementation: %s\n"
                      "replay: printf 'query\\t%s\\t%s\\t%s\\n' | harness/target/debug/xmlrs-driver\n"
                      % (why, e, lib.enc(t), r[:800], lib.enc(t).replace("%", "%%"), lib.enc(XP.BINDINGS).replace("%", "%%"),
                         lib.enc(e).replace("%", "%%")))
    chk.cov["monitor_failures"] = len(mfail)
    _finish(chk, "C07", mfail, tdis, problems, pr, "query")


# ---------------------------------------------------------------------------------------------------------
def run_c08(chk):
    thorough = chk.tier == "thorough"
    rng = random.Random(lib.seed())
    tabs, problems = lib.regenerate()
    pr = X.standard_proof(chk, "C08", thorough)
    ndocs, nexpr = (300, 8) if thorough else (80, 6)
    cases = XP.gen_cases(rng, ndocs, nexpr)
    SP = [dict(abbrev=True), dict(abbrev=False), dict(abbrev=True, ws=True), dict(abbrev=False, ws=True),
          dict(abbrev=True, parens=True), dict(abbrev=False, ws=True, parens=True),
          # (round-9 seed C08-N: a path of ONE step was not put into document order, the same path behind `./` was)
          dict(abbrev=True, selfstep=True), dict(abbrev=False, selfstep=True)]
    fixed = [("1 + 2 * 3", "n"), ("(1 + 2) * 3", "n"), ("2 * 3 + 1", "n"), ("10 - 2 - 3", "n"), ("2 * 6 div 4", "n"), ("7 mod 4 * 2", "n"),
             ("1 < 2 = true()", "b"), ("1 = 1 < 2", "b"), ("0 or 1 and 0", "b"), ("1 or 0 and 0", "b"), ("-1 - -1", "n"), ("- - 2", "n"),
             ("3 > 2 > 1", "b"), ("1 + 1 = 2 and 2 * 2 = 4", "b"), ("-2 * 3", "n"), ("8 div 2 div 2", "n"), ("2 + 3 mod 2", "n"),
             ("1 | 2", "e"), ("count(//a | //b) + 1", "n"), ("-count(//a)|//b", "e"), ("1 - 2 + 3", "n"), ("2 = 2 != false()", "b"),
             ("text()", "N"), ("node()", "N"), ("comment()", "N"), ("processing-instruction()", "N"), ("count(text())", "n"),
             ("a | text()", "N"), ("*/text()", "N"), ("//text()[1]", "N"), ("(text())", "N"),
             # ... also the one node-type test that takes an argument (round-8 seed C08-L read it as a function call)
             ("processing-instruction('pi')", "N"), ("count(processing-instruction('pi'))", "n"), ("*[processing-instruction('pi')]", "N"),
             ("processing-instruction('pi') | a", "N"), ("(processing-instruction(\"tg\"))[1]", "N"), ("//a[processing-instruction( 'pi' )]", "N"),
             ("processing-instruction('pi')/..", "N"), ("child::processing-instruction('pi')", "N"),
             # ... and a number that is no integer is true for NO position: [1.5] is short for [position() = 1.5] (kept by hand: the
             # detection of seed C08-D, which truncated, had depended on a random predicate)
             ("//*[1.5]", "N"), ("(//*)[2.5]", "N"), ("//*[last() div 2]", "N"), ("(//*)[count(//*) div 2]", "N"), ("//*[0.5 + 1]", "N"),
             ("//node()[last() - 0.5]", "N"), ("//*[position() = 1.5]", "N"), ("(//node())[3 div 2]", "N"), ("//*[1.0]", "N"), ("//*[2 div 2]", "N")]
    casts = construct_asts()
    for cd in CONSTRUCT_DOCS:
        for i in range(0, len(casts), 8):
            cases.append((None, cd, casts[i:i + 8]))
    qs, meta = [], []
    for d, t, asts in cases:
        es = []
        for ast in asts:
            for kw in SP:
                es.append(_spell(rng, ast, **kw))
        es += [f for f, _ in fixed]
        qs.append((t, rng.choice(XP.BINDING_VARIANTS), es))
        meta.append(asts)
    impl, model = XP.run_queries("qfresh", qs, quirks="rz")
    findings = {f["id"]: f for f in lib.load_findings("C08") if f["kind"] == "known"}
    mfail, tdis = [], []
    differing = 0
    for (t, b, es), asts, a, m in zip(qs, meta, impl, model):
        fa, raw, _ = _fields(a, len(es))
        fm, _, _ = _fields(m, len(es))
        for i, ast in enumerate(asts):
            g = fa[i * len(SP):(i + 1) * len(SP)]
            ge = es[i * len(SP):(i + 1) * len(SP)]
            gm = fm[i * len(SP):(i + 1) * len(SP)]
            distinct_spellings = len(set(ge))
            differing += distinct_spellings > 1
            chk.count([t, ge[0]], nontrivial=distinct_spellings > 1 and not g[0].startswith("err"))
            if len(set(g)) != 1:
                j = next(k for k in range(len(g)) if g[k] != g[0])
                if classify_ns(ge[0], g[0], g[j]) and _known(findings, chk, "namespace-nodes"):
                    continue
                mfail.append((t, "%s   vs   %s" % (ge[0], ge[j]), "equivalent spellings give different results", g[0] + "  /  " + g[j]))
            elif g[0] != gm[0] and not classify_ns(ge[0], g[0], gm[0]):
                tdis.append((t, ge[0], g[0], gm[0]))
        base = len(asts) * len(SP)
        for (f, kind), x, y in zip(fixed, fa[base:], fm[base:]):
            chk.count([t, f], nontrivial=True)
            if x != y:
                mfail.append((t, f, "precedence / associativity / node-type test: differs from the grammar's reading", x + " expected " + y))
    # ---- redundant parentheses stay harmless whatever was asked before: after expressions nested beyond the limit were
    #      refused, the parenthesised spellings within the limit answer as they do when asked first
    for rdoc_, label_, e_, msg_ in recovery_after_refusals(chk, expr_depth_limit(), xp_families()):
        mfail.append((rdoc_, e_, "a spelling within the nesting limit is read differently after deeper expressions were refused", msg_))
    # ---- the reviewed expression grammar as reference (tools/ref/xpath.json): derivations of it and their one-character
    #      neighbours must be read by the parser exactly as the reviewed grammar reads them (same error class / same value)
    from gen import peggen
    pg = peggen.Gen("xpath", rng)
    rtexts = []
    for _ in range(1500 if thorough else 400):
        e = pg.sentence("parse" if "parse" in pg.prods else "expr")
        rtexts.append(e)
        rtexts += pg.mutants(e, 1)
    rtexts = [e for e in rtexts if "\x00" not in e and len(e) <= 160][:4000]
    RDOC = "<r id='1'><a x='2'>t<b/></a><!--c--><?pi d?></r>"
    rq = [(RDOC, XP.BINDINGS, rtexts[i:i + 25]) for i in range(0, len(rtexts), 25)]
    rimpl = lib.run_lines(lib.build_harness(), [lib.req("qfresh", t, b, *es) for t, b, es in rq], timeout=900, per_line_resume=True)
    rref = lib.run_lines(lib.model_driver(), [lib.req("queryq", "grz", t, b, *es) for t, b, es in rq], timeout=900, per_line_resume=True)
    ref_ok = 0
    for (t, b, es), a, m in zip(rq, rimpl, rref):
        fa, _, _ = _fields(a, len(es))
        fm, _, _ = _fields(m, len(es))
        for e, x, y in zip(es, fa, fm):
            ref_ok += not y.startswith("err")
            chk.count(["ref", e], nontrivial=not y.startswith("err:syntax"))
            # which of several evaluation errors of one expression is reported (an unbound prefix, a type error) is not a
            # matter of how the expression is READ: both sides read it, both refuse it
            ev = lambda v: "err:evaluation" if v.startswith("err:") and v not in ("err:syntax", "err:remain", "err:fuel", "err:doc") else v
            if ev(x) != ev(y) and not classify_ns(e, x, y):
                mfail.append((t, e, "the parser reads this expression differently from the reviewed grammar (tools/ref/xpath.json); "
                              "productions that differ now: %s" % [d[0] for d in lib.GRAMMAR_DIFFS["xpath"]], x + " expected " + y))
    chk.cov["reviewed_grammar_stream"] = "%d expressions, %d readable by the reviewed grammar" % (len(rtexts), ref_ok)
    # reach of the completeness THEOREM (Thm/C08 `spelling_parses`): how many of the expression texts of this run the parser
    # accepts are `e.str` of a concrete expression `e` that meets the theorem's hypotheses?  (model only: the parse tree is read
    # back into `e`, `e.str = text` is checked, then `e.ok` and the depth bound are evaluated.)  A text outside is a gap of the
    # theorem, not of the code: reported in the evidence, never as a violation.
    alltexts = sorted({e for _, _, es in qs for e in es} | set(rtexts))
    th = lib.run_lines(lib.model_driver(), [lib.req("thm08", e) for e in alltexts], timeout=900, per_line_resume=True)
    acc = [(e, r) for e, r in zip(alltexts, th) if not r.startswith("err")]
    inprof = [(e, r) for e, r in acc if r.startswith("profile=1 ok=")]
    good = "profile=1 ok=1 depth=1 accepted=1 concl=1"
    chk.cov["theorem_reach"] = {"expression_texts": len(alltexts), "accepted": len(acc), "in_profile": len(inprof),
                                "hypotheses_hold": sum(1 for _, r in inprof if r == good),
                                "gaps": [lib.enc(e)[:160] + " -> " + r for e, r in acc if r != good][:5]}
    chk.cov["asts_with_distinct_spellings"] = differing
    chk.cov["spellings_per_ast"] = len(SP)
    chk.cov["disagreements_checked"] = len(tdis)
    chk.cov["rule"] = ("%d documents x %d expression ASTs x %d spellings (abbreviated / unabbreviated steps incl. //, ., .., @, omitted "
                       "child::, [n] vs [position()=n]; white space between tokens; redundant parentheses) must give one result on the "
                       "real code, equal to the model's; plus %d fixed precedence / associativity / node-type-test expressions against "
                       "the model; non-trivial = spellings differ as strings and the result is not an error"
                       % (ndocs, nexpr, len(SP), len(fixed)))
    for t, e, why, r in mfail[:4]:
        chk.violation("spelling_%s" % lib.enc(e)[:60],
                      "property C08: %s\nexpressions: %s\ndocument (percent-encoded): %s\nresults: %s\n"
                      % (why, e, lib.enc(t), r[:800]))
    chk.cov["monitor_failures"] = len(mfail)
    _finish(chk, "C08", mfail, tdis, problems, pr, "query")


# ---------------------------------------------------------------------------------------------------------
NS_BATTERY = ["//*", "//p:*", "//q:*", "//p:a", "//q:b", "//a", "//b", "//@*", "//@p:*", "//@p:x", "//@x", "//@id",
              "//*[namespace-uri()='urn:u1']", "//*[namespace-uri()='urn:u2']", "//*[namespace-uri()='']",
              "//@*[namespace-uri()='urn:u1']", "//@*[namespace-uri()='']", "//*[local-name()='a']", "//@*[local-name()='x']",
              "count(//*[self::p:a or self::q:a])", "//*/@xml:lang", "//*[lang('en')]", "string(//*[1]/@*[1])",
              "count(//p:*/q:*)", "//p:*/@q:*", "//*[@p:x]", "//a[not(namespace-uri())]"]
NAME_BATTERY = ["name(/*)", "name(//*[2])", "name((//@*)[1])", "name((//@*)[2])", "local-name(/*)", "namespace-uri(/*)",
                "namespace-uri((//@*)[1])", "namespace-uri((//*)[last()])", "local-name((//@*)[last()])"]


def rename_doc(text, mapping):
    """consistent renaming of namespace prefixes in a generated document (declarations and uses)"""
    import re
    def sub(m):
        return m.group(1) + mapping.get(m.group(2), m.group(2)) + ":"
    out = re.sub(r"(<|</|\s)(p|q|z):", sub, text)
    out = re.sub(r"xmlns:(p|q|z)(=| CDATA)", lambda m: "xmlns:" + mapping.get(m.group(1), m.group(1)) + m.group(2), out)
    return out


def run_c10(chk):
    thorough = chk.tier == "thorough"
    rng = random.Random(lib.seed())
    tabs, problems = lib.regenerate()
    pr = X.standard_proof(chk, "C10", thorough)
    ndocs = 500 if thorough else 120
    eg = G.ExprGen(rng)
    qs, qs_rd, qs_re, qs_rb = [], [], [], []
    docs = []
    for _ in range(ndocs):
        d = G.DocGen(rng, dtd=True).document()
        # declarations supplied by attribute-list defaults are wanted here; entity references are not
        d["dtd"] = None if d["dtd"] is None or "ATTLIST" not in d["dtd"] else d["dtd"]
        t = G.render_doc(d).replace("&e1;", "t")
        if d["dtd"] is None:
            t = t.replace("&e2;", "t")
        docs.append(d)
        extra = [_spell(rng, eg.nodeset(0)) for _ in range(4)]
        es = NS_BATTERY + extra
        qs.append((t, XP.BINDINGS, es + NAME_BATTERY))
        # the same final bindings reached through a history of re-bindings of the same prefixes
        # ... or of bindings of other prefixes and of the default that were taken out again (first, middle, several of them)
        qs_rb.append((t, rng.choice(["p=urn:u2;q=urn:u1;p=urn:u1;q=urn:u2", "p=urn:zz;p=urn:u1;q=urn:u2", "q=urn:u1;p=urn:u1;q=urn:u2",
                                     "p=urn:u1;q=urn:u2;p=urn:u1", "=urn:u9;a=urn:u8;p=urn:u1;q=urn:u2;!;!a",
                                     "a=urn:u8;p=urn:u1;q=urn:u2;z=urn:u7;!a;!z", "z=urn:u7;p=urn:u9;q=urn:u2;b=urn:u6;!p;p=urn:u1;!z;!b",
                                     "=urn:u9;a=urn:u8;b=urn:u7;p=urn:u1;q=urn:u2;!a;!;!b", "=urn:u9;a=urn:u8;q=urn:u2;p=urn:u1;!"]), es))
        # renaming the document's prefixes: p->pp, q->qq, z->w (name() excluded: it shows the prefix)
        qs_rd.append((rename_doc(t, {"p": "pp", "q": "qq", "z": "w"}), XP.BINDINGS, es))
        # renaming the expression's prefixes together with the caller's bindings
        ren = [e.replace("p:", "P1:").replace("q:", "Q1:").replace("xml:lang", "xml:lang") for e in es]
        qs_re.append((t, "P1=urn:u1;Q1=urn:u2", ren))
    impl, model = XP.run_queries("qfresh", qs, quirks="rz")
    impl_rd = lib.run_lines(lib.build_harness(), [lib.req("qfresh", t, b, *es) for t, b, es in qs_rd], timeout=900, per_line_resume=True)
    impl_re = lib.run_lines(lib.build_harness(), [lib.req("qfresh", t, b, *es) for t, b, es in qs_re], timeout=900, per_line_resume=True)
    impl_rb = lib.run_lines(lib.build_harness(), [lib.req("qfresh", t, b, *es) for t, b, es in qs_rb], timeout=900, per_line_resume=True)
    # caller default namespace (qualifies unprefixed ELEMENT name tests only), abbreviated and unabbreviated step spellings
    DEF_BATTERY = ["//a", "//b", "//child::a", "//@id", "//attribute::id", "//@x", "//attribute::x", "//*[@x]", "//*[attribute::x]",
                   "//a/@*", "//a/attribute::*", "//namespace::p", "//a/namespace::p", "count(//a | //@x)", "//a[@id]/attribute::id",
                   "//p:a/child::b", "//self::a", "//b/parent::a", "//descendant-or-self::a/attribute::n", "name(//attribute::id)"]
    qs_df = [(t, rng.choice(["=urn:u1;p=urn:u1;q=urn:u2", "=urn:u2;p=urn:u1;q=urn:u2"]), DEF_BATTERY) for t, _, _ in qs]
    # scoping, systematically: a default namespace, undeclared with xmlns="" further in, declared again below that, with
    # unprefixed and prefixed elements and attributes at every level; prefixes re-declared and shadowed the same way
    SCOPE_DOCS = [
        "<r xmlns='urn:u1'><a><x xmlns=''><y><a/></y><z xmlns='urn:u2'><w xmlns=''><a id='1'/></w><a/></z></x><a/></a></r>",
        "<r xmlns='urn:u2' xmlns:p='urn:u1'><p:a><b xmlns=''><p:a x='1'><b/></p:a></b><b/></p:a><m xmlns:p='urn:u2'><p:a><a xmlns=''/></p:a></m></r>",
        "<r><a xmlns='urn:u1'><a xmlns=''><a xmlns='urn:u1'><a xmlns=''/></a></a></a></r>",
        "<p:r xmlns:p='urn:u1' xmlns='urn:u1'><a p:x='1' x='2'><p:a xmlns:p='urn:u2' p:x='3'><a xmlns='' p:x='4'/></p:a></a></p:r>",
    ]
    SCOPE_Q = ["//a", "//b", "//p:a", "//q:a", "//*[namespace-uri()='']", "//*[namespace-uri()='urn:u1']", "//*[namespace-uri()='urn:u2']",
               "count(//*[not(namespace-uri())])", "//y/a", "//w/a", "//z/a", "//x//a", "//@p:x", "//@q:x", "//@x", "//*[@p:x]", "//a/a/a/a",
               "namespace-uri((//*)[last()])", "namespace-uri((//*)[last()-1])", "namespace-uri(//*[@id])", "name(//*[@id]/..)",
               "count(//*[local-name()='a'][namespace-uri()='urn:u1'])", "//child::a", "//self::a", "//descendant::a[1]"]
    # a document nested to the parser's limit: the deepest elements inherit the declarations of the root and the reserved `xml`
    # binding like every other element (round-7 seed C10-I walked the ancestors with a bound one short of the limit)
    lim_ = lib.XML_CONSTS.get("MAX_ELEMENT_DEPTH") or 128
    for n_ in (lim_, lim_ - 1):
        SCOPE_DOCS.append("<r xmlns:p='urn:u1' xmlns='urn:u2' xml:lang='en'>" + "<a>" * (n_ - 3) +
                          "<p:a xml:lang='de' p:x='1'><a id='1' xml:space='preserve'/></p:a>" + "</a>" * (n_ - 3) + "</r>")
    # several attributes of one local part under different prefixes, and ordinary attributes spelled like a prefix in use or like
    # `xmlns` under a prefix: names are compared as expanded names, declarations are only what is written `xmlns` / `xmlns:p`
    # (round-8 seeds C10-K: one node per local part in the attribute map; C10-L: any attribute of that local part taken for the
    # declaration; C08-K: `@p:k` looked up by local part)
    SCOPE_DOCS += ["<r xmlns:a='urn:u1' xmlns:b='urn:u2'><e a:x='1' b:x='2' x='3' b:y='4'/><e b:x='5' x='6'/><e x='7' a:x='8'/></r>",
                   "<r xmlns:p='urn:u1'><e p='1' q='urn:zz'><p:a/><f id='7' xmlns:id='urn:u2' id:x='8'/></e><p:a p='urn:u2'/></r>",
                   "<r xmlns='urn:u1'><e a:xmlns='urn:zz' xmlns:a='urn:u2'><a/></e><e xmlns:a='urn:u2' a:p='1'><a/></e></r>"]
    SCOPE_Q += ["//e/@p:x", "//e/@q:x", "//e/@x", "count(//e/@*)", "//e[@q:x = 5]", "string(//e[3]/@p:x)", "//e/attribute::p:x", "//e/@q:*", "//@q:y",
                "//p:a", "//f/@q:x", "namespace-uri(//f/@*[2])", "//e/p:a", "//q:a", "//@p", "count(//p:*)", "//e/a", "//e/p:a | //e/q:a"]
    # namespace names are compared as STRINGS (Namespaces in XML 1.0, 2.3): names that differ in case only - against the caller's
    # bindings urn:u1 / urn:u2, and against each other in one document - are different (round-9 seed C10-M compared them ignoring case)
    SCOPE_DOCS += ["<r xmlns:p='urn:U1' xmlns:q='URN:u2'><p:a p:x='1' q:x='2'/><q:a/><e xmlns='urn:U1' x='5'><a/></e><e xmlns='urn:u1'><a/></e></r>",
                   "<r xmlns:p='urn:u1' xmlns:P='URN:U1'><p:a/><P:a/><e p:x='5' P:x='6'/><f P:x='7'/></r>"]
    SCOPE_Q += ["//p:a | //q:a", "count(//p:* | //q:*)", "//e/@p:x", "//f/@p:x", "//*[namespace-uri() = 'urn:u1']", "count(//@p:*)"]
    SCOPE_Q += ["//@xml:lang", "//@xml:space", "count(//@xml:*)", "namespace-uri((//@xml:space)[last()])", "//*[lang('de')]",
                "name((//*)[last()]/namespace::xml)", "string((//*)[last()]/namespace::p)", "(//*)[last()]/@xml:space"]
    for sd in SCOPE_DOCS:
        for bnd in ("=urn:u1;p=urn:u1;q=urn:u2", "=urn:u2;p=urn:u1;q=urn:u2", XP.BINDINGS, "=urn:u1;p=urn:u2;q=urn:u1",
                    # the caller binds `xml` itself (the expression side has no implicit bindings): name tests on xml:lang / xml:space
                    XP.BINDINGS + ";xml=http://www.w3.org/XML/1998/namespace"):
            qs_df.append((sd, bnd, SCOPE_Q))
    impl_df, spec_df = XP.run_queries("qfresh", qs_df, quirks="")
    spec = lib.run_lines(lib.model_driver(), [lib.req("queryq", "", t, b, *es) for t, b, es in qs], timeout=900)
    findings = {f["id"]: f for f in lib.load_findings("C10") if f["kind"] == "known"}
    mfail, tdis = [], []
    dfeats = {}
    nb = len(NS_BATTERY) + 4
    for d, (t, b, es), a, m, s, ard, are, arb in zip(docs, qs, impl, model, spec, impl_rd, impl_re, impl_rb):
        for f in G.doc_features(d):
            dfeats[f] = dfeats.get(f, 0) + 1
        fa, _, _ = _fields(a, len(es))
        fm, _, _ = _fields(m, len(es))
        fs, _, _ = _fields(s, len(es))
        frd, _, _ = _fields(ard, nb)
        fre, _, _ = _fields(are, nb)
        frb, _, _ = _fields(arb, nb)
        for i, (e, x, y, z) in enumerate(zip(es, fa, fs, fm)):
            nontriv = not x.startswith("err") and x not in ("N:[]", "n:0000000000000000", "s:", "b:0")
            chk.count([t, e], nontrivial=nontriv)
            if x != y:
                if classify_ns(e, x, y) and _known(findings, chk, "namespace-nodes"):
                    continue
                mfail.append((t, e, "differs from Namespaces in XML / XPath 1.0", x + " expected " + y))
            elif x != z:
                tdis.append((t, e, x, z))
            # a name test on the namespace axis names a PREFIX: renaming prefixes legitimately changes its result
            if i < nb and "xml:lang" not in e and "namespace::" not in e:
                # (canonical paths name an attribute with its prefix: compare modulo the renamed prefixes)
                import re as _re
                unpre = lambda v: _re.sub(r"/@[A-Za-z0-9_.-]+%3A", "/@", v) if v.startswith("N:") else v
                # name() shows the document's own prefix: a generated predicate using it may legitimately change with the renaming
                shows_prefix = _re.search(r"(?<![A-Za-z-])name\(", e) is not None
                if not shows_prefix and unpre(frd[i]) != unpre(x):
                    mfail.append((t, e, "result changes when the document's prefixes are renamed consistently (p->pp, q->qq, z->w)",
                                  x + "  /  " + frd[i]))
                if fre[i] != x:
                    mfail.append((t, e, "result changes when the expression's prefixes and the caller's bindings are renamed consistently",
                                  x + "  /  " + fre[i]))
                if frb[i] != x:
                    mfail.append((t, e, "result depends on how the caller's bindings were reached (a prefix bound twice: the later "
                                  "binding must take the place of the earlier one)", x + "  /  " + frb[i]))
    for (t, b, es), a, sp in zip(qs_df, impl_df, spec_df):
        fa, _, _ = _fields(a, len(es))
        fs, _, _ = _fields(sp, len(es))
        for e, x, y in zip(es, fa, fs):
            chk.count([t, b, e], nontrivial=not x.startswith("err") and x != "N:[]")
            if x != y:
                if classify_ns(e, x, y) and _known(findings, chk, "namespace-nodes"):
                    continue
                mfail.append((t, e + "   [caller bindings " + b + "]", "differs from Namespaces in XML / XPath 1.0 with a caller default "
                              "namespace (it applies to unprefixed element name tests only)", x + " expected " + y))
    # the INFORMATION SET's own namespace view (Element::namespace_name, Attribute::namespace_name, in_scope_namespace of
    # crate info - what neither the DOM nor XPath go through): every element and attribute of every document above
    ns_texts = list(dict.fromkeys([t for t, _, _ in qs] + SCOPE_DOCS))
    ni = lib.run_lines(lib.build_harness(), [lib.req("nsinfo", t) for t in ns_texts], timeout=600, per_line_resume=True)
    nm = lib.run_lines(lib.model_driver(), [lib.req("nsinfo", "r", t) for t in ns_texts], timeout=600)
    ns_bad = []
    for t, a, m in zip(ns_texts, ni, nm):
        chk.count(["nsinfo", t], nontrivial=a.startswith("ok") and "=urn" in a)
        if a != m and not m.startswith("err:doc"):
            ia, im = a.split("E(")[1:], m.split("E(")[1:]
            first = next(((x, y) for x, y in zip(ia, im) if x != y), (a[:200], m[:200]))
            ns_bad.append((t, "E(" + first[0], "E(" + first[1]))
    chk.cov["infoset_namespace_view"] = "%d documents, %d differences" % (len(ns_texts), len(ns_bad))
    for t, x, y in ns_bad[:2]:
        chk.violation("nsinfo_%s" % lib.enc(t)[:60],
                      "property C10: the information set reports a namespace name or in-scope namespaces that differ from Namespaces in "
                      "XML (element / its attributes / its in-scope namespaces, first differing element)\nreported: %s\nexpected: %s\n"
                      "document (percent-encoded): %s\nreplay: printf 'nsinfo\\t%s\\n' | harness/target/debug/xmlrs-driver\n"
                      % (x, y, lib.enc(t), lib.enc(t).replace("%", "%%")))
        mfail.append((t, "nsinfo", "information set namespace view", x + " expected " + y))
    # reach of the renaming THEOREM on the document side (Thm/C10 `eval_ren`): how many of the expressions of this run does it
    # speak about (`safeE`)?  The expression-side theorem (`eval_rename_expression`) speaks about all of them.
    all_e = sorted({e for _, _, es in qs for e in es})
    th10 = lib.run_lines(lib.model_driver(), [lib.req("thm10", e) for e in all_e], timeout=300)
    chk.cov["theorem_reach"] = {"expressions": len(all_e), "parsed": sum(1 for r in th10 if r.startswith("safe=")),
                                "eval_ren_applies": sum(1 for r in th10 if r == "safe=1"),
                                "outside": [e for e, r in zip(all_e, th10) if r == "safe=0"][:8]}
    chk.cov["document_features"] = dict(sorted(dfeats.items()))
    chk.cov["disagreements_checked"] = len(tdis)
    chk.cov["rule"] = ("%d generated documents with random declaration layouts (shadowing, re-declaration, default namespace, xmlns=\"\", "
                       "prefixed and unprefixed attributes, xml:lang) x a battery of %d name tests / namespace-uri / local-name / name "
                       "queries + 4 generated paths, caller bindings p,q; oracle: the model; metamorphic: the same queries after "
                       "renaming the document's prefixes, after renaming the expression's prefixes together with the bindings, and with "
                       "the same bindings reached through re-binding a prefix; declarations supplied by ATTLIST defaults included; "
                       "non-trivial = a non-empty, non-zero, non-error result" % (ndocs, len(NS_BATTERY) + len(NAME_BATTERY)))
    for t, e, why, r in [m for m in mfail if m[1] != "nsinfo"][:4]:
        chk.violation("ns_%s" % lib.enc(e)[:60],
                      "property C10: %s\nexpression: %s\ndocument (percent-encoded): %s\nresults: %s\n"
                      "replay: printf 'query\\t%s\\t%s\\t%s\\n' | harness/target/debug/xmlrs-driver\n"
                      % (why, e, lib.enc(t), r[:800], lib.enc(t).replace("%", "%%"), lib.enc(XP.BINDINGS).replace("%", "%%"),
                         lib.enc(e).replace("%", "%%")))
    chk.cov["monitor_failures"] = len(mfail)
    _finish(chk, "C10", mfail, tdis, problems, pr, "query")


# ---------------------------------------------------------------------------------------------------------
def context_switch_stream(chk, rng, h, texts, n):
    """ONE context, TWO documents: queries (some failing after they had already collected and sorted nodes) on document A, then
    queries on document B with the same context: B's answers must be those of a fresh context (round-6 seed C07-H kept
    document-order keys by node id in the context when a query failed; a twin document has the same ids)"""
    late_fail = ["//* | //zz:x", "(//*)[$v]", "count(//*) + nosuch()", "//node() | //@*[nosuch()]", "(//node())[last()][zz:a]",
                 "//*[position() = last()] | //*[$v]", "sum(//*) + count(1, 2)"]
    sw, out = [], []
    for i in range(n):
        ta = rng.choice(texts)
        tb = ta if rng.random() < 0.4 else rng.choice(texts)
        first = [rng.choice(late_fail + FAILING + PROBES) for _ in range(rng.randint(1, 4))] + [rng.choice(late_fail)]
        then = [rng.choice(["//*", "//node()", "//@*", "(//*)[2]", "//*[last()]", "count(//node())", "//text() | //*", "//* | //@*"] + PROBES)
                for _ in range(5)]
        sw.append((ta, tb, first, then))
    sw_out = lib.run_lines(h, [lib.req("qswitch", ta, tb, XP.BINDINGS, str(len(first)), *(first + then)) for ta, tb, first, then in sw],
                           timeout=900, per_line_resume=True)
    sw_fresh = lib.run_lines(h, [lib.req("qfresh", tb, XP.BINDINGS, *then) for ta, tb, first, then in sw], timeout=900, per_line_resume=True)
    for (ta, tb, first, then), a, f in zip(sw, sw_out, sw_fresh):
        fa, _, _ = _fields(a, len(then))
        ff, _, _ = _fields(f, len(then))
        chk.count(["switch", ta, tb] + first + then, nontrivial=True)
        for e, x, y in zip(then, fa, ff):
            if x != y:
                out.append((tb, " ; ".join(first) + "  [on another document: %s]  then  %s" % (lib.enc(ta)[:300], e),
                            "a context that was used on another document (with failing queries) answers differently from a fresh one "
                            "(order / duplicates / selection of the node-set)", x + "  /  fresh: " + y))
                break
    return out, len(sw)


FAILING = ["//*[nosuch()]", "//*[$v]", "//*[count(1)]", "//*[zz:a]", "nosuch()", "$v", "count(1,2)", "//*[position()=1][count('x')]",
           "(//*)[nosuch()]", "//*[1][sum('a')]", "//@*[id('x')]", "1 +", "//*[", "//*[last() = 1 and nosuch()]"]
PROBES = ["position()", "last()", "position() + last()", "count(//*)", "string(/*)", "//*[position()=last()]", "//*[1]", "(//*)[last()]"]


def run_c19(chk):
    thorough = chk.tier == "thorough"
    rng = random.Random(lib.seed())
    tabs, problems = lib.regenerate()
    pr = X.standard_proof(chk, "C19", thorough)
    ndocs = 400 if thorough else 100
    eg = G.ExprGen(rng)
    qs = []
    texts = []
    for _ in range(ndocs):
        d = G.DocGen(rng).document()
        t = G.render_doc(d)
        texts.append(t)
        seq = []
        for _ in range(rng.randint(2, 8)):
            k = rng.random()
            if k < 0.35:
                seq.append(rng.choice(FAILING))
            elif k < 0.65:
                seq.append(rng.choice(PROBES))
            else:
                seq.append(_spell(rng, eg.expr()))
        seq.append(rng.choice(PROBES))
        if rng.random() < 0.3:
            # the reserved prefix xml, as a wildcard test and in qualified names, in any order on one context
            seq = [rng.choice(["//@xml:*", "//xml:*", "//@xml:lang", "//*[@xml:lang]", "count(//@xml:lang)", "//*[lang('en')]",
                               "//xml:a", "name(//@xml:*)"]) for _ in range(4)] + seq
        if rng.random() < 0.4:
            # the same unprefixed name as an element test and as an attribute test on one context, with a caller default namespace
            seq = [rng.choice(["count(//@id)", "count(//id)", "//a[@a]", "count(//attribute::x | //x)", "count(//a)", "count(//@a)"])
                   for _ in range(3)] + seq
        qs.append((t, rng.choice(XP.BINDING_VARIANTS), seq))
    xmldoc = "<r xml:lang='en'><a xml:lang='de' xml:space='preserve'>t</a><b/></r>"
    xq_ = ["//@xml:*", "//xml:*", "//@xml:lang", "//*[@xml:lang]", "count(//@xml:lang)", "//*[lang('en')]", "name(//@xml:*)", "//@xml:space"]
    for _ in range(12):
        seq = [rng.choice(xq_) for _ in range(6)]
        qs.append((xmldoc, rng.choice(XP.BINDING_VARIANTS + ["", "xml=http://www.w3.org/XML/1998/namespace"]), seq))
    # reads that depend on the ORDER in which an element presents its attributes (implementation-defined, but the same every
    # time): written ones, and ones supplied from attribute-list defaults
    many_ = "".join("%s CDATA '%s' " % (c, c.upper()) for c in "abcdefgh")
    odocs = ["<!DOCTYPE r [<!ATTLIST r %s>]><r/>" % many_, "<!DOCTYPE r [<!ATTLIST r %s>]><r x='1' c='own' y='2'/>" % many_,
             "<r " + " ".join("a%d='%d'" % (i, i) for i in range(9)) + "/>"]
    oq = ["name(/r/@*[1])", "name(/r/@*[2])", "name(/r/@*[3])", "name(/r/@*[last()])", "string(/r/@*[last()])", "string(/r/@*[4])",
          "concat(name(/r/@*[1]), name(/r/@*[2]), name(/r/@*[5]), '..', name(/r/@*[last()]))", "count(/r/@*)", "name(/r/attribute::*[7])"]
    for od in odocs:
        for _ in range(4):
            qs.append((od, XP.BINDINGS, [rng.choice(oq) for _ in range(8)]))
    # several attributes supplied from defaults whose DECLARED TYPES differ (CDATA keeps its white space, a tokenized type loses it):
    # each reports its own value whichever of them was read first (round-9 seed C19-N memoised the declared type by attribute
    # id - and every defaulted attribute has id 0)
    tdocs = ["<!DOCTYPE r [<!ATTLIST r t NMTOKENS ' x  y ' c CDATA ' a  b ' n NMTOKEN ' k ' i IDREFS ' p  q '>]><r/>",
             "<!DOCTYPE r [<!ATTLIST e c CDATA ' a  b ' t NMTOKENS ' x  y '>]><r><e/><e c=' own  c ' t=' own  t '/></r>"]
    tq = ["string(/r/@c)", "string(/r/@t)", "string(/r/@n)", "string(/r/@i)", "string-length(/r/@c)", "string(//e[1]/@c)", "string(//e[1]/@t)",
          "string(//e[2]/@c)", "string(//e[2]/@t)", "concat('[', //e[1]/@c, '|', //e[1]/@t, ']')", "concat('[', /r/@t, '|', /r/@c, ']')"]
    # (what XML 1.0 3.3.3 prescribes for them, written out: the harness itself reads attributes before the first query)
    twant = {"string(/r/@c)": " a  b ", "string(/r/@t)": "x y", "string(/r/@n)": "k", "string(/r/@i)": "p q", "string(//e[1]/@c)": " a  b ",
             "string(//e[1]/@t)": "x y", "string(//e[2]/@c)": " own  c ", "string(//e[2]/@t)": "own t"}
    for td in tdocs:
        for _ in range(8):
            qs.append((td, XP.BINDINGS, [rng.choice(tq) for _ in range(6)]))
        qs.append((td, XP.BINDINGS, tq))
        qs.append((td, XP.BINDINGS, list(reversed(tq))))
    # entities whose replacement text refers to other entities, used in attribute values (white space normalised) and in content
    # (kept): reading one must not change what the other reports, nor the declarations (round-6 seed C19-H wrote the first
    # expansion back into the declaring entity)
    ndoc = ("<!DOCTYPE r [<!ENTITY inner 'x\ny'><!ENTITY mid '(&inner;)'><!ENTITY outer '[&mid;&inner;]'>"
            "<!ATTLIST r d CDATA '&outer;'>]><r k='&outer;' m='&mid;'>&outer;<a>&mid;</a><b n='&inner;'>&inner;</b></r>")
    nq = ["string(/r/@k)", "string(/r)", "string(/r/a)", "string(/r/@m)", "string(/r/@d)", "string(/r/b/@n)", "string(/r/b)",
          "string-length(/r/@k)", "count(//text())", "normalize-space(/r)", "/r/@k = /r/@d", "contains(/r, /r/a)"]
    for _ in range(10):
        seq = [rng.choice(nq) for _ in range(8)]
        qs.append((ndoc, XP.BINDINGS, seq))
    qs.append((ndoc, XP.BINDINGS, nq))
    qs.append((ndoc, XP.BINDINGS, list(reversed(nq))))
    # a LONG series on one context: whatever a query consumes (budgets, caches, counters) must be given back when it ends
    # (round-6 seed C19-G: a step budget of 50 000 per context that no query reset)
    ldoc = "<r>" + "".join("<i n='%d'><j/>t</i>" % i for i in range(60)) + "</r>"
    lq = ["count(//*)", "count(//j)", "string(//i[last()]/@n)", "count(//i[j]/text())", "//i[7]/@n", "sum(//@n)"]
    qs.append((ldoc, XP.BINDINGS, lq * (400 if thorough else 150)))
    h = lib.build_harness()
    one = lib.run_lines(h, [lib.req("query", t, b, *es) for t, b, es in qs], timeout=900, per_line_resume=True)
    fresh = lib.run_lines(h, [lib.req("qfresh", t, b, *es) for t, b, es in qs], timeout=900, per_line_resume=True)
    model = lib.run_lines(lib.model_driver(), [lib.req("queryq", "rz", t, b, *es) for t, b, es in qs], timeout=900)
    # ... and every query ALONE on a document parsed for it (`query` and `qfresh` read the text once per series: what an earlier
    # query leaves in the DOCUMENT - not in the context - is seen only against this; round-9 seed C19-N kept the declared type of
    # the first defaulted attribute read in the document's shared context)
    alone_keys = list(dict.fromkeys((t, b, e) for t, b, es in qs if len(es) <= 40 for e in es))
    alone_out = lib.run_lines(h, [lib.req("query", t, b, e) for t, b, e in alone_keys], timeout=900, per_line_resume=True)
    alone = {k: _fields(o, 1)[0][0] for k, o in zip(alone_keys, alone_out)}
    # parsing twice: equal dumps and equal serializations
    # ... including documents at the nesting limits read from the source, each parsed again after a document beyond the limit was
    # refused in the same process (hidden parser state must not survive a refusal)
    lims = []
    for const, mk in (("MAX_ELEMENT_DEPTH", lambda n: "<a>" * n + "x" + "</a>" * n),
                      ("MAX_GROUP_DEPTH", lambda n: "<!DOCTYPE a [<!ELEMENT a " + "(" * n + "b" + ",c)" * n + ">]><a/>")):
        lim_ = lib.XML_CONSTS.get(const)
        if lim_:
            lims += [mk(lim_), mk(lim_ + 1), mk(lim_), mk(lim_ + 5), mk(lim_ - 1), mk(lim_)]
    # several attributes supplied from defaults on one element (their order is the order of the declarations, every time),
    # several declarations of one name, several notations / entities: anything that could be kept in an unordered table
    many = "".join("%s CDATA '%s' " % (c, c.upper()) for c in "abcdefgh")
    lims += ["<!DOCTYPE r [<!ATTLIST r %s>]><r/>" % many,
             "<!DOCTYPE r [<!ATTLIST r %s><!ATTLIST r z CDATA 'Z' a CDATA 'again'>]><r><r b='own'/><r/></r>" % many,
             "<!DOCTYPE r [" + "".join("<!ENTITY e%d 'v%d'>" % (i, i) for i in range(9)) +
             "".join("<!NOTATION n%d SYSTEM 's%d'>" % (i, i) for i in range(9)) + "]><r>&e3;&e1;&e8;</r>",
             "<r " + " ".join("a%d='%d'" % (i, i) for i in range(12)) + " xmlns:p='urn:u1' xmlns:q='urn:u2' xmlns='urn:u3'/>"]
    texts = lims + texts
    p1 = lib.run_lines(h, [lib.req("parse", t) for t in texts] + [lib.req("print", t) for t in texts], timeout=600)
    p2 = lib.run_lines(h, [lib.req("parse", t) for t in texts] + [lib.req("print", t) for t in texts], timeout=600)
    mfail, tdis = [], []
    same_text = {}
    for t, x in zip(texts, p1[:len(texts)]):
        # the same text within ONE run must also give the same answer every time
        if t in same_text and same_text[t] != x and len(t) < 100000:
            mfail.append((t[:300], "parse the same text again in one process", "parsing the same text twice gives different documents",
                          same_text[t][:200] + " / " + x[:200]))
        same_text.setdefault(t, x)
    with_failure = 0
    for (t, b, es), a, f, m in zip(qs, one, fresh, model):
        fa, _, doc = _fields(a, len(es))
        ff, _, _ = _fields(f, len(es))
        fm, _, _ = _fields(m, len(es))
        failing = any(x.startswith("err") for x in fa[:-1])
        with_failure += failing
        chk.count([t] + es, nontrivial=failing)
        if doc != "same":
            mfail.append((t, " ; ".join(es), "the document's serialization changed while it was queried", doc))
        for i, (e, x, y) in enumerate(zip(es, fa, ff)):
            if x != y:
                mfail.append((t, " ; ".join(es[:i + 1]), "query %d (%s) answers differently on the re-used context than on a fresh one"
                              % (i + 1, e), x + "  /  fresh: " + y))
                break
            if t in tdocs and e in twant and ((t == tdocs[0]) == e.startswith("string(/r/")) and x != "s:" + lib.enc(twant[e]):
                mfail.append((t, " ; ".join(es[:i + 1]), "query %d (%s): the value of an attribute supplied from a default depends on "
                              "which defaulted attribute was read before it" % (i + 1, e), x + "  /  expected: s:" + lib.enc(twant[e])))
                break
            z_ = alone.get((t, b, e))
            if z_ is not None and x != z_:
                mfail.append((t, " ; ".join(es[:i + 1]), "query %d (%s) answers differently after the queries before it than alone on the "
                              "same text (an earlier query changed what the document reports)" % (i + 1, e), x + "  /  alone: " + z_))
                break
        else:
            # (documents with several defaulted attributes: their node-sets fall under the recorded finding default-attr-order
            # of C05 / C07 - here only the stability of the answers is the subject)
            for e, x, z in zip(es, fa, fm):
                if x != z and not classify_ns(e, x, z) and t not in odocs[:2] and t not in tdocs:
                    tdis.append((t, e, x, z))
                    break
    for t, x, y in zip(texts + texts, p1, p2):
        if x != y:
            mfail.append((t, "parse / print twice", "parsing the same text twice gives different documents", x[:200] + " / " + y[:200]))
    # the same text parsed twice gives EQUAL documents (`==` of both document types), not only equal dumps and serializations
    # (round-8 seed C19-L compared references to a declared entity by the identity of the declaration)
    eqdocs = texts[:len(lims)] + texts[len(lims):len(lims) + 60] + [
        "<!DOCTYPE r [<!ENTITY e 'v'><!ENTITY f '&e;w'><!NOTATION n SYSTEM 's'><!ENTITY u SYSTEM 'u.bin' NDATA n><!ATTLIST r d CDATA '&e;' k ENTITY #IMPLIED>]>"
        "<r a='&e;&f;' k='u'>&e;<a>&f;</a><![CDATA[c]]><?p d?><!--c--></r>"]
    for t_, o_ in zip(eqdocs, lib.run_lines(h, [lib.req("parse2", t_) for t_ in eqdocs], timeout=600, per_line_resume=True)):
        chk.count(["parse2", t_], nontrivial=o_.startswith("ok "))
        if o_.startswith("ok ") and o_ != "ok eq=1 eqdom=1 print=1":
            mfail.append((t_[:2000], "parse the same text twice and compare the two documents", "parsing the same text twice gives documents "
                          "that are not equal", o_))
    sw_fail, sw_n = context_switch_stream(chk, rng, h, texts[len(lims):], 120 if thorough else 40)
    mfail += sw_fail
    chk.cov["context_switched_between_documents"] = sw_n
    # documents EDITED through the DOM (adjacent and empty text nodes, detached trees, moved subtrees: states the parser
    # never produces): after every step a battery of queries is evaluated on the live document and the full snapshot of
    # the tree (shape, node identities, segmentation of character data, detached trees) must be what it was before
    from gen import domgen as D
    from props import domchecks as DC
    hist = []
    for _ in range(300 if thorough else 80):
        hh = D.Hist(rng, max_ops=10, hostile=0.1)
        t, ops = hh.history()
        # make adjacent text nodes likely: split and append text
        extra = []
        for _ in range(rng.randint(1, 3)):
            extra.append(rng.choice(["st:h%d:1" % hh.pick(("text",)), "ct:x", "ap:h%d:h%d" % (hh.pick(("elem",)), len(hh.shadow) - 1)]))
            if extra[-1].startswith("st") or extra[-1].startswith("ct"):
                hh.shadow.append("text")
        hist.append((t, ops + extra))
    himpl = lib.run_lines(h, [lib.req("dom", t, DC.battery("string(/*);//text();count(//text())"), *ops) for t, ops in hist],
                          timeout=900, per_line_resume=True)
    edited_states = 0
    for (t, ops), a in zip(hist, himpl):
        for i, rec in enumerate(D.split_records(a)):
            edited_states += 1
            chk.count([t] + ops[:i], nontrivial=i > 0)
            q = rec["flags"].get("q", "")
            if "SIDE-EFFECT" in q:
                mfail.append((t, "dom history: " + " ".join(ops[:i]), "evaluating queries changed the (edited) document", q[:600]))
                break
    # ... and what an earlier query computed must not be what a later one answers with after the document changed: namespace
    # declarations set and removed on ancestors between queries that resolve names below them (round-7 seed C19-I kept each
    # element's in-scope namespaces from the first query on)
    # ... nor what it computed while the document type declaration was out (defaults, declared types, entities come and go with
    # it): taken out, queried, put back in every place it may stand, queried (round-9 seed C19-M cached "no definitions" per
    # element name while the declaration was out)
    DTD_ = ("<!DOCTYPE r [<!ENTITY v 'ev'><!ATTLIST e a CDATA 'd' t NMTOKENS ' x  y '><!ATTLIST r k CDATA 'rk'>]>"
            "<!--lead--><r><e/><e a='1' t=' p  q '/></r>")     # h0 document, h1 doctype, h2 comment, h3 r
    dq_ = "count(//e/@a);string(//e[2]/@t);string(//e[1]/@t);count(//@*);string(/r/@k);//e[@a='d']"
    dth = [(DTD_, ["rm:h0:h1", "ib:h0:h1:h2"]), (DTD_, ["rm:h0:h1", "ib:h0:h1:h3"]), (DTD_, ["rm:h0:h1", "ib:h0:h1:h3", "rm:h0:h1", "ib:h0:h1:h2"]),
           (DTD_, ["rm:h0:h1", "ce:z", "ib:h0:h1:h3"]), (DTD_, ["rc:h0:h2:h1"]), (DTD_, ["rm:h0:h2", "rm:h0:h1", "ib:h0:h1:h3"])]
    dto = lib.run_lines(h, [lib.req("dom", t, dq_, *ops) for t, ops in dth], timeout=300, per_line_resume=True)
    # (the same calls WITHOUT any query or other read in between - harness markers quiet / loud - must leave the document
    # reporting the same: the queries of the loud run may not show in the final state)
    dtq = lib.run_lines(h, [lib.req("dom", t, dq_, "quiet", *ops, "loud") for t, ops in dth], timeout=300, per_line_resume=True)
    for (t, ops), a, qa in zip(dth, dto, dtq):
        ra, rq = D.split_records(a), D.split_records(qa)
        if ra and rq and (ra[-1].get("dump") != rq[-1].get("dump") or ra[-1]["flags"].get("rt") != rq[-1]["flags"].get("rt")):
            mfail.append((t, "dom history: " + " ".join(ops), "the queries evaluated between the calls changed what the document reports after "
                          "them (the same calls without any query in between leave a different state)",
                          "with queries: %s %s  /  without: %s %s" % (ra[-1].get("dump", "")[:300], ra[-1]["flags"].get("rt", "")[:120],
                                                                      rq[-1].get("dump", "")[:300], rq[-1]["flags"].get("rt", "")[:120])))
            continue
        for i, rec in enumerate(ra):
            edited_states += 1
            chk.count(["doctype-out-and-in", t] + ops[:i], nontrivial=i > 0 and rec["status"].startswith("ok"))
            q = rec["flags"].get("q", "")
            if q not in ("ok", "skip", "") and q is not None and "SIDE-EFFECT" not in q:
                mfail.append((t, "dom history: " + " ".join(ops[:i]), "after the document type declaration was taken out and put back a query "
                              "answers with what was computed while it was out (the edited document and a fresh parse of its serialization "
                              "give different answers)", q[:600]))
                break
    nsh = DC.ns_histories(rng, 150 if thorough else 60, DC.NSDOCS_) + DC.ns_node_cases(DC.NSDOCS_)[:20]
    nso = lib.run_lines(h, [lib.req("dom", t, DC.NSQ + ";//p:*;//q:*;count(//*[name() != local-name()]);//@p:*", *ops) for t, ops in nsh],
                        timeout=900, per_line_resume=True)
    for (t, ops), a in zip(nsh, nso):
        for i, rec in enumerate(D.split_records(a)):
            edited_states += 1
            chk.count(["ns-edited", t] + ops[:i], nontrivial=i > 0 and rec["status"].startswith("ok"))
            q = rec["flags"].get("q", "")
            if q not in ("ok", "skip", "") and q is not None:
                mfail.append((t, "dom history: " + " ".join(ops[:i]), "after an edit a query answers with what an earlier query had computed "
                              "(the edited document and a fresh parse of its serialization give different answers)", q[:600]))
                break
    qm_, qt_, qn_ = DC.quiet_stream(chk, rng, 150 if thorough else 60)
    for t_, ops_, i_, why_, det_ in qm_:
        mfail.append((t_, "dom history: " + " ".join(ops_), why_, det_))
    chk.cov["quiet_histories"] = qn_
    chk.cov["edited_document_states_queried"] = edited_states
    chk.cov["sequences_with_a_failing_query"] = with_failure
    chk.cov["disagreements_checked"] = len(tdis)
    chk.cov["rule"] = ("%d documents x sequences of 3-9 queries (generated expressions, probes of position()/last(), and queries failing "
                       "at top level or inside predicates: unknown function, variable, wrong type, unbound prefix, syntax error) issued "
                       "on ONE document and ONE evaluation context vs each on a fresh parse with a fresh context; serialization before "
                       "and after; every text parsed and printed twice; %d DOM edit histories (split / adjacent / empty text nodes, moved "
                       "and detached subtrees) with a query battery after every step: full tree snapshot with node identities before "
                       "= after; tie: the model's answers; non-trivial = the sequence contains "
                       "a failing query before its end" % (ndocs, len(hist)))
    for t, e, why, r in mfail[:4]:
        chk.violation("state_%s" % lib.enc(e)[-60:],
                      "property C19: %s\nqueries: %s\ndocument (percent-encoded): %s\nresults: %s\n" % (why, e, lib.enc(t), r[:800]))
    chk.cov["monitor_failures"] = len(mfail)
    _finish(chk, "C19", mfail, tdis, problems, pr, "query")
