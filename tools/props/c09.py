"""C09 — core functions and operators compute the XPath 1.0 scalar semantics (value pool, every arity)."""
import itertools
import random
import lib
from props import xmlcommon as X
from props import xpcommon as XP

DOC = "<r>7</r>"
STRS = ["", " ", "  x ", "\t\n", "abc", "äö", "\U0001D4B3z", "é", "12", " 12 ", "1e3", "+1", ".5", "5.", "Infinity", "-0",
        "NaN", "-", "1 2", "true", "-12.50", "0x10", " " + "7" + " ",
        # Unicode White_Space that is NOT XML white space (S is #x20 | #x9 | #xD | #xA only): ordinary characters to XPath
        "10\u00a0000", "\u3000x\u3000", "\u2003a b", "a\u0085b", "\u00a07\u00a0", "x\u2028y", "\u00a0",
        # what a host language's number parser accepts beyond the Number production, and digits of other scripts
        "inf", "infinity", "nan", "1E2", "1_000", "\u0661\u0662\u0663", "\uff11\uff12\uff10", "\u00b2", "\u00bd", "+.5", "1.e1"]
NUMS = ["0 div 0", "0", "-0", "1 div 0", "-1 div 0", "0.5", "-0.5", "1.5", "-1.5", "2.5", "-2.5", "1", "3", "-3",
        "9007199254740992", "1000000000000000000000", "0.0009765625", "-7.25", "0.1", "123456789.125",
        "0.49999999999999994", "100", "0.000001", "-0.49999999999999994", "4503599627370497", "9007199254740991", "4503599627370495.5"]
BOOLS = ["true()", "false()"]
FUNCS = ["last", "position", "count", "local-name", "namespace-uri", "name", "string", "concat", "starts-with", "contains",
         "substring-before", "substring-after", "substring", "string-length", "normalize-space", "translate", "boolean", "not",
         "true", "false", "lang", "number", "sum", "floor", "ceiling", "round"]


def lit(s):
    return ('"%s"' if "'" in s else "'%s'") % s


def build(thorough, rng):
    S = [lit(s) for s in STRS]
    N = ["(%s)" % n for n in NUMS]
    B = BOOLS
    A = S + N + B
    ex = []
    # arity table: every function at every arity 0..5 with plain arguments
    for f in FUNCS:
        for k in range(0, 6):
            ex.append(("arity", "%s(%s)" % (f, ",".join(["'a'", "1", "'b'", "2", "'c'"][:k]))))
            if f in ("count", "sum", "local-name", "namespace-uri", "name") and k == 1:
                ex.append(("arity", "%s(/r)" % f))
    # unary
    for f in ("string-length", "normalize-space", "number", "string", "boolean", "not", "floor", "ceiling", "round"):
        for a in A:
            ex.append(("unary", "%s(%s)" % (f, a)))
    for a in A:
        ex.append(("unary", "-%s" % a))
        ex.append(("unary", "string(-%s)" % a))
        ex.append(("unary", "string(round(%s))" % a))
        ex.append(("unary", "1 div round(%s)" % a))     # tells -0 from +0
        ex.append(("unary", "1 div -%s" % a))
        ex.append(("unary", "1 div ceiling(%s)" % a))
    # binary string functions
    for f in ("starts-with", "contains", "substring-before", "substring-after", "concat"):
        for a, b in itertools.product(S, S):
            ex.append(("binary-str", "%s(%s,%s)" % (f, a, b)))
    # arithmetic (full product over the number pool; strings and booleans sampled)
    for op in ("+", "-", "*", "div", "mod"):
        for a, b in itertools.product(N, N):
            ex.append(("arith", "%s %s %s" % (a, op, b)))
        for _ in range(60 if not thorough else 400):
            ex.append(("arith", "%s %s %s" % (rng.choice(A), op, rng.choice(A))))
    # comparisons with the coercion rules
    for op in ("=", "!=", "<", "<=", ">", ">="):
        pool = A if thorough else None
        if thorough:
            pairs = itertools.product(A, A)
        else:
            pairs = [(rng.choice(A), rng.choice(A)) for _ in range(700)] + list(itertools.product(N[:8], N[:8])) + \
                    list(itertools.product(B, A)) + list(itertools.product(S[:6], N[:6]))
        for a, b in pairs:
            ex.append(("compare", "%s %s %s" % (a, op, b)))
    # substring
    for a, p in itertools.product(S[:14], N):
        ex.append(("substring", "substring(%s,%s)" % (a, p)))
    strs3 = [lit("12345"), lit("äö\U0001D4B3é"), lit("")]
    if thorough:
        trip = itertools.product(strs3 + S[:6], N, N)
    else:
        trip = list(itertools.product(strs3[:1], N, N)) + [(rng.choice(strs3 + S[:6]), rng.choice(N), rng.choice(N)) for _ in range(600)]
    for a, p, l in trip:
        ex.append(("substring", "substring(%s,%s,%s)" % (a, p, l)))
    # the Recommendation's own examples
    for e in ["substring('12345', 1.5, 2.6)", "substring('12345', 0, 3)", "substring('12345', 0 div 0, 3)",
              "substring('12345', 1, 0 div 0)", "substring('12345', -42, 1 div 0)", "substring('12345', -1 div 0, 1 div 0)",
              "substring('12345',2,3)", "substring('12345',2)", "translate('bar','abc','ABC')", "translate('--aaa--','abc-','ABC')",
              "substring-before('1999/04/01','/')", "substring-after('1999/04/01','/')", "substring-after('1999/04/01','19')",
              "round(-0.5)", "string(0.5 + 0.25)", "5 mod 2", "5 mod -2", "-5 mod 2", "-5 mod -2", "1 div 3", "string(1 div 3)",
              "string(2 div 3)", "string(100 div 7)", "string(1 div 0.3)", "10 div 4", "3 > 2 > 1", "1 < 2 < 3", "1 = 1 = 1",
              "true() = 1", "'1' = 1", "'a' = 'a' = true()", "number('1000000000000000000000000')", "string(0.1 + 0.2)",
              "string(123456789012345678)", "string(0.000000001)", "string(-0.000123)", "string(1 div 1024)"]:
        ex.append(("examples", e))
    # translate
    # (kept by hand: a character of more than one byte stands in the second argument BEFORE the character that matches - positions
    # are counted in characters; the detection of seed C09-G had depended on a random triple)
    for e in ["translate('bar','\u00e9ar','XYZ')", "translate('a\U0001d4b3b','\U0001d4b3b','12')", "translate('abc','\u00a0bc','_12')",
              "translate('na\u00efve','\u00efv','12')", "translate('xyz','\u00e4\u00f6z','123')", "translate('abc','\u00e4b','')",
              "translate('a\u00e9','\u00e9a','12')", "translate('abc','\u754cc\u754c','12')", "translate('\u00e9a\u00e9','a\u00e9','\u754cz')",
              "translate('abc','\U0001d4b3\u00e9abc','12345')", "translate('c','\u00e9\u00e9\u00e9c','123')"]:
        ex.append(("translate", e))
    for _ in range(300 if not thorough else 1500):
        ex.append(("translate", "translate(%s,%s,%s)" % (rng.choice(S), rng.choice(S), rng.choice(S))))
    return ex


def run(chk):
    thorough = chk.tier == "thorough"
    rng = random.Random(lib.seed())
    tabs, problems = lib.regenerate()
    pr = X.standard_proof(chk, "C09", thorough)
    ex = build(thorough, rng)
    B = 40
    groups = [ex[i:i + B] for i in range(0, len(ex), B)]
    cases = [(DOC, "", [e for _, e in g]) for g in groups]
    impl, spec = XP.run_queries("qfresh", cases, quirks="")
    cur = lib.run_lines(lib.model_driver(), [lib.req("queryq", "rz", t, b, *es) for t, b, es in cases], timeout=900)
    from props import xpchecks
    exp = xpchecks.Explainer("C09", chk, cases)
    mfail, tdis = [], []
    kinds, outcomes = {}, {}
    for gi, (g, a, s, c) in enumerate(zip(groups, impl, spec, cur)):
        fa, _ = XP.split_answer(a)
        fs, _ = XP.split_answer(s)
        fc, _ = XP.split_answer(c)
        if len(fa) != len(g):
            fa = (fa + ["abort"] * len(g))[:len(g)]
        for ei, ((kind, e), x, y, z) in enumerate(zip(g, fa, fs, fc)):
            kinds[kind] = kinds.get(kind, 0) + 1
            cls = x.split(":")[0] if not x.startswith("err") else x
            outcomes[cls] = outcomes.get(cls, 0) + 1
            chk.count(e, nontrivial=not x.startswith("err:arity"))
            x = XP.strip_impl(x)
            if x != y:
                if exp.explained(gi, ei, len(g), DOC, e, x, y):
                    chk.cov["known_finding_cases"] = chk.cov.get("known_finding_cases", 0) + 1
                    continue
                mfail.append((e, x, y))
            elif x != z and y == z:
                tdis.append((e, x, z))
    chk.cov["expression_kinds"] = kinds
    chk.cov["outcomes_impl"] = outcomes
    chk.cov["pool"] = {"strings": STRS, "numbers": NUMS, "booleans": BOOLS}
    chk.cov["exhaustive"] = thorough
    chk.cov["disagreements_checked"] = len(tdis)
    chk.cov["rule"] = ("every core function at every arity 0..5; every unary function and unary minus over the whole pool; binary "
                       "string functions over strings x strings; + - * div mod over numbers x numbers (full) and mixed types; the six "
                       "comparisons over mixed pairs (%s); substring over strings x numbers (x numbers); the Recommendation's examples; "
                       "numbers compared by IEEE bit pattern (NaN canonical); oracle = the Lean model with every quirk off; "
                       "non-trivial = not an arity error" % ("full product" if thorough else "sample + sub-products"))
    for e, x, y in mfail[:4]:
        chk.violation("scalar_%s" % lib.enc(e)[:60],
                      "property C09: %s\nimplementation: %s\nXPath 1.0 (model): %s\n"
                      "replay: printf 'query\\t%s\\t\\t%s\\n' | harness/target/debug/xmlrs-driver\n"
                      % (e, x, y, lib.enc(DOC).replace("%", "%%"), lib.enc(e).replace("%", "%%")))
    chk.cov["monitor_failures"] = len(mfail)
    if not mfail:
        if tdis:
            e, x, z = tdis[0]
            chk.violation("tie_query", "correspondence `query` (scalar pool) no longer holds on %d expressions; first: %s impl=%s model=%s\n"
                          % (len(tdis), e, x, z), no_input=True)
        elif problems or not pr["ok"]:
            X.proof_violation(chk, "C09", pr, problems, len(ex))
    chk.assumptions += ["the model's numbers are exact re-implementations of IEEE 754 binary64 (round to nearest even) over "
                        "natural-number arithmetic; agreement with the hardware operations of the running code is part of what "
                        "the pool checks",
                        "string() of a number: shortest digits that read back as the same double (what Rust's Display prints)"]


def replay(chk, path):
    print(open(path).read())
    return 0
