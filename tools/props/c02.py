"""C02 — ill-formed input is never reported as a completely parsed document."""
import random
import lib
from gen import xmlgen, mutate
from props import xmlcommon as X


def run(chk):
    thorough = chk.tier == "thorough"
    rng = random.Random(lib.seed())
    tabs, problems = lib.regenerate()
    pr = X.standard_proof(chk, "C02", thorough)
    # ---- negative inputs
    cases = [(t, "handkept") for t in X.corpus_lines("C02", "handkept.txt")]
    # recursive entity definitions of every small shape are ill-formed (the DTD-default variants are refused when the default is
    # read; entity-wfc covers only definitions that are never used)
    cases += [(t, "handkept") for t in X.cyclic_entity_docs()]
    cases += [(t, "corpus") for t in X.corpus_lines("C02", "found.txt")]
    ndocs = 300 if thorough else 60
    docs = X.gen_docs(rng, ndocs, styles=1)
    for d, rs in docs:
        for text in rs:
            for t, why in mutate.targeted(rng, text):
                cases.append((t, why))
            for _ in range(40 if thorough else 12):
                t, why = mutate.mutate(rng, text, 1 if rng.random() < 0.7 else 2)
                cases.append((t, why))
    cases = [(t, w) for t, w in cases if "\x00" not in t]
    lines_cur = [lib.req("accept", "cur", t) for t, _ in cases]
    impl, cur = lib.both(lines_cur, resume=True)
    # the specification side: the REVIEWED grammar (tools/ref/xml.json -> Gen/XmlGrammarRef.lean) with the repairs of the
    # recorded findings; it does not move when the source moves, so a grammar change that lets more through shows up here
    spec = lib.run_lines(lib.model_driver(), [lib.req("accept", "refspec", t) for t, _ in cases])
    chk.cov["grammar_vs_reviewed_snapshot"] = [d[0] for d in lib.GRAMMAR_DIFFS["xml"]] or "identical"
    strict = lib.run_lines(lib.model_driver(), [lib.req("accept", "strict", t) for t, _ in cases])
    # the reviewed grammar WITHOUT the repairs: what the recorded findings (and nothing else) let through
    refcur = lib.run_lines(lib.model_driver(), [lib.req("accept", "ref", t) for t, _ in cases])
    findings = {f["id"]: f for f in lib.load_findings("C02") if f["kind"] == "known"}
    hist = {}
    mfail, tdis = [], []
    rejected_by_spec = 0
    for (t, why), a, c, s, st, rc in zip(cases, impl, cur, spec, strict, refcur):
        key = why.split(":")[0].split(",")[0]
        hist[key] = hist.get(key, 0) + 1
        nontrivial = s != "ok"          # an input the specification model does not accept completely
        rejected_by_spec += nontrivial
        chk.count(t, nontrivial=nontrivial)
        if a == "ok" and s != "ok":
            # the code reports a complete parse of something the specification model rejects
            # attribution: the model of the current source must reproduce the acceptance, and the
            # specification-side repair that makes it a rejection names the finding; a recorded finding explains the
            # acceptance only when the REVIEWED grammar without the repairs accepts too (the model of the current source
            # follows a change of the grammar, the reviewed one does not)
            if c == "ok" and rc == "ok" and st != "ok" and "entity-wfc" in findings:
                chk.known_finding("entity-wfc " + findings["entity-wfc"]["text"])
                chk.cov["known_finding_cases"] = chk.cov.get("known_finding_cases", 0) + 1
            elif c == "ok" and rc == "ok" and st == "ok" and "name-lax" in findings:
                chk.known_finding("name-lax " + findings["name-lax"]["text"])
                chk.cov["known_finding_cases"] = chk.cov.get("known_finding_cases", 0) + 1
            else:
                mfail.append((t, why, a, c, s))
        elif a != c:
            tdis.append((t, why, a, c, s))
    refs = X.reference_stream(rng, 1200 if thorough else 300, 500 if thorough else 150)
    for t, a, b in refs:
        chk.count(["ref", t], nontrivial=b != "ok")
        if a == "ok" and b != "ok":
            mfail.append((t, "not derivable in the reviewed grammar (tools/ref/xml.json); productions that differ now: %s"
                          % [d[0] for d in lib.GRAMMAR_DIFFS["xml"]], a, "-", b))
        elif a != b and not (b == "ok" and a != "ok"):
            tdis.append((t, "reference-stream", a, b, b))
    chk.cov["reviewed_grammar_stream"] = "%d inputs, %d rejected by the reviewed grammar" % (len(refs), sum(1 for _, _, b in refs if b != "ok"))
    chk.cov["mutation_kinds"] = dict(sorted(hist.items()))
    chk.cov["inputs_rejected_by_spec_model"] = rejected_by_spec
    chk.cov["outcomes_impl"] = {k: impl.count(k) for k in sorted(set(impl))}
    chk.cov["disagreements_checked"] = len(tdis)
    chk.cov["rule"] = ("hand-kept ill-formed documents + for %d generated well-formed documents: every targeted edit "
                       "(mismatched/unclosed tags, duplicate attribute, '<' and '&' in values and content, '--' in comments, "
                       "']]>' in character data, undeclared entity, non-character reference, second root, misplaced XML "
                       "declaration, reserved PI target) and seeded token-level single and double edits; outcome class "
                       "ok/rest/err of the real from_raw vs the model; non-trivial = distinct input that the specification "
                       "model (Quirks.none) does not accept completely" % ndocs)
    # search step for the character classes: a table that is wider than the Recommendation lets an illegal
    # character through; the lowest differing code point gives the concrete input
    wide = [w for w in X.class_table_search(tabs) if w[2] and not w[3] and w[5] == "ok"]
    for key, cp, _, _, text, out in wide:
        chk.violation("class_%s_%X" % (key, cp),
                      "property C02: U+%04X is not a legal %s character in XML 1.0 5th Ed., yet a document using it there is "
                      "reported as completely parsed\ninput (percent-encoded): %s\nimplementation: %s\n"
                      "replay: printf 'accept\\t%s\\n' | harness/target/debug/xmlrs-driver\n"
                      % (cp, key, lib.enc(text), out, lib.enc(text).replace("%", "%%")))
        mfail.append((text, "class:" + key, out, "ok", "err"))
    for t, why, a, c, s in [m for m in mfail if not m[1].startswith("class:")][:3]:
        chk.violation("accepted_%s" % lib.enc(t)[:50],
                      "property C02: an input that is not well-formed (%s) is reported as a completely parsed document\n"
                      "input (percent-encoded): %s\nimplementation: %s   model of the current source: %s   specification model: %s\n"
                      "replay: printf 'accept\\t%s\\n' | harness/target/debug/xmlrs-driver\n"
                      % (why, lib.enc(t), a, c, s, lib.enc(t).replace("%", "%%")))
    if not mfail:
        if tdis:
            t, why, a, c, s = tdis[0]
            chk.violation("tie_accept",
                          "correspondence `accept` no longer holds: the running code and the model (grammar translated from "
                          "the source + item construction) disagree on %d inputs; first: %s (%s) impl=%s model=%s spec=%s\n"
                          "No ill-formed input that the code reports as completely parsed was found.\n"
                          % (len(tdis), lib.enc(t), why, a, c, s), no_input=True)
        elif problems or not pr["ok"]:
            X.proof_violation(chk, "C02", pr, problems, len(cases))
    chk.assumptions += ["the context-free reading of the generated grammar is the Recommendation's EBNF except for the recorded findings",
                        "the specification model repairs production [5] Name only (envSpec)"]


def replay(chk, path):
    print(open(path).read())
    return 0
