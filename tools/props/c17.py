"""C17 — the command-line tools: xe rewrites exactly the selected nodes, xq prints exactly the selection,
both end with an error message and a non-zero status (never a crash) on unusable input.

The real example binaries (built from /repo's working tree) are run as processes; the model is
`XmlRs.Cli.xq` / `XmlRs.Cli.xe` (parser o XPath evaluator o rewrite o printer)."""
import os
import random
import subprocess
from concurrent.futures import ThreadPoolExecutor
import lib
from gen import xpathgen as G
from props import xmlcommon as X
from props import xpcommon as XP

VALUES = ["", "t", "x y", "<k/>", "<k a='1'>x</k>tail", "a&amp;b", "&lt;", "&#65;", "<!--c-->", "<?pi d?>", "<![CDATA[x<y]]>",
          "<k><m n=\"2\"/>z</k>", "<p:k xmlns:p='urn:u1' p:a='1'/>", "<a", "</r>", "<k a='1' a='2'/>", "a<b/>c<!--d-->e",
          "<p:k xmlns:p='urn:u1' p:a='1' a='2'/>", "&nosuch;", "<k>&#x42;</k>", "  ", "é\U0001D4B3", "<k xmlns='urn:u2'><k/></k>",
          "<k a=\"v&amp;w\"/>", "<k a='&#65;'/>", "a\"b&amp;c'd", "\"", "'", "a\"b'c", "x\"y", "it's", "<k a='x\"y'/>",
          "<k a=\"it's\">'\"</k>", "&quot;&apos;", "a\"&amp;'", "]]>", "<?xml version='1.0'?>", "<k/><m/>", "<!--c--><k/>", "<!DOCTYPE k><k/>",
          # markup characters that are ordinary inside an attribute value or in text: `>`, `/>`, `]]`, a quote of the other kind
          # (round-7 seed C17-I cut a start tag at its first `>`)
          "<b t=\"a>b\"/>", "<k a='x > y' b=\"/>\">t</k>", "<k a='1'><m b='>'/>></k>", "a > b", "<k a=']]>'/>", "<k a='<![CDATA['>]]</k>"]
SELECTORS = ["/", "/*", "//*", "//a", "//b", "//c", "//@*", "//@id", "//@x", "/*/*", "/*/*[1]", "/*/*[last()]", "//*[not(*)]",
             "//a//b", "//*[@id]", "/*/@*", "//a | //b/@*", "//a/.. | //c", "//*[1]", "//p:a", "//p:*", "//@p:*", "//q:b",
             "//text()", "//comment()", "//processing-instruction()", "//node()", "/* | /", "//*[2]/@*[1]", "//b/ancestor::*",
             "//nosuch", "//@nosuch", "/*[position() = 1]", "//a[1]/following::*", "//@xml:lang", "//*[lang('en')]",
             # from attribute nodes upwards and sideways, by the named axes and by the abbreviations (round-7 seed C17-J: the
             # named parent axis asked the DOM, where an attribute has no parent)
             "//@*/parent::*", "//@id/parent::node()", "//@x/..", "//@*/ancestor::*[1]", "//@id/ancestor-or-self::node()[2]",
             "//@x/parent::*/@*", "//@*/self::node()/..", "//@id/following::*[1]", "//@x/preceding::*[1]"]
SCALARS = ["count(//*)", "string(/)", "1 div 0", "-1 div 0", "0 div 0", "0.1 + 0.2", "1 = 1", "//a = //b", "concat('a', 'b')",
           "string(//@*)", "sum(//@id)", "name(/*)", "100 div 7", "string-length(string(/))", "boolean(//c)", "-(0)", "1e3"]
BROKEN = ["", "//", "/*[", "$v", "nosuch()", "count()", "//z:a", "1 +", "id('a')", "child::", "//*[", "((((1))))", "a b"]
# exactly one node supplied by an attribute-list default per document: two of them, or one next to written attributes of
# the same element in one node-set, run into the recorded finding default-attr-order of C05 / C07
DEFDOCS = ["<!DOCTYPE r [<!ATTLIST r d CDATA 'dv'>]><r xmlns:p='urn:u1' id='1'><a x='2'/><a p:e='w'>t</a></r>",
           "<!DOCTYPE r [<!ATTLIST a p:e CDATA 'x'>]><r xmlns:p='urn:u1' id='1'><a x='2'/><a p:e='w'>t</a></r>",
           "<!DOCTYPE r [<!ATTLIST r d NMTOKENS ' 1  2 '>]><r><a/><b id='3'/></r>",
           "<!DOCTYPE r [<!ATTLIST a q CDATA #REQUIRED>]><r><a/><b><a q='1'/></b></r>"]
DEFSEL = ["//@d", "//@p:e", "//a/@p:e", "//@q", "//*[@d]", "//a[@p:e]", "//@d | //a", "//@q | //b", "//*[@q]/@q", "/r/@d | //a/@x"]
DECLDOCS = ['<?xml version="1.0" encoding="UTF-8" standalone="yes"?><!DOCTYPE r [<!NOTATION n PUBLIC "-//N//EN"><!NOTATION m SYSTEM "s">'
            '<!NOTATION o PUBLIC "p" "s"><!ENTITY e "v"><!ENTITY x SYSTEM "x.ent"><!ENTITY y PUBLIC "p" "y.ent" NDATA n><!ENTITY z "">'
            '<!ELEMENT r (a|b)*><!ELEMENT a (#PCDATA)><!ATTLIST r xml:lang CDATA "en" k NOTATION (n|m) #IMPLIED><!-- c --><?p d?>]>'
            '<r><a>&e;</a><b/></r><!--t-->',
            '<!DOCTYPE p:r PUBLIC "-//X//EN" "x.dtd" [<!ATTLIST p:r a CDATA #IMPLIED xmlns:p CDATA "urn:u1" p:b (u|v) "u"><!ELEMENT p:r ANY>]>'
            '<p:r><a/><b>t</b></p:r>',
            "<!DOCTYPE r SYSTEM 's.dtd' [<!ENTITY q 'say \"hi\"'><!ENTITY s \"it's\"><!ATTLIST r d CDATA '&q;'>]><r><a>&q;&s;</a><b/></r>"]
DECLDOCS += ['<?xml version="1.0" standalone="no"?><r><a>t</a><b/></r>',
             '<?xml version="1.1" encoding="UTF-16" standalone="no"?><!DOCTYPE r [<!ENTITY lt2 "<b>bold</b>">]><r><a>t</a><b/></r>',
             "<?xml version='1.0' encoding='ISO-8859-1'?><r><a>t</a><b/></r>"]
BADDOCS = ["", "<a>", "<a></b>", "text", "<a/><b/>", "<a/>trail", "<a x='1' x='2'/>", "<a>&nosuch;</a>", "﻿<a/>", "<a>\x01</a>"]


def setns_args(bind):
    out = []
    for b in bind.split(";"):
        if not b:
            continue
        p, u = b.split("=", 1)
        out += ["--setns", ("xmlns:%s=%s" % (p, u)) if p else ("xmlns=%s" % u)]
    return out


def run_tool(exe, args, text, timeout=20):
    try:
        r = subprocess.run([exe] + args, input=text.encode("utf-8"), capture_output=True, timeout=timeout)
        return r.returncode, r.stdout, r.stderr
    except subprocess.TimeoutExpired:
        return "timeout", b"", b""


def classify(rc, out, err):
    """-> (class, stdout text) with class ok | fail | crash:<why>"""
    if rc == "timeout":
        return "crash:timeout", ""
    if rc == 0:
        try:
            return "ok", out.decode("utf-8")
        except UnicodeDecodeError:
            return "crash:stdout-not-utf8", ""
    if rc == 1 and err.strip() and b"panicked" not in err:
        return "fail", ""
    if rc == 1:
        return "crash:exit 1 without an error message" if not err.strip() else "crash:panic message with exit 1", ""
    return "crash:exit status %s %s" % (rc, err.decode("utf-8", "replace")[-200:].replace("\n", " ")), ""


def gen(rng, thorough):
    nd = 260 if thorough else 70
    cases = []          # (tool, text, bind, expr, value)
    eg = G.ExprGen(rng)
    for _ in range(nd):
        dg = G.DocGen(rng, max_depth=3)
        d = dg.document()
        text = G.render_doc(d)
        bind = rng.choice([XP.BINDINGS, XP.BINDINGS, "", "p=urn:u2", "=urn:u1;p=urn:u1"])
        for _ in range(5):
            k = rng.random()
            if k < 0.55:
                e = rng.choice(SELECTORS)
            elif k < 0.75:
                e = G.spell(eg.nodeset(2), G.Spelling(rng, abbrev=rng.random() < 0.7))
            elif k < 0.9:
                e = rng.choice(SCALARS)
            else:
                e = rng.choice(BROKEN)
            if "namespace::" in e:
                continue
            cases.append(("xq", text, bind, e, ""))
            if rng.random() < 0.8:
                cases.append(("xe", text, bind, e, rng.choice(VALUES)))
    for t in BADDOCS:
        cases.append(("xq", t, "", "/*", ""))
        cases.append(("xe", t, "", "/*", "v"))
    base = "<r id='1'><a x='2'>t<b/>u</a><!--c--><a/><?pi d?></r>"
    for v in VALUES:
        for e in ("/r/a", "/r/a/@x", "/", "//b", "/r"):
            cases.append(("xe", base, "", e, v))
    # nodes that read alike (equal names, equal values) selected together: each is still its own node
    twins = ["<list><item cur='eur'>1</item><item cur='eur'>2</item><total cur='usd'>3</total><item cur='eur'>1</item></list>",
             "<r><a>old</a><a>old</a><b>old</b><a/><a/><!--c--><!--c--><?p d?><?p d?></r>"]
    twinsel = ["//item/@cur | //total/@cur", "//a | //b", "//a/text() | //b/text()", "//item | //total", "(//item | //total)/@cur",
               "//a[not(node())] | //b", "//@cur", "//item[@cur='eur']/@cur | //nosuch", "//comment() | //processing-instruction()",
               "//a[1] | //a[2] | //a[3]", "//item[1]/@cur | //item[2]/@cur | //item[3]/@cur", "//text()"]
    for td in twins:
        for e in twinsel:
            cases.append(("xq", td, "", e, ""))
            for v in ("gbp", "<k/>", ""):
                cases.append(("xe", td, "", e, v))
    # a default namespace bound by the caller (--setns xmlns=URI) qualifies unprefixed ELEMENT names only, however the
    # attribute step is spelled
    feed = "<feed xmlns='http://feed'><entry id='e1'>one</entry><entry id='e2' n='x'>two</entry><x xmlns=''><entry id='e3'/></x></feed>"
    for bnd in ("=http://feed", "=http://feed;p=http://feed", "", "=urn:other"):
        for e in ("/feed/entry/@id", "//entry[@id='e2']", "//entry/@id", "//entry/attribute::id", "//@id", "//*[@id]", "//entry[@n]/@n",
                  "//entry", "//p:entry/@id", "//x/entry/@id", "//entry[attribute::id='e1']"):
            cases.append(("xq", feed, bnd, e, ""))
            cases.append(("xe", feed, bnd, e, "x"))
    # (one defaulted attribute per element at most: several of them collapse into one in a node-set, the recorded finding
    # default-attr-order of C05/C07, which is not this property's subject)
    # every kind of declaration in the internal subset, an XML declaration, an external identifier on the DOCTYPE: whatever is
    # selected and rewritten, all of it is written back as it was (round-6 seed C17-G lost the identifier of a notation declared
    # by public identifier alone)
    for dd in DECLDOCS:
        for e in ("/", "/*", "//a", "//b", "//@*", "//a/text()", "count(//*)", "//*[last()]"):
            cases.append(("xq", dd, XP.BINDINGS, e, ""))
            for v in ("z", "<k/>", ""):
                cases.append(("xe", dd, XP.BINDINGS, e, v))
    # at the nesting limit of the parser: a replacement that would put an element below it is refused (error, nothing printed),
    # one that stays within is written and parses back (round-6 seed C17-H measured the height of the inserted element in edges)
    lim = lib.XML_CONSTS.get("MAX_ELEMENT_DEPTH")
    if lim:
        for depth in (lim, lim - 1, lim - 2):
            chain = "<a>" * depth + "t" + "</a>" * depth
            for v in ("<x/>", "a<x>b<y /></x>", "u", "<x><y><z/></y></x>", ""):
                cases.append(("xe", chain, "", "//a[not(*)]", v))
            cases.append(("xq", chain, "", "//a[not(*)]", ""))
    # elements whose ONLY child is a reference (the tools read the text-expanded view, where it is a text node like any other), and
    # general entities that are reached more than once in one expansion - twice in one replacement text, along two paths of a
    # diamond - which is no cycle (round-9 seeds C17-M: a lone reference handed out unexpanded; C17-N: a second visit reported
    # as "refers to itself")
    for dd in ("<r><t>&amp;</t><t>&#65;</t><t>&lt;x</t><u><![CDATA[z]]></u><t>a</t><t>&#x42;&#67;</t></r>",
               "<!DOCTYPE r [<!ENTITY s 'k'><!ENTITY d '&s;-&s;'><!ENTITY w '&s;+&d;'>]><r><i>&d;</i><j>&w;</j><i t='&d;'>&s;</i><t>&s;</t></r>"):
        for e in ("//t[.='&']", "string(/r/t[1])", "//t[.='A']", "//t", "//u", "//i[.='k-k']", "string(/r/j)", "//i[@t='k-k']", "//i", "//t/text()",
                  "count(//text())", "//t[.='k']", "string(/r)", "//*[not(*)][string-length() = 1]", "//i/@t"):
            cases.append(("xq", dd, XP.BINDINGS, e, ""))
            for v in ("z", "<k/>"):
                cases.append(("xe", dd, XP.BINDINGS, e, v))
    # attributes supplied by attribute-list defaults
    for dd in DEFDOCS:
        for e in DEFSEL:
            cases.append(("xq", dd, XP.BINDINGS, e, ""))
            for v in ("z", "", "a&amp;b", "<k/>", "&#65;", "x y"):
                cases.append(("xe", dd, XP.BINDINGS, e, v))
    return cases


def run(chk):
    thorough = chk.tier == "thorough"
    rng = random.Random(lib.seed())
    tabs, problems = lib.regenerate()
    pr = X.standard_proof(chk, "C17", thorough)
    exdir = lib.build_examples()
    cases = gen(rng, thorough)
    cases += [tuple(lib.dec(f) for f in l.split("\t")) for l in X.corpus_lines("C17", "found.txt") if l.count("\t") == 4]

    def one(c):
        tool, text, bind, e, v = c
        args = ["--no-indent", "--xpath", e] + setns_args(bind) + (["--value", v] if tool == "xe" else [])
        return classify(*run_tool(os.path.join(exdir, tool), args, text))
    def pretty(c):
        tool, text, bind, e, v = c
        args = ["--xpath", e] + setns_args(bind) + (["--value", v] if tool == "xe" else [])
        return classify(*run_tool(os.path.join(exdir, tool), args, text))
    with ThreadPoolExecutor(16) as ex:
        impl = list(ex.map(one, cases))
        pimpl = list(ex.map(pretty, cases[::2]))
    mlines = [lib.req(tool, "rz", text, bind, e) if tool == "xq" else lib.req(tool, "rz", text, bind, e, v)
              for tool, text, bind, e, v in cases]
    model = lib.run_lines(lib.model_driver(), mlines, timeout=1800, per_line_resume=True)
    # the compact output of xe must parse back to itself
    outs = [(i, o) for i, (c, (cls, o)) in enumerate(zip(cases, impl)) if c[0] == "xe" and cls == "ok"]
    back = lib.run_lines(lib.build_harness(), [lib.req("print", o[:-1] if o.endswith("\n") else o) for _, o in outs],
                         timeout=900, per_line_resume=True)
    back = {i: b for (i, _), b in zip(outs, back)}
    mfail, tdis = [], []
    hist = {}
    # indented mode (the default): same outcome class as the compact mode, and what xe prints is well-formed
    pouts = [(i, o) for i, (c, (cls, o)) in enumerate(zip(cases[::2], pimpl)) if c[0] == "xe" and cls == "ok"]
    pback = lib.run_lines(lib.build_harness(), [lib.req("print", o) for _, o in pouts], timeout=900, per_line_resume=True)
    pback = {i: b for (i, _), b in zip(pouts, pback)}
    for i, (c, (cls, out)) in enumerate(zip(cases[::2], pimpl)):
        chk.count(["indent"] + list(c), nontrivial=cls == "ok")
        if cls.startswith("crash"):
            mfail.append((c, "%s (indented output) neither succeeds nor ends with an error message and a non-zero status: %s"
                          % (c[0], cls[6:]), ""))
        elif cls != impl[2 * i][0]:
            mfail.append((c, "%s ends differently with and without --no-indent" % c[0], "indented: %s, compact: %s" % (cls, impl[2 * i][0])))
        elif c[0] == "xe" and cls == "ok" and not pback.get(i, "").startswith("ok "):
            mfail.append((c, "the indented output of xe is not well-formed", "output: %r\nparser: %s" % (out, pback.get(i))))
    for i, (c, (cls, out), m) in enumerate(zip(cases, impl, model)):
        tool = c[0]
        hist[tool + ":" + cls.split(":")[0]] = hist.get(tool + ":" + cls.split(":")[0], 0) + 1
        chk.count(list(c), nontrivial=cls == "ok")
        if cls.startswith("crash"):
            mfail.append((c, "%s neither succeeds nor ends with an error message and a non-zero status: %s" % (tool, cls[6:]), ""))
            continue
        if tool == "xe" and cls == "ok":
            b = back.get(i, "")
            body = out[:-1] if out.endswith("\n") else out
            if b != "ok " + lib.enc(body):
                mfail.append((c, "the compact output of xe does not parse back to itself", "output: %r\nre-parse and print: %s" % (out, b)))
                continue
        mcls = "ok" if m.startswith("ok:") else ("fail" if m == "fail" else "model:" + m)
        mout = lib.dec(m[3:]) if mcls == "ok" else ""
        if mcls != cls or mout != out:
            d = (c, "implementation: %s %r\nmodel:          %s %r" % (cls, out[:600], mcls, mout[:600]))
            # a success with other output than the specified rewrite / selection is a violation of the property itself
            if cls == "ok" and mcls == "ok":
                mfail.append((c, "%s output is not %s" % (tool, "the document with exactly the selected nodes rewritten" if tool == "xe"
                                                          else "the serialization of exactly the selected nodes in document order"), d[1]))
            elif cls == "ok" and mcls == "fail":
                mfail.append((c, "%s reports success on input that is unusable (the document, the path or the replacement is refused by "
                              "the specification model): an error message and a non-zero status are required" % tool, d[1]))
            elif cls == "fail" and mcls == "ok":
                mfail.append((c, "%s refuses usable input" % tool, d[1]))
            else:
                tdis.append(d)
    # ---- the command line itself: argument vectors that cannot be used end with a message and status 1; the document given
    # as a file path is the document given on standard input
    exe = {"xq": os.path.join(exdir, "xq"), "xe": os.path.join(exdir, "xe")}
    import tempfile
    doc_ok = "<r a='1'><b>t</b></r>"
    tmpd = tempfile.mkdtemp(prefix="c17_", dir=lib.WORK)
    fpath = os.path.join(tmpd, "doc.xml")
    open(fpath, "w").write(doc_ok)
    badv = [[], ["--xpath"], ["--xpath", "/", "--xpath", "/"], ["--setns"], ["--xpath", "/", "--setns", "p"],
            ["--xpath", "/", "--setns", "p=urn:x"], ["--xpath", "/", "--setns", "foo:p=urn:x"], ["--xpath", "/", fpath, fpath],
            ["--xpath", "/", os.path.join(tmpd, "no-such-file.xml")], ["--xpath", "/", tmpd], ["--nosuch-option-" + "x" * 5000, "--xpath", "/"]]
    nbad = 0
    for tool in ("xq", "xe"):
        extra = [["--xpath", "/r", "--value"], ["--xpath", "/r", "--value", "v", "--value", "w"], ["--xpath", "/r"]] if tool == "xe" else []
        for av in badv + extra:
            av2 = list(av) + (["--value", "v"] if tool == "xe" and av in badv else [])
            rc, out, err = run_tool(exe[tool], av2, doc_ok)
            cls, _ = classify(rc, out, err)
            nbad += 1
            chk.count(["argv", tool] + av2, nontrivial=True)
            if cls != "fail":
                mfail.append(((tool, doc_ok, "", " ".join(av2)[:200], ""), "%s does not end with an error message and status 1 on an unusable "
                              "command line" % tool, "arguments: %r\noutcome: %s" % (av2[:6], cls)))
        base = ["--no-indent", "--xpath", "/r/b"] + (["--value", "v"] if tool == "xe" else [])
        a = classify(*run_tool(exe[tool], base, doc_ok))
        b = classify(*run_tool(exe[tool], base + [fpath], ""))
        if a != b or a[0] != "ok":
            mfail.append(((tool, doc_ok, "", "/r/b", "v"), "%s answers differently for the document as a file and on standard input" % tool,
                          "stdin: %r\nfile: %r" % (a, b)))
    import shutil
    shutil.rmtree(tmpd, ignore_errors=True)
    # reach of `xe_output_reparses` (Thm/C17 with C04 `print_newline_roundtrip`): on how many of the documents xe wrote in this run do
    # the hypotheses hold (the rewritten document is in the printer's profile, its canonical rendering meets the lexical side
    # conditions, depth within the limit)?  Measured on the output text by the model (op thm04); carries no theorem.
    xouts = sorted({(o[:-1] if o.endswith("\n") else o) for _, o in outs})
    th = lib.run_lines(lib.model_driver(), [lib.req("thm04", o) for o in xouts], timeout=600, per_line_resume=True)
    chk.cov["theorem_reach"] = {"documents_written_by_xe": len(xouts), "in_profile": sum(1 for r in th if r.startswith("profile=1")),
                                "hypotheses_hold": sum(1 for r in th if r == "profile=1 ok=1 faithful=1 depth=1 canon=1")}
    chk.cov["command_lines"] = "%d unusable argument vectors per run (missing values, repeated options, bad --setns, two files, missing file, a directory)" % nbad
    chk.cov["outcomes"] = dict(sorted(hist.items()))
    chk.cov["rule"] = ("%d runs of the real xq / xe example binaries (built from the working tree; --no-indent, --setns bindings) on "
                       "generated namespace/DTD documents x selecting paths (fixed list + generated), scalar expressions, broken "
                       "expressions, unusable documents x %d replacement fragments (text, elements, refs, CDATA, comments, PIs, "
                       "malformed, duplicate attributes); per run: exit 0, or exit 1 with a message on stderr and no panic; xe "
                       "stdout re-parsed and re-printed by the library equals itself; status and stdout equal the model's "
                       "Cli.xq / Cli.xe; every second case also without --no-indent (same outcome class, xe output well-formed); "
                       "non-trivial = successful runs" % (len(cases), len(VALUES)))
    chk.cov["monitor_failures"] = len(mfail)
    chk.cov["disagreements_checked"] = len(tdis)
    for c, why, detail in mfail[:4]:
        chk.violation("cli_%s" % lib.enc(c[3])[-40:].replace("%", "_"),
                      "property C17: %s\n%s\ntool=%s\ndocument=%r\nbindings=%r\nxpath=%r\nvalue=%r\ncorpus line: %s\n"
                      % (why, detail, c[0], c[1], c[2], c[3], c[4], "\t".join(lib.enc(f) for f in c)))
    if not mfail:
        if tdis:
            c, detail = tdis[0]
            chk.violation("tie_cli", "correspondence `xq/xe` no longer holds on %d runs; first:\n%s\ntool=%s\ndocument=%r\nbindings=%r\n"
                          "xpath=%r\nvalue=%r\n" % (len(tdis), detail, c[0], c[1], c[2], c[3], c[4]), no_input=True)
        elif problems or not pr["ok"]:
            X.proof_violation(chk, "C17", pr, problems, chk.cov["evaluations"])
