"""The DOM checks C12, C13, C14, C15: edit histories through the `dom` op (shared machinery)."""
import random
import lib
from gen import domgen as D
from props import xmlcommon as X

# node-set and count queries only: in the raw view a string value depends on whether `>` was written as `&gt;` (after `]]`)
# the battery ENDS with two queries that FAIL after they have collected and sorted nodes (an unbound prefix, a variable): the
# context that lives as long as the history must carry nothing of them into the queries after the next edit (round-6 seed
# C07-H kept order keys by node id until the next SUCCESSFUL query); `battery(extra)` keeps them last
# ... and BEGINS with every node but the text nodes (adjacent ones print as one run) and the attributes in ONE node-set: any two
# nodes whose order the edit has changed are in it, and it is the first thing asked after the edit
QUERIES_BASE = ("//node()[not(self::text())] | //@*;"
                "//*;//@*;//comment();//processing-instruction();count(//comment() | //processing-instruction());count(//*);(//*|//@*)[2];"
                "//*[last()];//*/@*[1];(//node()[not(self::text())] | //@*)[last()]")
FAILING_TAIL = "//node() | //zz:x;(//*)[last()][$v]"


def battery(extra=""):
    return QUERIES_BASE + (";" + extra.strip(";") if extra else "") + ";" + FAILING_TAIL


QUERIES = battery()


def histories(rng, n, max_ops, hostile, deep=0):
    out = []
    for _ in range(n):
        h = D.Hist(rng, max_ops=max_ops, hostile=hostile)
        t, ops = h.history()
        out.append((t, ops))
    for k in range(deep):
        # trees nested deeper than the parser's own limit can only be built through the DOM
        h = D.Hist(rng, max_ops=3, hostile=0.0)
        t, ops = h.history()
        if k % 2 == 0:
            out.append((t, ops + h.deep_chain(140 + 10 * k) + ["ce:z", "ap:h1:h%d" % (len(h.shadow))]))
        else:
            out.append((t, ops + h.deep_chain_up(125 + 5 * k)))
    if deep:
        lim = lib.XML_CONSTS.get("MAX_ELEMENT_DEPTH") or 128
        for delta in (0, 1):
            h = D.Hist(rng, max_ops=2, hostile=0.0)
            t, ops = h.history()
            out.append((t, ops + h.deep_move(lim + delta)))
    return out


MATRIX_DOC = ("<!DOCTYPE r [<!ENTITY e 'v'>]><?p d?><r a='x&amp;y' b='2'>t<![CDATA[c]]><!--k--><?q z?>&amp;&e;<s><u/>w</s></r><!--end-->")


def matrix_cases():
    """EVERY mutator with EVERY kind of node as the receiver (document, document type, element, attribute, the text and the reference
    inside an attribute value, text, CDATA section, comment, PI, entity reference) and a few arguments of different kinds: the
    calls an ordinary history hardly ever makes (a child appended to a comment, a CDATA section split, normalize on an attribute)"""
    import re as _re
    a = lib.run_lines(lib.build_harness(), [lib.req("dom", MATRIX_DOC, "count(//*)")], timeout=120, per_line_resume=True)[0]
    dump0 = D.split_records(a)[0].get("dump", "")
    hs = sorted({int(x) for x in _re.findall(r"h(\d+):", dump0)})
    if not hs:
        return []
    nh = hs[-1] + 1
    kinds = dict((int(h), k) for h, k in _re.findall(r"h(\d+):([A-Z])", dump0))
    def first(k):
        return next((h for h in hs if kinds.get(h) == k), hs[0])
    args = sorted({first("E"), first("T"), first("A"), first("C"), first("S"), first("P"), first("R"), first("Y"), hs[min(len(hs) - 1, 12)]})
    out = []
    for h in hs:
        for k in args:
            out.append(["rm:h%d:h%d" % (h, k)])
            out.append(["ce:z", "ib:h%d:h%d:h%d" % (h, nh, k)])
            out.append(["ce:z", "rc:h%d:h%d:h%d" % (h, nh, k)])
            out.append(["ap:h%d:h%d" % (h, k)])
            out.append(["ran:h%d:h%d" % (h, k)])
        for mk in ("ce:z", "ct:z", "cc:z", "cd:z", "cp:z:y", "ca:z", "cr:amp"):
            out.append([mk, "ap:h%d:h%d" % (h, nh)])
            out.append([mk, "ib:h%d:h%d:-" % (h, nh)])
            out.append([mk, "san:h%d:h%d" % (h, nh)])
        for op in ("ad:h%d:q", "sd:h%d:q", "id:h%d:0:q", "id:h%d:9:q", "dd:h%d:0:1", "rd:h%d:0:1:q", "sv:h%d:q", "st:h%d:1", "st:h%d:0", "st:h%d:9",
                   "nz:h%d", "sa:h%d:n:v", "sa:h%d:a:v", "ra:h%d:a", "ra:h%d:zz", "ga:h%d:a", "ga:h%d:zz", "ch:h%d:0", "ch:h%d:7", "gni:h%d:a",
                   "rni:h%d:a", "rni:h%d:zz"):
            out.append([op % h])
    return [(MATRIX_DOC, ops) for ops in out]


def run_histories(cases, queries=QUERIES, timeout=1800):
    lines = [lib.req("dom", t, queries, *ops) for t, ops in cases]
    impl = lib.run_lines(lib.build_harness(), lines, timeout=timeout, per_line_resume=True)
    model = lib.run_lines(lib.model_driver(), lines, timeout=timeout, per_line_resume=True)
    return impl, model


def quiet_stream(chk, rng, n, max_ops=8, queries=QUERIES, deep=False):
    """histories whose calls are made WITHOUT anything being read in between (harness markers `quiet` / `loud`): the dump, the
    navigation views, the order keys, the query battery and the serialization are looked at only when the history is over (or,
    for half of them, before it starts being quiet).  What one call leaves behind - a flag, a cache, a key - meets the next call as
    it is; reading after every step renumbers and clears.  Compared with the model: the status of every call and the final dump;
    monitored: every flag of the final state (round-8 seed C07-L: a refused insert took back the `order is stale` mark of the
    successful insert before it).  Returns (monitor failures, tie differences, number of histories)."""
    cases = []
    for _ in range(n):
        h = D.Hist(rng, max_ops=max_ops, hostile=0.15)
        t, ops = h.history()
        # a refused structural call in the middle: an ancestor offered as a child, a node as its own sibling
        if rng.random() < 0.6 and len(h.shadow) > 3:
            ops.insert(rng.randrange(len(ops) + 1), rng.choice(["ap:h%d:h1" % h.pick(("elem",)), "ib:h1:h%d:h%d" % (h.pick(("elem",)), len(h.shadow) + 5),
                                                              "ap:h%d:h0" % h.pick(("elem",)), "rm:h1:h0"]))
        k = rng.randrange(len(ops) + 1) if rng.random() < 0.5 else 0
        cases.append((t, ops, ops[:k] + ["quiet"] + ops[k:] + ["loud"]))
    impl = lib.run_lines(lib.build_harness(), [lib.req("dom", t, queries, *q) for t, _, q in cases], timeout=1800, per_line_resume=True)
    model = lib.run_lines(lib.model_driver(), [lib.req("dom", t, queries, *ops) for t, ops, _ in cases], timeout=1800, per_line_resume=True)
    mfail, tdis = [], []
    for (t, ops, q), a, m in zip(cases, impl, model):
        ra = [r for r, o in zip(D.split_records(a)[1:], q) if o not in ("quiet", "loud")]
        last = D.split_records(a)[-1] if a else None
        rm_ = D.split_records(m)[1:]
        chk.count(["quiet", t] + q, nontrivial=True)
        if last is None or len(ra) != len(ops):
            mfail.append((t, q, len(q), "a history made without reading in between: the run broke off (%s)" % a[:80], a[:300]))
            continue
        bad_status = next((i for i, (x, y) in enumerate(zip(ra, rm_)) if x["status"] != y["status"]), None)
        if bad_status is not None:
            tdis.append((t, q, bad_status + 1, "status (quiet history)", ra[bad_status]["status"], rm_[bad_status]["status"]))
            continue
        for fl in ("inv", "ord", "rt", "q"):
            v = last["flags"].get(fl)
            if v is not None and v not in ("ok", "skip") and "SIDE-EFFECT" not in v:
                mfail.append((t, q, len(q), "after calls made WITHOUT reading anything in between, the state read at the end is "
                              "inconsistent (%s)" % {"inv": "navigation views", "ord": "document-order keys", "rt": "serialization",
                                                     "q": "a query on the edited document vs a fresh parse"}[fl], v[:600]))
                break
        else:
            if rm_ and last.get("dump") != rm_[-1].get("dump"):
                tdis.append((t, q, len(q), "final dump (quiet history)", (last.get("dump") or "")[:300], (rm_[-1].get("dump") or "")[:300]))
    return mfail, tdis, len(cases)


def op_histogram(cases):
    h = {}
    for _, ops in cases:
        for o in ops:
            k = o.split(":")[0]
            h[k] = h.get(k, 0) + 1
    return dict(sorted(h.items()))


def status_histogram(recs_list):
    h = {}
    for recs in recs_list:
        for r in recs[1:]:
            k = r["status"].split("=")[0]
            h[k] = h.get(k, 0) + 1
    return dict(sorted(h.items()))


def replay_text(t, ops, upto):
    if ops and ops[0].startswith("foreign"):
        return ("document (percent-encoded): %s\nreplay: printf 'foreign\\t%s\\n' | harness/target/debug/xmlrs-driver\n"
                % (lib.enc(t), lib.enc(t).replace("%", "%%")))
    if ops and ops[0].startswith("(text-expanded"):
        return ("document (percent-encoded): %s\noperations (text-expanded view): %s\nreplay: printf 'domx\\t%s\\t\\t%s\\n' | "
                "harness/target/debug/xmlrs-driver\n" % (lib.enc(t), " ".join(ops[1:upto]), lib.enc(t).replace("%", "%%"),
                                                         "\\t".join(lib.enc(o).replace("%", "%%") for o in ops[1:upto])))
    return ("document (percent-encoded): %s\noperations: %s\nreplay: printf 'dom\\t%s\\t\\t%s\\n' | harness/target/debug/xmlrs-driver\n"
            % (lib.enc(t), " ".join(ops[:upto]), lib.enc(t).replace("%", "%%"),
               "\\t".join(lib.enc(o).replace("%", "%%") for o in ops[:upto])))


def common(chk, prop, thorough, n_quick, n_thorough, max_ops_q, max_ops_t, hostile):
    rng = random.Random(lib.seed())
    tabs, problems = lib.regenerate()
    pr = X.standard_proof(chk, prop, thorough)
    if prop in ("C13", "C15"):
        # C13: the EFFECT theorems live in their own module (they need the invariant lemmas of C12);
        # C15: the invariant over histories (every node of every reachable state holds validated data)
        pr2 = X.standard_proof(chk, "C13Effect" if prop == "C13" else "C15Valid", thorough)
        pr["ok"] = pr["ok"] and pr2["ok"]
        pr["failed"] = list(pr["failed"]) + list(pr2["failed"])
        pr["log"] = pr["log"] + pr2["log"]
    n = n_thorough if thorough else n_quick
    qm, qt, qn = quiet_stream(chk, rng, 400 if thorough else 120)
    chk.cov["quiet_histories"] = qn
    chk._quiet = (qm, qt)
    cases = histories(rng, n, max_ops_t if thorough else max_ops_q, hostile, deep=4 if prop in ("C14", "C12") else 2)
    cases += [(t, ops.split(" ")) for t, ops in (l.split("\t", 1) for l in X.corpus_lines(prop, "found.txt") if "\t" in l)]
    if prop in ("C13", "C12", "C15"):
        mc = matrix_cases()
        cases += mc
    impl, model = run_histories(cases)
    ri = [D.split_records(a) for a in impl]
    rm = [D.split_records(m) for m in model]
    chk.cov["histories"] = len(cases)
    chk.cov["operations"] = op_histogram(cases)
    chk.cov["outcomes_impl"] = status_histogram(ri)
    findings = {f["id"]: f for f in lib.load_findings(prop) if f["kind"] == "known"}
    return rng, problems, pr, cases, ri, rm, findings


def tie_failures(cases, ri, rm, findings, chk):
    """status and tree dump after every step: implementation vs model"""
    tdis = []
    for (t, ops), a, m in zip(cases, ri, rm):
        if len(a) != len(m):
            tdis.append((t, ops, 0, "record count %d vs %d" % (len(a), len(m)), a[-1]["status"] if a else "", ""))
            continue
        for i, (x, y) in enumerate(zip(a, m)):
            if x["status"] != y["status"] or x["dump"] != y["dump"]:
                tdis.append((t, ops, i, "status/dump", x["status"] + " {" + x["dump"][:300] + "}", y["status"] + " {" + y["dump"][:300] + "}"))
                break
    return tdis


def finish(chk, prop, mfail, tdis, problems, pr):
    qm, qt = getattr(chk, "_quiet", ([], []))
    mfail = list(mfail) + list(qm)
    tdis = list(tdis) + list(qt)
    for t, ops, i, why, detail in mfail[:4]:
        chk.violation("hist_%s" % lib.enc(" ".join(ops[:i]))[-70:],
                      "property %s: %s\n%s\n%s" % (prop, why, detail[:1200], replay_text(t, ops, i)))
    chk.cov["monitor_failures"] = len(mfail)
    chk.cov["disagreements_checked"] = len(tdis)
    if not mfail and tdis:
        # SEARCH STEP: the correspondence broke and no monitor fired on the histories as generated.  A call that answers
        # differently (an insert accepted that should be refused, ...) often becomes visible one or two calls later only:
        # continue the first disagreeing histories on the implementation - every tree outside the document is put into
        # it, every attribute handle is offered to the document element, everything is read - and apply the monitors.
        found = search_continuations(chk, prop, tdis)
        if found:
            t, ops, i, why, detail = found
            chk.violation("hist_%s" % lib.enc(" ".join(ops[:i]))[-70:],
                          "property %s: %s\n%s\n%s" % (prop, why, detail[:1200], replay_text(t, ops, i)))
            chk.cov["monitor_failures"] = 1
            return
    if not mfail:
        if tdis:
            t, ops, i, why, a, m = tdis[0]
            chk.violation("tie_dom", "correspondence `dom` no longer holds on %d histories; first (%s) after step %d:\n impl =%s\n model=%s\n%s"
                          % (len(tdis), why, i, a, m, replay_text(t, ops, i)), no_input=True)
        elif problems or not pr["ok"]:
            X.proof_violation(chk, prop, pr, problems, chk.cov["evaluations"])


SEARCH_FLAGS = {"C12": ("inv",), "C13": ("inv",), "C14": ("ord", "q"), "C15": ("rt", "q")}
FLAG_TEXT = {"inv": "the navigation views of the tree are inconsistent", "ord": "document-order keys are not non-zero / distinct / "
             "increasing along the walk (or a detached node has a key)", "rt": "the serialization of the edited document is not "
             "read back as an equal document", "q": "a query on the edited document differs from the same query on a fresh parse of "
             "its serialization"}


def search_continuations(chk, prop, tdis, limit=6):
    """continuations of the histories on which implementation and model part ways (implementation + monitors only)"""
    import re
    flags = SEARCH_FLAGS.get(prop)
    if not flags:
        return None
    cands = []
    for t, ops, i, why, a, m in tdis[:limit]:
        if not isinstance(ops, list) or not ops or ops[0].startswith("foreign") or i <= 0:
            continue
        pre = list(ops[:i])
        dump = a.split("{", 1)[1] if "{" in a else ""
        doc_part, _, rest = dump.partition(" ~ ")
        m_el = re.search(r"(h\d+):E\(", doc_part)
        if not m_el:
            continue
        root = m_el.group(1)
        loose = re.findall(r"(?:^| ~ )(h\d+):E\(", " ~ " + rest)
        attrs = sorted(set(re.findall(r"(h\d+):A\(", dump)))
        tails = [["ap:%s:%s" % (root, h)] for h in loose]
        tails += [["ap:%s:%s" % (root, h), "rm:%s:%s" % (root, h)] for h in loose]
        tails += [["san:%s:%s" % (root, h)] for h in attrs]
        tails += [["san:%s:%s" % (root, h)] + ["ap:%s:%s" % (root, e) for e in loose] for h in attrs]
        tails += [["ap:%s:%s" % (root, e) for e in loose] + ["nz:%s" % root]]
        for tl in tails[:40]:
            cands.append((t, pre + tl))
    if not cands:
        return None
    impl = lib.run_lines(lib.build_harness(), [lib.req("dom", t, QUERIES, *ops) for t, ops in cands], timeout=900, per_line_resume=True)
    chk.cov["search_continuations"] = len(cands)
    for (t, ops), a in zip(cands, impl):
        for i, x in enumerate(D.split_records(a)):
            for fl in flags:
                v = x["flags"].get(fl)
                if v is not None and v not in ("ok", "skip") and "SIDE-EFFECT" not in v:
                    if prop == "C15" and doctype_removal(v, t):
                        continue
                    return (t, ops, i, "(found by continuing a history on which the implementation and the model part ways) " + FLAG_TEXT[fl], v)
    return None


def known_panic(findings, chk, op):
    """recorded finding factory-panic: ct / cc / cd with data the node cannot hold"""
    if op.split(":")[0] in ("ct", "cc", "cd") and "factory-panic" in findings:
        chk.known_finding("factory-panic " + findings["factory-panic"]["text"])
        return True
    return False


# ---------------------------------------------------------------------------------------------------------
def run_c12(chk):
    thorough = chk.tier == "thorough"
    rng, problems, pr, cases, ri, rm, findings = common(chk, "C12", thorough, 500, 3000, 12, 40, 0.2)
    mfail = []
    for (t, ops), a in zip(cases, ri):
        for i, x in enumerate(a):
            chk.count([t] + ops[:i], nontrivial=i > 0 and x["status"].startswith("ok"))
            v = x["flags"].get("inv")
            if v is None:
                if x["status"] in ("abort", "timeout", "not-run") or "dump-panic" in x["dump"]:
                    mfail.append((t, ops, i, "the navigation views could not be read after this step (%s)" % x["status"], x["dump"][:300]))
                    break
                continue
            if v != "ok":
                mfail.append((t, ops, i, "navigation views disagree after this step", v))
                break
    # the same navigation monitor on documents read WITH text expansion (the view xq / xe use): a run of text, CDATA and
    # references is one merged child there, and first_child / last_child / siblings must still match child_nodes
    xcases = histories(rng, 500 if thorough else 150, 10, 0.1)
    ximpl = lib.run_lines(lib.build_harness(), [lib.req("domx", t, "", *ops) for t, ops in xcases], timeout=900, per_line_resume=True)
    for (t, ops), a in zip(xcases, ximpl):
        for i, x in enumerate(D.split_records(a)):
            chk.count(["expanded", t] + ops[:i], nontrivial=i > 0 and x["status"].startswith("ok"))
            v = x["flags"].get("inv")
            if v is None and x["status"] in ("abort", "timeout"):
                mfail.append((t, ops, i, "(text expansion on) the navigation views could not be read after this step (%s)" % x["status"], ""))
                break
            if v is not None and v != "ok":
                # a merged-text node is a VIEW computed from the current children: a handle taken before an edit that merged or
                # split the run is stale (not a removed node); only what the current child lists say is checked here
                msgs = [m_ for m_ in v[4:-1].split(";") if "is not listed under the document although" not in m_]
                if msgs:
                    mfail.append((t, ops, i, "(text expansion on) navigation views disagree after this step", "BAD(%s)" % ";".join(msgs)))
                    break
    chk.cov["expanded_text_stream"] = "%d histories" % len(xcases)
    chk.cov["rule"] = ("%d histories of up to %d DOM Level 1 mutator calls (factories, append/insert/replace/remove, attribute set/remove "
                       "by name and by node, value and data setters, split_text) over live handles chosen among attached, detached, "
                       "self, ancestors, descendants and wrong kinds (%d%% hostile choices); after EVERY step, for every live node: "
                       "parent_node vs child_nodes, first/last child, previous/next sibling, has_child, no node twice or beneath "
                       "itself, detached roots without parent, at most one document element and doctype (evaluated on the real "
                       "navigation views in the harness); tie: status and tree dump vs the model; non-trivial = a prefix ending "
                       "in a successful call" % (len(cases), 40 if thorough else 12, 20))
    # a node of ANOTHER document is never accepted into this one - also when the other document was read from the same text and
    # the two are equal by value: an accepted one answers to two trees at once (round-7 seed C12-I compared documents by value)
    fm, ncalls = foreign_stream(chk, [t for t, _ in cases[:25]])
    mfail += fm
    chk.cov["foreign_document_calls"] = ncalls
    finish(chk, "C12", mfail, tie_failures(cases, ri, rm, findings, chk), problems, pr)


def run_c13(chk):
    thorough = chk.tier == "thorough"
    rng, problems, pr, cases, ri, rm, findings = common(chk, "C13", thorough, 600, 4000, 12, 30, 0.3)
    mfail = []
    classes = {}
    for (t, ops), a, m in zip(cases, ri, rm):
        for i, x in enumerate(a):
            if i == 0:
                continue
            st = x["status"]
            chk.count([t] + ops[:i], nontrivial=True)
            classes[st.split("=")[0]] = classes.get(st.split("=")[0], 0) + 1
            if st == "panic" or st in ("abort", "timeout"):
                if st == "panic" and known_panic(findings, chk, ops[i - 1]):
                    pass
                else:
                    mfail.append((t, ops, i, "the call %s %ss" % (ops[i - 1], st), x["dump"][:300]))
                    break
            # atomic failure: a call that fails leaves the document observably unchanged
            if (st.startswith("err") or st == "panic") and x["dump"] != a[i - 1]["dump"]:
                mfail.append((t, ops, i, "the failed call %s (%s) changed the document" % (ops[i - 1], st),
                              "before: %s\nafter:  %s" % (a[i - 1]["dump"][:500], x["dump"][:500])))
                break
            # recorded finding attr-local-part: an attribute node that is not the first of its local part is not found
            if (ops[i - 1].startswith("ran:") and st == "err:notfound" and " p:x=" in t and " q:x=" in t
                    and "attr-local-part" in findings):
                chk.known_finding("attr-local-part " + findings["attr-local-part"]["text"][:400])
            # effect and exception class: the model is the DOM Level 1 reading of the call
            if i < len(m) and (st != m[i]["status"] or x["dump"] != m[i]["dump"]):
                mfail.append((t, ops, i, "the call %s: effect or exception differs from DOM Level 1 (model)" % ops[i - 1],
                              "implementation: %s {%s}\nmodel:          %s {%s}" % (st, x["dump"][:500], m[i]["status"], m[i]["dump"][:500])))
                break
    fm, ncalls = foreign_stream(chk, [t for t, _ in cases[:40]])
    mfail += fm
    # ---- value items of attributes supplied from attribute-list defaults: they belong to the declaration, every element of the
    # type shares them; a call on them that fails (most do: HIERARCHY_REQUEST_ERR / NO_MODIFICATION_ALLOWED_ERR) leaves the default
    # as it was for every element (monitor only; round-8 seed C13-K cut the default before split_text refused)
    ddocs_ = ["<!DOCTYPE r [<!ATTLIST r d CDATA \"hello\">]><r/>", "<!DOCTYPE r [<!ATTLIST r d CDATA 'say hi' e CDATA #FIXED 'fixed'>]><r><k/></r>",
              "<!DOCTYPE r [<!ENTITY e 'v'><!ATTLIST r d CDATA 'a&e;b'>]><r d2='x'/>"]
    dl_, dm_ = [], []
    for dd in ddocs_:
        for tmpl in (["ga:h2:d", "ch:h3:0", "st:h4:2"], ["ga:h2:d", "ch:h3:0", "st:h4:0"], ["ga:h2:d", "ch:h3:0", "dd:h4:0:2"],
                     ["ga:h2:d", "ch:h3:0", "rm:h3:h4"], ["ga:h2:d", "ch:h3:0", "ct:z", "rc:h3:h5:h4"], ["ga:h2:d", "ch:h3:0", "ct:z", "ib:h3:h5:h4"],
                     ["ga:h2:d", "sv:h3:new"], ["ga:h2:d", "ch:h3:0", "sd:h4:new"], ["ga:h2:d", "ch:h3:0", "rd:h4:0:1:Z"], ["ga:h2:d", "nz:h2"]):
            dl_.append(lib.req("dom", dd, "string(/r/@d);count(//@*)", *(tmpl + ["ga:h2:d", "ch:h%d:0" % (3 + len(tmpl))])))
            dm_.append((dd, tmpl))
    do_ = lib.run_lines(lib.build_harness(), dl_, timeout=600, per_line_resume=True)
    for (dd, tmpl), o in zip(dm_, do_):
        recs = D.split_records(o)
        for i_ in range(1, len(recs)):
            chk.count(["default-items", dd] + tmpl[:i_], nontrivial=True)
            if recs[i_]["status"] in ("panic", "abort", "timeout") and not (i_ <= len(tmpl) and tmpl[i_ - 1].split(":")[0] in ("ct", "cc", "cd")):
                mfail.append((dd, tmpl, i_, "a call on a value item of a defaulted attribute: " + recs[i_]["status"], recs[i_]["status"]))
                break
            if recs[i_]["status"].startswith("err") and recs[i_].get("dump") != recs[i_ - 1].get("dump"):
                mfail.append((dd, tmpl, i_, "a refused call on a value item of a defaulted attribute changed something (the default is "
                              "shared by every element of the type)", "before: %s\nafter:  %s" % (recs[i_ - 1].get("dump", "")[:400],
                                                                                                 recs[i_].get("dump", "")[:400])))
                break
    # ---- the text-expanded view (what xq / xe read): a run of text, CDATA and references is ONE node made of several items; a call
    # that has to leave the tree as it is - inserting a node before itself, replacing it by itself - leaves the run as it is, item
    # for item (round-7 seed C13-J rotated the items)
    xdocs = ["<r><x/>a<![CDATA[b]]>&#x63;<y/>tail</r>", "<r>&amp;x<![CDATA[<y>]]>z</r>", "<r k='v'>one<!--c-->t&lt;<![CDATA[w]]></r>"]
    xl, xm = [], []
    for xd in xdocs:
        for hh in range(1, 7):
            for tmpl in (["ib:h1:hH:hH"], ["rc:h1:hH:hH"], ["ib:h1:hH:hH", "rc:h1:hH:hH", "ib:h1:hH:hH"]):
                ops_ = [o.replace("hH", "h%d" % hh) for o in tmpl]
                xl.append(lib.req("domx", xd, "string(/r);count(//text())", *ops_))
                xm.append((xd, ops_))
    xo = lib.run_lines(lib.build_harness(), xl, timeout=600, per_line_resume=True)
    for (xd, ops_), o in zip(xm, xo):
        recs = D.split_records(o)
        for i_ in range(1, len(recs)):
            chk.count(["expanded-self", xd] + ops_[:i_], nontrivial=True)
            if recs[i_]["status"] in ("panic", "abort", "timeout") or recs[i_].get("dump") != recs[0].get("dump"):
                mfail.append((xd, ["(text-expanded view)"] + ops_, i_, "a node inserted before itself / replaced by itself: the document "
                              "changed (or the call crashed)", "%s\nbefore: %s\nafter:  %s" % (recs[i_]["status"], recs[0].get("dump", "")[:400],
                                                                                              recs[i_].get("dump", "")[:400])))
                break
    # ... and random histories in that view: whatever handle a call is given (a run that has meanwhile lost or gained items
    # included), a call that REPORTS an exception leaves the dump as it was (round-9 seed C13-N removed the items of an outdated
    # run one by one until it met the missing one)
    xh = histories(rng, 500 if thorough else 200, 8, 0.25)
    # (directed: a handle on a run of two items - parsed text + an appended CDATA section / text node / reference - taken BEFORE one
    # of the items is moved or removed through its own handle; then the outdated run is removed / moved / used as a reference)
    XD = "<r><a>one</a><b/></r>"       # h0 document, h1 r, h2 a, h3 `one`, h4 b; h5 = the created node, h6 = the run of two
    for mk in ("cd:two", "ct:two", "cr:amp"):
        for away in ("ap:h4:h5", "rm:h2:h5", "ib:h1:h5:h4"):
            for late in ("rm:h2:h6", "ap:h4:h6", "ib:h1:h6:h4", "rc:h2:h4:h6", "ib:h2:h4:h6"):
                xh.append((XD, [mk, "ap:h2:h5", "ch:h2:0", away, late]))
    xho = lib.run_lines(lib.build_harness(), [lib.req("domx", t, "count(//node())", *ops) for t, ops in xh], timeout=900, per_line_resume=True)
    xfail = 0
    for (t, ops), o in zip(xh, xho):
        recs = D.split_records(o)
        for i_ in range(1, len(recs)):
            st_ = recs[i_]["status"]
            chk.count(["expanded-hist", t] + ops[:i_], nontrivial=st_.startswith("err"))
            xfail += st_.startswith("err")
            if st_.startswith("err") and recs[i_].get("dump") != recs[i_ - 1].get("dump"):
                mfail.append((t, ["(text-expanded view)"] + ops, i_ + 1, "a call that reported an exception changed the document",
                              "%s\nbefore: %s\nafter:  %s" % (st_, recs[i_ - 1].get("dump", "")[:500], recs[i_].get("dump", "")[:500])))
                break
    chk.cov["expanded_view_failed_calls"] = xfail
    # ---- the maps of the document type declaration (DocumentType.entities / notations) are READ-ONLY in DOM Level 1:
    # setNamedItem / removeNamedItem answer NO_MODIFICATION_ALLOWED_ERR and change nothing; reading them (length, item, getNamedItem,
    # the Entity / Notation accessors) agrees with itself before and after
    DTM = ['<!DOCTYPE r [<!NOTATION n PUBLIC "-//N//EN"><!NOTATION m SYSTEM "s"><!ENTITY e "v"><!ENTITY x SYSTEM "x.ent">'
           '<!ENTITY y PUBLIC "p" "y.ent" NDATA n><!ENTITY z ""><!ATTLIST r a CDATA "d">]><r>&e;</r>',
           "<!DOCTYPE r><r/>", "<!DOCTYPE r SYSTEM 's.dtd' [<!ENTITY only 'v'>]><r/>", "<r/>"]
    dops = ["dtm:read", "dtm:esn", "dtm:ern:e", "dtm:nsn", "dtm:nrn:n", "dtm:ern:nosuch", "dtm:nrn:nosuch", "ce:k", "ap:h0:h99", "dtm:read"]
    dout = lib.run_lines(lib.build_harness(), [lib.req("dom", t, "count(//*)", *dops) for t in DTM], timeout=300, per_line_resume=True)
    for t, o in zip(DTM, dout):
        recs = D.split_records(o)
        reads = [r["status"] for r, op in zip(recs[1:], dops) if op == "dtm:read"]
        for i_, (r, op) in enumerate(zip(recs[1:], dops), 1):
            chk.count(["doctype-maps", t] + dops[:i_], nontrivial=True)
            st_ = r["status"]
            if op in ("dtm:esn", "dtm:ern:e", "dtm:nsn", "dtm:nrn:n", "dtm:ern:nosuch", "dtm:nrn:nosuch") and st_ not in ("err:nomod", "ok=-"):
                mfail.append((t, dops, i_ + 1, "a mutator of a read-only map of the document type answers %s, DOM Level 1 specifies "
                              "NO_MODIFICATION_ALLOWED_ERR" % st_, o[:600]))
                break
            if st_ in ("panic", "abort", "timeout") or "BAD(" in st_:
                mfail.append((t, dops, i_ + 1, "the maps of the document type: " + st_[:300], o[:600]))
                break
            if st_.startswith("err") and r.get("dump") != recs[i_ - 1].get("dump"):
                mfail.append((t, dops, i_ + 1, "a refused call on a map of the document type changed the document", o[:600]))
                break
        if len(reads) == 2 and reads[0] != reads[1]:
            mfail.append((t, dops, len(dops), "the maps of the document type read differently after refused calls", reads[0][:300] + "  /  " + reads[1][:300]))
    chk.cov["foreign_document_calls"] = ncalls
    chk.cov["result_classes"] = dict(sorted(classes.items()))
    chk.cov["rule"] = ("%d histories of up to %d mutator calls with receivers/arguments of every kind and position and name/value strings "
                       "over an alphabet with the markup-significant characters; per call: no panic/abort, a failing call leaves the "
                       "dump (document tree + detached trees, with node identities) unchanged, result class and full dump equal the "
                       "model's (DOM Level 1 effect incl. moves, specified exception class); non-trivial = every call"
                       % (len(cases), 30 if thorough else 12))
    finish(chk, "C13", mfail, [], problems, pr)


def foreign_stream(chk, more_docs):
    """nodes of ANOTHER document (the same text read twice: equal ids in both, and the two documents are equal by value): a new
    child / attribute of the other document is WRONG_DOCUMENT_ERR, a reference, an old child or an old attribute of the other
    document is NOT_FOUND_ERR (it is not a child of the receiver), and neither document changes"""
    mfail = []
    # ---- nodes of ANOTHER document (the same text read twice: equal ids in both): a new child / attribute of the other document
    # is WRONG_DOCUMENT_ERR, a reference, an old child or an old attribute of the other document is NOT_FOUND_ERR (it is not a
    # child of the receiver), and neither document changes
    FOREIGN = {"append(new2)": "wrongdoc", "insert(new2,-)": "wrongdoc", "doc.append(new2)": "wrongdoc", "insert(new2,own)": "wrongdoc",
               "replace(new2,own)": "wrongdoc", "insert(own,ref2)": "notfound", "replace(own,old2)": "notfound", "remove(old2)": "notfound",
               "doc.remove(root2)": "notfound", "remove(made2)": "notfound", "setAttributeNode(a2)": "wrongdoc",
               "setNamedItem(a2)": "wrongdoc", "removeAttributeNode(attr2)": "notfound", "attr.remove(item2)": "notfound",
               "attr.append(item2)": "wrongdoc"}
    fdocs = ["<r a='1' b='x&amp;y'><k>t</k>u<!--c--></r>", "<r><k/></r>", "<!DOCTYPE r><r id='v'>text</r><!--e-->", "<r/>"]
    fdocs += list(more_docs)
    fout = lib.run_lines(lib.build_harness(), [lib.req("foreign", t) for t in fdocs], timeout=300, per_line_resume=True)
    ncalls = 0
    for t, o in zip(fdocs, fout):
        if " | " not in o:
            mfail.append((t, ["foreign"], 1, "calls with nodes of another document: %s" % o[:100], o[:300]))
            continue
        calls, tail = o.rsplit(" | ", 1)
        for c in calls.split(";"):
            if "=" not in c:
                continue
            name, got = c.rsplit("=", 1)
            ncalls += 1
            chk.count(["foreign", t, name], nontrivial=True)
            if got != "err:" + FOREIGN.get(name, "?"):
                mfail.append((t, ["foreign:" + name], 1, "%s with a node of another document answers %s, DOM Level 1 specifies %s"
                              % (name, got, FOREIGN.get(name, "?").upper()), o[:600]))
                break
        if tail != "same":
            mfail.append((t, ["foreign"], 1, "a refused call with a node of another document changed a document", tail[:600]))
    return mfail, ncalls


NSQ = ("//*[namespace-uri()='urn:u1'];//*[namespace-uri()='urn:u2'];//*[namespace-uri()='urn:u0'];//*[namespace-uri()=''];"
       "//@*[namespace-uri()='urn:u1'];//@*[namespace-uri()='urn:u2'];count(//*[namespace-uri()!='']);string(namespace-uri(//*[last()]));"
       "//*[last()]/namespace::*;name((//*[last()]/namespace::*)[2]);//*[2]/namespace::*[last()];count(//namespace::*)")


def ns_node_cases(NSDOCS):
    """a declaration built as a NODE first (createAttribute, its value set, a query in between, then setAttributeNode): the other
    way a declaration comes to stand on an element (round-6 seed C14-H / round-7 seed C07-J renumbered for ordinary attribute
    nodes only)"""
    import re as _re
    nscases = []
    inits = lib.run_lines(lib.build_harness(), [lib.req("dom", t, "count(//*)") for t in NSDOCS], timeout=120, per_line_resume=True)
    for t, a in zip(NSDOCS, inits):
        recs = D.split_records(a)
        nh = 1 + max([int(x) for x in _re.findall(r"h(\d+):", recs[0].get("dump", ""))] or [0])
        elems = [int(x) for x in _re.findall(r"h(\d+):E\(", recs[0].get("dump", ""))]
        for el in elems:
            for nm, uri in (("xmlns:p", "urn:u2"), ("xmlns:q", "urn:u1"), ("xmlns", "urn:u1")):
                nscases.append((t, ["ca:" + lib.enc(nm), "sv:h%d:%s" % (nh, lib.enc(uri)), "san:h%d:h%d" % (el, nh)]))
            nscases.append((t, ["ca:" + lib.enc("xmlns:p"), "sv:h%d:%s" % (nh, lib.enc("urn:u2")), "san:h%d:h%d" % (el, nh),
                                "ce:p%3Anew", "ap:h%d:h%d" % (el, nh + 1)]))
    return nscases


def ns_histories(rng, n, docs):
    """histories that edit namespace declarations (set again on the element that has them, set on ancestors and descendants,
    removed) and move subtrees between scopes"""
    nscases = []
    for _ in range(n):
        t = rng.choice(docs)
        ops = []
        for _ in range(rng.randint(1, 6)):
            hh = lambda: "h%d" % rng.randint(1, 12)
            k = rng.random()
            if k < 0.3:
                ops.append("ap:%s:%s" % (hh(), hh()))
            elif k < 0.45:
                ops.append("ib:%s:%s:%s" % (hh(), hh(), hh()))
            elif k < 0.8:
                ops.append("sa:%s:%s:%s" % (hh(), lib.enc(rng.choice(["xmlns:p", "xmlns:p", "xmlns"])), lib.enc(rng.choice(["urn:u1", "urn:u2", "urn:u0"]))))
            elif k < 0.9:
                ops.append("ra:%s:%s" % (hh(), lib.enc(rng.choice(["p", "xmlns"]))))
            else:
                ops.append("rm:%s:%s" % (hh(), hh()))
        nscases.append((t, ops))
    return nscases


NSDOCS_ = ["<r xmlns:p='urn:u1' xmlns='urn:u0'><p:a><p:b p:x='1'><c/></p:b></p:a><d xmlns:p='urn:u2' xmlns=''><e><p:f/></e></d></r>",
           "<r><a xmlns:p='urn:u1'><p:b><p:c p:at='v'/></p:b></a><a xmlns:p='urn:u2'><k/></a></r>",
           "<r xmlns='urn:u0'><mid><leaf><x/></leaf></mid><o xmlns='urn:u1'><i/></o></r>"]


def run_c14(chk):
    thorough = chk.tier == "thorough"
    rng, problems, pr, cases, ri, rm, findings = common(chk, "C14", thorough, 500, 3000, 12, 40, 0.12)
    mfail = []
    for (t, ops), a in zip(cases, ri):
        for i, x in enumerate(a):
            chk.count([t] + ops[:i], nontrivial=i > 0 and x["status"].startswith("ok"))
            v = x["flags"].get("ord")
            q = x["flags"].get("q")
            if v is not None and v != "ok":
                mfail.append((t, ops, i, "document-order keys are not non-zero / distinct / increasing along the walk (or a detached node "
                              "has a key)", v))
                break
            if q is not None and q not in ("ok", "skip"):
                mfail.append((t, ops, i, "a query on the edited document differs from the same query on a fresh parse of its serialization", q))
                break
    # namespace stream: declarations added / removed on ancestors and subtrees moved between scopes, queries that depend
    # on the expanded names of descendants (monitors only: the DOM model knows no namespaces)
    NSDOCS = ["<r xmlns:p='urn:u1' xmlns='urn:u0'><p:a><p:b p:x='1'><c/></p:b></p:a><d xmlns:p='urn:u2' xmlns=''><e><p:f/></e></d></r>",
              "<r><a xmlns:p='urn:u1'><p:b><p:c p:at='v'/></p:b></a><a xmlns:p='urn:u2'><k/></a></r>",
              "<r xmlns='urn:u0'><mid><leaf><x/></leaf></mid><o xmlns='urn:u1'><i/></o></r>"]
    nscases = ns_histories(rng, 400 if thorough else 120, NSDOCS)
    nscases += ns_node_cases(NSDOCS)
    nsimpl = lib.run_lines(lib.build_harness(), [lib.req("dom", t, NSQ, *ops) for t, ops in nscases], timeout=900, per_line_resume=True)
    ns_ok = 0
    for (t, ops), a in zip(nscases, nsimpl):
        for i, x in enumerate(D.split_records(a)):
            good = i > 0 and x["status"].startswith("ok")
            ns_ok += good
            chk.count(["ns", t] + ops[:i], nontrivial=good)
            q = x["flags"].get("q")
            if q is not None and q not in ("ok", "skip"):
                mfail.append((t, ops, i, "after namespace declarations were edited / subtrees moved between scopes, a query on the edited "
                              "document differs from the same query on a fresh parse of its serialization", q))
                break
    chk.cov["namespace_stream"] = "%d histories, %d successful edits" % (len(nscases), ns_ok)
    # the same kind of histories on documents read WITH text expansion (the view xq / xe use; character data, CDATA and
    # references are one merged node): monitors only
    xcases = histories(rng, 600 if thorough else 200, 10, 0.1)
    ximpl = lib.run_lines(lib.build_harness(), [lib.req("domx", t, battery("//text();//node()"), *ops) for t, ops in xcases],
                          timeout=900, per_line_resume=True)
    x_ok = 0
    for (t, ops), a in zip(xcases, ximpl):
        for i, x in enumerate(D.split_records(a)):
            good = i > 0 and x["status"].startswith("ok")
            x_ok += good
            chk.count(["expanded", t] + ops[:i], nontrivial=good)
            v = x["flags"].get("ord")
            q = x["flags"].get("q")
            if v is not None and v != "ok":
                mfail.append((t, ops, i, "(text expansion on) document-order keys are not non-zero / distinct / increasing along the walk",
                              v))
                break
            if q is not None and q not in ("ok", "skip") and "SIDE-EFFECT" not in q:
                mfail.append((t, ops, i, "(text expansion on) a query on the edited document differs from the same query on a fresh "
                              "parse of its serialization", q))
                break
    chk.cov["expanded_text_stream"] = "%d histories, %d successful edits" % (len(xcases), x_ok)
    # nodes of a TWIN document (the same text read twice: equal by value, equal ids) offered to this one: whatever the calls
    # answer, the keys of this document stay non-zero, distinct and increasing (round-9 seed C14-M compared documents by value
    # and took the twin's nodes in - numbered in the twin's order table)
    tw_docs = ["<r a='1' b='x&amp;y'><k>t</k>u<!--c--></r>", "<r><k/></r>", "<!DOCTYPE r><r id='v'>text</r><!--e-->", "<r/>",
               "<r><a><b/>t</a><c i='1'/><!--x--></r>"]
    tw_out = lib.run_lines(lib.build_harness(), [lib.req("foreign", t) for t in tw_docs], timeout=300, per_line_resume=True)
    for t, o in zip(tw_docs, tw_out):
        chk.count(["twin", t], nontrivial=True)
        tail = o.rsplit(" | ", 1)[-1]
        if "ord=BAD" in tail or o in ("panic", "abort", "timeout"):
            mfail.append((t, ["foreign"], 1, "after calls that offered nodes of a twin document (same text read twice), the document-order "
                          "keys of this document are not non-zero / distinct / increasing along the walk", (o if o in ("panic", "abort", "timeout") else tail)[:700]))
    chk.cov["queries_per_step"] = QUERIES.split(";")
    chk.cov["rule"] = ("%d edit histories; after EVERY step: order() of every attached node along the pre-order walk element -> attributes "
                       "-> attribute value items -> children is non-zero and strictly increasing, every detached node reports 0; and %d "
                       "node-set / string / number queries give the same answer on the edited document and on from_raw(to_string()) "
                       "(nodes compared by position in a numbering that ignores how character data is cut into Text nodes); "
                       "non-trivial = a prefix ending in a successful call" % (len(cases), len(QUERIES.split(";"))))
    chk.assumptions += ["queries whose result depends on the segmentation of character data into adjacent Text nodes (text(), node() "
                        "counts) are not compared: a serialization cannot preserve the segmentation"]
    finish(chk, "C14", mfail, tie_failures(cases, ri, rm, findings, chk), problems, pr)


def default_write_failures(chk):
    """setAttribute for a name that so far came from an attribute-list default: afterwards the element carries a SPECIFIED attribute
    of that name holding the value (round-8 seeds C11-K / C15-K wrote into the throw-away node of the default)"""
    docs = ["<!DOCTYPE r [<!ATTLIST r d CDATA 'dv'>]><r/>", "<!DOCTYPE r [<!ATTLIST r d NMTOKENS ' p  q ' e CDATA #FIXED 'f'>]><r><k/></r>",
            "<!DOCTYPE r [<!ENTITY e 'v'><!ATTLIST r d CDATA 'a&e;b'>]><r d2='x'/>"]
    lines, meta = [], []
    for dd in docs:
        for v in ("z", "a b", "\u00e9", "x y z"):
            lines.append(lib.req("dom", dd, "string(/r/@d)", "sa:h2:d:" + D.enc2(v), "ga:h2:d"))
            meta.append((dd, v))
    out = []
    for (dd, v), o in zip(meta, lib.run_lines(lib.build_harness(), lines, timeout=300, per_line_resume=True)):
        recs = D.split_records(o)
        chk.count(["default-write", dd, v], nontrivial=True)
        if len(recs) >= 2 and recs[1]["status"].startswith("ok") and ("A(d,1)[" not in recs[1].get("dump", "")
                                                                      or lib.enc(v).replace("%", "%25") not in recs[1].get("dump", "") and lib.enc(v) not in recs[1].get("dump", "")):
            out.append((dd, ["sa:h2:d:" + D.enc2(v)], 1, "setAttribute reported success for an attribute that came from a default; the element "
                        "carries no specified attribute of that name with that value afterwards", recs[1].get("dump", "")[:400]))
    return out


def doctype_removal(v, text):
    """the recorded finding doctype-removal: the serialization does not parse BECAUSE it refers to a general entity that the
    document's own DOCTYPE declared and the serialization no longer carries a DOCTYPE"""
    import re as _re
    if not v.startswith("BAD(serialization does not parse"):
        return False
    ser = lib.dec(v[len("BAD(serialization does not parse: "):].rstrip(")"))
    if "<!DOCTYPE" in ser or "<!DOCTYPE" not in text:
        return False
    declared = set(_re.findall(r"<!ENTITY\s+([^\s%]+)", text))
    left = set(_re.findall(r"&([A-Za-z_:][^;&<\s]*);", ser)) - {"amp", "lt", "gt", "apos", "quot"}
    return bool(left) and left <= declared


def run_c15(chk):
    thorough = chk.tier == "thorough"
    rng, problems, pr, cases, ri, rm, findings = common(chk, "C15", thorough, 700, 4000, 10, 25, 0.45)
    mfail = []
    succ = 0
    for (t, ops), a in zip(cases, ri):
        for i, x in enumerate(a):
            ok = i > 0 and x["status"].startswith("ok")
            succ += ok
            chk.count([t] + ops[:i], nontrivial=ok)
            if x["status"] == "panic":
                # data that cannot be stored must be REFUSED WITH AN ERROR; a panic is not a refusal
                if not known_panic(findings, chk, ops[i - 1]):
                    mfail.append((t, ops, i, "the call %s panics instead of storing or refusing its argument" % ops[i - 1], x["dump"][:300]))
                    break
            v = x["flags"].get("rt")
            if v is not None and v not in ("ok", "skip"):
                if doctype_removal(v, t) and "doctype-removal" in findings:
                    chk.known_finding("doctype-removal " + findings["doctype-removal"]["text"])
                    break
                mfail.append((t, ops, i, "after calls that all reported success the serialization is rejected by the parser or denotes "
                              "other content than the DOM reports", v))
                break
            iv = x["flags"].get("inv") or ""
            if "reports the value" in iv:
                # (round-8 seed C15-L: the value an attribute reports was remembered and not forgotten when a Text child was edited)
                mfail.append((t, ops, i, "the DOM reports a value for an attribute that its items (and the serialization) do not denote", iv[:600]))
                break
    # ---- attributes supplied from attribute-list defaults: their value items are reachable (and editable) through the DOM;
    # whatever the edits do, the document must still print to text the parser accepts and that denotes what the DOM reports
    # (monitor only: the DOM model does not hold defaulted attributes)
    ddocs = ["<!DOCTYPE r [<!ATTLIST r d CDATA \"it's\">]><r/>", "<!DOCTYPE r [<!ATTLIST r d CDATA 'say \"hi\"' e CDATA #FIXED 'f'>]><r><k/></r>",
             "<!DOCTYPE r [<!ENTITY e 'v'><!ATTLIST r d CDATA 'a&e;b'>]><r d2='x'/>"]
    dvals = [" say \"hi\"", "it's", "'", "\"", "a]]>b", "x--y", "&", "<", "", " ", "\u00e9"]
    dlines, dmeta = [], []
    for dd in ddocs:
        for v in dvals:
            for tmpl in (["sa:h2:d:V", "ga:h2:d"], ["ga:h2:d", "ch:h3:0", "st:h4:1"], ["ga:h2:d", "ch:h3:0", "st:h4:0", "ga:h2:d", "ch:h6:0"],
                         ["ga:h2:d", "ch:h3:0", "ad:h4:V"], ["ga:h2:d", "ch:h3:0", "sd:h4:V"], ["ga:h2:d", "ch:h3:0", "id:h4:1:V"],
                         ["ga:h2:d", "sv:h3:V"], ["ga:h2:d", "ch:h3:0", "rd:h4:0:2:V"], ["ga:h2:d", "ct:V", "ap:h3:h4"],
                         ["ga:h2:d", "ct:V", "ap:h2:h4", "ap:h3:h6", "ib:h2:h4:-", "rm:h3:h4"]):
                ops = [o.replace("V", D.enc2(v)) for o in tmpl]
                dlines.append(lib.req("dom", dd, "", *ops))
                dmeta.append((dd, ops))
    douts = lib.run_lines(lib.build_harness(), dlines, timeout=600, per_line_resume=True)
    for (dd, ops), o in zip(dmeta, douts):
        drecs = D.split_records(o)
        for i, rec in enumerate(drecs):
            chk.count(["default-edit", dd] + ops[:i], nontrivial=i > 0)
            v = rec["flags"].get("rt")
            # a value handed to setAttribute for a name that so far came from a default is STORED (the element then carries a
            # specified attribute of that name) or refused - never accepted and dropped (round-8 seeds C11-K / C15-K)
            if i > 0 and ops[i - 1].startswith("sa:h2:d:") and rec["status"].startswith("ok") and "A(d,1)[" not in rec.get("dump", ""):
                mfail.append((dd, ops, i, "setAttribute reported success for an attribute that came from a default, and the element "
                              "carries no specified attribute of that name afterwards", rec.get("dump", "")[:400]))
                break
            # a call that fails leaves everything as it was - also the default itself, which every element of the type shares
            # (round-8 seed C13-K cut the default before split_text found out that it had to refuse)
            if i > 0 and rec["status"].startswith("err") and rec.get("dump") != drecs[i - 1].get("dump"):
                mfail.append((dd, ops, i, "a refused call on a value item of a defaulted attribute changed something",
                              "before: %s\nafter:  %s" % (drecs[i - 1].get("dump", "")[:400], rec.get("dump", "")[:400])))
                break
            if rec["status"] == "panic" and i > 0 and ops[i - 1].split(":")[0] in ("ct", "cc", "cd") and known_panic(findings, chk, ops[i - 1]):
                break
            if rec["status"] in ("panic", "abort", "timeout") or (v is not None and v not in ("ok", "skip")):
                mfail.append((dd, ops, i, "after editing the value items of an attribute supplied from an attribute-list default the "
                              "serialization is rejected by the parser or denotes other content than the DOM reports", str(v) + " " + rec["status"]))
                break
    # ---- namespace declarations set again, added and removed through the DOM (monitor only: the DOM model knows no
    # namespaces): the document must still print to text the parser accepts
    nsc = ns_histories(rng, 300 if thorough else 100, NSDOCS_)
    nso = lib.run_lines(lib.build_harness(), [lib.req("dom", t, "", *ops) for t, ops in nsc], timeout=900, per_line_resume=True)
    for (t, ops), o in zip(nsc, nso):
        for i, rec in enumerate(D.split_records(o)):
            chk.count(["ns-edit", t] + ops[:i], nontrivial=i > 0 and rec["status"].startswith("ok"))
            v = rec["flags"].get("rt")
            if rec["status"] in ("panic", "abort", "timeout") or (v is not None and v not in ("ok", "skip")):
                mfail.append((t, ops, i, "after namespace declarations were edited through the DOM the serialization is rejected by the "
                              "parser or denotes other content than the DOM reports", str(v) + " " + rec["status"]))
                break
    # ---- the DOCTYPE taken out (removed, replaced) while the document uses what it declares (monitor only): references to its
    # general entities in content and in attribute values, attributes it supplies by default.  Recorded finding doctype-removal:
    # with references left behind the serialization no longer parses; everything else must still hold
    dtdocs = ["<!DOCTYPE r [<!ENTITY e 'v'>]><r>&e;</r>", "<!DOCTYPE r [<!ENTITY e 'v'>]><r a='x&e;'><k/></r>",
              "<!DOCTYPE r [<!ENTITY e 'v'><!ATTLIST r d CDATA 'dv'>]><r>t&amp;<k/></r>", "<!DOCTYPE r SYSTEM 's.dtd'><r>t</r>",
              "<!--c--><!DOCTYPE r [<!ATTLIST k xmlns:p CDATA 'urn:u1'>]><r><k/><k p:a='1' xmlns:p='urn:u1'/></r>"]
    dtops = [["rm:h0:D"], ["cc:x", "rc:h0:N:D"], ["rm:h0:D", "ib:h0:D:R"], ["rm:h0:D", "ap:h0:D"], ["rm:h0:D", "ct:z", "ap:R:N"]]
    import re as _re
    dinit = lib.run_lines(lib.build_harness(), [lib.req("dom", t, "count(//*)") for t in dtdocs], timeout=120, per_line_resume=True)
    dtl, dtm = [], []
    for t, a in zip(dtdocs, dinit):
        dump0 = D.split_records(a)[0].get("dump", "")
        mD, mR = _re.search(r"h(\d+):Y\(", dump0), _re.search(r"h(\d+):E\(", dump0)
        nh = 1 + max([int(x) for x in _re.findall(r"h(\d+):", dump0)] or [0])
        if not (mD and mR):
            continue
        for tmpl in dtops:
            ops = [o.replace("D", "h" + mD.group(1)).replace("R", "h" + mR.group(1)).replace("N", "h%d" % nh) for o in tmpl]
            dtl.append(lib.req("dom", t, QUERIES, *ops))
            dtm.append((t, ops))
    dto = lib.run_lines(lib.build_harness(), dtl, timeout=600, per_line_resume=True)
    for (t, ops), o in zip(dtm, dto):
        for i, rec in enumerate(D.split_records(o)):
            chk.count(["doctype-edit", t] + ops[:i], nontrivial=i > 0 and rec["status"].startswith("ok"))
            v = rec["flags"].get("rt")
            if rec["status"] in ("panic", "abort", "timeout"):
                mfail.append((t, ops, i, "taking the DOCTYPE out of the document: " + rec["status"], rec["status"]))
                break
            if v is not None and v not in ("ok", "skip"):
                if doctype_removal(v, t) and "doctype-removal" in findings:
                    chk.known_finding("doctype-removal " + findings["doctype-removal"]["text"])
                    break
                mfail.append((t, ops, i, "after the DOCTYPE was taken out / put back the serialization is rejected by the parser or denotes "
                              "other content than the DOM reports", str(v)))
                break
    chk.cov["doctype_edit_histories"] = len(dtl)
    chk.cov["namespace_edit_histories"] = len(nsc)
    chk.cov["default_edit_histories"] = len(dlines)
    # reach of the invariant THEOREM (Thm/C15Valid `document_stays_valid`): its hypothesis `docOK` - every item of the initial
    # document would pass the check the DOM applies to supplied data of its kind - evaluated (model only) on every document a
    # history of this run starts from.  A parsed document that fails it is a gap of the theorem, never a violation.
    starts = sorted({t for t, _ in cases} | {t for t, _ in nsc} | set(ddocs))
    th = lib.run_lines(lib.model_driver(), [lib.req("thm15", t) for t in starts], timeout=600, per_line_resume=True)
    parsed = [(t, r) for t, r in zip(starts, th) if r.startswith("docok=")]
    chk.cov["theorem_reach"] = {"initial_documents": len(starts), "parsed": len(parsed),
                                "hypothesis_holds": sum(1 for _, r in parsed if r == "docok=1"),
                                "gaps": [lib.enc(t)[:160] for t, r in parsed if r != "docok=1"][:5]}
    chk.cov["successful_calls"] = succ
    chk.cov["rule"] = ("%d histories of creation, insertion and data-editing calls with argument strings of up to 4 pieces over "
                       "{a, space, <, &, >, ', \", -, ], ?, ;, #, e-acute, ]]>, --, ?>, &amp;, &#65;} (45%% hostile choices); after EVERY "
                       "step the document's to_string() must be accepted by from_raw with nothing left over and its dump must equal "
                       "the DOM's own dump (empty text nodes ignored, adjacent text merged); tie: status and dump vs the model, whose "
                       "validity predicates are the grammar productions; non-trivial = a prefix ending in a successful call" % len(cases))
    finish(chk, "C15", mfail, tie_failures(cases, ri, rm, findings, chk), problems, pr)
