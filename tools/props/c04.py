"""C04 — serialization round-trips: print then parse gives an equal document; print reaches a fixpoint."""
import random
import lib
from gen import xmlgen, mutate
from props import xmlcommon as X


def run(chk):
    thorough = chk.tier == "thorough"
    rng = random.Random(lib.seed())
    tabs, problems = lib.regenerate()
    pr = X.standard_proof(chk, "C04", thorough)
    ndocs = 2500 if thorough else 400
    docs = X.boundary_docs() + X.gen_docs(rng, ndocs, styles=2 if thorough else 1)
    texts = []
    for d, rs in docs:
        texts += rs
    # accepted near-misses too: mutants the parser happens to accept
    for d, rs in docs[: (600 if thorough else 120)]:
        for _ in range(3):
            t, _ = mutate.mutate(rng, rs[0], 1)
            if "\x00" not in t:
                texts.append(t)
    texts += X.interaction_texts()
    texts += X.corpus_lines("C04", "found.txt")
    impl_rt, model_rt = lib.both([lib.req("roundtrip", t) for t in texts], resume=True)
    impl_pr, model_pr = lib.both([lib.req("print", t) for t in texts], resume=True)
    mfail, tdis = [], []
    accepted = 0
    for t, a, b, pa, pb in zip(texts, impl_rt, model_rt, impl_pr, model_pr):
        ok = a.startswith("ok ")
        accepted += ok
        chk.count(t, nontrivial=ok)
        if a.startswith("err:"):
            if a != b:
                tdis.append((t, "roundtrip", a, b))
            continue
        if a != "ok rest2= same=1 eq=1 fix=1":
            mfail.append((t, a))
        if a != b:
            tdis.append((t, "roundtrip", a, b))
        elif pa != pb:
            tdis.append((t, "print", pa, pb))
    chk.cov["accepted_documents"] = accepted
    # reach of the round-trip THEOREM (Thm/C04 `print_parse_roundtrip`): on how many of the accepted documents do its
    # hypotheses hold?  (model only; profile = what the printer can write faithfully, `canonDoc`).  An accepted document of the profile whose
    # hypotheses fail is a gap of the theorem, not of the code: reported in the evidence, never as a violation.
    acc_texts = [t for t, a in zip(texts, impl_rt) if a.startswith("ok ")]
    th = lib.run_lines(lib.model_driver(), [lib.req("thm04", t) for t in acc_texts], per_line_resume=True)
    in_profile = [(t, r) for t, r in zip(acc_texts, th) if r.startswith("profile=1")]
    covered = [t for t, r in in_profile if r == "profile=1 ok=1 faithful=1 depth=1 canon=1"]
    gaps = [(t, r) for t, r in in_profile if r != "profile=1 ok=1 faithful=1 depth=1 canon=1"]
    chk.cov["theorem_reach"] = {"accepted": len(acc_texts), "in_profile": len(in_profile),
                                "hypotheses_hold": len(covered),
                                "gaps": [lib.enc(t)[:200] + " -> " + r for t, r in gaps[:5]]}
    chk.cov["features"] = X.feature_histogram(docs)
    chk.cov["disagreements_checked"] = len(tdis)
    chk.cov["rule"] = ("%d generated documents (feature mixer: XML declaration, Misc, DOCTYPE with entities/notations/"
                       "attlists/element declarations/comments/PIs, namespaces, all reference kinds, CDATA, mixed content, "
                       "non-ASCII and astral text) in random and canonical renderings plus accepted single-edit mutants; "
                       "monitor on the real code: to_string, re-parse (ok, empty rest), equal dump and PartialEq, identical second "
                       "to_string; tie: same `roundtrip` and `print` answers from the model; non-trivial = distinct accepted text"
                       % ndocs)
    for t, a in mfail[:3]:
        chk.violation("roundtrip_%s" % lib.enc(t)[:50],
                      "property C04: print/parse round trip fails on an accepted document\n"
                      "input (percent-encoded): %s\nimplementation answers: %s   (expected ok rest2= same=1 eq=1 fix=1)\n"
                      "replay: printf 'roundtrip\\t%s\\n' | harness/target/debug/xmlrs-driver\n"
                      % (lib.enc(t), a, lib.enc(t).replace("%", "%%")))
    if not mfail:
        if tdis:
            t, op, a, b = tdis[0]
            chk.violation("tie_" + op, "correspondence `%s` no longer holds on %d inputs; first: %s\n impl=%s\n model=%s\n"
                          "No accepted document whose round trip fails was found.\n" % (op, len(tdis), lib.enc(t), a[:400], b[:400]),
                          no_input=True)
        elif problems or not pr["ok"]:
            X.proof_violation(chk, "C04", pr, problems, len(texts))
    chk.assumptions += ["document equality is observed through the canonical dump and through the library's own PartialEq"]


def replay(chk, path):
    print(open(path).read())
    return 0
