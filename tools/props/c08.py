"""C08 — see tools/props/xpchecks.py"""
from props import xpchecks


def run(chk):
    xpchecks.run_c08(chk)


def replay(chk, path):
    print(open(path).read())
    return 0
