"""C18 — character classes and name syntax match XML 1.0 5th Ed. for every code point."""
import itertools
import lib
import extract

REPS = [":", "a", "Z", "_", "0", "-", ".", "·", "̀", "⻿", "⿯", ";", " ",
        "\U00010000", "x", "m", "l", "M"]
# ... and the DOM factories create_processing_instruction / create_element / create_attribute / create_entity_reference (round-7
# seeds C18-I, C18-J: a factory that trusts the parser for what the parser does not check)
KINDS = ["ncname", "qname", "element", "attr", "pi", "entity", "dom-pi", "dom-elem", "dom-attr", "dom-entref",
         # names in declarations (round-9 seed C18-M read the attribute name of an attribute-list declaration with the lax reader of
         # PI targets and entity names)
         "decl-attr", "doctype-name"]
SPEC_OF = {"ncname": "spec-ncname", "qname": "spec-qname", "element": "spec-qname", "attr": "spec-attr",
           "pi": "spec-pitarget", "entity": "spec-name", "dom-pi": "spec-pitarget", "dom-elem": "spec-qname", "dom-attr": "spec-qname",
           "dom-entref": "spec-dom-entref", "decl-attr": "spec-qname", "doctype-name": "spec-qname"}


def strings(maxlen):
    yield ""
    for n in range(1, maxlen + 1):
        for t in itertools.product(REPS, repeat=n):
            yield "".join(t)


def run(chk):
    thorough = chk.tier == "thorough"
    tabs, problems = lib.regenerate()
    # ---- proof step: tables re-proved against the freshly extracted tables, name theorems against
    #      the freshly translated grammar
    pr = lib.proof_step("C18")
    chk.proof(pr, "cd lean && lake build XmlRsModel.Thm.C18 && #print axioms audit" +
              (" && leanchecker" if thorough else ""))
    chk.cov["exhaustive"] = True
    chk.cov["rule"] = ("classes: the five predicates evaluated by the real code on all 1,114,112 code points "
                       "(complete) and re-proved equal to productions [2][4][4a][13][81] for every Nat; names: every "
                       "string of length <= %d over %d class representatives x %d uses; non-trivial = a distinct "
                       "(use, string) pair" % (4 if thorough else 3, len(REPS), len(KINDS)))
    if thorough and pr["ok"]:
        ok, out = lib.leanchecker("C18")
        chk.cov["leanchecker"] = "ok" if ok else out
        if not ok:
            pr["ok"] = False
            pr["failed"].append("leanchecker")
    broken = list(problems) + list(pr["failed"])
    # ---- search step for the tables (exact: both range lists are known)
    diffs = extract.first_difference(tabs)
    for key, cp, impl, spec in diffs:
        h = lib.build_harness()
        out = lib.run_lines(h, [lib.req("class1", "%X" % cp)])[0]
        chk.violation("class_%s_%X" % (key, cp),
                      "property C18: character class %s differs from XML 1.0 5th Ed. at U+%04X\n"
                      "implementation says %s, the Recommendation says %s\n"
                      "replay: echo 'class1\\t%X' | harness/target/debug/xmlrs-driver  ->  %s\n"
                      % (key, cp, impl, spec, cp, out))
    # ---- the `*_except*` parser constructors, exhaustively: the translator assumes class(c) && c not in except
    wdiffs = lib.wrapper_diffs()
    chk.cov["wrapper_constructors_checked_exhaustively"] = ["%s(%r)" % w for w in lib.WRAPPER_USES]
    for name, ex, cps, raw in wdiffs:
        cp = cps[0] if cps else 0
        c = chr(cp) if cps else "?"
        probe = "a" + c + "b"
        ans = lib.run_lines(lib.build_harness(), [lib.req("nameok", "ncname", probe), lib.req("nameok", "element", probe),
                                                  lib.req("accept", "<a>" + c + "</a>")])
        spec = lib.run_lines(lib.model_driver(), [lib.req("nameok", "spec-ncname", probe)])
        chk.violation("wrapper_%s_%X" % (name, cp),
                      "property C18: the parser constructor xmlchar::%s(%r) does not accept exactly the characters of its class "
                      "minus the excepted ones; first offending code points: %s\n"
                      "probe NCName %s: implementation accepts=%s (as element name: %s), XML 1.0 / Namespaces says %s; "
                      "as character data: %s\n"
                      "replay: printf 'wrapper\\t%s\\t%s\\n' | harness/target/debug/xmlrs-driver  ->  %s\n"
                      % (name, ex, ",".join("U+%04X" % x for x in cps), lib.enc(probe), ans[0], ans[1], spec[0], ans[2],
                         name, lib.enc(ex).replace("%", "%%"), raw))
    # ---- tie + monitor for names
    maxlen = 4 if thorough else 3
    # (the kinds that read a whole document per name are enumerated one length shorter in the thorough tier: the enumeration of
    # the other kinds is several hundred thousand requests per stream already)
    HEAVY = ("decl-attr", "doctype-name")
    cases = [(k, s) for s in strings(maxlen) for k in KINDS if not (thorough and k in HEAVY and len(s) >= maxlen)]
    # names that begin with (or are) a reserved prefix: the grammar treats `xmlns` / `xmlns:p` / `xml...` specially, every
    # other name that merely starts with those letters is an ordinary name
    for w in ("xmlns", "xml", "XML", "xmlnsxmlns", "x"):
        for suf in ("", "a", "2", ".x", "-x", "_", "\u00b7", ":a", ":a:b", ":", "foo:bar", ":xml", "é", ":2"):
            for k in KINDS:
                cases.append((k, w + suf))
    for s_ in ("amp", "lt", "gt", "apos", "quot", "amp;x", "lt;gt", "amp;", "quot; x='1'", "amp ", " amp", "AMP", "#38", "#x26", "amp;amp", "e;x"):
        for k in KINDS:
            cases.append((k, s_))
    lines = [lib.req("nameok", k, s) for k, s in cases]
    # (the thorough enumeration is several hundred thousand requests per stream: no stream may be cut short by a time limit,
    # an answer that is missing would be read as a refusal)
    big = 14400
    impl, model = lib.both(lines, timeout=big)
    spec = lib.run_lines(lib.model_driver(), [lib.req("nameok", SPEC_OF[k], s) for k, s in cases], timeout=big)
    lax = lib.run_lines(lib.model_driver(), [lib.req("nameok", "lax-" + k, s) for k, s in cases], timeout=big)
    for nm, stream in (("implementation", impl), ("model", model), ("specification", spec), ("lax", lax)):
        if len(stream) != len(cases) or any(x not in ("0", "1") for x in stream):
            bad = next((i for i, x in enumerate(stream) if x not in ("0", "1")), len(stream))
            raise SystemExit("the %s stream of the name enumeration is incomplete (request %d of %d: %r)"
                             % (nm, bad, len(cases), stream[bad] if bad < len(stream) else None))
    findings = {f["id"]: f for f in lib.load_findings("C18") if f["kind"] == "known"}
    t_dis = []
    m_fail = []
    for (k, s), a, b, sp, lx in zip(cases, impl, model, spec, lax):
        chk.count([k, s], nontrivial=True)
        if a != b:
            t_dis.append((k, s, a, b))
        if a != sp:
            # explained by the recorded finding `name-lax`?  (PI targets / entity names: any run of
            # NameChars is accepted, nothing else is, and nothing that is a Name is refused)
            if "name-lax" in findings and k in ("pi", "entity") and a == "1" and sp == "0" and lx == "1":
                chk.known_finding("name-lax %s" % findings["name-lax"]["text"])
                chk.cov["known_finding_cases"] = chk.cov.get("known_finding_cases", 0) + 1
            else:
                m_fail.append((k, s, a, sp))
    # ---- encoding names, production [81]: [A-Za-z] ([A-Za-z0-9._] | '-')*  - the class of the FIRST character differs from the
    # class of the others (round-6 seed C18-H read the whole name with one class)
    import re as _re
    enc_names = ["", "a", "Z", "utf-8", "UTF-8", "ISO-8859-1", "x.y_z-1", "8859-1", "1252", "-utf-8", ".utf8", "_", "_a", "9", "a b", "a:b",
                 "\u00e9", "u\u00e9", "a+", "a/", "A9.", "z-", "-", ".", "a\u00b7", "UTF_16"]
    enc_names += [c + "x" for c in "0123456789._-"] + ["x" + c for c in "0123456789._-"]
    e_lines = [lib.req("accept", '<?xml version="1.0" encoding="%s"?><a/>' % nm) for nm in enc_names]
    e_impl, e_model = lib.both(e_lines, timeout=600)
    for nm, a, b in zip(enc_names, e_impl, e_model):
        chk.count(["encname", nm], nontrivial=True)
        want = "ok" if _re.fullmatch(r"[A-Za-z][A-Za-z0-9._-]*", nm) else "err"
        got = "ok" if a.startswith("ok") else "err"
        if got != want:
            m_fail.append(("encoding-name", nm, got, want))
        elif a != b:
            t_dis.append(("encoding-name", nm, a, b))
    # ---- Char, production [2], wherever a character may stand: text, attribute value, comment, PI data, CDATA section, system
    # literal, entity value, attribute default - in content, in the prolog, in the internal subset, after the root.  The class
    # tables above compare `is_char` itself; here every PLACE that has to ask it is asked (round-8 seed C18-L: PI data and CDATA
    # sections read by a plain substring search; C18-K: a fast path that took every non-ASCII value for a Char)
    def is_char_(cp):
        return cp in (0x9, 0xA, 0xD) or 0x20 <= cp <= 0xD7FF or 0xE000 <= cp <= 0xFFFD or 0x10000 <= cp <= 0x10FFFF
    places = ["<a>%s</a>", "<a b='%s'/>", "<!--%s--><a/>", "<?p %s?><a/>", "<a><![CDATA[%s]]></a>", "<!DOCTYPE a SYSTEM '%s'><a/>",
              "<!DOCTYPE a [<!ENTITY e '%s'>]><a/>", "<!DOCTYPE a [<!ATTLIST a d CDATA '%s'>]><a/>", "<!DOCTYPE a [<?p %s?>]><a/>",
              "<!DOCTYPE a [<!--%s-->]><a/>", "<a/><?p %s?>", "<a/><!--%s-->", "<a><b>x%sy</b><?q z%s?></a>"]
    c_lines, c_meta = [], []
    for cp in (0x1, 0x8, 0xB, 0xC, 0xE, 0x1F, 0xFFFE, 0xFFFF, 0x9, 0xA, 0xD, 0x7F, 0x85, 0xD7FF, 0xE000, 0xFFFD, 0x10000, 0x10FFFF):
        for pl in places:
            t_ = pl.replace("%s", chr(cp))
            c_lines.append(lib.req("accept", t_))
            c_meta.append((cp, pl))
    c_impl, c_model = lib.both(c_lines, timeout=600)
    for (cp, pl), a, b in zip(c_meta, c_impl, c_model):
        chk.count(["char-place", cp, pl], nontrivial=True)
        got = a.startswith("ok")
        if got != is_char_(cp):
            m_fail.append(("char-place", "U+%04X in %s" % (cp, pl), "ok" if got else "err", "ok" if is_char_(cp) else "err"))
        elif a != b:
            t_dis.append(("char-place", "U+%04X in %s" % (cp, pl), a, b))
    chk.cov["characters_in_places"] = len(c_lines)
    chk.cov["encoding_names_probed"] = len(enc_names)
    chk.cov["disagreements_checked"] = len(t_dis)
    chk.cov["monitor_failures"] = len(m_fail)
    for k, s, a, sp in m_fail[:3]:
        if k == "char-place":
            chk.violation("charplace_%s" % lib.enc(s)[:50],
                          "property C18: Char, production [2]: %s - the document is %s, production [2] says %s\n"
                          % (s, "accepted" if a == "ok" else "refused", "accept" if sp == "ok" else "refuse"))
            continue
        if k == "encoding-name":
            doc_ = '<?xml version="1.0" encoding="%s"?><a/>' % s
            chk.violation("encname_%s" % lib.enc(s)[:40],
                          "property C18: encoding name syntax, production [81] EncName ::= [A-Za-z] ([A-Za-z0-9._] | '-')*\n"
                          "candidate=%r: the XML declaration with it is %s, the production says %s\n"
                          "replay: printf 'accept\\t%s\\n' | harness/target/debug/xmlrs-driver\n"
                          % (s, "accepted" if a == "ok" else "refused", "accept" if sp == "ok" else "refuse", lib.enc(doc_).replace("%", "%%")))
            continue
        chk.violation("name_%s_%s" % (k, lib.enc(s)[:40]),
                      "property C18: name syntax. use=%s candidate=%r (percent-encoded %s)\n"
                      "implementation accepts=%s, XML 1.0 / Namespaces says %s\n"
                      "replay: printf 'nameok\\t%s\\t%s\\n' | harness/target/debug/xmlrs-driver\n"
                      % (k, s, lib.enc(s), a, sp, k, lib.enc(s)))
    if not m_fail and not diffs and not wdiffs:
        if t_dis:
            k, s, a, b = t_dis[0]
            chk.violation("tie_names",
                          "correspondence `nameok` no longer holds: the grammar translated from the Rust source "
                          "and the running code disagree (first case: use=%s candidate=%s impl=%s model=%s; %d cases).\n"
                          "No input on which the property itself fails was found.\n" % (k, lib.enc(s), a, b, len(t_dis)),
                          no_input=True)
        elif broken:
            chk.violation("proof",
                          "proof obligations of XmlRsModel.Thm.C18 no longer check against the regenerated model:\n  "
                          + "\n  ".join(broken) + "\n" + pr["log"][-1500:] +
                          "\nNo input on which the property itself fails was found "
                          "(tables equal to the Recommendation on every code point; %d name cases agree).\n" % len(cases),
                          no_input=True)
    chk.assumptions += ["Spec.* in lean/XmlRsModel/Chars.lean is a faithful transcription of the W3C productions",
                        "name productions are observed through xml_nom::{ncname,qname} and xml_parser::{element,attribute,pi,reference}"]


def replay(chk, path):
    print(open(path).read())
    return 0
