"""shared pieces of the XML-side checks (C01-C04, C11)"""
import os
import random
import lib
from gen import xmlgen


def gen_docs(rng, n, styles=2, **kw):
    """n abstract documents, each with `styles` random renderings + the canonical rendering"""
    res = []
    for _ in range(n):
        g = xmlgen.Gen(rng, **kw)
        d = g.document()
        rs = [xmlgen.render(d, xmlgen.Style(rng)) for _ in range(styles)]
        rs.append(xmlgen.render(d, xmlgen.Style(rng, canonical=True)))
        res.append((d, rs))
    return res


def feature_histogram(docs):
    h = {}
    for d, _ in docs:
        for f in xmlgen.features(d):
            h[f] = h.get(f, 0) + 1
    return dict(sorted(h.items()))


def corpus_lines(prop, name):
    p = os.path.join(lib.VERIF, "corpus", prop, name)
    out = []
    if os.path.exists(p):
        for line in open(p, encoding="utf-8"):
            line = line.rstrip("\n")
            if line.startswith("#"):
                continue
            out.append(line.replace("\\n", "\n"))
    return out


def standard_proof(chk, module, thorough):
    pr = lib.proof_step(module)
    chk.proof(pr, "cd lean && lake build XmlRsModel.Thm.%s && #print axioms audit" % module +
              (" && leanchecker" if thorough else ""))
    if thorough and pr["ok"]:
        ok, out = lib.leanchecker(module)
        chk.cov["leanchecker"] = "ok" if ok else out
        if not ok:
            pr["ok"] = False
            pr["failed"].append("leanchecker")
    return pr


def proof_violation(chk, module, pr, problems, n_cases):
    chk.violation("proof", "proof obligations of XmlRsModel.Thm.%s no longer check against the regenerated model:\n  " % module +
                  "\n  ".join(list(problems) + list(pr["failed"])) + "\n" + pr["log"][-1500:] +
                  "\nNo input on which the property itself fails was found (%d cases explored).\n" % n_cases, no_input=True)


def class_witness(key, cp):
    """a document in which code point `cp` stands where character class `key` is required"""
    c = chr(cp)
    return {
        "char": "<a>%s</a>" % c,
        "namestart": "<%s/>" % c,
        "namechar": "<a%s/>" % c,
        "pubid": "<!DOCTYPE a PUBLIC \"%s\" \"s\"><a/>" % c,
        "encname": "<?xml version=\"1.0\" encoding=\"a%s\"?><a/>" % c,
    }[key]


def class_table_search(tabs):
    """search step when the extracted class tables differ from the Recommendation: concrete documents on which the
    running code answers differently from XML 1.0.  Returns [(key, cp, impl_in_class, spec_in_class, text, outcome)]"""
    import extract
    res = []
    for key, cp, impl_in, spec_in in extract.first_difference(tabs):
        if 0xD800 <= cp <= 0xDFFF or cp == 0:
            continue
        text = class_witness(key, cp)
        out = lib.run_lines(lib.build_harness(), [lib.req("accept", text)])[0]
        res.append((key, cp, impl_in, spec_in, text, out))
    return res


def boundary_docs():
    """abstract documents at the nesting limit read from the source (MAX_ELEMENT_DEPTH): exactly at the limit with a
    non-empty innermost element, one below, and a trivial one.  They are placed FIRST in a stream and repeated, so that
    state leaking from one parse into the next (all lines of a stream run on one thread of one process) shows up."""
    limit = lib.XML_CONSTS.get("MAX_ELEMENT_DEPTH")
    if not limit:
        # the translator did not get that far (source shape changed): read the constant directly
        import re
        try:
            m = re.search(r"const MAX_ELEMENT_DEPTH: usize = (\d+);", open(os.path.join(lib.REPO, "parser/src/lib.rs")).read())
            limit = int(m.group(1)) if m else None
        except OSError:
            limit = None
    if not limit:
        return []
    def nest(n, inner):
        it = ("E", "a", [], inner)
        for _ in range(n - 1):
            it = ("E", "a", [], [it])
        return {"decl": None, "heads": [], "doctype": None, "mids": [], "root": it, "tails": []}
    st = xmlgen.Style(None, canonical=True)
    docs = [nest(limit, [("t", "x")]), nest(limit, [("t", "x")]), nest(limit - 1, []), nest(limit, [("t", "y")]), nest(1, [])]
    return [(d, [xmlgen.render(d, st)]) for d in docs]


def cyclic_entity_docs():
    """entity definitions that refer to themselves, directly or through up to three others, with 0-3 harmless references
    (predefined, numeric, to an acyclic entity) standing in FRONT of the reference that closes the cycle and behind it; used in an
    attribute value, in content and in an attribute default.  Every one of them is ill-formed (WFC: No Recursion) and none may
    exhaust the stack."""
    out = []
    pre_opts = ["", "&lt;", "&#65;", "&ok;", "&lt;&ok;", "x&ok;y&amp;", "&ok;&ok;&ok;"]
    for n in (1, 2, 3, 4):
        names = ["c%d" % i for i in range(n)]
        for pre in pre_opts:
            for post in ("", "&ok;", "z"):
                decls = "<!ENTITY ok 'fine'>"
                for i, nm in enumerate(names):
                    decls += "<!ENTITY %s \"%s&%s;%s\">" % (nm, pre, names[(i + 1) % n], post)
                out.append("<!DOCTYPE r [%s]><r x=\"&c0;\"/>" % decls)
                out.append("<!DOCTYPE r [%s]><r>&c0;</r>" % decls)
                out.append("<!DOCTYPE r [%s<!ATTLIST r d CDATA \"&c0;\">]><r/>" % decls)
    return out


def interaction_texts():
    """small documents built systematically (not randomly) around two kinds of neighbourhood:
    (1) the ORDER of declarations in the internal subset - an entity, attribute lists (two for one element type, one of them
        using the entity in a default), a notation, an unparsed entity, an element declaration, a comment, a PI - in every order in
        which each entity is declared before it is used;
    (2) character data next to markup: text that ends in `]`/`]]`, then a comment / element / PI / reference / CDATA section,
        then text that begins with `>` or `]>` (what a printer that tracks `]]>` across items has to get right)"""
    import itertools
    out = []
    decls = {"A1": '<!ATTLIST r a CDATA "1">', "E": '<!ENTITY e "x">', "A2": '<!ATTLIST r b CDATA "&e;" c CDATA #FIXED "[&e;]">',
             "A3": "<!ATTLIST k z CDATA 'v'>", "N": "<!NOTATION n SYSTEM 's'>", "U": "<!ENTITY u SYSTEM 'f' NDATA n>",
             "L": "<!ELEMENT r ANY>", "C": "<!--c-->", "P": "<?p d?>"}
    for k in (3, 4, 5):
        for combo in itertools.combinations(sorted(decls), k):
            if "A2" not in combo and "U" not in combo:
                continue
            for perm in itertools.permutations(combo):
                if "A2" in perm and ("E" not in perm or perm.index("E") > perm.index("A2")):
                    continue
                out.append("<!DOCTYPE r [%s]><r><k/></r>" % "".join(decls[x] for x in perm))
                if len(out) > 900:
                    break
    for left in ("]]", "a]]", "]", "a[b[0]]", "x", "]]]"):
        for mid in ("<!--c-->", "<b/>", "<?p?>", "&amp;", "<![CDATA[x]]>", "&#65;", "<![CDATA[]]>", "<b>]]</b>", "&gt;"):
            for right in (">", ">c", "]>", "]]", "&gt;", ""):
                out.append("<r>%s%s%s</r>" % (left, mid, right))
    # (3) literals of the DTD holding character references to the characters that cannot stand there as themselves (`&`, `%`, `<`,
    #     the quotes): an entity value, a default, a #FIXED value - a printer that writes the character instead of the reference
    #     writes something else or nothing parseable (round-9 seed C04-N decoded them when the declaration was read)
    for v in ("&#38;#60;", "R&#38;D", "100&#37;", "it's &#34;so", 'say "x" &#39;y', "&#60;b/&#62;", "&#x26;amp;", "a&#37;p;b", "&#38;#38;"):
        q = '"' if '"' not in v else "'"
        out.append("<!DOCTYPE r [<!ENTITY e %s%s%s>]><r>&e;</r>" % (q, v, q))
        out.append("<!DOCTYPE r [<!ENTITY e %s%s%s>]><r a='&e;'/>" % (q, v, q))
        if "%" not in v and "&#60;" not in v and "&#38;#60;" not in v:
            out.append("<!DOCTYPE r [<!ATTLIST r a CDATA %s%s%s b CDATA #FIXED %s[%s]%s>]><r/>" % (q, v, q, q, v, q))
    # (3b) ... and `<` standing AS ITSELF in a literal of the DTD - an entity value holding markup, a system or public literal (kept by
    #      hand: seed C04-K escaped it in every literal; its detection had depended on a generated entity value)
    for lit in ('<!ENTITY e "<b>bold</b>">', "<!ENTITY e 'a<b'>", '<!ENTITY x SYSTEM "f<g">', '<!NOTATION n SYSTEM "<">',
                '<!ENTITY y PUBLIC "p" "u<v" NDATA n><!NOTATION n SYSTEM "s">', "<!ENTITY e '<!-- c -->'>", "<!ENTITY e '<?p d?>'>"):
        out.append("<!DOCTYPE r [%s]><r/>" % lit)
    out.append('<!DOCTYPE r SYSTEM "a<b"><r/>')
    out.append('<!DOCTYPE r [<!ENTITY e "<b>bold</b>">]><r>&e;</r>')
    # (4) white space in front of the first item of a document without an XML declaration, in particular in front of a processing
    #     instruction whose target begins with `xml` (round-9 seeds C01-M / C04-M: a reader that commits to the XML declaration once
    #     it has read `<?xml`)
    for lead in ("", " ", "\n", " \t\n"):
        for first in ("<?xml-stylesheet href='a.xsl'?>", "<?xmlfoo?>", "<?xml-model x?>", "<?xm l?>", "<!--c-->", "<?XML-S x?>"):
            out.append("%s%s<doc>t</doc>" % (lead, first))
            out.append("%s%s\n<!DOCTYPE doc [<!ELEMENT doc ANY>]><doc>t</doc>" % (lead, first))
    return out


# documents whose character data / attribute values come out of entity expansion (property C01: "character data after
# reference expansion"): (text, expected string(/*), expected string(/*/@t)) by XML 1.0 4.4 / 3.3.3
EXPANSION_DOCS = [
    ('<!DOCTYPE r [<!ENTITY b "x"><!ENTITY a "&b;-&b;">]><r t="&a;">&a;</r>', "x-x", "x-x"),
    ('<!DOCTYPE r [<!ENTITY c "y"><!ENTITY b "&c;"><!ENTITY a "&b;|&c;">]><r t="&a;&a;">&a;&c;</r>', "y|yy", "y|yy|y"),
    ('<!DOCTYPE r [<!ENTITY b "&#65;&amp;"><!ENTITY a "[&b;&b;]">]><r t="&a;">&a;<k>&b;</k>&b;</r>', "[A&A&]A&A&", "[A&A&]"),
    ('<!DOCTYPE r [<!ENTITY e "v">]><r t="&e;&e;&e;">&e;<![CDATA[&e;]]>&e;&#x41;</r>', "v&e;vA", "vvv"),
    # attribute values of a declared tokenized type (XML 1.0 3.3.3): character references to white space are appended as the
    # characters they denote and survive; only #x20 is trimmed / collapsed afterwards; Unicode spaces are ordinary characters
    ('<!DOCTYPE r [<!ATTLIST r t NMTOKENS #IMPLIED>]><r t=" x&#10;y&#9;  z ">k</r>', "k", "x\ny\t z"),
    ('<!DOCTYPE r [<!ATTLIST r t IDREFS #IMPLIED>]><r t="a\u00a0b  c\u3000">k</r>', "k", "a\u00a0b c\u3000"),
    ('<!DOCTYPE r [<!ATTLIST r t (x|y) #IMPLIED>]><r t="  x&#13;  ">k</r>', "k", "x\r"),
    ('<!DOCTYPE r [<!ATTLIST r t CDATA #IMPLIED>]><r t=" x&#10;y\t  z ">k</r>', "k", " x\ny   z "),
    ('<!DOCTYPE r [<!ATTLIST r t ID #IMPLIED>]><r t="\n a \r\n">k</r>', "k", "a"),
    # declarations in every order: an entity declared AFTER an attribute-list declaration whose default already used another
    # entity is as good as one declared before it (round-8 seed C01-K indexed the entities at the first lookup)
    ('<!DOCTYPE r [<!ENTITY a "1"><!ATTLIST r x CDATA "&a;"><!ENTITY b "2">]><r t="&b;">&b;&a;</r>', "21", "2"),
    ('<!DOCTYPE r [<!ATTLIST r x CDATA "&lt;"><!ENTITY a "1"><!ATTLIST r y CDATA "&a;"><!ENTITY b "&a;2"><!ATTLIST k z CDATA "&b;">]>'
     '<r t="&b;&a;"><k/>&b;</r>', "12", "121"),
    # public identifiers: every PubidChar, also the line break and the space, in either quote, on DOCTYPE, ENTITY and NOTATION
    # (round-8 seed C01-L lost #xD / #xA from the class)
    ('<!DOCTYPE r PUBLIC "-//A//B\nC D//EN" "s.dtd" [<!NOTATION n PUBLIC \'-//N\r\nX//EN\'><!ENTITY u PUBLIC "p\nq" "u.bin" NDATA n>'
     '<!ENTITY e "v">]><r t="&e;">&e;</r>', "v", "v"),
    ('<!DOCTYPE r PUBLIC \'a-Z0-9 ()+,./:=?;!*#@$_%\' "s"><r t="1">k</r>', "k", "1"),
]


# ---------------------------------------------------------------------------------------------------------
# the reviewed grammar as differential reference

def reference_stream(rng, n_docs, n_parts):
    """inputs derived from the REVIEWED grammar (tools/ref/xml.json): random derivations of `document` and of its parts put
    into a minimal document, each with one-character neighbours; answered by the real parser (`accept`) and by the model
    over the reviewed grammar (`accept ref`).  -> [(text, implementation class, reference class)]"""
    from gen import peggen
    g = peggen.Gen("xml", rng)
    texts = [g.sentence("document") for _ in range(n_docs)]
    for _ in range(n_parts):
        texts.append("<!DOCTYPE a [" + g.sentence("markup_decl") + "]><a/>")
        texts.append("<a " + g.sentence("attribute_") + "/>")
        texts.append("<a>" + g.sentence("content") + "</a>")
        texts.append("<" + g.sentence("qname") + "/>")
        texts.append("<?" + g.sentence("pi_target") + " d?><a/>")
    more = []
    for t in texts:
        more += g.mutants(t, 1)
    for t in texts[n_docs:]:
        more += g.punct_deletions(t, 8)
    # ... and the hand-built neighbourhoods (declaration orders, `]]>` across items, DTD literals, what may stand in front of the
    # first item): the reviewed grammar decides which of them are documents
    texts += interaction_texts()
    texts = [t for t in texts + more if "\x00" not in t and t]
    impl = lib.run_lines(lib.build_harness(), [lib.req("accept", t) for t in texts], timeout=900, per_line_resume=True)
    ref = lib.run_lines(lib.model_driver(), [lib.req("accept", "ref", t) for t in texts], timeout=900, per_line_resume=True)
    return list(zip(texts, impl, ref))
