"""shared pieces of the XML-side checks (C01-C04, C11)"""
import os
import random
import lib
from gen import xmlgen


def gen_docs(rng, n, styles=2, **kw):
    """n abstract documents, each with `styles` random renderings + the canonical rendering"""
    res = []
    for _ in range(n):
        g = xmlgen.Gen(rng, **kw)
        d = g.document()
        rs = [xmlgen.render(d, xmlgen.Style(rng)) for _ in range(styles)]
        rs.append(xmlgen.render(d, xmlgen.Style(rng, canonical=True)))
        res.append((d, rs))
    return res


def feature_histogram(docs):
    h = {}
    for d, _ in docs:
        for f in xmlgen.features(d):
            h[f] = h.get(f, 0) + 1
    return dict(sorted(h.items()))


def corpus_lines(prop, name):
    p = os.path.join(lib.VERIF, "corpus", prop, name)
    out = []
    if os.path.exists(p):
        for line in open(p, encoding="utf-8"):
            line = line.rstrip("\n")
            if line.startswith("#"):
                continue
            out.append(line.replace("\\n", "\n"))
    return out


def standard_proof(chk, module, thorough):
    pr = lib.proof_step(module)
    chk.proof(pr, "cd lean && lake build XmlRsModel.Thm.%s && #print axioms audit" % module +
              (" && leanchecker" if thorough else ""))
    if thorough and pr["ok"]:
        ok, out = lib.leanchecker(module)
        chk.cov["leanchecker"] = "ok" if ok else out
        if not ok:
            pr["ok"] = False
            pr["failed"].append("leanchecker")
    return pr


def proof_violation(chk, module, pr, problems, n_cases):
    chk.violation("proof", "proof obligations of XmlRsModel.Thm.%s no longer check against the regenerated model:\n  " % module +
                  "\n  ".join(list(problems) + list(pr["failed"])) + "\n" + pr["log"][-1500:] +
                  "\nNo input on which the property itself fails was found (%d cases explored).\n" % n_cases, no_input=True)
