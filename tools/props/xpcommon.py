"""shared pieces of the XPath checks (C05-C10, C19)"""
import re
import lib
from gen import xpathgen as G

BINDINGS = "p=urn:u1;q=urn:u2"
# caller configurations: the library also lets the caller bind a DEFAULT namespace (it then qualifies unprefixed ELEMENT name
# tests and nothing else); every check that varies the configuration draws from these
# ... and may take a binding out again (`!p`, `!`): what was bound before must leave no trace
BINDING_VARIANTS = [BINDINGS, BINDINGS, "=urn:u1;p=urn:u1;q=urn:u2", "=urn:u2;p=urn:u1;q=urn:u2", "p=urn:u1;q=urn:u2;=urn:u1",
                    "=urn:u2;p=urn:u2;!;!p;p=urn:u1;q=urn:u2", "p=urn:u1;q=urn:u2;z=urn:u1;!z",
                    # ... or bind a prefix (or the default) AGAIN without taking it out first: the later binding replaces the
                    # earlier one for every kind of name test (round-6 seed C05-H: QName tests kept the oldest binding)
                    "p=urn:u2;q=urn:u1;p=urn:u1;q=urn:u2", "=urn:u2;p=urn:u9;=urn:u1;p=urn:u1;q=urn:u2",
                    # ... or take out a binding that is neither the only one nor the last of three or more (round-7 seed C10-J kept the
                    # bindings sorted and removed with swap_remove)
                    "=urn:u9;a=urn:u8;p=urn:u1;q=urn:u2;!", "a=urn:u8;p=urn:u1;q=urn:u2;z=urn:u7;!a;!z",
                    "z=urn:u7;p=urn:u9;q=urn:u2;b=urn:u6;!p;p=urn:u1;!z;!b", "=urn:u9;a=urn:u8;b=urn:u7;p=urn:u1;q=urn:u2;!a;!;!b"]


def strip_impl(field):
    """drop the ~order~id decoration of node-set items"""
    if field.startswith("N:["):
        items = field[3:-1].split(";") if field != "N:[]" else []
        return "N:[" + ";".join(i.split("~")[0] for i in items) + "]"
    return field


def node_items(field):
    """[(path, order, id)] of an implementation node-set field"""
    if not field.startswith("N:[") or field == "N:[]":
        return []
    out = []
    for i in field[3:-1].split(";"):
        parts = i.split("~")
        out.append((parts[0], int(parts[1]) if len(parts) > 1 else -1, int(parts[2]) if len(parts) > 2 else -1))
    return out


def split_answer(ans):
    """`f1 | f2 ... || doc=same` -> ([fields], doc flag)"""
    if " || " not in ans:
        return [ans], "?"
    body, tail = ans.rsplit(" || ", 1)
    return body.split(" | "), tail.replace("doc=", "")


def path_key(p):
    """sort key of a canonical node path in document order: element < its attributes < its children;
    namespace nodes (no owner known) sort by text"""
    if p == "/":
        return ()
    if p.startswith("ns:") or p.startswith("?"):
        return ((2, p),)      # same shape as the other keys (a tuple of tagged segments), sorts behind them
    key = []
    for seg in p.strip("/").split("/"):
        if seg.startswith("@"):
            key.append((0, seg))
        else:
            key.append((1, int(seg)))
    return tuple(key)


def gen_cases(rng, ndocs, nexpr, exprgen=None, **dockw):
    """[(doc text, [expression ASTs])]"""
    out = []
    for _ in range(ndocs):
        dg = G.DocGen(rng, **dockw)
        d = dg.document()
        eg = exprgen or G.ExprGen(rng)
        out.append((d, G.render_doc(d), [eg.expr() for _ in range(nexpr)]))
    return out


def run_queries(op, cases, quirks=None, timeout=900):
    """cases: [(text, bindings, [expr strings])] -> (impl answers, model answers) as lists of field lists"""
    lines = [lib.req(op, t, b, *es) for t, b, es in cases]
    impl = lib.run_lines(lib.build_harness(), lines, timeout=timeout, per_line_resume=True)
    if quirks is not None:
        mlines = [lib.req("queryq", quirks, t, b, *es) for t, b, es in cases]
    else:
        mlines = lines
    model = lib.run_lines(lib.model_driver(), mlines, timeout=timeout, per_line_resume=True)
    return impl, model
