"""C16 — character-data operations work on character offsets with DOM semantics."""
import itertools
import random
import lib

ALPHA = ["a", "b", "é", "\U0001D4B3", "é", "z", "界"]   # ASCII, 2-byte, astral, combining pair, 3-byte
KINDS = ["text", "comment", "cdata", "merged"]


def offsets(n):
    return list(range(0, n + 3)) + ["M"]


def gen_ops(rng, length, kind, k):
    ops = []
    cur = length
    for _ in range(k):
        o = rng.choice(offsets(cur))
        c = rng.choice(offsets(cur))
        arg = "".join(rng.choice(ALPHA) for _ in range(rng.randint(0, 3)))
        name = rng.choice(["len", "sub", "sub", "app", "set", "ins", "del", "del", "rep", "split"])
        if name == "len":
            ops.append("len")
        elif name == "sub":
            ops.append("sub:%s:%s" % (o, c))
        elif name == "app":
            ops.append("app:" + arg)
        elif name == "set":
            ops.append("set:" + arg)
        elif name == "ins":
            ops.append("ins:%s:%s" % (o, arg))
        elif name == "del":
            ops.append("del:%s:%s" % (o, c))
        elif name == "rep":
            ops.append("rep:%s:%s:%s" % (o, c, arg))
        else:
            ops.append("split:%s" % o)
        cur = cur + 3  # generous upper bound so that offsets beyond the current length also occur
    return ops


def run(chk):
    thorough = chk.tier == "thorough"
    rng = random.Random(lib.seed())
    lib.regenerate()
    pr = lib.proof_step("C16")
    chk.proof(pr, "cd lean && lake build XmlRsModel.Thm.C16 && #print axioms audit" + (" && leanchecker" if thorough else ""))
    if thorough and pr["ok"]:
        ok, out = lib.leanchecker("C16")
        chk.cov["leanchecker"] = "ok" if ok else out
        if not ok:
            pr["ok"] = False
            pr["failed"].append("leanchecker")
    cases = []
    # (1) exhaustive single operations: every content of length <= L over a small alphabet x every
    #     offset/count in 0..len+2 and usize::MAX x every operation, on every node kind
    L = 3 if thorough else 2
    small = ["a", "é", "\U0001D4B3"]
    for n in range(0, L + 1):
        for t in itertools.product(small, repeat=n):
            content = "".join(t)
            if content == "":
                continue  # an empty text node does not exist after parsing
            for kind in KINDS:
                offs = offsets(n)
                ops = ["len"]
                for o in offs:
                    ops.append("split:%s" % o) if False else None
                    for c in offs:
                        cases.append((kind, content, ["sub:%s:%s" % (o, c)]))
                        cases.append((kind, content, ["del:%s:%s" % (o, c), "len"]))
                        cases.append((kind, content, ["rep:%s:%s:%s" % (o, c, "é\U0001D4B3"), "len"]))
                    cases.append((kind, content, ["ins:%s:%s" % (o, "b界"), "len"]))
                    cases.append((kind, content, ["split:%s" % o, "len"]))
                cases.append((kind, content, ["app:z", "set:é", "len"]))
    # a replace is ONE operation (DOM Level 1 replaceData): only its outcome has to be storable - not the state after
    # the deletion half
    for kind, content, op in [("comment", "a-x-b", "rep:2:1:y"), ("comment", "ab-c", "rep:3:M:d"), ("comment", "a-x-b", "rep:2:1:é"),
                              ("cdata", "]x]>", "rep:1:1:y"), ("text", "]x]>", "rep:1:1:y"), ("text", "a]x]>b", "rep:2:1:𝒳"),
                              ("comment", "-x", "rep:0:1:a")]:
        cases.append((kind, content, [op, "len"]))
    n_exh = len(cases)
    # (2) random sequences of operations on longer contents
    nseq = 4000 if thorough else 800
    for _ in range(nseq):
        n = rng.randint(1, 7)
        content = "".join(rng.choice(ALPHA) for _ in range(n))
        kind = rng.choice(KINDS)
        ln = sum(1 for _ in content)
        cases.append((kind, content, gen_ops(rng, ln, kind, rng.randint(2, 8 if not thorough else 14))))
    # an edit whose OUTCOME the node cannot hold is refused and leaves the data, the length and every later offset as they were -
    # also an append at the very end, also when the parser itself gives up on the outcome (round-8 seed C16-K kept the refused
    # text when the check failed with an error instead of `false`)
    for kind, content, bads in (("comment", "a\U0001d4b3e\u0301", ["-", "--", "x--y", "\u0001", "\ufffe"]), ("cdata", "x\U0001d4b3", ["\u0001", "]]>", "\ufffe", "a]]>b"]),
                                ("text", "a\u00e9", ["<", "&", "]]>", "\u000b", "a<b"]), ("comment", "a-b", ["-", "b-"]), ("cdata", "a]]", [">", "]>"]),
                                ("text", "a]]", [">"])):
        n_ = len(content)
        for bd in bads:
            for op in ("app:" + bd, "ins:%d:%s" % (n_, bd), "ins:0:" + bd, "ins:1:" + bd, "rep:%d:0:%s" % (n_, bd), "rep:0:1:" + bd, "set:" + bd,
                       "rep:%d:M:%s" % (n_ - 1, bd)):
                cases.append((kind, content, [op, "len", "sub:0:M", "app:k", "sub:%d:2" % (n_ - 1)]))
    # the same calls on a node at the deepest place the parser allows (128 elements): what a call needs from the parent - split_text
    # puts the tail there - works at the limit as anywhere else (round-9 seed C16-M refused every new child of an element at the limit)
    for kind in ("deeptext", "deepcdata"):
        for content in ("abcd", "a\u00e9\U0001d4b3"):
            n_ = len(content)
            for o in range(0, n_ + 2):
                cases.append((kind, content, ["split:%d" % o, "len", "sub:0:M"]))
            cases.append((kind, content, ["app:z", "ins:1:q", "del:0:1", "rep:0:1:k", "set:w", "len"]))
    # a split of a node that HAS a following sibling (the tail of an earlier split): kept by hand, the detection of seed C16-B had
    # depended on a random sequence holding two splits
    for kind in ("text", "cdata", "deeptext"):
        for content in ("abcd", "a\u00e9\U0001d4b3z"):
            for o1 in (1, 2, 3):
                for o2 in range(0, o1 + 1):
                    cases.append((kind, content, ["split:%d" % o1, "split:%d" % o2, "len", "sub:0:M", "app:q", "len"]))
    n_exh = len(cases)
    lines = [lib.req("chardata", k, c, *ops) for k, c, ops in cases]
    impl, model = lib.both(lines, resume=True)
    # (which of its two refusals the library answers with - the check said no, or the parser gave up - is one outcome)
    impl = [a.replace("err:info-Parse", "err:invalid").replace("err:info-InvalidData", "err:invalid") for a in impl]
    bad = []
    opcount = {}
    for (k, c, ops), a, b in zip(cases, impl, model):
        chk.count([k, c] + ops, nontrivial=len(ops) > 0)
        for o in ops:
            opcount[o.split(":")[0]] = opcount.get(o.split(":")[0], 0) + 1
        if a != b:
            bad.append((k, c, ops, a, b))
    # the merged view over a run that holds references to declared entities: length and substring count the characters of the
    # EXPANDED text (round-8 seed C16-L counted every reference as one character)
    ecases = []
    for content in ("ab", "a", "\u00e9\U0001d4b3z", "abcd"):
        hlf = len(content) // 2
        expanded = content[:hlf] + "xyz" + content[hlf:] + "&"
        n_ = len(expanded)
        opsl = [["len"]] + [["sub:%s:%s" % (o, c)] for o in list(range(0, n_ + 2)) + ["M"] for c in (0, 1, 2, n_, "M")]
        for ops in opsl:
            ecases.append((content, expanded, ops))
    ei = lib.run_lines(lib.build_harness(), [lib.req("chardata", "mergedent", c, *ops) for c, _, ops in ecases], timeout=600, per_line_resume=True)
    em = lib.run_lines(lib.model_driver(), [lib.req("chardata", "merged", x, *ops) for _, x, ops in ecases], timeout=600, per_line_resume=True)
    for (c, x, ops), a, b in zip(ecases, ei, em):
        chk.count(["mergedent", c] + ops, nontrivial=True)
        if a != b:
            bad.append(("mergedent", c, ops, a, b))
    chk.cov["exhaustive_single_op_cases"] = n_exh
    chk.cov["random_sequences"] = nseq
    chk.cov["ops_distribution"] = opcount
    chk.cov["error_results_seen"] = sum(x.count("err:index") for x in impl)
    chk.cov["disagreements_checked"] = len(bad)
    chk.cov["rule"] = ("every content of length 1..%d over {a, e-acute, U+1D4B3} x every offset/count in 0..len+2 and "
                       "usize::MAX x {substring,delete,replace,insert,split,append,set} on text/comment/CDATA/merged-text "
                       "nodes (exhaustive), plus %d seeded random operation sequences over %d-character alphabet incl. "
                       "combining and astral characters; implementation output compared with the proved model after "
                       "every operation; non-trivial = distinct (kind, content, ops)" % (L, nseq, len(ALPHA)))
    chk.cov["exhaustive"] = False
    # the model IS the DOM L1 result (Thm/C16), so a disagreement is a property failure with a replay
    for k, c, ops, a, b in bad[:3]:
        # shrink: shortest prefix of ops that still disagrees
        for n in range(1, len(ops) + 1):
            la, lb = lib.both([lib.req("chardata", k, c, *ops[:n])])
            if la != lb:
                ops, a, b = ops[:n], la[0], lb[0]
                break
        chk.violation("chardata_%s_%s" % (k, lib.enc(c + "_" + "_".join(ops))[:60]),
                      "property C16: DOM CharacterData call sequence on a %s node with data %r: %s\n"
                      "implementation: %s\nDOM Level 1 (proved model): %s\n"
                      "replay: printf '%s\\n' | harness/target/debug/xmlrs-driver\n"
                      % (k, c, ops, a, b, lib.req("chardata", k, c, *ops).replace("\t", "\\t").replace("%", "%%")))
    if not bad and not pr["ok"]:
        chk.violation("proof", "proof obligations of XmlRsModel.Thm.C16 no longer check:\n  " + "\n  ".join(pr["failed"]) +
                      "\n" + pr["log"][-1500:] + "\nNo failing input found (%d cases agree).\n" % len(cases), no_input=True)
    chk.assumptions += ["content strings avoid markup-significant characters (validation of inserted data is property C15)",
                        "nodes are obtained by parsing <r>..</r>; merged = text + CDATA under text_expanded"]


def replay(chk, path):
    print(open(path).read())
    return 0
