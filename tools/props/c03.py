"""C03 — parsing and printing are total: no panic, abort, hang or blow-up on any input."""
import random
import time
import lib
from gen import xmlgen, mutate, families
from props import xmlcommon as X

ALPHA = list("<>/=&;#'\"!?-[]%:x1 \n") + ["é", "\U0001D4B3", "xml", "<!--", "-->", "<![CDATA[", "]]>", "<?", "?>",
                                          "<!DOCTYPE", "<!ENTITY", "<!ATTLIST", "<!ELEMENT", "a", "b", "&#", "&#x"]
BAD = ("panic", "abort", "timeout", "not-run")


def garbage(rng, n):
    return "".join(rng.choice(ALPHA) for _ in range(n))


def timed(binary, text, timeout):
    """one request with a generous limit: the subject of these runs is the crash (stack exhaustion) and the GROWTH of the
    time, never its absolute value - a loaded or slow machine must not turn a slow answer into a verdict"""
    t0 = time.time()
    env = dict(lib.ENV, XMLRS_LINE_TIMEOUT_MS=str(timeout * 1000 * 10))
    out = lib.run_lines(binary, [lib.req("pipeline", text)], timeout=timeout * 10 + 30, env=env)
    return out[0], time.time() - t0


def run(chk):
    thorough = chk.tier == "thorough"
    rng = random.Random(lib.seed())
    tabs, problems = lib.regenerate()
    pr = X.standard_proof(chk, "C03", thorough)
    h = lib.build_harness()
    per_line = 10 if thorough else 4
    cases = [(t, "corpus") for t in X.corpus_lines("C03", "found.txt")]
    cases += [(t, "handkept-c02") for t in X.corpus_lines("C02", "handkept.txt")]
    for _ in range(3000 if thorough else 500):
        cases.append((garbage(rng, rng.randint(0, 40)), "garbage"))
    docs = X.gen_docs(rng, 400 if thorough else 80, styles=1)
    for d, rs in docs:
        cases.append((rs[0], "valid"))
        for _ in range(8 if thorough else 4):
            t, _ = mutate.mutate(rng, rs[0], rng.choice([1, 1, 2, 3]))
            cases.append((t, "mutant"))
    fams = families.xml_families()
    sizes = [0, 1, 2, 3, 8, 50, 300] + ([2000] if thorough else [])
    for name, f in fams.items():
        for n in sizes:
            if name == "entbomb" and n > 16:
                continue
            cases.append((f(n), "family:%s:%d" % (name, n)))
    # the nesting limits read from the source, approached from both sides and in an order in which a counter that is
    # not restored on the refusing path would make the next (legal) document fail
    for const, fam in (("MAX_GROUP_DEPTH", "cm-seq"), ("MAX_GROUP_DEPTH", "cm-choice"), ("MAX_GROUP_DEPTH", "cm-right"),
                       ("MAX_GROUP_DEPTH", "cm-rightchoice"), ("MAX_ELEMENT_DEPTH", "nest")):
        lim = lib.XML_CONSTS.get(const)
        if lim and fam in fams:
            for n in (lim + 1, lim, lim - 1, lim + 2, 5, lim, 3 * lim, lim):
                cases.append((fams[fam](n), "family:%s:%d" % (fam, n)))
    # characters at the edges of the encoding lengths and of every extracted class run (where a table lookup or a fast path
    # would be off by one), in every position a character can stand, literally and as a character reference
    edge = {0x7E, 0x7F, 0x80, 0x81, 0xFF, 0x100, 0x7FF, 0x800, 0xFFFD, 0x10000, 0x10FFFF, 0xD7FF, 0xE000}
    for key in ("char", "namestart", "namechar"):
        for lo, hi in tabs[key][:40]:
            edge.update(x for x in (lo - 1, lo, hi, hi + 1) if 0 < x <= 0x10FFFF and not 0xD800 <= x <= 0xDFFF)
    edge.update(cp for _, cp in lib.CLASS_PANICS)
    for cp in sorted(edge):
        c = chr(cp)
        for tmpl in ("<a>%s</a>", "<a b='%s'/>", "<!--%s--><a/>", "<?p %s?><a/>", "<a><![CDATA[%s]]></a>", "<a%s/>", "<%s/>"):
            cases.append((tmpl % c, "edge-char"))
        cases.append(("<a>&#x%X;</a>" % cp, "edge-char"))
        cases.append(("<a b='&#%d;'/>" % cp, "edge-char"))
    cases += [(t, "interaction") for t in X.interaction_texts()]
    cases += [(t, "entity-cycle") for t in X.cyclic_entity_docs()]
    cases = [(t, w) for t, w in cases if "\x00" not in t]
    lines = [lib.req("pipeline", t) for t, _ in cases]
    impl = lib.run_lines(h, lines, timeout=per_line * 30, per_line_resume=True)
    model = lib.run_lines(lib.model_driver(), lines, timeout=600, per_line_resume=True)
    bad, tdis = [], []
    kinds = {}
    for (t, w), a, b in zip(cases, impl, model):
        k = w.split(":")[0] + (":" + w.split(":")[1] if w.startswith("family") else "")
        kinds[k] = kinds.get(k, 0) + 1
        chk.count(t, nontrivial=True)
        if a in BAD:
            bad.append((t, w, a))
        elif a != b:
            tdis.append((t, w, a, b))
    # ---- printing into sinks that misbehave as real sinks do (only the real code): a sink of fixed capacity answers Ok(0)
    # once it is full, another answers an error, a third takes one byte per call; for EVERY capacity the printers must end -
    # with an error while something is still unwritten - and a short writer must not change the output (round-6 seed C03-H:
    # an indentation loop that re-offers its spaces to a full sink for ever)
    sdocs = [t for t, w in cases if w in ("valid", "interaction") and len(t) < 400][:60 if thorough else 25]
    sdocs += ["<!DOCTYPE a [<!ENTITY e 'v'><?p q?><!NOTATION n PUBLIC 'p'><!ELEMENT a (b|c)*><!ATTLIST a x CDATA 'd'>]><a><b><c x='1'/><!--k--><?p q?></b>t&e;<![CDATA[z]]></a><!--t-->"]
    souts = lib.run_lines(h, [lib.req("sinks", t) for t in sdocs], timeout=per_line * 30, per_line_resume=True)
    sink_ok = 0
    for t, o in zip(sdocs, souts):
        chk.count(["sinks", t], nontrivial=o.startswith("ok "))
        sink_ok += o.startswith("ok ")
        if not (o.startswith("ok ") or o.startswith("err:")):
            bad.append((t, "sinks", "printing into a limited sink: " + o))
    chk.cov["limited_sinks"] = "%d documents printed into full / failing / one-byte sinks at every capacity; %d printable" % (len(sdocs), sink_ok)
    # ---- printing what the DOM calls have BUILT (only the real code): after a history of mutator calls every node the history has a
    # handle on - the document, the trees outside it, their parts - is printed compact and pretty (op `pd`); a tree that holds
    # itself would never end (round-9 seed C03-N: a root that was never inserted anywhere could be put below its own descendant)
    from props import domchecks as DC
    from gen import domgen as DG
    ph = [(t, ops + ["pd"]) for t, ops in DC.histories(rng, 300 if thorough else 120, 8, 0.3)]
    for d_ in ("<r/>", "<r><a/></r>"):
        k0 = 2 if d_ == "<r/>" else 3                       # first handle a created node gets
        x_, y_, z_ = "h%d" % k0, "h%d" % (k0 + 1), "h%d" % (k0 + 2)
        for chain in (["ap:%s:%s" % (x_, y_), "ap:%s:%s" % (y_, x_)], ["ap:%s:%s" % (x_, y_), "ap:%s:%s" % (y_, z_), "ap:%s:%s" % (z_, x_)],
                      ["ap:%s:%s" % (x_, y_), "ib:%s:%s:-" % (y_, x_)], ["ap:%s:%s" % (x_, y_), "ap:%s:%s" % (y_, z_), "rc:%s:%s:%s" % (y_, x_, z_)],
                      ["ap:%s:%s" % (x_, x_)], ["ap:h1:%s" % x_, "ap:%s:%s" % (x_, y_), "ap:%s:h1" % y_]):
            ph.append((d_, ["ce:x", "ce:y", "ce:z"] + chain + ["pd"]))
    pouts = lib.run_lines(h, [lib.req("dom", t, "count(//node())", *ops) for t, ops in ph], timeout=per_line * 30, per_line_resume=True)
    printed = 0
    for (t, ops), o in zip(ph, pouts):
        recs = DG.split_records(o)
        last = recs[-1]["status"] if recs else o
        chk.count(["built-then-printed", t] + ops, nontrivial=True)
        printed += last == "ok=printed"
        # (the DOM factories panic on data the node cannot hold: the recorded finding factory-panic of C13 / C15, not a matter of
        # printing - such calls are not counted here)
        crash = [r["status"] for i_, r in enumerate(recs) if r["status"] in BAD and not (i_ > 0 and ops[i_ - 1].split(":")[0] in ("ct", "cc", "cd"))] \
            or ([o] if o in BAD else [])
        if crash:
            bad.append((t, "dom-history then print: " + " ".join(ops), "printing (or a call before it) did not return: " + crash[0]))
    chk.cov["built_then_printed"] = "%d histories, %d printed completely" % (len(ph), printed)
    # ---- hostile sizes: only the real code (the model driver's own recursion is not the subject)
    deep = []
    for name, n in [("nest", 5000), ("nest", 50000 if thorough else 20000), ("cm-seq", 20000), ("cm-choice", 50000 if thorough else 20000),
                    ("cm-right", 200), ("cm-right", 20000), ("cm-rightchoice", 20000),
                    ("cm-mixed", 20000), ("siblings", 6000), ("text", 200000),
                    ("attrs", 3000), ("entchain", 2000), ("unclosed", 20000), ("comment", 100000)]:
        out, dt = timed(h, fams[name](n), 60)
        deep.append((name, n, out, round(dt, 2)))
        chk.count("family:%s:%d" % (name, n), nontrivial=True)
        if out in BAD:
            bad.append((fams[name](n) if n <= 300 else "family %s(%d) from tools/gen/families.py" % (name, n),
                        "family:%s:%d" % (name, n), out))
    chk.cov["hostile_sizes"] = deep
    # ---- wide, shallow documents on a SMALL stack (256 KiB): the stack a document needs may grow with its depth (limited by
    # the parser) but not with its width (round-7 seed C03-J: the compact printer recursed once per sibling)
    wide = []
    for name, n in [("siblings", 6000), ("attrs", 3000), ("refs", 4000), ("text", 200000), ("comment", 100000), ("cdata", 100000),
                    ("attvalue", 50000), ("attlists", 2000), ("pi", 20000)]:
        if name not in fams:
            continue
        out = lib.run_lines(h, [lib.req("pipelinek", "256", fams[name](n))], timeout=300, per_line_resume=True)[0]
        wide.append((name, n, out))
        chk.count("smallstack:%s:%d" % (name, n), nontrivial=True)
        if out in BAD:
            bad.append(("family %s(%d) from tools/gen/families.py" % (name, n), "smallstack:%s:%d" % (name, n),
                        out + " on a 256 KiB stack (the same document is handled on the default stack: the stack needed grows with the width)"))
    chk.cov["wide_documents_small_stack"] = wide
    # ---- growth: doubling the size must not multiply the time by much more than a polynomial factor
    growth = {}
    for name in ["cm-choice", "cm-seq", "cm-mixed", "entbomb", "nest", "attrs", "comment", "refs"]:
        base = 8 if name.startswith("cm-") or name == "entbomb" else 400
        ts = []
        for n in (base, base * 2):
            out, dt = timed(h, fams[name](n), 120)
            ts.append(max(dt, 0.02))
            if out in BAD:
                bad.append(("family %s(%d) from tools/gen/families.py" % (name, n), "growth:%s:%d" % (name, n), out))
        growth[name] = [round(x, 3) for x in ts] + [round(ts[1] / ts[0], 1)]
        if ts[1] > 2.0 and ts[1] / ts[0] > 16:
            bad.append(("family %s(%d) from tools/gen/families.py" % (name, base * 2), "growth:%s" % name,
                        "time x%.0f when the size doubles (%.2fs -> %.2fs)" % (ts[1] / ts[0], ts[0], ts[1])))
    chk.cov["growth_seconds_n_2n_ratio"] = growth
    chk.cov["input_kinds"] = dict(sorted(kinds.items()))
    chk.cov["outcomes_impl"] = {k: impl.count(k) for k in sorted(set(impl))}
    chk.cov["disagreements_checked"] = len(tdis)
    chk.cov["rule"] = ("outcome class of parse + infoset + Display + pretty + DOM walk (both views) in an isolated worker "
                       "process (panic / abort / timeout are outcomes) on garbage over a markup alphabet, valid documents and "
                       "their token mutants, and %d adversarial families at sizes %s plus hostile sizes; growth ratio "
                       "time(2n)/time(n); tie: same outcome class ok/rest/err from the model" % (len(fams), sizes))
    findings = {f["id"]: f for f in lib.load_findings("C03") if f["kind"] == "known"}
    unexplained = []
    for t, w, a in bad:
        fam = w.split(":")[1] if ":" in w else ""
        if "deep-nesting" in findings and fam in ("nest", "unclosed") and a == "abort":
            chk.known_finding("deep-nesting " + findings["deep-nesting"]["text"])
        elif "cm-exponential" in findings and fam.startswith("cm-") and (a == "timeout" or a.startswith("time x")):
            chk.known_finding("cm-exponential " + findings["cm-exponential"]["text"])
        else:
            unexplained.append((t, w, a))
    for t, w, a in unexplained[:3]:
        chk.violation("total_%s" % lib.enc(w)[:40],
                      "property C03: %s on input kind %s\ninput (percent-encoded, first 2000): %s\n"
                      "replay: printf '%s\\t<that input percent-encoded>\\n' | harness/target/debug/xmlrs-driver\n"
                      % (a, w, lib.enc(t)[:2000], "sinks" if w == "sinks" else "pipeline"))
    if not unexplained:
        if tdis:
            t, w, a, b = tdis[0]
            chk.violation("tie_pipeline", "correspondence `pipeline` no longer holds on %d inputs; first (%s): %s impl=%s model=%s\n"
                          "No input on which the pipeline panics, aborts or hangs was found.\n" % (len(tdis), w, lib.enc(t)[:600], a, b),
                          no_input=True)
        elif problems or not pr["ok"]:
            X.proof_violation(chk, "C03", pr, problems, len(cases))
    chk.assumptions += ["running time and stack use are measured, not proved (the model cannot exhibit them)",
                        "per-line limit %ds; worker stack = default 8 MiB" % per_line]


def replay(chk, path):
    print(open(path).read())
    return 0
