"""C11 — attribute values are normalized and defaulted as XML 1.0 3.3.3 / 3.3.2 require."""
import itertools
import random
import re
import lib
from props import xmlcommon as X

TYPES = ["CDATA", "ID", "IDREF", "IDREFS", "ENTITY", "ENTITIES", "NMTOKEN", "NMTOKENS", "NOTATION (n1|n2)", "(x|y|z)"]
# literal pieces of a value: (source text, kind, payload)
TEXTS = ["x", "y z", " ", "  ", "\t", "\n", "\r", " \t ", "x\ny", "é", "\U0001D4B3", ">", "'"]
CHARREFS = [("&#9;", "\t"), ("&#10;", "\n"), ("&#13;", "\r"), ("&#32;", " "), ("&#x20;", " "), ("&#x9;", "\t"),
            ("&#65;", "A"), ("&#xE9;", "é"), ("&#60;", "<"), ("&#38;", "&")]
PREDEF = {"lt": "<", "gt": ">", "amp": "&", "apos": "'", "quot": '"'}
# declared general entities: name -> literal pieces (as source text)
ENTITIES = {
    "e1": "a  b",                 # double space inside
    "e2": " \t&e1;\n",            # nested, surrounded by literal white space
    "e3": "&#9;c&#32;&#x20;d",    # character references inside an entity
    "e4": "&e2;&e3;&amp;",        # two levels deep + predefined
    "e5": "",                     # empty replacement text
    "e6": "&e1;-&e1;",            # the same entity twice in one replacement text
    "e7": "&e2;|&e1;",            # an entity that an earlier sibling reference has already expanded (e2 uses e1)
}


def split_pieces(src):
    """source text of a literal -> list of ('t', text) | ('c', char) | ('e', name)"""
    out = []
    for m in re.finditer(r"&#x([0-9A-Fa-f]+);|&#([0-9]+);|&([^;&]+);|([^&]+)", src):
        if m.group(1) is not None:
            out.append(("c", chr(int(m.group(1), 16))))
        elif m.group(2) is not None:
            out.append(("c", chr(int(m.group(2)))))
        elif m.group(3) is not None:
            out.append(("e", m.group(3)))
        else:
            out.append(("t", m.group(4)))
    return out


def norm_ws(s):
    return s.replace("\t", " ").replace("\n", " ").replace("\r", " ")


def expand(name, ents, open_=()):
    """XML 1.0 3.3.3: recursively apply the normalisation to the replacement text of the entity"""
    if name in open_:
        raise ValueError("recursive")
    if name in ents:
        src = ents[name]
    elif name in PREDEF:
        return PREDEF[name]
    else:
        raise ValueError("undeclared")
    out = ""
    for k, v in split_pieces(src):
        if k == "t":
            out += norm_ws(v)
        elif k == "c":
            out += v
        else:
            out += expand(v, ents, open_ + (name,))
    return out


def normalized(src, ty, ents):
    """the oracle: normalized value of a literal with source text `src` declared with type `ty` (None = undeclared)"""
    out = ""
    for k, v in split_pieces(src):
        if k == "t":
            out += norm_ws(v)
        elif k == "c":
            out += v
        else:
            out += expand(v, ents)
    if ty is not None and ty != "CDATA":
        out = " ".join(w for w in out.split(" ") if w != "")
    return out


def quote(src):
    return '"%s"' % src.replace('"', "&quot;") if "'" in src else "'%s'" % src


class Case:
    """one element type `r` with attributes a, b, c; declarations in up to two ATTLISTs"""

    def __init__(self, decls, written, ents=ENTITIES, second=True):
        # decls: list of (attr name, type, default) default = '#REQUIRED' | '#IMPLIED' | ('', src) | ('#FIXED', src)
        # written: dict attr name -> source text
        self.decls, self.written, self.ents, self.second = decls, written, ents, second

    def text(self):
        dtd = "".join("<!ENTITY %s %s>" % (n, quote(v)) for n, v in self.ents.items())
        dtd += "<!NOTATION n1 SYSTEM 's1'><!NOTATION n2 SYSTEM 's2'>"
        lists = [self.decls] if not self.second or len(self.decls) < 2 else [self.decls[:1], self.decls[1:]]
        for group in lists:
            if not group:
                continue
            dtd += "<!ATTLIST r"
            for n, ty, d in group:
                dd = d if isinstance(d, str) else ((d[0] + " " if d[0] else "") + quote(d[1]))
                dtd += " %s %s %s" % (n, ty, dd)
            dtd += ">"
        attrs = "".join(" %s=%s" % (n, quote(v)) for n, v in self.written.items())
        return "<!DOCTYPE r [%s]><r%s><k%s/></r>" % (dtd, attrs, attrs)

    def expected(self, req_quirk=False):
        """canonical `attrs` answer by the Recommendation (the element k has no declarations)"""
        types = {}
        dflt = {}
        for n, ty, d in self.decls:
            if n not in types:           # the first declaration of a name is binding
                types[n] = ty
                dflt[n] = d
        def elem(name, declared):
            items = []
            for n, src in self.written.items():
                items.append((n, 1, normalized(src, types.get(n) if declared else None, self.ents)))
            if declared:
                for n, d in dflt.items():
                    if n in self.written:
                        continue
                    if isinstance(d, tuple):
                        items.append((n, 0, normalized(d[1], types[n], self.ents)))
                    elif d == "#REQUIRED" and req_quirk:
                        items.append((n, 0, ""))
            items.sort()
            return "E(%s)[%s]" % (name, "".join("A(%s,%d,%s)" % (lib.enc(n), s, lib.enc(v)) for n, s, v in items))
        return "ok " + elem("r", True) + elem("k", False)


def gen_literal(rng, maxp=6):
    n = rng.randint(0, maxp)
    src = ""
    for _ in range(n):
        k = rng.random()
        if k < 0.45:
            t = rng.choice(TEXTS)
            if src.endswith("\r") and t.startswith("\n"):
                continue                      # literal CR LF pairs are outside the property text (2.11)
            src += t
        elif k < 0.7:
            src += rng.choice(CHARREFS)[0]
        elif k < 0.8:
            src += "&%s;" % rng.choice(list(PREDEF))
        else:
            src += "&%s;" % rng.choice(list(ENTITIES))
    return src


def gen_default(rng):
    k = rng.random()
    if k < 0.2:
        return "#REQUIRED"
    if k < 0.4:
        return "#IMPLIED"
    return ("#FIXED" if rng.random() < 0.4 else "", gen_literal(rng, 4))


def parse_info(ans):
    """impl answer -> (info part, dom part, bad)"""
    m = re.match(r"(ok .*?) dom=(.*?) bad=(.*)$", ans)
    if not m:
        return ans, None, ""
    return m.group(1), m.group(2), m.group(3)


def dom_consistent(info, dom):
    """the DOM view lists, per element, the same (local name, specified, value) triples as the info view minus
    namespace declarations (names compared by local part: DOM L1 names vs qualified names is property C13/C10 matter)"""
    def items(s):
        res = []
        for em in re.finditer(r"E(?:\([^)]*\))?\[((?:A\([^)]*\))*)\]", s):
            its = []
            for am in re.finditer(r"A\(([^,]*),([01]),([^)]*)\)", em.group(1)):
                name = lib.dec(am.group(1))
                if name == "xmlns" or name.startswith("xmlns:"):
                    continue
                its.append((name.split(":")[-1], am.group(2), am.group(3)))
            res.append(sorted(its))
        return res
    return items(info) == items(dom)


def run(chk):
    thorough = chk.tier == "thorough"
    rng = random.Random(lib.seed())
    tabs, problems = lib.regenerate()
    pr = X.standard_proof(chk, "C11", thorough)
    cases = []
    # (1) systematic: every declared type x every default kind x one literal from a fixed list, attribute written or not,
    #     declared in the first or in the second ATTLIST
    fixed = [" x  y ", "\tx\n", "&#9;x&#32;", " &e1; ", "&e2;", "&e4; z", "x&#x20;&#x20;y", "", "&e6;", "&e7;&e6;"]
    for ty, lit in itertools.product(TYPES, fixed):
        for d in ["#REQUIRED", "#IMPLIED", ("", lit), ("#FIXED", lit)]:
            for where in (0, 1):
                decls = [("a", ty, d)] if where == 0 else [("b", "CDATA", "#IMPLIED"), ("a", ty, d)]
                cases.append(Case(decls, {"a": lit} if isinstance(d, str) or d[0] == "#FIXED" and where else {}))
                cases.append(Case(decls, {"a": lit}))
                cases.append(Case(decls, {}))
    # first declaration wins, across ATTLISTs
    for ty in TYPES:
        cases.append(Case([("a", ty, ("", " p  q ")), ("a", "CDATA", ("", "second"))], {}))
        cases.append(Case([("a", "CDATA", "#IMPLIED"), ("a", ty, ("", "second"))], {"a": " p  q "}))
    # a default is supplied unless an attribute OF THAT NAME is written: an attribute with the same local part under a prefix, or
    # a namespace declaration for a prefix spelled like the attribute, is another name (round-6 seed C11-G compared local parts)
    for ty in TYPES[:4]:
        for lit in (" d1  d2 ", "v"):
            cases.append(Case([("a", ty, ("", lit))], {"xmlns:p": "urn:p", "p:a": "w"}))
            cases.append(Case([("a", ty, ("#FIXED", lit))], {"xmlns:a": "urn:a"}))
            cases.append(Case([("p:a", ty, ("", lit))], {"a": "w", "xmlns:p": "urn:p"}))
            cases.append(Case([("a", ty, ("", lit)), ("p:a", "CDATA", "#IMPLIED")], {"xmlns:p": "urn:p", "p:a": "w", "b": "x"}))
    n_sys = len(cases)
    # (2) random mixtures
    for _ in range(6000 if thorough else 1200):
        names = ["a", "b", "c"]
        decls = []
        for n in rng.sample(names, rng.randint(0, 3)):
            decls.append((n, rng.choice(TYPES), gen_default(rng)))
        if decls and rng.random() < 0.15:
            decls.append((decls[0][0], rng.choice(TYPES), gen_default(rng)))   # re-declaration: ignored
        written = {n: gen_literal(rng) for n in names if rng.random() < 0.5}
        cases.append(Case(decls, written, second=rng.random() < 0.6))
    texts = [c.text() for c in cases]
    impl, model = lib.both([lib.req("attrs", t) for t in texts], resume=True)
    findings = {f["id"]: f for f in lib.load_findings("C11") if f["kind"] == "known"}
    mfail, tdis, domfail = [], [], []
    hist = {"written": 0, "defaulted": 0, "tokenized": 0, "with_entity": 0, "with_charref_ws": 0, "collapsing_changed": 0}
    for c, t, a, b in zip(cases, texts, impl, model):
        info, dom, bad = parse_info(a)
        exp = c.expected()
        nontriv = bool(c.written or any(isinstance(d, tuple) for _, _, d in c.decls))
        chk.count(t, nontrivial=nontriv)
        hist["written"] += bool(c.written)
        hist["defaulted"] += any(isinstance(d, tuple) and n not in c.written for n, _, d in c.decls)
        hist["tokenized"] += any(ty != "CDATA" for _, ty, _ in c.decls)
        hist["with_entity"] += "&e" in t.split("]>")[-1] or any(isinstance(d, tuple) and "&e" in d[1] for _, _, d in c.decls)
        lits = list(c.written.values()) + [d[1] for _, _, d in c.decls if isinstance(d, tuple)]
        hist["with_charref_ws"] += any(x in l for l in lits for x in ("&#9;", "&#10;", "&#13;", "&#32;", "&#x20;", "&#x9;"))
        types = {}
        for n, ty, d in c.decls:
            types.setdefault(n, ty)
        hist["collapsing_changed"] += any(n in types and types[n] != "CDATA" and
                                          normalized(v, "CDATA", c.ents) != normalized(v, types[n], c.ents)
                                          for n, v in c.written.items())
        if info != exp:
            if "required-default" in findings and info == c.expected(req_quirk=True):
                chk.known_finding("required-default " + findings["required-default"]["text"])
            else:
                mfail.append((t, info, exp, b))
        if info != b and not (info == c.expected(req_quirk=True) and b == exp and "required-default" in findings):
            tdis.append((t, info, b))
        if dom is not None and (not dom_consistent(info, dom) or bad):
            domfail.append((t, info, dom, bad))
    # (3) the value is determined by the literal and the declarations ALONE: reading the same entity in content first (where
    #     its white space is kept) or reading other attributes first must not change what an attribute reports
    ORDER_DOC = ("<!DOCTYPE r [<!ENTITY ws 'a\tb\nc'><!ENTITY w2 '[&ws;]'><!ATTLIST r d CDATA 'x&ws;y' f NMTOKENS #FIXED ' &w2;  k '>]>"
                 "<r a=\"&ws;\" b=\"&w2;\"><p>&ws;</p><q>&w2;</q></r>")
    want = {"string(/r/p)": "a\tb\nc", "string(/r/q)": "[a\tb\nc]", "string(/r/@a)": "a b c", "string(/r/@b)": "[a b c]",
            "string(/r/@d)": "xa b cy", "string(/r/@f)": "[a b c] k", "string(/r[contains(p,'b')]/@a)": "a b c"}
    orders = [list(want), list(reversed(list(want))), ["string(/r/@a)", "string(/r/p)", "string(/r/@a)", "string(/r/@d)"],
              ["string(/r/q)", "string(/r/@b)", "string(/r/@f)", "string(/r/p)"], ["string(/r[contains(p,'b')]/@a)", "string(/r/@d)"]]
    oimpl = lib.run_lines(lib.build_harness(), [lib.req("query", ORDER_DOC, "", *o) for o in orders], timeout=120, per_line_resume=True)
    for o, a in zip(orders, oimpl):
        got = a.split(" || ")[0].split(" | ")
        chk.count([ORDER_DOC] + o, nontrivial=True)
        exp_f = ["s:" + lib.enc(want[q]) for q in o]
        if got != exp_f:
            chk.violation("readorder_%s" % lib.enc(o[0])[-40:],
                          "property C11: an attribute value depends on what was read before it (it must be determined by the literal "
                          "and the declarations)\ndocument: %s\nqueries in this order on one document: %s\nimplementation: %s\n"
                          "expected:       %s\n" % (ORDER_DOC, o, got, exp_f))
            mfail.append((ORDER_DOC, got, exp_f, ""))
    # a value WRITTEN through the DOM for a name that a default supplied so far replaces the default (it is then the written value
    # that is reported, flagged as specified)
    from props import domchecks as DC
    for dd_, ops_, i_, why_, det_ in DC.default_write_failures(chk):
        chk.violation("defaultwrite_%s" % lib.enc(ops_[0])[-40:], "property C11: %s\ndocument: %s\ncall: %s\n%s\n" % (why_, dd_, ops_[0], det_))
        mfail.append((dd_, det_, "a specified attribute d with the written value", ""))
    # a name declared TWICE: the first declaration binds (XML 1.0 4.2 for entities, 3.3 for attribute definitions), whatever
    # stands between the two and however the value is reached (round-9 seed C11-N: the last declaration won)
    DUP = [("<!DOCTYPE r [<!ENTITY e 'one two'><!ENTITY e 'later'>]><r a='[&e;]'/>", "[one two]"),
           ("<!DOCTYPE r [<!ENTITY e 'x  y'><!ATTLIST r a NMTOKENS '&e;'><!ENTITY e 'z'>]><r/>", "x y"),
           ("<!DOCTYPE r [<!ENTITY i 'in ner'><!ENTITY o '(&i;)'><!ENTITY i 'other'>]><r a='&o;'/>", "(in ner)"),
           ("<!DOCTYPE r [<!ATTLIST r a CDATA 'first' a CDATA 'second'>]><r/>", "first"),
           ("<!DOCTYPE r [<!ATTLIST r a NMTOKENS ' t1  t2 '><!ATTLIST r a CDATA ' raw '>]><r/>", "t1 t2"),
           ("<!DOCTYPE r [<!ENTITY e 'v1'><!ENTITY e 'v2'><!ENTITY e 'v3'>]><r a='&e;&e;'/>", "v1v1")]
    dimpl = lib.run_lines(lib.build_harness(), [lib.req("query", t, "", "string(/r/@a)") for t, _ in DUP], timeout=120, per_line_resume=True)
    for (t, want_), a in zip(DUP, dimpl):
        chk.count(["declared-twice", t], nontrivial=True)
        got = a.split(" || ")[0]
        if got != "s:" + lib.enc(want_):
            chk.violation("twice_%s" % lib.enc(t)[-50:], "property C11: with a name declared twice the FIRST declaration binds\n"
                          "document: %s\nstring(/r/@a): %s\nexpected: s:%s\n" % (t, got, lib.enc(want_)))
            mfail.append((t, got, want_, ""))
    # the value of an attribute is what its items hold NOW: an item edited in place (CharacterData calls on a Text child of the
    # attribute) shows in the value at once, also when the value was read before (round-9 seed C11-M memoised the value)
    from gen import domgen as D
    AVD = "<r a='one' b='x&#9;y'/>"       # h0 document, h1 r, h2 a, h3 'one', h4 b, h5 'x', h6 &#9;, h7 'y'
    AVT = "<!DOCTYPE r [<!ATTLIST r t NMTOKENS #IMPLIED>]><r t=' x y '/>"   # h0, h1 doctype, h2 r, h3 t, h4 ' x y '
    avcases = [(AVD, ["ad:h3: two", "sd:h3:three  four", "id:h3:1:ZZ", "dd:h3:0:2", "rd:h3:0:1:q"]), (AVD, ["dd:h7:0:1", "ad:h5:\t", "sd:h7: w "]),
               (AVD, ["sd:h3:two three"]), (AVT, ["ad:h4: z ", "id:h4:0: w ", "sd:h4:only"]), (AVT, ["dd:h4:0:3"])]
    avimpl = lib.run_lines(lib.build_harness(), [lib.req("dom", t, "string(/r/@a);string(/r/@t)", *ops) for t, ops in avcases], timeout=120,
                           per_line_resume=True)
    for (t, ops), a in zip(avcases, avimpl):
        for i, x in enumerate(D.split_records(a)):
            chk.count(["value-item-edit", t] + ops[:i], nontrivial=i > 0 and x["status"].startswith("ok"))
            iv = x["flags"].get("inv") or ""
            q = x["flags"].get("q") or ""
            if "reports the value" in iv or (q not in ("ok", "skip", "") and "SIDE-EFFECT" not in q):
                det = iv if "reports the value" in iv else q
                chk.violation("itemedit_%s" % lib.enc(" ".join(ops[:i]))[-50:], "property C11: after an in-place edit of a value item the "
                              "attribute reports a value that is not what its items hold (or not what a fresh parse of the serialization "
                              "reports)\ndocument: %s\ncalls: %s\n%s\n" % (t, " ".join(ops[:i]), det[:600]))
                mfail.append((t, det[:200], "the value its items hold", ""))
                break
    chk.cov["systematic_cases"] = n_sys
    chk.cov["input_distribution"] = hist
    chk.cov["disagreements_checked"] = len(tdis)
    chk.cov["rule"] = ("attribute value literals of up to 6 pieces (text incl. tab/LF/CR/double spaces, character references to "
                       "white space and markup characters, predefined and declared entities nested up to 3 deep) x 10 declared "
                       "types x 4 default kinds, declared in the first or second ATTLIST, written or not; oracle: XML 1.0 3.3.3 / "
                       "3.3.2 computed independently in python (tools/props/c11.py); observed through the info view "
                       "(normalized_value, specified) and the DOM view (Attr::value/specified, get_attribute); tie: the Lean model's "
                       "answer; non-trivial = some attribute is written or defaulted")
    for t, info, exp, b in mfail[:3]:
        chk.violation("value_%s" % lib.enc(t)[-60:],
                      "property C11: attribute values / defaults differ from XML 1.0 3.3.3 / 3.3.2\n"
                      "input (percent-encoded): %s\nimplementation: %s\nexpected:       %s\nmodel:          %s\n"
                      "replay: printf 'attrs\\t%s\\n' | harness/target/debug/xmlrs-driver\n"
                      % (lib.enc(t), info, exp, b, lib.enc(t).replace("%", "%%")))
    for t, info, dom, bad in domfail[:2]:
        chk.violation("domview_%s" % lib.enc(t)[-60:],
                      "property C11: the DOM view (Attr::value / specified / get_attribute) differs from the info view\n"
                      "input (percent-encoded): %s\ninfo: %s\ndom:  %s\nbad:  %s\n" % (lib.enc(t), info, dom, bad))
    if not mfail and not domfail:
        if tdis:
            t, a, b = tdis[0]
            chk.violation("tie_attrs", "correspondence `attrs` no longer holds on %d inputs; first: %s\n impl=%s\n model=%s\n"
                          "No attribute with a wrong value or flag was found.\n" % (len(tdis), lib.enc(t), a[:800], b[:800]),
                          no_input=True)
        elif problems or not pr["ok"]:
            X.proof_violation(chk, "C11", pr, problems, len(cases))
    chk.assumptions += ["literal CR LF pairs are not generated (end-of-line handling, XML 1.0 2.11, is outside the property text)",
                        "entity chains deeper than the library's expansion limit (64) are not generated"]


def replay(chk, path):
    print(open(path).read())
    return 0
