"""C14 — see tools/props/domchecks.py"""
from props import domchecks


def run(chk):
    domchecks.run_c14(chk)


def replay(chk, path):
    print(open(path).read())
    return 0
