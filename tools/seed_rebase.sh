#!/bin/sh
# usage: seed_rebase.sh <seed id>   -- re-create seeded/<id>/patch.diff on /repo HEAD (patch -F3), verify with the seed's demo
S=$1
SD=/verif/seeded/$S
CR=$(python3 -c "import json;print(json.load(open('$SD/meta.json'))['demo_crate_tests_dir'].split('/')[0])")
WT=/tmp/sv/$S
mkdir -p /tmp/sv/sd-$S
git -C /repo worktree remove --force $WT 2>/dev/null
git -C /repo worktree add -q --detach $WT HEAD || exit 2
cd $WT && patch -p1 -F3 < $SD/patch.diff || { echo "REBASE-FAILED"; cd /; git -C /repo worktree remove --force $WT; exit 2; }
find . -name "*.orig" -delete
git diff > /tmp/sv/sd-$S/patch.diff
git checkout -q -- .
cp $SD/demo.rs /tmp/sv/sd-$S/demo.rs
sh /verif/tools/seed_verify.sh $WT /tmp/sv/sd-$S $CR | tail -1 | tee /tmp/sv/sd-$S/verdict.txt
cd /; git -C /repo worktree remove --force $WT
