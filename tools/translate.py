"""Translator: nom combinator productions in the Rust sources  ->  Lean `G` grammars.

Every run re-reads /repo's parser/src/lib.rs, nom/src/lib.rs and xpath/src/expr/mod.rs and regenerates
lean/XmlRsModel/Gen/XmlGrammar.lean and Gen/XPathGrammar.lean, so that the grammar theorems are
re-checked against what the code says now.  What is translated mechanically: the combinator
skeleton (alt, tuple, delimited, preceded, terminated, opt, many0, many1, separated_list0/1,
recognize, map (the closure is a semantic action and is dropped from the recogniser), verify,
satisfy, tag, char, the nom character classes, the xmlchar wrappers, helper::take_until).
What is NOT translated but matched against a table of known shapes: closures given to `satisfy`,
`verify`, `take_till`.  Anything else raises TranslateError, which the checks report as a broken tie.
Semantic actions (closures of `map`) are recorded with a fingerprint in the generated file.
"""
import hashlib
import os
import sys
import re
import lib


class TranslateError(Exception):
    pass


# ---------------------------------------------------------------------------------------------
# tokenizer / parser for the Rust expression subset

TOKEN = re.compile(r"""
    (?P<ws>\s+|//[^\n]*)
  | (?P<str>"(?:[^"\\]|\\.)*")
  | (?P<chr>'(?:[^'\\]|\\.)')
  | (?P<id>[A-Za-z_][A-Za-z0-9_]*(?:::[A-Za-z_][A-Za-z0-9_]*)*)
  | (?P<num>[0-9][0-9A-Za-z_]*)
  | (?P<punct>.)
""", re.X)


def tokenize(src):
    pos = 0
    toks = []
    while pos < len(src):
        m = TOKEN.match(src, pos)
        if not m:
            raise TranslateError("cannot tokenize at: " + src[pos:pos + 40])
        pos = m.end()
        if m.lastgroup == "ws":
            continue
        toks.append((m.lastgroup, m.group(m.lastgroup), m.start()))
    return toks


def unescape(lit):
    body = lit[1:-1]
    out = []
    i = 0
    while i < len(body):
        if body[i] == "\\":
            i += 1
            out.append({"n": "\n", "t": "\t", "r": "\r", "\\": "\\", "'": "'", '"': '"', "0": "\0"}[body[i]])
        else:
            out.append(body[i])
        i += 1
    return "".join(out)


class Parser:
    def __init__(self, src):
        self.src = src
        self.toks = tokenize(src)
        self.i = 0

    def peek(self):
        return self.toks[self.i] if self.i < len(self.toks) else ("eof", "", len(self.src))

    def next(self):
        t = self.peek()
        self.i += 1
        return t

    def expect(self, val):
        t = self.next()
        if t[1] != val:
            raise TranslateError("expected %r, got %r near %r" % (val, t[1], self.src[t[2]:t[2] + 40]))

    def expr(self):
        """returns ('str', s) | ('chr', c) | ('call', name, [args]) | ('id', name) | ('tuple', [..]) |
        ('closure', text)"""
        kind, val, pos = self.peek()
        if kind == "str":
            self.next()
            return ("str", unescape(val))
        if kind == "chr":
            self.next()
            return ("chr", unescape(val))
        if val == "|":
            return self.closure()
        if val == "(":
            self.next()
            items = []
            while self.peek()[1] != ")":
                items.append(self.expr())
                if self.peek()[1] == ",":
                    self.next()
            self.expect(")")
            return ("tuple", items)
        if kind == "id":
            self.next()
            node = ("id", val)
            while self.peek()[1] == "(":
                self.next()
                args = []
                while self.peek()[1] != ")":
                    args.append(self.expr())
                    if self.peek()[1] == ",":
                        self.next()
                self.expect(")")
                node = ("call", node, args)
            return node
        raise TranslateError("unexpected token %r near %r" % (val, self.src[pos:pos + 40]))

    def closure(self):
        start = self.peek()[2]
        self.expect("|")
        while self.peek()[1] != "|":
            self.next()
        self.expect("|")
        depth = 0
        while True:
            kind, val, pos = self.peek()
            if kind == "eof":
                break
            if val in "({[":
                depth += 1
            elif val in ")}]":
                if depth == 0:
                    break
                depth -= 1
            elif val == "," and depth == 0:
                break
            self.next()
        end = self.peek()[2]
        return ("closure", " ".join(self.src[start:end].split()))


# ---------------------------------------------------------------------------------------------
# Rust function extraction

FN_RE = re.compile(r"^(?:pub )?fn ([a-z_0-9]+)(?:<[^{]*?>)?\s*\(\s*input\s*:[^)]*\)\s*->\s*IResult<[^{]*\{", re.M | re.S)


def functions(path):
    src = open(path).read()
    cut = src.find("#[cfg(test)]")
    if cut >= 0:
        src = src[:cut]
    res = []
    for m in FN_RE.finditer(src):
        # body up to the matching brace
        depth = 1
        j = m.end()
        while depth:
            if src[j] == "{":
                depth += 1
            elif src[j] == "}":
                depth -= 1
            j += 1
        res.append((m.group(1), src[m.end():j - 1].strip()))
    return res


# ---------------------------------------------------------------------------------------------
# translation to Lean G terms

LEAN_KEYWORDS = {"attribute", "prefix", "local", "namespace", "end", "open", "section", "variable", "def",
                 "theorem", "example", "instance", "structure", "inductive", "class", "at", "from", "have",
                 "show", "do", "then", "else", "if", "let", "in", "fun", "match", "with", "mutual", "where"}


def lean_id(n):
    return n + "_" if n in LEAN_KEYWORDS else n


def lean_str(s):
    return "[" + ",".join(lean_chr(c) for c in s) + "]"


def lean_chr(c):
    return "Char.ofNat %d" % ord(c)


XMLCHAR_PRED = {
    "is_char": "P.isChar", "is_name_start_char": "P.isNameStartChar", "is_name_char": "P.isNameChar",
    "is_pubid_char": "P.isPubidChar", "is_enc_name": "P.isEncName",
}
BUILTIN = {
    "multispace0": "G.cls0 P.isSpace", "multispace1": "G.cls1 P.isSpace",
    "digit0": "G.cls0 P.isDigit", "digit1": "G.cls1 P.isDigit",
    "hex_digit1": "G.cls1 P.isHexDigit", "alpha1": "G.cls1 P.isAlpha",
    "xmlchar::enc_name0": "G.cls0 P.isEncName",
}
WRAPPERS = {  # xmlchar wrappers with an `except` string
    "xmlchar::char_except0": ("cls0", "P.isChar"), "xmlchar::char_except1": ("cls1", "P.isChar"),
    "xmlchar::name_char_except1": ("cls1", "P.isNameChar"),
    "xmlchar::pubid_char_except0": ("cls0", "P.isPubidChar"),
}


def pred_of_closure(text):
    """closures of satisfy/take_till: a tiny boolean language over one char variable"""
    m = re.match(r"\|\s*(\w+)\s*\|\s*(.*)$", text)
    if not m:
        raise TranslateError("closure shape: " + text)
    var, body = m.group(1), m.group(2)
    toks = re.findall(r"'(?:[^'\\]|\\.)'|&&|\|\||!=|==|!|\(|\)|[A-Za-z_:0-9]+", body)
    if "".join(toks).replace(" ", "") != body.replace(" ", ""):
        raise TranslateError("closure body not understood: " + text)
    out = []
    i = 0
    while i < len(toks):
        t = toks[i]
        if t == var and i + 2 < len(toks) and toks[i + 1] in ("!=", "=="):
            c = unescape(toks[i + 2])
            out.append("(c %s %s)" % ("!=" if toks[i + 1] == "!=" else "==", lean_chr(c)))
            i += 3
        elif t.startswith("xmlchar::") and t[9:] in XMLCHAR_PRED and toks[i + 1:i + 4] == ["(", var, ")"]:
            out.append("%s c" % XMLCHAR_PRED[t[9:]])
            i += 4
        elif t in ("&&", "||", "!", "(", ")"):
            out.append(t)
            i += 1
        else:
            raise TranslateError("closure token %r in %s" % (t, text))
    return "(fun c => " + " ".join(out) + ")"


VERIFY_SHAPES = [
    # (regex on closure text, lean predicate on CST builder)
    (re.compile(r'^\|\s*v\s*:\s*&str\s*\|\s*!\s*v\.eq_ignore_ascii_case\(\s*"([^"]*)"\s*\)$'),
     lambda m: "(fun c => !(P.eqIgnoreAsciiCase c.flatten %s))" % lean_str(m.group(1))),
    (re.compile(r'^\|\s*\(\s*s\s*,\s*_\s*,\s*e\s*\)\s*\|\s*s\.name\s*==\s*\*e$'),
     lambda m: "P.tagNamesMatch"),
    # verify(qname, |v: &QName| !matches!(v, QName::Unprefixed("a" | "b" | ...)))
    (re.compile(r'^\|\s*v\s*:\s*&QName\s*\|\s*\{?\s*!\s*matches!\(\s*v\s*,\s*QName::Unprefixed\(\s*((?:"[^"]*"\s*\|?\s*)+)\)\s*\)\s*\}?$'),
     lambda m: "(fun c => !(%s).contains c.flatten)" % ("[" + ", ".join(lean_str(x) for x in re.findall(r'"([^"]*)"', m.group(1))) + "]")),
]


class Grammar:
    def __init__(self, name):
        self.name = name
        self.prods = []      # (fn name, lean term)
        self.actions = []    # (fn name, closure text)
        self.names = {}
        self.depth_guards = []   # (fn name, name of the limit constant)
        self.consts = {}
        self.wrapper_uses = []   # (xmlchar wrapper name, except string) pairs met in the sources

    def nt(self, fn):
        return "G.nt N.%s" % lean_id(fn)

    def tr(self, e, fn):
        kind = e[0]
        if kind == "id":
            name = e[1]
            if name in BUILTIN:
                if name == "xmlchar::enc_name0" and ("enc_name0", "") not in self.wrapper_uses:
                    self.wrapper_uses.append(("enc_name0", ""))
                return BUILTIN[name]
            short = name.split("::")[-1]
            if short in self.names:
                return self.nt(short)
            raise TranslateError("%s: unknown parser %s" % (fn, name))
        if kind == "call":
            head, args = e[1], e[2]
            if head[0] != "id":
                raise TranslateError("%s: curried call" % fn)
            name = head[1]
            if name == "tag":
                return "G.tag %s" % lean_str(args[0][1])
            if name == "char":
                return "G.tag %s" % lean_str(args[0][1])
            if name in ("alt", "tuple"):
                items = [self.tr(a, fn) for a in args[0][1]]
                return "G.%s [%s]" % ("alt" if name == "alt" else "seq", ", ".join(items))
            if name in ("delimited", "preceded", "terminated"):
                return "G.seq [%s]" % ", ".join(self.tr(a, fn) for a in args)
            if name == "map":
                if args[1][0] == "closure":
                    self.actions.append((fn, args[1][1]))
                else:
                    self.actions.append((fn, args[1][1] if args[1][0] == "id" else repr(args[1])))
                return self.tr(args[0], fn)
            if name == "recognize":
                return self.tr(args[0], fn)
            if name == "opt":
                return "G.alt [%s, G.seq []]" % self.tr(args[0], fn)
            if name == "many0":
                return "G.many0 (%s)" % self.tr(args[0], fn)
            if name == "many1":
                g = self.tr(args[0], fn)
                return "G.seq [%s, G.many0 (%s)]" % (g, g)
            if name in ("separated_list1", "separated_list0"):
                sep = self.tr(args[0], fn)
                if "G.tag" not in sep:
                    raise TranslateError("%s: separator without a tag (nom's progress check differs)" % fn)
                g = self.tr(args[1], fn)
                one = "G.seq [%s, G.many0 (G.seq [%s, %s])]" % (g, sep, g)
                return one if name == "separated_list1" else "G.alt [%s, G.seq []]" % one
            if name == "satisfy":
                a = args[0]
                if a[0] == "closure":
                    return "G.one %s" % pred_of_closure(a[1])
                if a[0] == "id" and a[1].startswith("xmlchar::") and a[1][9:] in XMLCHAR_PRED:
                    return "G.one %s" % XMLCHAR_PRED[a[1][9:]]
                raise TranslateError("%s: satisfy argument" % fn)
            if name == "take_till":
                m = re.match(r"\|\s*c\s*\|\s*c == ('(?:[^'\\]|\\.)')$", args[0][1]) if args[0][0] == "closure" else None
                if not m:
                    raise TranslateError("%s: take_till closure" % fn)
                return "G.cls0 (fun c => c != %s)" % lean_chr(unescape(m.group(1)))
            if name == "verify":
                if args[1][0] != "closure":
                    raise TranslateError("%s: verify predicate" % fn)
                for rx, mk in VERIFY_SHAPES:
                    m = rx.match(args[1][1])
                    if m:
                        return "G.verify (%s) %s" % (self.tr(args[0], fn), mk(m))
                raise TranslateError("%s: verify closure not in the table of known shapes: %s" % (fn, args[1][1]))
            if name in WRAPPERS:
                use = (name.split("::")[-1], args[0][1])
                if use not in self.wrapper_uses:
                    self.wrapper_uses.append(use)
                k, p = WRAPPERS[name]
                return "G.%s (P.except %s %s)" % (k, p, lean_str(args[0][1]))
            if name == "helper::take_until":
                inner = self.tr(args[0], fn)
                inner = self.resolve_cls0(inner, fn)
                return "G.until0 %s %s" % (inner, lean_str(args[1][1]))
            raise TranslateError("%s: unknown combinator %s" % (fn, name))
        raise TranslateError("%s: cannot translate %r" % (fn, e))

    def resolve_cls0(self, term, fn):
        """the argument of take_until must be a cls0 parser (directly or via a leaf production)"""
        m = re.match(r"G\.cls0 (.*)$", term)
        if m:
            return m.group(1)
        m = re.match(r"G\.nt N\.(\w+)$", term)
        if m:
            for n, t in self.prods:
                if n == m.group(1):
                    return self.resolve_cls0(t, fn)
        raise TranslateError("%s: take_until over a parser that is not a plain character class" % fn)

    def body(self, fn, text):
        text = text.strip()
        m = re.match(r"input\s*\.\s*split_at_position(1?)_complete\(\s*\|i\|\s*!xmlchar::(\w+)\(i\.as_char\(\)\)\s*(?:,\s*ErrorKind::Fail\s*,?\s*)?\)$",
                     " ".join(text.split()))
        if m:
            return "G.cls%s %s" % ("1" if m.group(1) else "0", XMLCHAR_PRED[m.group(2)])
        text = re.sub(r"^//[^\n]*\n", "", text, flags=re.M).strip()
        # recursion-depth guard:  count up, refuse beyond the limit, else delegate, count down
        m = re.match(r"let depth = (\w+)\.with\(\|d\| \{ d\.set\(d\.get\(\) \+ 1\); d\.get\(\) \}\); "
                     r"let result = if depth > (\w+) \{ Err\(nom::Err::(?:Error|Failure)\(nom::error::Error::new\( input, "
                     r"ErrorKind::TooLarge, \)\)\) \} else \{ (\w+)\(input\) \}; "
                     r"\1\.with\(\|d\| d\.set\(d\.get\(\) - 1\)\); result$", " ".join(text.split()))
        if m:
            if m.group(3) not in self.names:
                raise TranslateError("%s: depth guard delegates to unknown parser %s" % (fn, m.group(3)))
            self.depth_guards.append((fn, m.group(2)))
            return self.nt(m.group(3))
        if not text.endswith("(input)"):
            raise TranslateError("%s: body does not end in (input)" % fn)
        p = Parser(text[:-len("(input)")])
        e = p.expr()
        if p.peek()[0] != "eof":
            raise TranslateError("%s: trailing tokens" % fn)
        return self.tr(e, fn)

    def add_file(self, path, only=None):
        fns = functions(path)
        for m in re.finditer(r"^pub const (\w+): usize = (\d+);", open(path).read(), re.M):
            self.consts[m.group(1)] = int(m.group(2))
        for n, _ in fns:
            if only is None or n in only:
                self.names[n] = True
        todo = [(n, b) for n, b in fns if only is None or n in only]
        # leaf productions first so that take_until can resolve them
        for n, b in sorted(todo, key=lambda nb: 0 if "split_at_position" in nb[1] else 1):
            self.prods.append((n, self.body(n, b)))

    def emit(self, namespace, sources):
        order = [n for n, _ in self.prods]
        lines = ["import XmlRsModel.Peg", "import XmlRsModel.PegPreds",
                 "/-! GENERATED on every check run by tools/translate.py from:",
                 ] + ["      " + s for s in sources] + [
                 "    One `G` term per Rust production; nonterminal numbers in order of appearance. -/",
                 "namespace XmlRs.Gen.%s" % namespace, "open XmlRs", "",
                 "namespace N"]
        for i, n in enumerate(order):
            lines.append("def %s : Nat := %d" % (lean_id(n), i))
        lines += ["end N", "", "def ntNames : List String := [%s]" % ", ".join('"%s"' % n for n in order), ""]
        lines.append("namespace Prod")
        for i, (n, t) in enumerate(self.prods):
            lines.append("def %s : G :=\n  %s" % (lean_id(n), t))
        lines += ["end Prod", "", "def env : Env"]
        for i, (n, t) in enumerate(self.prods):
            lines.append("  | %d => Prod.%s" % (i, lean_id(n)))
        lines.append("  | _ => G.alt []")
        lines.append("")
        for i, (n, t) in enumerate(self.prods):
            lines.append("theorem env_%s : env N.%s = Prod.%s := rfl" % (n, lean_id(n), lean_id(n)))
        lines.append("")
        guarded = {}
        for fn, const in self.depth_guards:
            if const not in self.consts:
                raise TranslateError("%s: limit constant %s not found" % (fn, const))
            guarded[fn] = self.consts[const]
        # one constant per production that the model expects to be guarded; 0 = no guard in the source (unbounded)
        for fn in sorted(set(guarded) | ({"element", "children"} if namespace == "Xml" else {"expr"})):
            if fn in guarded:
                lines.append("/-- `%s` refuses nesting deeper than this (thread-local depth counter in the source) -/" % fn)
            else:
                lines.append("/-- no recursion-depth guard on `%s` in the source: unbounded -/" % fn)
            lines.append("def maxDepth_%s : Nat := %d" % (fn, guarded.get(fn, 0)))
        lines.append("")
        lines.append("/-- semantic actions (closures of `map`) seen by the translator: (production, sha1 of the text).")
        lines.append("    The model's `abs` functions are hand-written counterparts; the differential tie covers them. -/")
        acts = ", ".join('("%s", "%s")' % (f, hashlib.sha1(t.encode()).hexdigest()[:12]) for f, t in self.actions)
        lines.append("def actionFingerprints : List (String × String) := [%s]" % acts)
        lines += ["", "end XmlRs.Gen.%s" % namespace, ""]
        return "\n".join(lines)


def write_if_changed(path, text):
    old = open(path).read() if os.path.exists(path) else None
    if old != text:
        with open(path, "w") as f:
            f.write(text)
        return True
    return False


REFDIR = os.path.join(os.path.dirname(os.path.abspath(__file__)), "ref")


def snapshot_of(g):
    guarded = {fn: g.consts.get(const, 0) for fn, const in g.depth_guards}
    return {"prods": [[n, t] for n, t in g.prods], "guards": guarded}


def emit_ref(namespace, snap, cur_order):
    """the REVIEWED grammar (tools/ref/*.json, committed) as a Lean environment.  Productions that also exist in the grammar
    translated from the current source get the same nonterminal numbers, so that the model's semantic actions read the trees
    of both alike."""
    names = [n for n, _ in snap["prods"]]
    idx = {}
    nxt = len(cur_order)
    for n in names:
        if n in cur_order:
            idx[n] = cur_order.index(n)
        else:
            idx[n] = nxt
            nxt += 1
    lines = ["import XmlRsModel.Peg", "import XmlRsModel.PegPreds",
             "/-! GENERATED on every check run by tools/translate.py from the reviewed snapshot tools/ref/%s.json:" % namespace.lower(),
             "    the grammar as it was when it was last read against the Recommendation; the differential reference for",
             "    the grammar translated from the current source. -/",
             "namespace XmlRs.Gen.%sRef" % namespace, "open XmlRs", "", "namespace N"]
    for n in names:
        lines.append("def %s : Nat := %d" % (lean_id(n), idx[n]))
    lines += ["end N", "", "def ntNames : List (String × Nat) := [%s]" % ", ".join('("%s", %d)' % (n, idx[n]) for n in names), "",
              "namespace Prod"]
    for n, t in snap["prods"]:
        lines.append("def %s : G :=\n  %s" % (lean_id(n), t))
    lines += ["end Prod", "", "def env : Env"]
    for n in sorted(names, key=lambda x: idx[x]):
        lines.append("  | %d => Prod.%s" % (idx[n], lean_id(n)))
    lines.append("  | _ => G.alt []")
    lines.append("")
    for fn in sorted(set(snap.get("guards", {})) | ({"element", "children"} if namespace == "Xml" else {"expr"})):
        lines.append("def maxDepth_%s : Nat := %d" % (fn, snap.get("guards", {}).get(fn, 0)))
    lines += ["", "end XmlRs.Gen.%sRef" % namespace, ""]
    return "\n".join(lines)


def load_ref(name):
    import json
    return json.load(open(os.path.join(REFDIR, name + ".json")))


def grammar_diffs(name, g):
    """productions of the grammar translated from the current source that differ from the reviewed snapshot:
    [(production, current term or None, reviewed term or None)]"""
    ref = load_ref(name)
    rp = dict((n, t) for n, t in ref["prods"])
    cp = dict(g.prods) if g is not None else {}
    out = []
    for n in sorted(set(rp) | set(cp)):
        if rp.get(n) != cp.get(n):
            out.append((n, cp.get(n), rp.get(n)))
    if g is not None:
        cg = {fn: g.consts.get(const, 0) for fn, const in g.depth_guards}
        for fn in sorted(set(cg) | set(ref.get("guards", {}))):
            if cg.get(fn, 0) != ref.get("guards", {}).get(fn, 0):
                out.append(("limit:" + fn, str(cg.get(fn, 0)), str(ref.get("guards", {}).get(fn, 0))))
    return out


def write_refs(gx, gp):
    gen = os.path.join(lib.LEAN, "XmlRsModel", "Gen")
    for ns, name, g, fallback in (("Xml", "xml", gx, "XmlGrammar.lean"), ("XPath", "xpath", gp, "XPathGrammar.lean")):
        snap = load_ref(name)
        if g is not None:
            order = [n for n, _ in g.prods]
        else:
            # the current source could not be translated: the last good translation is still in place, number like it
            txt = open(os.path.join(gen, fallback)).read()
            m = re.search(r"def ntNames : List String := \[(.*?)\]", txt)
            order = re.findall(r'"([^"]*)"', m.group(1)) if m else [n for n, _ in snap["prods"]]
        write_if_changed(os.path.join(gen, "%sGrammarRef.lean" % ns), emit_ref(ns, snap, order))


def func_table(repo):
    """the core function library as the evaluator declares it (xpath/src/eval/func.rs `table()`): name, least and greatest number
    of arguments.  -> (entries, problems)"""
    path = os.path.join(repo, "xpath/src/eval/func.rs")
    try:
        src = open(path).read()
    except OSError as e:
        return [], ["cannot read %s: %s" % (path, e)]
    m = re.search(r"pub fn table\(\) -> Vec<Entry> \{(.*?)\n\}\n", src, re.S)
    if not m:
        return [], ["xpath/src/eval/func.rs: `pub fn table() -> Vec<Entry>` not found"]
    body = m.group(1)
    ents, probs = [], []
    for em in re.finditer(r"Entry \{(.*?)\}", body, re.S):
        f = em.group(1)
        nm = re.search(r'local_part:\s*"([^"]*)"\.to_string\(\)', f)
        ns = re.search(r"namespace_uri:\s*(None|Some)", f)
        ar = re.search(r"args:\s*\(\s*(\d+)\s*\.\.\s*(\d+|usize::MAX)\s*\)", f)
        if not (nm and ns and ar):
            probs.append("xpath/src/eval/func.rs: an entry of the function table has a shape the translator does not know: %s" % " ".join(f.split())[:120])
            continue
        if ns.group(1) != "None":
            probs.append("xpath/src/eval/func.rs: function %s is declared in a namespace (the model knows the core library only)" % nm.group(1))
        ents.append((nm.group(1), int(ar.group(1)), None if ar.group(2) == "usize::MAX" else int(ar.group(2))))
    if body.count("Entry {") != len(ents):
        probs.append("xpath/src/eval/func.rs: %d entries in the function table, %d understood" % (body.count("Entry {"), len(ents)))
    if not re.search(r"func\.args\(\)\.len\(\)\s*<\s*entry\.min_args\(\)\s*\|\|\s*entry\.max_args\(\)\s*<\s*func\.args\(\)\.len\(\)",
                     open(os.path.join(repo, "xpath/src/eval/mod.rs")).read()):
        probs.append("xpath/src/eval/mod.rs: the arity check `len < min_args || max_args < len` was not found as last read")
    return ents, probs


def emit_funcs(ents):
    row = lambda e: '("%s", %d, %s)' % (e[0], e[1], "none" if e[2] is None else "some %d" % e[2])
    return "\n".join([
        "/-! GENERATED on every check run by tools/translate.py from xpath/src/eval/func.rs (`table()`): the core function library as the",
        "    evaluator declares it - name, least and greatest number of arguments (`none` = no upper bound).  Thm/C06",
        "    `arity_table_is_the_sources` states that the model's table is this one. -/",
        "namespace XmlRs.Gen.XPathFuncs", "",
        "def table : List (String × Nat × Option Nat) :=", "  [" + ",\n   ".join(row(e) for e in ents) + "]", "",
        "end XmlRs.Gen.XPathFuncs", ""])


def predefined_entities(repo):
    """the predefined entities as `Context::entity` (info/src/lib.rs) answers for them when no declaration of that name exists:
    [(name, replacement text)] in source order"""
    path = os.path.join(repo, "info/src/lib.rs")
    try:
        src = open(path).read()
    except OSError as e:
        return [], ["cannot read %s: %s" % (path, e)]
    m = re.search(r"match name \{(.*?)_ => Err\(error::Error::NotFoundReference\(name\.to_string\(\)\)\),\s*\}", src, re.S)
    if not m:
        return [], ["info/src/lib.rs: the `match name { ... }` of the predefined entities was not found as last read"]
    ents, probs = [], []
    arms = [a for a in m.group(1).split("\n") if a.strip()]
    for a in arms:
        am = re.match(r'\s*"(\w+)" => Ok\(node\(XmlEntity::from\(\("(\w+)", "((?:[^"\\]|\\.)*)", self\)\)\)\),\s*$', a)
        if not am or am.group(1) != am.group(2):
            probs.append("info/src/lib.rs: an arm of the predefined entities has a shape the translator does not know: %s" % a.strip()[:100])
            continue
        text = re.sub(r'\\(.)', lambda mm: {'n': '\n', 't': '\t'}.get(mm.group(1), mm.group(1)), am.group(3))
        ents.append((am.group(1), text))
    return ents, probs


def lean_chars(t):
    esc = {"'": "\\'", "\\": "\\\\", "\n": "\\n", "\t": "\\t"}
    return "[" + ", ".join("'%s'" % esc.get(c, c) for c in t) + "]"


def emit_predefined(ents):
    return "\n".join([
        "/-! GENERATED on every check run by tools/translate.py from info/src/lib.rs (`Context::entity`): the entities the library knows",
        "    without a declaration, with their replacement text.  Thm/C01 `predefined_is_the_sources` states that the model's table is this one. -/",
        "namespace XmlRs.Gen.Predefined", "",
        "def table : List (List Char × List Char) :=", "  [" + ",\n   ".join("(%s, %s)" % (lean_chars(n), lean_chars(t)) for n, t in ents) + "]", "",
        "end XmlRs.Gen.Predefined", ""])


FUNC_PROBLEMS = []


def translate_all(repo=None):
    repo = repo or lib.REPO
    gen = os.path.join(lib.LEAN, "XmlRsModel", "Gen")
    ents, probs = func_table(repo)
    FUNC_PROBLEMS[:] = probs
    if ents:
        write_if_changed(os.path.join(gen, "XPathFuncs.lean"), emit_funcs(ents))
    pents, pprobs = predefined_entities(repo)
    FUNC_PROBLEMS.extend(pprobs)
    if pents:
        write_if_changed(os.path.join(gen, "Predefined.lean"), emit_predefined(pents))
    gx = Grammar("xml")
    gx.add_file(os.path.join(repo, "nom/src/lib.rs"))
    gx.add_file(os.path.join(repo, "parser/src/lib.rs"))
    write_if_changed(os.path.join(gen, "XmlGrammar.lean"),
                     gx.emit("Xml", ["nom/src/lib.rs", "parser/src/lib.rs"]))
    gp = Grammar("xpath")
    gp.add_file(os.path.join(repo, "nom/src/lib.rs"))
    gp.add_file(os.path.join(repo, "xpath/src/expr/mod.rs"))
    write_if_changed(os.path.join(gen, "XPathGrammar.lean"),
                     gp.emit("XPath", ["nom/src/lib.rs", "xpath/src/expr/mod.rs"]))
    return gx, gp


if __name__ == "__main__":
    gx, gp = translate_all()
    print(len(gx.prods), "xml productions;", len(gp.prods), "xpath productions")
    if "--snapshot" in sys.argv:
        # to be run by hand after the grammar of /repo was read against the Recommendation (e.g. after a fix: commit)
        import json
        os.makedirs(REFDIR, exist_ok=True)
        json.dump(snapshot_of(gx), open(os.path.join(REFDIR, "xml.json"), "w"), indent=1)
        json.dump(snapshot_of(gp), open(os.path.join(REFDIR, "xpath.json"), "w"), indent=1)
        print("snapshots written to", REFDIR)
    write_refs(gx, gp)
    print("differences from the reviewed grammars:", grammar_diffs("xml", gx), grammar_diffs("xpath", gp))
    if FUNC_PROBLEMS:
        print("tables that could not be read as before:", FUNC_PROBLEMS)
