"""Shared machinery for the per-property checks (see DESIGN.md section 3 and 5).

Everything here is glue (trusted, not verified): building the two drivers, talking the line
protocol, auditing the Lean build, writing evidence, reporting verdicts.
"""
import hashlib
import json
import os
import re
import subprocess
import sys
import time

VERIF = os.path.dirname(os.path.dirname(os.path.abspath(__file__)))
REPO = os.environ.get("VERIF_REPO", "/repo")
LEAN = os.path.join(VERIF, "lean")
HARNESS = os.path.join(VERIF, "harness")
EVIDENCE = os.path.join(VERIF, "evidence")
REPLAYS = os.path.join(VERIF, "replays")
WORK = os.path.join(VERIF, "work")
FINDINGS = os.path.join(VERIF, "KNOWN_FINDINGS.txt")
ALLOWED_AXIOMS = {"propext", "Classical.choice", "Quot.sound"}
ENV = dict(os.environ, CARGO_NET_OFFLINE="true")

for d in (EVIDENCE, REPLAYS, WORK):
    os.makedirs(d, exist_ok=True)


def seed():
    try:
        return int(os.environ.get("VERIF_SEED", "20260922"))
    except ValueError:
        return 20260922


# ---------------------------------------------------------------------------------------------
# protocol encoding

_SAFE = set(b"ABCDEFGHIJKLMNOPQRSTUVWXYZabcdefghijklmnopqrstuvwxyz0123456789._-")


def enc(s):
    if isinstance(s, str):
        s = s.encode("utf-8")
    return "".join(chr(b) if b in _SAFE else "%%%02X" % b for b in s)


def dec(s):
    out = bytearray()
    i = 0
    b = s.encode("utf-8")
    while i < len(b):
        if b[i] == 0x25 and i + 2 < len(b) + 1:
            out.append(int(b[i + 1:i + 3], 16))
            i += 3
        else:
            out.append(b[i])
            i += 1
    return out.decode("utf-8", errors="replace")


def req(op, *args):
    return op + "".join("\t" + enc(a) for a in args)


# ---------------------------------------------------------------------------------------------
# building

def sh(cmd, cwd=None, timeout=None, env=None):
    p = subprocess.run(cmd, cwd=cwd, shell=isinstance(cmd, str), stdout=subprocess.PIPE,
                       stderr=subprocess.STDOUT, timeout=timeout, env=env or ENV)
    return p.returncode, p.stdout.decode("utf-8", errors="replace")


_built = {}


def build_harness(release=False):
    """cargo build of the harness against /repo's current working tree (path dependencies)."""
    key = ("harness", release)
    if key in _built:
        return _built[key]
    # coverage measurement only (tools/coverage.sh): a pre-built, instrumented driver
    if os.environ.get("VERIF_HARNESS_BIN"):
        _built[key] = os.environ["VERIF_HARNESS_BIN"]
        return _built[key]
    # keep the lock file in step with /repo's
    try:
        src = open(os.path.join(REPO, "Cargo.lock")).read()
        dst_p = os.path.join(HARNESS, "Cargo.lock")
        if not os.path.exists(dst_p):
            open(dst_p, "w").write(src)
    except OSError:
        pass
    # path dependencies follow REPO (default /repo; VERIF_REPO is used only to try the checks on a scratch copy)
    ct = os.path.join(HARNESS, "Cargo.toml")
    cur = open(ct).read()
    want = re.sub(r'path = "[^"]*/(nom|parser|info|dom|xpath)"', lambda m: 'path = "%s/%s"' % (REPO, m.group(1)), cur)
    if want != cur:
        open(ct, "w").write(want)
    cmd = ["cargo", "build", "--offline", "-q"] + (["--release"] if release else [])
    rc, out = sh(cmd, cwd=HARNESS, timeout=1800)
    if rc != 0:
        print(out[-4000:])
        raise SystemExit("harness build failed (the repository no longer compiles against the harness)")
    path = os.path.join(HARNESS, "target", "release" if release else "debug", "xmlrs-driver")
    _built[key] = path
    return path


def build_examples():
    """build /repo's xq and xe example binaries into harness/target-repo (never /repo/target)."""
    key = "examples"
    if key in _built:
        return _built[key]
    if os.environ.get("VERIF_EXAMPLES_DIR"):   # coverage measurement only
        _built[key] = os.environ["VERIF_EXAMPLES_DIR"]
        return _built[key]
    tdir = os.path.join(HARNESS, "target-repo")
    rc, out = sh(["cargo", "build", "--offline", "-q", "-p", "xml-xpath", "--examples",
                  "--target-dir", tdir], cwd=REPO, timeout=1800)
    if rc != 0:
        print(out[-4000:])
        raise SystemExit("example build failed")
    _built[key] = os.path.join(tdir, "debug", "examples")
    return _built[key]


def lake_build(targets, timeout=3000):
    """lake build of the given targets; returns (ok, output)."""
    rc, out = sh(["lake", "build"] + list(targets), cwd=LEAN, timeout=timeout)
    return rc == 0, out


def model_driver():
    key = "xmlmodel"
    if key in _built:
        return _built[key]
    ok, out = lake_build(["xmlmodel"])
    if not ok:
        print(out[-4000:])
        raise SystemExit("model driver build failed")
    _built[key] = os.path.join(LEAN, ".lake", "build", "bin", "xmlmodel")
    return _built[key]


# ---------------------------------------------------------------------------------------------
# running drivers

def run_lines(binary, lines, timeout=600, per_line_resume=False, env=None):
    """Pipe request lines to a driver, return the response lines (same length).

    When the process dies (abort, stack overflow) or exceeds the time limit the offending line gets
    the outcome class `abort`/`timeout` and, with per_line_resume, the rest is re-run in a fresh
    process."""
    results = []
    pos = 0
    lines = list(lines)
    while pos < len(lines):
        chunk = lines[pos:]
        data = ("\n".join(chunk) + "\n").encode("utf-8")
        try:
            p = subprocess.run([binary], input=data, stdout=subprocess.PIPE, stderr=subprocess.DEVNULL,
                               timeout=timeout, env=env or ENV)
            out = p.stdout.decode("utf-8", errors="replace").split("\n")
            # (an unfinished last line - a process that died while writing - is no answer either)
            if out:
                out.pop()
            died = "abort"
            if p.returncode == 3 and out and out[-1] == "timeout" and len(out) < len(chunk):
                # the driver's own watchdog answered the running request with `timeout` and ended the process
                results.extend(out)
                pos += len(out)
                if not per_line_resume:
                    results.extend(["not-run"] * (len(lines) - pos))
                    break
                continue
        except subprocess.TimeoutExpired as e:
            raw = (e.stdout or b"").decode("utf-8", errors="replace")
            out = raw.split("\n")
            # what stands behind the last line feed is the beginning of the answer to the request that was running when the time
            # ran out: it is no answer (that request gets `timeout` below)
            if out:
                out.pop()
            died = "timeout"
        if len(out) >= len(chunk):
            results.extend(out[:len(chunk)])
            break
        results.extend(out)
        results.append(died)
        pos += len(out) + 1
        if not per_line_resume:
            results.extend(["not-run"] * (len(lines) - pos))
            break
    return results


# ---------------------------------------------------------------------------------------------
# proof step

FORBIDDEN = re.compile(r"\b(sorry|admit|native_decide|bv_decide|implemented_by|unsafe)\b|^axiom |maxHeartbeats 0")


def strip_comments(text):
    # remove /- ... -/ (nested) and -- line comments
    out = []
    depth = 0
    i = 0
    while i < len(text):
        if text.startswith("/-", i):
            depth += 1
            i += 2
        elif depth and text.startswith("-/", i):
            depth -= 1
            i += 2
        elif depth:
            i += 1
        elif text.startswith("--", i):
            j = text.find("\n", i)
            i = len(text) if j < 0 else j
        else:
            out.append(text[i])
            i += 1
    return "".join(out)


def grep_forbidden(files):
    hits = []
    for f in files:
        try:
            src = strip_comments(open(f).read())
        except OSError:
            continue
        for n, line in enumerate(src.split("\n"), 1):
            if FORBIDDEN.search(line):
                hits.append("%s:%d: %s" % (os.path.relpath(f, VERIF), n, line.strip()))
    return hits


def lean_sources():
    res = []
    for root, _, files in os.walk(os.path.join(LEAN, "XmlRsModel")):
        for f in files:
            if f.endswith(".lean"):
                res.append(os.path.join(root, f))
    return sorted(res)


def theorem_names(thm_file):
    """names of the theorems declared in a Thm/Cxx.lean file (the proof obligations)"""
    src = strip_comments(open(thm_file).read())
    ns = []
    names = []
    for line in src.split("\n"):
        m = re.match(r"\s*namespace\s+(\S+)", line)
        if m:
            ns.append(m.group(1))
            continue
        m = re.match(r"\s*end\s+(\S+)", line)
        if m and ns and ns[-1] == m.group(1):
            ns.pop()
            continue
        # private helper lemmas are not obligations of their own: the audit of the public theorems that use them
        # covers their axioms
        m = re.match(r"\s*(?:@\[[^\]]*\]\s*)?(?:protected\s+)?theorem\s+(\S+)", line)
        if m:
            names.append(".".join(ns + [m.group(1)]))
    return names


_proof_memo = {}


def proof_step(module, extra_targets=()):
    """memoised per process (the thorough tier runs several rounds on one regenerated model)"""
    key = (module, tuple(extra_targets), _gen_stamp())
    if key not in _proof_memo:
        _proof_memo[key] = _proof_step(module, extra_targets)
    return _proof_memo[key]


def _gen_stamp():
    """the generated Lean files as they are now (a round that regenerates them differently proves again)"""
    h = hashlib.sha1()
    gd = os.path.join(LEAN, "XmlRsModel", "Gen")
    for f in sorted(os.listdir(gd)):
        if f.endswith(".lean"):
            h.update(open(os.path.join(gd, f), "rb").read())
    return h.hexdigest()


def _proof_step(module, extra_targets=()):
    """Build XmlRsModel.Thm.<module>, audit axioms of every theorem in it, grep for forbidden words.

    Returns dict(ok, obligations, discharged, failed: [names], log, axioms: {name: [..]})."""
    thm_file = os.path.join(LEAN, "XmlRsModel", "Thm", module + ".lean")
    names = theorem_names(thm_file)
    res = {"ok": False, "obligations": len(names), "discharged": 0, "failed": [], "log": "",
           "axioms": {}, "theorems": names}
    ok, out = lake_build(["XmlRsModel.Thm." + module] + list(extra_targets))
    res["log"] = out[-6000:]
    if not ok:
        # find which declarations failed: lean reports "file:line:col: error"
        bad = set()
        src_lines = open(thm_file).read().split("\n")
        for m in re.finditer(r"Thm/%s\.lean:(\d+):\d+: error" % re.escape(module), out):
            ln = int(m.group(1))
            # nearest theorem at or above this line
            for k in range(min(ln, len(src_lines)) - 1, -1, -1):
                mm = re.match(r"\s*(?:@\[[^\]]*\]\s*)?(?:private\s+|protected\s+)?theorem\s+(\S+)", src_lines[k])
                if mm:
                    bad.add(mm.group(1))
                    break
        if not bad:
            # failure in an imported module (model or generated file)
            mm = re.findall(r"error: (?:\S+: )?(.*)", out)
            bad.add("build:" + (mm[0][:120] if mm else "failed"))
        res["failed"] = sorted(bad)
        res["discharged"] = max(0, len(names) - len([b for b in bad if not b.startswith("build:")])) if not any(
            b.startswith("build:") for b in bad) else 0
        return res
    # axioms audit
    audit = os.path.join(WORK, "Audit_%s.lean" % module)
    with open(audit, "w") as f:
        f.write("import XmlRsModel.Thm.%s\n" % module)
        for n in names:
            f.write("#print axioms %s\n" % n)
    rc, out2 = sh(["lake", "env", "lean", audit], cwd=LEAN, timeout=1200)
    cur = None
    ax = {}
    for line in out2.split("\n"):
        m = re.match(r"'(.+)' depends on axioms: \[(.*)\]", line)
        m2 = re.match(r"'(.+)' does not depend on any axioms", line)
        if m:
            ax[m.group(1)] = [a.strip() for a in m.group(2).split(",") if a.strip()]
            cur = m.group(1) if not line.rstrip().endswith("]") else None
        elif m2:
            ax[m2.group(1)] = []
        elif line.startswith("'") and "depends on axioms: [" in line:
            # multi-line list
            name = line.split("'")[1]
            ax[name] = [a.strip() for a in line.split("[", 1)[1].split(",") if a.strip()]
            cur = name
        elif cur is not None:
            ax[cur].extend(a.strip().rstrip("]") for a in line.split(",") if a.strip().rstrip("]"))
            if line.rstrip().endswith("]"):
                cur = None
    res["axioms"] = ax
    failed = []
    for n in names:
        if n not in ax:
            failed.append(n + " (not audited)")
        elif not set(ax[n]) <= ALLOWED_AXIOMS:
            failed.append(n + " (axioms " + ",".join(sorted(set(ax[n]) - ALLOWED_AXIOMS)) + ")")
    hits = grep_forbidden(lean_sources())
    if hits:
        failed.append("forbidden: " + "; ".join(hits[:5]))
    res["failed"] = failed
    res["discharged"] = len(names) - len([f for f in failed if not f.startswith("forbidden")])
    res["ok"] = not failed and rc == 0
    if rc != 0:
        res["log"] += out2[-2000:]
    return res


_lc_memo = {}


def leanchecker(module):
    key = (module, _gen_stamp())
    if key not in _lc_memo:
        _lc_memo[key] = _leanchecker(module)
    return _lc_memo[key]


def _leanchecker(module):
    rc, out = sh(["lake", "env", "leanchecker", "XmlRsModel.Thm." + module], cwd=LEAN, timeout=3000)
    return rc == 0, out[-2000:]


# ---------------------------------------------------------------------------------------------
# findings

def load_findings(prop):
    """entries of KNOWN_FINDINGS.txt for one property: list of dict(kind, property, id, text)"""
    res = []
    try:
        for line in open(FINDINGS):
            line = line.strip()
            if not line or line.startswith("#"):
                continue
            m = re.match(r"(known|fixed): property=(\S+)\s+(\S+)\s*(.*)", line)
            if m and m.group(2) == prop:
                res.append({"kind": m.group(1), "property": m.group(2), "id": m.group(3), "text": m.group(4)})
    except OSError:
        pass
    return res


# ---------------------------------------------------------------------------------------------
# verdicts and evidence

class Check:
    def __init__(self, prop, tier):
        self.prop = prop
        self.tier = tier
        self.t0 = time.time()
        self.violations = []      # (replay_path, suffix)
        self.known = []           # printed KNOWN-FINDING lines
        self.cov = {"evaluations": 0, "distinct_nontrivial": 0, "rule": "", "samples": [],
                    "obligations": 0, "discharged": 0, "checker_cmd": "", "trusted_base": [],
                    "disagreements_checked": 0}
        self.assumptions = []
        self._distinct = set()
        self._proved = set()

    def count(self, case, nontrivial=True):
        self.cov["evaluations"] += 1
        if nontrivial:
            h = hashlib.sha1(repr(case).encode("utf-8", "replace")).digest()[:8]
            self._distinct.add(h)
        if len(self.cov["samples"]) < 6 and nontrivial:
            self.cov["samples"].append(case if isinstance(case, (str, int, list, dict)) else repr(case))

    def proof(self, res, checker_cmd):
        key = tuple(res.get("theorems", []))
        if key in self._proved:      # a later round of the thorough tier: the same obligations, not new ones
            return
        self._proved.add(key)
        self.cov["obligations"] += res["obligations"]
        self.cov["discharged"] += res["discharged"]
        self.cov["checker_cmd"] = checker_cmd
        self.cov.setdefault("theorems", []).extend(res.get("theorems", []))
        self.cov["axioms_used"] = sorted({a for v in res.get("axioms", {}).values() for a in v})

    def violation(self, name, content, no_input=False):
        path = os.path.join(REPLAYS, "%s_%s.replay" % (self.prop, name))
        with open(path, "w") as f:
            f.write(content if content.endswith("\n") else content + "\n")
        self.violations.append((path, " no-failing-input-found" if no_input else ""))

    def known_finding(self, text):
        line = "KNOWN-FINDING: property=%s %s" % (self.prop, text)
        if line not in self.known:
            self.known.append(line)

    def finish(self):
        self.cov["distinct_nontrivial"] = len(self._distinct)
        ev = {
            "property_id": self.prop,
            "tier": self.tier,
            "seed": int(os.environ.get("VERIF_BASE_SEED", seed())),
            "level": "proof",
            "coverage": self.cov,
            "assumptions": self.assumptions,
            "wall_s": round(time.time() - self.t0, 2),
            "violations": len(self.violations),
            "known_findings": self.known,
        }
        with open(os.path.join(EVIDENCE, self.prop + ".json"), "w") as f:
            json.dump(ev, f, indent=1, ensure_ascii=False)
            f.write("\n")
        for k in self.known:
            print(k)
        seen = set()
        for path, suffix in self.violations:
            if path in seen:
                continue
            seen.add(path)
            print("VIOLATION property=%s replay=%s%s" % (self.prop, path, suffix))
        sys.stdout.flush()
        return 1 if self.violations else 0


TRUSTED_BASE = [
    "Lean 4.33 kernel; axioms allowed: propext, Classical.choice, Quot.sound (audited per theorem with #print axioms)",
    "specification text transcribed into Lean (W3C productions, DOM L1 / XPath 1.0 prose)",
    "tie: Rust harness (harness/), Lean driver protocol code (lean/Driver), tools/*.py generators and canonicalisation",
    "all Rust code is modelled, not verified: theorems are about the Lean model; agreement is checked on the cases of each run",
]


# ---------------------------------------------------------------------------------------------
# regeneration of the generated Lean files from /repo's current tree (the translator half of the tie)

WRAPPER_USES = []
CLASS_PANICS = []
XML_CONSTS = {}
GRAMMAR_DIFFS = {"xml": [], "xpath": []}


def wrapper_diffs():
    """exhaustive check (every scalar value) that each xmlchar `*_except*` parser constructor met by the translator means
    `class(c) && c not in except` — the semantics the translator assumes for it.  Returns [(name, except, [code points])]"""
    if not WRAPPER_USES:
        return []
    out = run_lines(build_harness(), [req("wrapper", n, ex) for n, ex in WRAPPER_USES], timeout=300)
    res = []
    for (n, ex), o in zip(WRAPPER_USES, out):
        if o != "ok":
            cps = [int(x, 16) for x in o.split(":", 1)[1].split(",")] if o.startswith("diff:") else []
            res.append((n, ex, cps, o))
    return res


def regenerate():
    """extract tables and translate grammars; returns list of problems (strings)"""
    import extract
    import translate
    problems = []
    tabs = extract.char_tables()
    extract.write_char_tables(tabs)
    global WRAPPER_USES, XML_CONSTS, GRAMMAR_DIFFS, CLASS_PANICS
    CLASS_PANICS = list(tabs.get("_panics", []))
    for kind, cp in CLASS_PANICS:
        problems.append("the character-class predicate `%s` panics on U+%04X" % (kind, cp))
    gx = gp = None
    try:
        gx, gp = translate.translate_all()
        problems += ["translate: %s" % x for x in translate.FUNC_PROBLEMS]
        WRAPPER_USES = sorted(set(gx.wrapper_uses + gp.wrapper_uses))
        XML_CONSTS.update(gx.consts)
    except translate.TranslateError as e:
        problems.append("translate: %s" % e)
    except Exception as e:  # malformed source, unexpected shape
        problems.append("translate: %r" % e)
    # the limits are also read straight from the declarations, so that the boundary inputs of the searches exist even when the
    # translator no longer recognises the shape of the code around them
    for crate in ("parser", "xpath"):
        for root, _, files in os.walk(os.path.join(REPO, crate, "src")):
            for f in sorted(files):
                if f.endswith(".rs"):
                    src = open(os.path.join(root, f), encoding="utf-8", errors="replace").read()
                    for m in re.finditer(r"const\s+(MAX_[A-Z_]+)\s*:\s*usize\s*=\s*(\d+)\s*;", src):
                        XML_CONSTS.setdefault(m.group(1), int(m.group(2)))
    # the reviewed grammars (tools/ref/*.json) as Lean environments, and what differs from them now
    translate.write_refs(gx, gp)
    GRAMMAR_DIFFS = {"xml": translate.grammar_diffs("xml", gx) if gx is not None else [("(untranslatable)", None, None)],
                     "xpath": translate.grammar_diffs("xpath", gp) if gp is not None else [("(untranslatable)", None, None)]}
    return tabs, problems


def both(lines, timeout=900, resume=False):
    """same request lines to the implementation driver and to the model driver"""
    h = build_harness()
    m = model_driver()
    a = run_lines(h, lines, timeout=timeout, per_line_resume=resume)
    b = run_lines(m, lines, timeout=timeout)
    return a, b
