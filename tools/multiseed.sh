#!/bin/sh
# usage: tools/multiseed.sh "<seeds>" [props...]   — runs the COMMITTED checks in a scratch copy of /verif against /repo
# with several VERIF_SEED values (a check must not alarm on the unchanged tree whatever the seed); prints one line per run.
SEEDS=${1:-"2 3 5"}; shift
PROPS=${*:-"C01 C02 C03 C04 C05 C06 C07 C08 C09 C10 C11 C12 C13 C14 C15 C16 C17 C18 C19"}
VC=/tmp/multiseed-verif
rm -rf "$VC"; mkdir -p "$VC"
git -C /verif archive HEAD | tar -x -C "$VC"
for d in lean/.lake harness/target harness/target-repo; do
  [ -d /verif/$d ] && mkdir -p "$VC/$d" && rsync -a /verif/$d/ "$VC/$d/"
done
mkdir -p "$VC/replays" "$VC/evidence"
cd "$VC" || exit 2
for sd in $SEEDS; do
  for p in $PROPS; do
    out=$(VERIF_SEED=$sd VERIF_REPO=/repo python3 tools/check.py $p --tier quick 2>&1 | grep -v "^KNOWN" | cut -c1-220 | tail -2)
    echo "seed=$sd $p $out"
    case "$out" in *VIOLATION*) mkdir -p /tmp/multiseed-replays; cp -r "$VC/replays/." /tmp/multiseed-replays/ 2>/dev/null;; esac
  done
done
cd /; rm -rf "$VC"
