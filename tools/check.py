#!/usr/bin/env python3
"""Entry point of every registered check:  python3 tools/check.py Cxx [--tier quick|thorough] [--replay FILE]

exit 0: the property held on everything explored (KNOWN-FINDING lines may be printed)
exit 1: a line `VIOLATION property=Cxx replay=<path>` was printed
"""
import argparse
import importlib
import os
import sys

sys.path.insert(0, os.path.dirname(os.path.abspath(__file__)))
import lib  # noqa: E402


def main():
    ap = argparse.ArgumentParser()
    ap.add_argument("prop")
    ap.add_argument("--tier", default=os.environ.get("VERIF_TIER", "quick"), choices=["quick", "thorough"])
    ap.add_argument("--replay", default=None)
    a = ap.parse_args()
    chk = lib.Check(a.prop, a.tier)
    chk.cov["trusted_base"] = list(lib.TRUSTED_BASE)
    try:
        mod = importlib.import_module("props." + a.prop.lower())
        if a.replay:
            rc = mod.replay(chk, a.replay)
            sys.exit(rc)
        # the thorough tier repeats the whole exploration with further seeds (same regenerated model, same proofs - memoised -,
        # fresh documents / expressions / histories each round); the exhaustive parts dominate C18 (one round) and C02
        rounds = {"C18": 1, "C02": 3}.get(a.prop, 6) if a.tier == "thorough" else 1
        base = lib.seed()
        os.environ["VERIF_BASE_SEED"] = str(base)
        for r in range(rounds):
            os.environ["VERIF_SEED"] = str(base + r)
            mod.run(chk)
            if chk.violations:
                break
        chk.cov["rounds"] = "%d round(s), seeds %d..%d" % (r + 1, base, base + r)
    except SystemExit as e:
        if isinstance(e.code, int) or e.code is None:
            raise
        # a driver could not be built against the current tree (the repository no longer compiles against the harness,
        # the model no longer builds): the correspondence cannot be checked at all
        chk.violation("machinery", "the correspondence check could not be run: %s\nNo input on which the property itself fails was "
                      "looked for.\n" % e.code, no_input=True)
    except Exception:
        import traceback
        chk.violation("machinery", "the check stopped with an internal error before it reached a verdict:\n%s\nNo input on which "
                      "the property itself fails was found.\n" % traceback.format_exc()[-3000:], no_input=True)
    sys.exit(chk.finish())


if __name__ == "__main__":
    main()
