#!/usr/bin/env python3
"""prints the prompt given to an independent sub-agent that seeds a property-breaking change (nothing from /verif is shown to it)"""
import json, sys
pid = sys.argv[1]
for l in open('/verif/properties.jsonl'):
    p = json.loads(l)
    if p['id'] == pid:
        break
print(f"""You are working alone in a scratch git worktree of the Rust workspace `xml-rs` at /tmp/seed/{pid} (crates: nom/ = character classes and name productions, parser/ = XML 1.0 nom parser, info/ = XML Infoset tree, dom/ = DOM Level 1 API, xpath/ = XPath 1.0 parser + evaluator, with example CLIs xpath/examples/xq.rs and xe.rs). Work ONLY inside /tmp/seed/{pid} and write your deliverables to /tmp/seed/{pid}-out/. Never read or write /repo or /verif. There is no network: always use `cargo ... --offline` (e.g. `cargo test --workspace --offline`, which must be run from the worktree root).

Here is a semantic property of the library that should hold:

  {p['id']} — {p['title']}
  Statement: {p['statement']}
  Quantifier: {p['quantifier']['text']}
  Code it is anchored in: {', '.join(p['anchors']['files'])}

Your task: produce TWO independent, different source changes (call them A and B) to the library (non-test code under nom/, parser/, info/, dom/ or xpath/; do not edit or delete existing tests) such that, for each change separately:
  1. the workspace still compiles and the ENTIRE existing test suite still passes (`cargo test --workspace --offline`, 603 tests, zero failures);
  2. the property above is broken: there is a concrete input / operation sequence on which the library now violates the statement, while the unchanged code satisfies it on that same input;
  3. the breakage needs something specific to manifest — an unusual input, a particular multi-step sequence of operations, a specific combination of features, a boundary value, or two cooperating edits that each look harmless — NOT something ordinary use or a trivial smoke test would expose at once. Think of a realistic slip a maintainer might make in a refactor, optimisation or "simplification", not sabotage like `panic!()`.
  The two changes should use different mechanisms / touch different code.

First read the relevant code and confirm that the unchanged code really satisfies the property on your chosen demonstration input (the library has some pre-existing deviations; pick a demonstration where the ORIGINAL code behaves correctly).

Deliverables (for X in A, B), all under /tmp/seed/{pid}-out/:
  - X/patch.diff : `git diff` of the library change only (must apply with `git apply` to a clean checkout of the worktree HEAD);
  - X/demo.rs : a demonstration as a Rust integration-test file (to be dropped into e.g. xpath/tests/ or dom/tests/ — say which crate's tests/ directory in the notes) containing one or more #[test] functions that FAIL with the change applied and PASS without it; it may use only the crates of the workspace (xml-xpath depends on xml-dom etc.; check each crate's Cargo.toml for what is available to its tests);
  - X/notes.md : which property clause it breaks, what exactly is needed for it to manifest, the exact commands you ran (suite with the change: pass count; demo with the change: fails; demo without: passes).
You must actually run these commands and verify all three facts yourself for each change. When you are done, leave the worktree clean (`git checkout -- . && git clean -fdq` except keep nothing there; deliverables live only in the -out directory). Final answer: a short summary of the two changes and the verification results.""")
