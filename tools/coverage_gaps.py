#!/usr/bin/env python3
"""lcov -> per file: functions never called, and maximal runs of lines never executed (test modules excluded)"""
import re
import sys

files = {}
cur = None
for line in open(sys.argv[1]):
    line = line.strip()
    if line.startswith("SF:"):
        cur = files.setdefault(line[3:], {"fn": {}, "fnline": {}, "da": {}})
    elif line.startswith("FN:"):
        ln, name = line[3:].split(",", 1)
        cur["fnline"][name] = int(ln.split(",")[0])
    elif line.startswith("FNDA:"):
        n, name = line[5:].split(",", 1)
        cur["fn"][name] = cur["fn"].get(name, 0) + int(n)
    elif line.startswith("DA:"):
        ln, n = line[3:].split(",")[:2]
        cur["da"][int(ln)] = cur["da"].get(int(ln), 0) + int(n)


def demangle(n):
    m = re.findall(r"\d+([A-Za-z_][A-Za-z0-9_]*)", n)
    return "::".join(x for x in m if not re.fullmatch(r"h[0-9a-f]{16}", x))[:120] or n[:80]


for f in sorted(files):
    d = files[f]
    try:
        src = open(f).read().split("\n")
    except OSError:
        src = []
    # lines of #[cfg(test)] modules are not code the checks could reach
    test_from = next((i + 1 for i, l in enumerate(src) if l.strip() == "#[cfg(test)]"), 10 ** 9)
    lines = sorted(l for l in d["da"] if l < test_from)
    hit = sum(1 for l in lines if d["da"][l] > 0)
    print("== %s: %d/%d lines executed" % (f, hit, len(lines)))
    dead = sorted({(d["fnline"].get(n, 0), demangle(n)) for n, c in d["fn"].items() if c == 0 and d["fnline"].get(n, 0) < test_from})
    seen = set()
    for ln, name in dead:
        if (ln, name) not in seen:
            seen.add((ln, name))
            print("   never called  %5d  %s" % (ln, name))
    run = []
    for l in lines + [10 ** 9]:
        if l < 10 ** 9 and d["da"][l] == 0 and (not run or l <= run[-1] + 2):
            run.append(l)
        else:
            if len(run) >= 2:
                text = src[run[0] - 1].strip()[:90] if src else ""
                print("   not executed  %5d-%-5d %s" % (run[0], run[-1], text))
            run = [l] if l < 10 ** 9 and d["da"][l] == 0 else []
