#!/bin/sh
# usage: seed_verify.sh <worktree> <seed dir (patch.diff, demo.rs)> <crate dir for the demo, e.g. dom>
# confirms: with the patch the pinned suite passes; the demo fails with the patch and passes without.
WT=$1; SD=$2; CR=$3
export CARGO_NET_OFFLINE=true
cd "$WT" || exit 2
git checkout -q -- . && git clean -fdq
git apply "$SD/patch.diff" || { echo "PATCH-DOES-NOT-APPLY"; exit 2; }
suite=$(cargo test --workspace --no-fail-fast --offline 2>&1 | grep -E "^test result" | awk '{s+=$4; f+=$6} END {print s, f}')
mkdir -p $CR/tests && cp "$SD/demo.rs" $CR/tests/seed_demo.rs
pkg=$(grep -m1 '^name' $CR/Cargo.toml | sed 's/.*"\(.*\)"/\1/')
cargo build -q --offline -p xml-xpath --examples 2>/dev/null
with=$(cargo test -p $pkg --test seed_demo --offline 2>&1 | grep -E "^test result" | awk '{s+=$4; f+=$6} END {print s, f}')
git checkout -q -- . ; rm -f $CR/tests/seed_demo.rs
cp "$SD/demo.rs" $CR/tests/seed_demo.rs
cargo build -q --offline -p xml-xpath --examples 2>/dev/null
without=$(cargo test -p $pkg --test seed_demo --offline 2>&1 | grep -E "^test result" | awk '{s+=$4; f+=$6} END {print s, f}')
rm -f $CR/tests/seed_demo.rs; git checkout -q -- . ; git clean -fdq
echo "suite_with_patch(pass fail)=$suite demo_with_patch=$with demo_without=$without"
