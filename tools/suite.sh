#!/bin/sh
# runs /repo's pinned suite; prints "<passed> <failed>"
cd /repo && cargo test --workspace --no-fail-fast --offline 2>&1 | grep -E "^test result" | awk '{s+=$4; f+=$6} END {print s, f}'
