#!/usr/bin/env python3
"""Try the registered checks on a seeded change WITHOUT touching /repo or this tree:
     seed_run.py <seed dir with patch.diff> <property id> [more property ids]
   A scratch worktree of /repo gets the patch, a scratch copy of /verif runs the quick checks against it
   (VERIF_REPO), and the verdict lines are printed and stored in <seed dir>/result.json."""
import json
import os
import shutil
import subprocess
import sys
import time

seed = os.path.abspath(sys.argv[1])
props = sys.argv[2:]
tag = os.path.basename(seed.rstrip("/"))
wt = "/tmp/seedrun/%s-repo" % tag
vc = "/tmp/seedrun/%s-verif" % tag
os.makedirs("/tmp/seedrun", exist_ok=True)
subprocess.run(["git", "-C", "/repo", "worktree", "remove", "--force", wt], stderr=subprocess.DEVNULL)
shutil.rmtree(vc, ignore_errors=True)
subprocess.check_call(["git", "-C", "/repo", "worktree", "add", "-q", "--detach", wt, "HEAD"])
res = {"seed": tag, "repo_head": subprocess.check_output(["git", "-C", "/repo", "rev-parse", "--short", "HEAD"]).decode().strip(),
       "checks": {}}
try:
    r = subprocess.run(["git", "-C", wt, "apply", os.path.join(seed, "patch.diff")], capture_output=True, text=True)
    if r.returncode != 0:
        res["error"] = "patch does not apply to /repo HEAD: " + r.stderr[-400:]
    else:
        # the COMMITTED tree of /verif (never a half-edited working tree), plus the build outputs for speed
        os.makedirs(vc, exist_ok=True)
        subprocess.check_call("git -C /verif archive HEAD | tar -x -C %s" % vc, shell=True)
        for d in ("lean/.lake", "harness/target", "harness/target-repo"):
            if os.path.isdir("/verif/" + d):
                rc = subprocess.call(["rsync", "-a", "/verif/%s/" % d, "%s/%s/" % (vc, d)])
                assert rc in (0, 24), rc   # 24: files vanished while copying (a concurrent build); harmless
        os.makedirs(os.path.join(vc, "replays"), exist_ok=True)
        os.makedirs(os.path.join(vc, "evidence"), exist_ok=True)
        env = dict(os.environ, VERIF_REPO=wt, CARGO_NET_OFFLINE="true")
        for p in props:
            t0 = time.time()
            r = subprocess.run(["python3", "tools/check.py", p, "--tier", "quick"], cwd=vc, env=env, capture_output=True, text=True)
            lines = [l for l in r.stdout.split("\n") if l.startswith("VIOLATION") or l.startswith("KNOWN-FINDING")]
            rep = ""
            for l in lines:
                if l.startswith("VIOLATION") and "replay=" in l:
                    path = l.split("replay=")[1].split(" ")[0]
                    try:
                        rep = open(path).read()[:1500]
                    except OSError:
                        pass
                    break
            res["checks"][p] = {"exit": r.returncode, "lines": [l[:300] for l in lines], "wall_s": round(time.time() - t0, 1),
                                "first_replay": rep, "tail": (r.stdout + r.stderr)[-1500:] if r.returncode not in (0, 1) or (r.returncode == 1 and not lines) else ""}
finally:
    subprocess.run(["git", "-C", "/repo", "worktree", "remove", "--force", wt], stderr=subprocess.DEVNULL)
    shutil.rmtree(vc, ignore_errors=True)
json.dump(res, open(os.path.join(seed, "result.json"), "w"), indent=1)
for p, c in res.get("checks", {}).items():
    print(tag, p, "exit=%s" % c["exit"], "|".join(c["lines"])[:400])
if "error" in res:
    print(tag, "ERROR", res["error"])
