"""Exhaustive extraction of finite tables from the running code into lean/XmlRsModel/Gen/*.lean."""
import os
import lib


def parse_classes(line):
    res = {}
    for part in line.strip().split(" "):
        if "=" not in part:
            raise SystemExit("the character classes could not be extracted from the running code: %r" % line[:200])
        k, v = part.split("=", 1)
        if k == "panics":
            # predicates that panic on some scalar value: [(class, code point)]
            res["_panics"] = [(x.split(":")[0], int(x.split(":")[1], 16)) for x in v.split(",") if x]
            continue
        res[k] = [tuple(int(x, 16) for x in r.split("-")) for r in v.split(",") if r]
    res.setdefault("_panics", [])
    return res


def char_tables():
    """run `classes` on the real code; returns dict name -> list of (lo, hi) maximal runs"""
    drv = lib.build_harness()
    out = lib.run_lines(drv, ["classes"], timeout=300)
    return parse_classes(out[0])


def write_char_tables(tabs):
    names = [("char", "charRuns"), ("namestart", "nameStartRuns"), ("namechar", "nameCharRuns"),
             ("pubid", "pubidRuns"), ("encname", "encNameRuns")]
    body = ["import XmlRsModel.Basic",
            "/-! GENERATED on every check run by tools/extract.py from the running code",
            "    (xml_nom::xmlchar::is_* evaluated on every Unicode scalar value; maximal runs). -/",
            "namespace XmlRs.Gen", ""]
    for key, nm in names:
        items = ",".join("(0x%X,0x%X)" % r for r in tabs[key])
        body.append("def %s : List (Nat × Nat) := [%s]" % (nm, items))
    body += ["",
             "def isChar (c : Nat) : Bool := inRanges charRuns c",
             "def isNameStartChar (c : Nat) : Bool := inRanges nameStartRuns c",
             "def isNameChar (c : Nat) : Bool := inRanges nameCharRuns c",
             "def isPubidChar (c : Nat) : Bool := inRanges pubidRuns c",
             "def isEncNameChar (c : Nat) : Bool := inRanges encNameRuns c",
             "", "end XmlRs.Gen", ""]
    text = "\n".join(body)
    path = os.path.join(lib.LEAN, "XmlRsModel", "Gen", "CharTables.lean")
    old = open(path).read() if os.path.exists(path) else None
    if old != text:
        with open(path, "w") as f:
            f.write(text)
    return path


def in_ranges(rs, c):
    return any(lo <= c <= hi for lo, hi in rs)


SPEC = {
    "char": [(0x9, 0x9), (0xA, 0xA), (0xD, 0xD), (0x20, 0xD7FF), (0xE000, 0xFFFD), (0x10000, 0x10FFFF)],
    "namestart": [(0x3A, 0x3A), (0x41, 0x5A), (0x5F, 0x5F), (0x61, 0x7A), (0xC0, 0xD6), (0xD8, 0xF6), (0xF8, 0x2FF),
                  (0x370, 0x37D), (0x37F, 0x1FFF), (0x200C, 0x200D), (0x2070, 0x218F), (0x2C00, 0x2FEF),
                  (0x3001, 0xD7FF), (0xF900, 0xFDCF), (0xFDF0, 0xFFFD), (0x10000, 0xEFFFF)],
}
SPEC["namechar"] = SPEC["namestart"] + [(0x2D, 0x2D), (0x2E, 0x2E), (0x30, 0x39), (0xB7, 0xB7), (0x300, 0x36F),
                                        (0x203F, 0x2040)]
SPEC["pubid"] = [(0x20, 0x20), (0xD, 0xD), (0xA, 0xA), (0x61, 0x7A), (0x41, 0x5A), (0x30, 0x39)] + \
    [(ord(c), ord(c)) for c in "-'()+,./:=?;!*#@$_%"]
SPEC["encname"] = [(0x41, 0x5A), (0x61, 0x7A), (0x30, 0x39), (0x2E, 0x2E), (0x5F, 0x5F), (0x2D, 0x2D)]


def first_difference(tabs):
    """search step for a failed table proof: lowest code point per class on which the code and the
    Recommendation (python transcription, used only to FIND the input) differ"""
    res = []
    for key in SPEC:
        pts = set()
        for lo, hi in SPEC[key] + tabs[key]:
            pts.update((lo - 1, lo, hi, hi + 1))
        for c in sorted(p for p in pts if 0 <= p <= 0x10FFFF):
            if in_ranges(SPEC[key], c) != in_ranges(tabs[key], c):
                res.append((key, c, in_ranges(tabs[key], c), in_ranges(SPEC[key], c)))
                break
    return res


if __name__ == "__main__":
    t = char_tables()
    print(write_char_tables(t))
    print(first_difference(t))
