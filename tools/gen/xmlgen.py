"""Generator of abstract XML documents, their renderings (surface-syntax choices) and their denotation
(the canonical dump the library must produce), all from one random.Random."""
import lib

NAMES = ["a", "b", "c", "r", "x1", "_y", "é", "p:e", "q:f", "p:a", "long-name.x"]
LOCALS = ["a", "b", "c", "id", "x1", "_y", "lang"]
PREFIXES = ["p", "q", "xml"]
# ... and characters whose code point ends in the byte of a delimiter (", %, &, ', -, <, >, ?, ], ;): a comparison that narrows the
# character to a byte reads them as that delimiter (round-7 seed C01-I: U+4E3C in text was refused as `<`)
LOWBYTE_TWINS = ["\u0122", "\u0125", "\u0126", "\u0127", "\u012d", "\u013c", "\u013e", "\u013f", "\u015d", "\u013b", "\u4e3c", "\u5926",
                 "\U0001003c", "\u0226"]
TEXT_CHARS = list("abcxyz012 \n\t.,;:!?()[]{}>'\"-=/") + ["é", "界", "\U0001D4B3", "́"] + LOWBYTE_TWINS
WS = [" ", "\n", "\t", "\r\n", "  "]
ENTITY_NAMES = ["e1", "e2", "e3", "ent"]
TYPES = ["CDATA", "ID", "IDREF", "IDREFS", "ENTITY", "ENTITIES", "NMTOKEN", "NMTOKENS", "NOTATION (n1|n2)", "(x|y|z)"]


def e(s):
    return lib.enc(s)


def opt(s):
    return "~" if s is None else e(s)


class Gen:
    def __init__(self, rng, dtd=True, max_depth=4, ns=True):
        self.r = rng
        self.dtd = dtd
        self.max_depth = max_depth
        self.ns = ns
        self.entities = []   # declared internal general entities usable in content

    # ---- abstract values --------------------------------------------------------------------
    def text(self, lo=1, hi=6, extra=""):
        n = self.r.randint(lo, hi)
        s = "".join(self.r.choice(TEXT_CHARS) for _ in range(n))
        return s.replace("]]>", "]] >").replace("\r", "")

    def name(self):
        n = self.r.choice(NAMES)
        if not self.ns and ":" in n:
            n = n.replace(":", "_")
        return n

    def pieces(self, quote_free=None, allow_ent=True, lo=0, hi=3):
        ps = []
        for _ in range(self.r.randint(lo, hi)):
            k = self.r.random()
            if k < 0.55:
                t = self.text(1, 5).replace("<", "").replace("&", "")
                if ps and ps[-1][0] == "t":
                    ps[-1] = ("t", ps[-1][1] + t)
                else:
                    ps.append(("t", t))
            elif k < 0.75:
                cp = self.r.choice([65, 233, 0x1D4B3, 9, 10, 13, 32, 60, 38, 34, 39, 37, 38])
                if self.r.random() < 0.5:
                    ps.append(("c", str(cp), 10))
                else:
                    ps.append(("c", self.r.choice(["%x", "%X", "0%x"]) % cp, 16))
            elif allow_ent:
                names = ["lt", "gt", "amp", "apos", "quot"] + self.entities
                ps.append(("e", self.r.choice(names)))
        raw = "".join(p[1] for p in ps if p[0] == "t")
        if '"' in raw and "'" in raw:
            ps = [("t", p[1].replace("'", "_")) if p[0] == "t" else p for p in ps]
        return ps

    def pi(self):
        t = self.r.choice(["pi", "target", "x", "xm", "xml-stylesheet", "X1"])
        d = None
        if self.r.random() < 0.7:
            d = self.text(0, 6).replace("?>", "? >").lstrip(" \n\t")
        return ("P", t, d)

    def comment(self):
        c = self.text(0, 6).replace("-", "~")
        return ("C", c)

    def element(self, depth, name=None):
        name = name or self.name()
        attrs = []
        seen = set()
        for _ in range(self.r.choice([0, 0, 1, 1, 2, 3])):
            k = self.r.random()
            if self.ns and k < 0.2:
                an = "xmlns:" + self.r.choice(PREFIXES[:2])
            elif self.ns and k < 0.28:
                an = "xmlns"
            elif self.ns and k < 0.4:
                an = self.r.choice(PREFIXES) + ":" + self.r.choice(LOCALS)
            else:
                an = self.r.choice(LOCALS)
            if an in seen:
                continue
            seen.add(an)
            attrs.append((an, self.pieces()))
        kids = []
        if depth < self.max_depth:
            for _ in range(self.r.choice([0, 1, 2, 3, 4])):
                k = self.r.random()
                if k < 0.3:
                    t = self.text(1, 8).replace("<", "").replace("&", "")
                    if kids and kids[-1][0] == "t":
                        # (two harmless pieces can join to the forbidden `]]>`)
                        kids[-1] = ("t", (kids[-1][1] + t).replace("]]>", "]] >"))
                    else:
                        kids.append(("t", t))
                elif k < 0.4:
                    kids += [p for p in self.pieces(lo=1, hi=1) if p[0] in ("c", "e")]
                elif k < 0.5:
                    kids.append(("d", self.text(0, 6)))
                elif k < 0.57:
                    kids.append(self.comment())
                elif k < 0.64:
                    kids.append(self.pi())
                else:
                    kids.append(self.element(depth + 1))
        return ("E", name, attrs, kids)

    def doctype(self, root):
        ext = self.r.choice([None, None, ("S", "sys'id"), ("S", 'a"b'), ("P", "pub-//id", "sys.dtd")])
        items = []
        if self.dtd:
            for _ in range(self.r.choice([0, 1, 2, 3, 4, 5])):
                k = self.r.random()
                if k < 0.3:
                    n = self.r.choice(ENTITY_NAMES)
                    ps = self.pieces(allow_ent=True, lo=0, hi=3)
                    ps = [p for p in ps if not (p[0] == "t" and "%" in p[1])]
                    # a character reference to '<' or '&' in an entity VALUE is expanded when the declaration is read, so the
                    # replacement text would hold markup characters and a reference to the entity would not be well-formed
                    ps = [p for p in ps if not (p[0] == "c" and int(p[1], p[2]) in (60, 38))]
                    # what stood on both sides of a piece that was taken out is ONE run of character data now
                    merged = []
                    for p in ps:
                        if p[0] == "t" and merged and merged[-1][0] == "t":
                            merged[-1] = ("t", merged[-1][1] + p[1])
                        else:
                            merged.append(p)
                    ps = merged
                    items.append(("Y", n, "i", ps))
                    if n not in self.entities:
                        self.entities.append(n)
                elif k < 0.4:
                    pub = self.r.choice([None, "pub id"])
                    items.append(("Y", self.r.choice(["u1", "u2"]), "x", pub, "sys", self.r.choice([None, "n1"])))
                elif k < 0.5:
                    items.append(("N", self.r.choice(["n1", "n2"]), self.r.choice([None, "p"]), self.r.choice([None, "s"])))
                    if items[-1][2] is None and items[-1][3] is None:
                        items[-1] = ("N", items[-1][1], "p", None)
                elif k < 0.75:
                    defs = []
                    seen = set()
                    for _ in range(self.r.randint(0, 3)):
                        an = self.r.choice(LOCALS + ["p:a"])
                        if an in seen:
                            continue
                        seen.add(an)
                        ty = self.r.choice(TYPES)
                        dk = self.r.random()
                        if dk < 0.25:
                            df = ("R",)
                        elif dk < 0.5:
                            df = ("I",)
                        else:
                            ps = [p for p in self.pieces(allow_ent=True)]
                            df = ("V", self.r.random() < 0.3, ps)
                        defs.append((an, ty, df))
                    items.append(("L", self.r.choice([root, root, "b", "c"]), defs))
                elif k < 0.85:
                    items.append(("ELEMENT", self.r.choice([root, "b"]),
                                  self.r.choice(["EMPTY", "ANY", "(#PCDATA)", "(#PCDATA|b|c)*", "(a,b?,(c|b)+)*", "(a|b)"])))
                elif k < 0.92:
                    items.append(("DC", self.comment()[1]))
                else:
                    items.append(self.pi())
        return ("T", root, ext, items)

    def document(self):
        self.entities = []
        decl = None
        if self.r.random() < 0.5:
            decl = (self.r.choice(["1.0", "1.1", "1.0"]), self.r.choice([None, "UTF-8", "iso-8859-1", "x", "UTF-16", "utf-16le", "UTF-32", "ISO-10646-UCS-2", "UCS-4", "Shift_JIS", "us-ascii"]),
                    self.r.choice([None, True, False]))
        root_name = self.name()
        heads, mids, tails = [], [], []
        for lst in (heads, mids, tails):
            for _ in range(self.r.choice([0, 0, 1, 2])):
                lst.append(self.comment() if self.r.random() < 0.5 else self.pi())
        dt = self.doctype(root_name) if self.r.random() < (0.6 if self.dtd else 0.2) else None
        if dt is None:
            heads += mids
            mids = []
        root = self.element(0, root_name)
        return {"decl": decl, "heads": heads, "doctype": dt, "mids": mids, "root": root, "tails": tails}


# ---- rendering ---------------------------------------------------------------------------------

class Style:
    """a stream of surface choices; style 0 is the canonical one used by the library's printer"""

    def __init__(self, rng, canonical=False):
        self.r = rng
        self.canonical = canonical

    def ws0(self):
        return "" if self.canonical else self.r.choice(["", "", " ", "\n", " \t"])

    def ws1(self):
        return " " if self.canonical else self.r.choice(WS)

    def quote(self, body, allowed='"\''):
        qs = [q for q in allowed if q not in body]
        if not qs:
            return None
        if self.canonical:
            q = "'" if '"' in body else '"'
        else:
            q = self.r.choice(qs)
        return q + body + q

    def empty_tag(self):
        return True if self.canonical else self.r.random() < 0.5


def render_pieces(ps):
    out = ""
    for p in ps:
        if p[0] == "t":
            out += p[1]
        elif p[0] == "c":
            out += ("&#x%s;" if p[2] == 16 else "&#%s;") % p[1]
        else:
            out += "&%s;" % p[1]
    return out


def render_pi(p, st=None):
    # the white space between target and data is a separator of ANY length and kind (production [16]: S); it never belongs
    # to the data (round-6 seed C01-G read one character of it only)
    sep = " " if st is None else st.ws1()
    return "<?" + p[1] + ("" if p[2] is None else sep + p[2]) + "?>"


def render_item(it, st):
    k = it[0]
    if k == "t":
        return it[1]
    if k in ("c", "e"):
        return render_pieces([it])
    if k == "d":
        return "<![CDATA[" + it[1] + "]]>"
    if k == "C":
        return "<!--" + it[1] + "-->"
    if k == "P":
        return render_pi(it, st)
    _, name, attrs, kids = it
    s = "<" + name
    for an, ps in attrs:
        s += st.ws1() + an + st.ws0() + "=" + st.ws0() + st.quote(render_pieces(ps))
    if not kids and st.empty_tag():
        return s + (" " if st.canonical else st.ws0()) + "/>"
    s += st.ws0() + ">"
    for kid in kids:
        s += render_item(kid, st)
    return s + "</" + name + st.ws0() + ">"


def render_ext(ext, st):
    if ext is None:
        return ""
    if ext[0] == "S":
        return st.ws1() + "SYSTEM" + st.ws1() + st.quote(ext[1])
    return st.ws1() + "PUBLIC" + st.ws1() + st.quote(ext[1]) + st.ws1() + st.quote(ext[2])


def render_dtd_item(it, st):
    k = it[0]
    if k == "Y" and it[2] == "i":
        return "<!ENTITY" + st.ws1() + it[1] + st.ws1() + st.quote(render_pieces(it[3])) + st.ws0() + ">"
    if k == "Y":
        ext = ("P", it[3], it[4]) if it[3] is not None else ("S", it[4])
        s = "<!ENTITY" + st.ws1() + it[1] + render_ext(ext, st)
        if it[5] is not None:
            s += st.ws1() + "NDATA" + st.ws1() + it[5]
        return s + st.ws0() + ">"
    if k == "N":
        s = "<!NOTATION" + st.ws1() + it[1]
        if it[3] is None:
            s += st.ws1() + "PUBLIC" + st.ws1() + st.quote(it[2])
        elif it[2] is None:
            s += st.ws1() + "SYSTEM" + st.ws1() + st.quote(it[3])
        else:
            s += st.ws1() + "PUBLIC" + st.ws1() + st.quote(it[2]) + st.ws1() + st.quote(it[3])
        return s + st.ws0() + ">"
    if k == "L":
        s = "<!ATTLIST" + st.ws1() + it[1]
        for an, ty, df in it[2]:
            s += st.ws1() + an + st.ws1() + ty + st.ws1()
            if df[0] == "R":
                s += "#REQUIRED"
            elif df[0] == "I":
                s += "#IMPLIED"
            else:
                s += ("#FIXED" + st.ws1() if df[1] else "") + st.quote(render_pieces(df[2]))
        return s + st.ws0() + ">"
    if k == "ELEMENT":
        return "<!ELEMENT" + st.ws1() + it[1] + st.ws1() + it[2] + st.ws0() + ">"
    if k == "DC":
        return "<!--" + it[1] + "-->"
    return render_pi(it, st)


def render(doc, st):
    s = ""
    if doc["decl"]:
        v, enc_, sd = doc["decl"]
        s += "<?xml" + st.ws1() + "version" + st.ws0() + "=" + st.ws0() + st.quote(v)
        if enc_ is not None:
            s += st.ws1() + "encoding" + st.ws0() + "=" + st.ws0() + st.quote(enc_)
        if sd is not None:
            s += st.ws1() + "standalone" + st.ws0() + "=" + st.ws0() + st.quote("yes" if sd else "no")
        s += st.ws0() + "?>"
    for m in doc["heads"]:
        s += render_item(m, st) + st.ws0()
    dt = doc["doctype"]
    if dt:
        s += "<!DOCTYPE" + st.ws1() + dt[1] + render_ext(dt[2], st)
        if dt[3] or (not st.canonical and st.r.random() < 0.2):
            s += (" " if st.canonical else st.ws0()) + "["
            for it in dt[3]:
                s += render_dtd_item(it, st) + st.ws0()
            s += "]"
        s += st.ws0() + ">" + st.ws0()
        for m in doc["mids"]:
            s += render_item(m, st) + st.ws0()
    s += render_item(doc["root"], st)
    for m in doc["tails"]:
        s += st.ws0() + render_item(m, st)
    return s + st.ws0()


# ---- denotation: the canonical dump the library must produce ------------------------------------

def d_pieces(ps):
    out = ""
    for p in ps:
        if p[0] == "t":
            out += "t(%s)" % e(p[1])
        elif p[0] == "c":
            out += "c(%s,%d)" % (e(p[1]), p[2])
        else:
            out += "e(%s)" % e(p[1])
    return out


def att_defs_for(doc, name):
    defs = []
    dt = doc["doctype"]
    if dt:
        for it in dt[3]:
            if it[0] == "L" and it[1] == name:
                for d in it[2]:
                    if not any(x[0] == d[0] for x in defs):
                        defs.append(d)
    return defs


def is_ns(an):
    return an.startswith("xmlns:") or an == "xmlns" or an.endswith(":xmlns")


def d_item(it, doc, req_quirk=True):
    k = it[0]
    if k == "t":
        return "t(%s)" % e(it[1])
    if k in ("c", "e"):
        return d_pieces([it])
    if k == "d":
        return "d(%s)" % e(it[1])
    if k == "C":
        return "C(%s)" % e(it[1])
    if k == "P":
        return "P(%s,%s)" % (e(it[1]), opt(it[2]))
    _, name, attrs, kids = it
    al = [(e(an), "A(%s,1)[%s]" % (e(an), d_pieces(ps))) for an, ps in attrs]
    plain = [an for an, _ in attrs if not is_ns(an)]
    for an, ty, df in att_defs_for(doc, name):
        if an in plain:
            continue
        if df[0] == "V":
            al.append((e(an), "A(%s,0)[%s]" % (e(an), d_pieces(df[2]))))
        elif df[0] == "R" and req_quirk:
            al.append((e(an), "A(%s,0)[]" % e(an)))
    al.sort()
    return "E(%s)[%s][%s]" % (e(name), "".join(a[1] for a in al), "".join(d_item(kid, doc, req_quirk) for kid in kids))


def canon_type(ty):
    return ty


def d_doctype(dt, doc):
    ls, ys, ns, ps = [], [], [], []
    cst = Style(None, canonical=True)
    for it in dt[3]:
        if it[0] == "L":
            ls.append("L(%s)" % e(render_dtd_item(it, cst)))
        elif it[0] == "Y" and it[2] == "i":
            ys.append("Y(%s,i)[%s]" % (e(it[1]), d_pieces(it[3])))
        elif it[0] == "Y":
            ys.append("Y(%s,x,%s,%s,%s)" % (e(it[1]), opt(it[3]), e(it[4]), opt(it[5])))
        elif it[0] == "N":
            ns.append("N(%s,%s,%s)" % (e(it[1]), opt(it[2]), opt(it[3])))
        elif it[0] == "P":
            ps.append(d_item(it, doc))
    ext = dt[2]
    pub = ext[1] if ext and ext[0] == "P" else None
    sys_ = None if ext is None else (ext[2] if ext[0] == "P" else ext[1])
    return "T(%s,%s,%s)[%s]" % (e(dt[1]), opt(pub), opt(sys_), "".join(ls + ys + ns + ps))


def denote(doc, req_quirk=True):
    tops = [d_item(m, doc) for m in doc["heads"]]
    if doc["doctype"]:
        tops.append(d_doctype(doc["doctype"], doc))
        tops += [d_item(m, doc) for m in doc["mids"]]
    tops.append(d_item(doc["root"], doc, req_quirk))
    tops += [d_item(m, doc) for m in doc["tails"]]
    if doc["decl"]:
        v, enc_, sd = doc["decl"]
        head = "D(%s,%s,%s)" % (e(v), opt(enc_), "~" if sd is None else ("y" if sd else "n"))
    else:
        head = "D(~,~,~)"
    return head + "[" + "".join(tops) + "]"


def features(doc):
    """feature tags of a document, for the measured input distribution"""
    f = set()
    if doc["decl"]:
        f.add("xmldecl")
    if doc["doctype"]:
        f.add("doctype")
        for it in doc["doctype"][3]:
            f.add("dtd:" + it[0])
    if doc["heads"] or doc["mids"] or doc["tails"]:
        f.add("misc")

    def walk(it):
        if it[0] == "E":
            f.add("elem")
            for an, ps in it[2]:
                f.add("attr")
                if is_ns(an):
                    f.add("nsdecl")
                for p in ps:
                    f.add("attr:" + p[0])
            if ":" in it[1]:
                f.add("prefixed")
            for kid in it[3]:
                walk(kid)
        else:
            f.add("item:" + it[0])
    walk(doc["root"])
    return f
