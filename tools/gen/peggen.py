"""Sentence generator for the grammars of tools/ref/*.json (the reviewed snapshots of the translated PEGs).

A random derivation of a production, with a dictionary of the grammar's own literals mixed into the character-class parts
(a name that merely BEGINS with a keyword, a digit of another script, ...).  What comes out need not be a sentence of the PEG
(ordered choice, greedy repetition): it is only ever used as an input on which two recognisers are compared."""
import json
import os
import re

REF = os.path.join(os.path.dirname(os.path.dirname(os.path.abspath(__file__))), "ref")

POOLS = {
    "P.isChar": list("abxyz 09<>&'\"-]?;=/!#%()[|*+,._:\t\n") + ["é", "界", " ", "\U0001D4B3"],
    "P.isNameStartChar": list("abcxmlns_:AZ") + ["é", "界", "٠"],
    "P.isNameChar": list("abcxmlns_:AZ019-.") + ["é", "·", "٠", "०"],
    "P.isSpace": [" ", "\t", "\n", "\r"],
    "P.isDigit": list("0123456789"),
    "P.isHexDigit": list("09afAF"),
    "P.isPubidChar": list("aZ09-'()+,./:=?;!*#@$_% \n") + ["٣", "é"],
    "P.isEncName": list("aZ09._-") + ["٨"],
    "P.isAlpha": list("azAZ"),
}


def tokenize(t):
    return re.findall(r"fun\b|=>|[A-Za-z_][A-Za-z0-9_.]*|\d+|[\[\](),]|\S", t)


class TermParser:
    def __init__(self, text):
        self.toks = tokenize(text)
        self.i = 0

    def peek(self):
        return self.toks[self.i] if self.i < len(self.toks) else None

    def eat(self, x=None):
        t = self.toks[self.i]
        assert x is None or t == x, (t, x, self.toks[max(0, self.i - 5):self.i + 5])
        self.i += 1
        return t

    def chars(self):
        self.eat("[")
        out = []
        while self.peek() != "]":
            if self.peek() == ",":
                self.eat()
                continue
            self.eat("Char.ofNat")
            out.append(chr(int(self.eat())))
        self.eat("]")
        return "".join(out)

    def pred(self):
        if self.peek() == "(":
            if self.toks[self.i + 1] == "fun":
                # an inline predicate: take the named class it mentions, minus the characters it compares with
                start = self.i
                self.skip_balanced()
                body = self.toks[start:self.i]
                base = next((t for t in body if t.startswith("P.is")), "P.isChar")
                ex = "".join(chr(int(body[k + 1])) for k, t in enumerate(body) if t == "Char.ofNat" and k + 1 < len(body))
                return ("except", ("p", base), ex)
            self.eat("(")
            p = self.pred()
            self.eat(")")
            return p
        name = self.eat()
        if name == "P.except":
            base = self.pred()
            ex = self.chars()
            return ("except", base, ex)
        return ("p", name)

    def skip_balanced(self):
        depth = 0
        while True:
            t = self.eat()
            if t == "(":
                depth += 1
            elif t == ")":
                depth -= 1
                if depth == 0:
                    return

    def atom(self):
        if self.peek() == "(":
            self.eat("(")
            g = self.term()
            self.eat(")")
            return g
        return self.term()

    def glist(self):
        self.eat("[")
        out = []
        while self.peek() != "]":
            if self.peek() == ",":
                self.eat()
                continue
            out.append(self.term())
        self.eat("]")
        return out

    def term(self):
        h = self.eat()
        if h == "G.tag":
            return ("tag", self.chars())
        if h == "G.one":
            return ("one", self.pred())
        if h == "G.cls0":
            return ("cls", 0, self.pred())
        if h == "G.cls1":
            return ("cls", 1, self.pred())
        if h == "G.until0":
            p = self.pred()
            return ("until", p, self.chars())
        if h == "G.seq":
            return ("seq", self.glist())
        if h == "G.alt":
            return ("alt", self.glist())
        if h == "G.many0":
            return ("many", self.atom())
        if h == "G.verify":
            g = self.atom()
            if self.peek() == "(":
                self.skip_balanced()
            else:
                self.eat()          # a named predicate on the tree
            return ("verify", g)
        if h == "G.nt":
            return ("nt", self.eat()[2:].replace("«", "").replace("»", ""))
        raise ValueError("term: " + h)


def pool(p):
    if p[0] == "except":
        return [c for c in pool(p[1]) if c not in p[2]] or ["a"]
    return POOLS.get(p[1], ["a", "b"])


class Gen:
    def __init__(self, name, rng):
        snap = json.load(open(os.path.join(REF, name + ".json")))
        self.prods = {}
        for n, t in snap["prods"]:
            try:
                self.prods[n] = TermParser(t).term()
            except Exception:
                self.prods[n] = ("tag", "")
        self.r = rng
        self.soft, self.hard = (24, 48) if name == "xpath" else (9, 16)
        self.words = sorted({w for _, t in snap["prods"] for w in self._literals(t) if w.isalpha() and len(w) >= 2})

    @staticmethod
    def _literals(t):
        out = []
        for m in re.finditer(r"G\.tag \[([^\]]*)\]", t):
            out.append("".join(chr(int(x)) for x in re.findall(r"Char\.ofNat (\d+)", m.group(1))))
        return out

    def cls(self, lo, p):
        r = self.r
        pl = pool(p)
        n = r.choice([0, 1, 1, 2, 3, 5]) if lo == 0 else r.choice([1, 1, 2, 3, 5])
        if p == ("p", "P.isSpace"):
            n = r.choice([0, 0, 0, 1, 1, 2]) if lo == 0 else r.choice([1, 1, 2])
        s = "".join(r.choice(pl) for _ in range(n))
        if self.words and r.random() < 0.2:
            w = r.choice(self.words)
            if all(c in pl or c.isalnum() and "a" in pl for c in w):
                s = w + s if r.random() < 0.7 else w
        return s

    def gen(self, g, depth=0):
        """depth counts nested productions (the precedence chain of an expression grammar alone is a dozen deep)"""
        r = self.r
        k = g[0]
        if k == "tag":
            return g[1]
        if k == "one":
            return r.choice(pool(g[1]))
        if k == "cls":
            return self.cls(g[1], g[2])
        if k == "until":
            s = self.cls(0, g[1])
            return s.replace(g[2], g[2][:-1]) if g[2] else s
        if k == "seq":
            return "".join(self.gen(x, depth) for x in g[1])
        if k == "alt":
            alts = g[1]
            if not alts:
                return ""
            if depth > self.soft or r.random() < depth / (2.0 * self.soft):
                return self.gen(min(alts, key=lambda a: len(repr(a))), depth)
            return self.gen(r.choice(alts), depth)
        if k == "many":
            # repetitions get rarer with depth, so that a derivation stays a few dozen characters long
            if depth > self.soft or r.random() < min(0.9, 0.55 + 0.02 * depth):
                n = 0
            else:
                n = r.choice([1, 1, 2])
            return "".join(self.gen(g[1], depth) for _ in range(n))
        if k == "verify":
            s = self.gen(g[1], depth)
            # `tagNamesMatch`: make the end tag repeat the start tag's name most of the time
            m = re.match(r"<([^\s/>]+)", s)
            m2 = re.search(r"</([^\s>]*)\s*>$", s)
            if m and m2 and r.random() < 0.85:
                s = s[:m2.start(1)] + m.group(1) + s[m2.end(1):]
            return s
        if k == "nt":
            if depth > self.hard:
                return ""
            s = self.gen(self.prods.get(g[1]) or self.prods.get(g[1].rstrip("_")) or ("tag", ""), depth + 1)
            # a name that merely BEGINS with (or equals) one of the grammar's own keywords
            if s and self.words and len(s) <= 12 and all(c.isalnum() or c in "-._" for c in s) and r.random() < 0.12:
                w = r.choice(self.words)
                s = r.choice([w + s, w + s, w, w + s[:1], s + w])
            return s
        return ""

    def sentence(self, prod):
        return self.gen(("nt", prod))

    def punct_deletions(self, text, limit=12):
        """the text with ONE of its punctuation characters deleted, for up to `limit` of them (a required delimiter, quote,
        occurrence indicator, ... missing)"""
        idx = [i for i, c in enumerate(text) if not c.isalnum() and not c.isspace()]
        if len(idx) > limit:
            idx = self.r.sample(idx, limit)
        return [text[:i] + text[i + 1:] for i in idx]

    def mutants(self, text, k=2):
        """single-character deletions / duplications / swaps of a sentence (one character away from it)"""
        r = self.r
        out = []
        for _ in range(k):
            if not text:
                break
            i = r.randrange(len(text))
            kind = r.random()
            if kind < 0.5:
                out.append(text[:i] + text[i + 1:])
            elif kind < 0.75:
                out.append(text[:i] + text[i] + text[i:])
            else:
                j = r.randrange(len(text))
                lst = list(text)
                lst[i], lst[j] = lst[j], lst[i]
                out.append("".join(lst))
        return out
