"""Generator of DOM edit histories (properties C12 - C15): an initial document and a sequence of operations of the `dom`
line-protocol op, with a shadow of the handle table so that most operations are meaningful.  Every allocating
operation consumes exactly one handle slot whatever its outcome (harness and model do the same), so the shadow's
numbering is exact; what a slot holds is only assumed."""
import lib

NAMES_OK = ["a", "b", "k", "x1", "n-1", "é"]
NAMES_BAD = ["1a", "a b", "", "<", "a'", "x:"]
# (the last ones: code points that are not XML Chars - a control character, a vertical tab, the two non-characters -: data with
# them cannot be written so that it parses back and has to be refused; round-7 seed C15-J skipped the Char test on a fast path)
ALPHA = ["a", " ", "<", "&", ">", "'", '"', "-", "]", "?", ";", "#", "é", "x", "]]>", "--", "?>", "&amp;", "&#65;",
         "\u0001", "\u000b", "\ufffe", "\uffff", "\u001f"]
ALLOC = ("ce", "ct", "cc", "cd", "cp", "ca", "cr", "st", "ga", "ch", "gni")


def enc2(s):
    """strings inside an op field are percent-encoded once more (the field separator is ':')"""
    return lib.enc(s)


class Hist:
    def __init__(self, rng, max_ops=12, hostile=0.25):
        self.r = rng
        self.max_ops = max_ops
        self.hostile = hostile
        self.shadow = []       # kind per handle slot (None = empty / unknown)
        self.text = ""
        self.kids = {}         # handle -> child handles as parsed (elements and the document only)
        self.par = {}          # handle -> parent handle as parsed
        self.pending = []      # operations queued by a targeted scenario

    # ---- initial document ---------------------------------------------------------------------------
    def gen_doc(self):
        r = self.r
        self.shadow = ["doc"]
        self.with_ns = r.random() < 0.25
        self.samelocal = []    # elements parsed with p:x and q:x (one local part twice)

        def elem(depth, parent=0):
            name = r.choice(["r", "a", "b", "c"])
            self.shadow.append("elem")
            me = len(self.shadow) - 1
            self.kids[me] = []
            self.kids.setdefault(parent, []).append(me)
            self.par[me] = parent
            s = "<" + name
            used = set()
            if depth == 0 and getattr(self, "with_ns", False):
                s += " xmlns:p='urn:u1' xmlns:q='urn:u2'"
            if getattr(self, "with_ns", False) and r.random() < 0.35:
                # two attributes with one local part under different prefixes (only a parsed document can hold them:
                # the DOM addresses attributes by local part)
                self.samelocal.append(me)
                for an in ("p:x", "q:x"):
                    used.add(an)
                    used.add("x")
                    self.shadow.append("attr")
                    s += ' %s="%s"' % (an, r.choice(["1", "2"]))
                    self.shadow.append("text")
            for _ in range(r.choice([0, 0, 1, 2])):
                an = r.choice(["x", "y", "id"])
                if an in used:
                    continue
                used.add(an)
                self.shadow.append("attr")
                if r.random() < 0.2:
                    s += ' %s="v&amp;w"' % an
                    self.shadow += ["text", "ref", "text"]
                else:
                    s += ' %s="%s"' % (an, r.choice(["1", "v", "a b"]))
                    self.shadow.append("text")
            kids = ""
            last_text = False
            if depth < 3:
                for _ in range(r.choice([0, 1, 2, 3]) if depth < 2 else r.choice([0, 0, 1])):
                    k = r.random()
                    if k < 0.3 and not last_text:
                        kids += r.choice(["t", "hello", "x y", "a]]", "]", "]]", "é界", "日本語"])
                        self.shadow.append("text")
                        self.kids[me].append(len(self.shadow) - 1)
                        self.par[len(self.shadow) - 1] = me
                        last_text = True
                        continue
                    last_text = False
                    if k < 0.4:
                        kids += "<!--%s-->" % r.choice(["c", "a-b", "", "a-x-b", "ab-c", "-x"])
                        self.shadow.append("comment")
                    elif k < 0.5:
                        kids += "<?%s%s?>" % (r.choice(["pi", "tg"]), r.choice(["", " d"]))
                        self.shadow.append("pi")
                    elif k < 0.58:
                        kids += "<![CDATA[%s]]>" % r.choice(["cd", "a<b", "", "]]x>", "]x]>", "日本語", "é\U0001D4B3"])
                        self.shadow.append("cdata")
                    elif k < 0.64:
                        kids += r.choice(["&amp;", "&#65;"])
                        self.shadow.append("ref")
                    else:
                        kids += elem(depth + 1, me)
                        continue
                    self.kids[me].append(len(self.shadow) - 1)
                    self.par[len(self.shadow) - 1] = me
            return s + ("/>" if not kids and r.random() < 0.5 else ">" + kids + "</" + name + ">")

        head = ""
        self.kids[0] = []
        if r.random() < 0.25:
            # sometimes with declarations: the document type then has entity and notation maps (read-only in the DOM)
            head = r.choice(["<!DOCTYPE r>", "<!DOCTYPE r>",
                             "<!DOCTYPE r [<!ENTITY e 'v'><!NOTATION n SYSTEM 's'><!ENTITY u SYSTEM 'x' NDATA n>]>"])
            self.shadow.append("doctype")
            self.kids[0].append(len(self.shadow) - 1)
        if r.random() < 0.2:
            head += "<!--top-->"
            self.shadow.append("comment")
            self.kids[0].append(len(self.shadow) - 1)
        if r.random() < 0.15:
            head += "<?pi h?>"
            self.shadow.append("pi")
            self.kids[0].append(len(self.shadow) - 1)
        body = elem(0)
        tail = ""
        if r.random() < 0.15:
            tail = "<!--end-->"
            self.shadow.append("comment")
            self.kids[0].append(len(self.shadow) - 1)
        self.text = head + body + tail
        return self.text

    # ---- picking -------------------------------------------------------------------------------------
    def pick(self, kinds=None):
        r = self.r
        if kinds is None or r.random() < self.hostile:
            return r.randrange(len(self.shadow) + (1 if r.random() < 0.03 else 0))
        cands = [i for i, k in enumerate(self.shadow) if k in kinds]
        if not cands:
            return r.randrange(len(self.shadow))
        return r.choice(cands)

    def name(self):
        r = self.r
        return r.choice(NAMES_BAD) if r.random() < self.hostile * 0.6 else r.choice(NAMES_OK)

    def data(self, kind="text"):
        r = self.r
        if r.random() < self.hostile:
            return "".join(r.choice(ALPHA) for _ in range(r.randint(0, 4)))
        # white space at either end matters where the serialization has a separator next to the data (<?t data?>)
        if r.random() < 0.04:
            return r.choice(["a\u0001", "\u000bz", "x\ufffe", "\uffff", "ok\u001f"])
        return r.choice(["t", "ab", "x y", "é", "12", "", "a-b", "a]]", ">b", "]", "]>x", "a-x-b", "ab-c", "]]x>",
                         " x", "  x y ", "\n\tz", "\tq ", " ", "x\r\ny", "\u00a0x",
                         # both kinds of quote (an attribute value that holds them has to be written with a reference)
                         "it's \"so\"", "\"", "'", "'\""])

    def attr_value(self):
        """a string handed to setAttribute / Attr.value: like data(), or text with references (declared, undeclared, numeric) -
        a value that parses as an attribute value but refers to an unknown entity is refused as a whole"""
        r = self.r
        if r.random() < 0.55:
            return self.data()
        return r.choice(["new &nosuch; text", "1&amp;2&bad;3", "&lt;ok&gt;", "&#65;&#x42;", "a&amp;b", "x&#60;y", "&quot;q&quot;",
                         "it's \"q\"", "&amp;&amp;", "a&amp", "&#0;", "&#x10FFFF;z", "v&gt;w&apos;"])

    def h(self, i):
        return "h%d" % i

    def descendants(self, h):
        out = []
        for k in self.kids.get(h, []):
            out.append(k)
            out += self.descendants(k)
        return out

    def scenario(self):
        """a short targeted sequence (queued): the situations single random calls rarely reach"""
        r = self.r
        k = r.random()
        elems = [h for h, kind in enumerate(self.shadow) if kind == "elem" and h in self.kids]
        if k < 0.35 and elems:
            # a node is handed to one of its own descendants - attached, or detached first
            x = r.choice(elems)
            ds = [d for d in self.descendants(x) if self.shadow[d] == "elem"]
            if ds:
                y = r.choice(ds)
                seq = []
                if r.random() < 0.6 and x in self.par:
                    seq.append("rm:%s:%s" % (self.h(self.par[x]), self.h(x)))
                kk = r.random()
                if kk < 0.4:
                    seq.append("ap:%s:%s" % (self.h(y), self.h(x)))
                elif kk < 0.7:
                    ref = self.kids.get(y) or None
                    seq.append("ib:%s:%s:%s" % (self.h(y), self.h(x), self.h(ref[0]) if ref else "-"))
                else:
                    ref = self.kids.get(y) or None
                    seq.append("rc:%s:%s:%s" % (self.h(y), self.h(x), self.h(ref[0]) if ref else self.h(x)))
                return seq
        if k < 0.55:
            # the document and its unique children: document element and document type taken out and put back
            root = [h for h in self.kids.get(0, []) if self.shadow[h] == "elem"]
            dts = [h for h in self.kids.get(0, []) if self.shadow[h] == "doctype"]
            seq = []
            if root and r.random() < 0.7:
                seq.append("rm:h0:%s" % self.h(root[0]))
            if dts:
                seq.append(r.choice(["ap:h0:%s", "ib:h0:%s:-", "rm:h0:%s"]) % self.h(dts[0]))
                if r.random() < 0.5:
                    seq.append("ap:h0:%s" % self.h(dts[0]))
            if root:
                seq.append(r.choice(["ap:h0:%s", "ib:h0:%s:-"]) % self.h(root[0]))
            # a child replaced by the node that FOLLOWS it (for the unique children of a document such a call can be refused:
            # the old child must then be back exactly where it stood)
            dk = self.kids.get(0, [])
            if len(dk) >= 2 and r.random() < 0.6:
                i = r.randrange(len(dk) - 1)
                seq.append("rc:h0:%s:%s" % (self.h(dk[i + 1]), self.h(dk[i])))
            if seq:
                return seq
        if k < 0.8 and elems:
            # two text nodes side by side whose data only together are markup-significant
            e = r.choice(elems)
            a, b = r.choice([("a]]", ">b"), ("]", "]>"), ("x", "y"), ("a]", "]>b"), ("&", "amp;")])
            n = len(self.shadow)
            self.shadow += ["text", "text"]
            seq = ["ct:" + enc2(a), "ap:%s:%s" % (self.h(e), self.h(n)), "ct:" + enc2(b), "ap:%s:%s" % (self.h(e), self.h(n + 1))]
            if r.random() < 0.5:
                # ... and then normalize the element, or an ancestor of it
                anc = e
                while r.random() < 0.4 and self.par.get(anc, 0) != 0:
                    anc = self.par[anc]
                seq.append("nz:%s" % self.h(anc))
            return seq
        if k < 0.88:
            # an attribute NODE of another element (same name, same value) handed to removeAttributeNode / setAttributeNode
            els = [h for h, kind in enumerate(self.shadow) if kind == "elem"]
            if len(els) >= 2:
                e1, e2 = r.sample(els, 2)
                n = len(self.shadow)
                self.shadow += ["attr", "attr"]
                nm, v = r.choice(["id", "k"]), r.choice(["1", "v"])
                return ["sa:%s:%s:%s" % (self.h(e1), nm, v), "sa:%s:%s:%s" % (self.h(e2), nm, v),
                        "ga:%s:%s" % (self.h(e1), nm), "ga:%s:%s" % (self.h(e2), nm),
                        r.choice(["ran:%s:%s", "san:%s:%s"]) % (self.h(e1), self.h(n + 1)), "ran:%s:%s" % (self.h(e2), self.h(n + 1))]
        if k < 0.94 and getattr(self, "samelocal", None):
            # an element that holds two attributes of one local part: address the SECOND (or the first) by qualified name
            e = r.choice(self.samelocal)
            qn = r.choice(["q:x", "q:x", "p:x", "x"])
            kk = r.random()
            if kk < 0.5:
                return ["sa:%s:%s:%s" % (self.h(e), enc2(qn), r.choice(["3", "v"]))]
            if kk < 0.75:
                n = len(self.shadow)
                self.shadow.append("attr")
                return ["ca:" + enc2(qn), "san:%s:%s" % (self.h(e), self.h(n))]
            return ["ra:%s:%s" % (self.h(e), enc2(r.choice(["x", "q:x"]))), "sa:%s:%s:%s" % (self.h(e), enc2(qn), "4")]
        # deleting exactly the characters that keep a forbidden sequence apart
        cs = [h for h, kind in enumerate(self.shadow) if kind in ("comment", "cdata")]
        if cs:
            c = r.choice(cs)
            tmpl = r.choice(["dd:H:2:1", "dd:H:3:1", "dd:H:1:1", "rd:H:2:1:", "rd:H:2:1:-", "dd:H:2:2", "rd:H:2:1:y", "rd:H:3:M:d",
                             "id:H:2:x", "id:H:3:" + enc2("é"), "dd:H:2:1", "st:H:2"])
            return [tmpl.replace("H", self.h(c), 1)]
        return []

    def op(self):
        r = self.r
        if self.pending:
            return self.pending.pop(0)
        if r.random() < 0.12:
            seq = self.scenario()
            if seq:
                self.pending = seq[1:]
                return seq[0]
        k = r.random()
        containers = ("elem", "doc", "attr")
        leafs = ("text", "comment", "cdata", "pi", "ref", "elem", "elem", "doctype")
        if k < 0.16:
            name = r.choice(["ce", "ct", "cc", "cd", "cp", "ca", "cr"])
            if name == "ce":
                nm = self.name()
                self.shadow.append("elem" if nm in NAMES_OK else None)
                return "ce:" + enc2(nm)
            if name in ("ct", "cc", "cd"):
                d = self.data()
                # assume success unless markup characters are present
                bad = any(c in d for c in "<&") or "]]>" in d or ("--" in d and name == "cc") or (name == "cc" and d.endswith("-"))
                self.shadow.append(None if bad else {"ct": "text", "cc": "comment", "cd": "cdata"}[name])
                return name + ":" + enc2(d)
            if name == "cp":
                nm = self.name()
                d = self.data()
                self.shadow.append("pi" if nm in NAMES_OK and "?>" not in d else None)
                return "cp:%s:%s" % (enc2(nm), enc2(d))
            if name == "ca":
                nm = self.name()
                self.shadow.append("attr" if nm in NAMES_OK else None)
                return "ca:" + enc2(nm)
            # (names that only BEGIN with the name of an entity: the whole argument has to be a Name; round-7 seed C18-J)
            nm = r.choice(["amp", "lt", "quot", "nosuch", "1x", "gt", "amp;x", "lt;gt", "amp;", "quot; x='1'", "apos", "#38", "amp "])
            self.shadow.append("ref" if nm in ("amp", "lt", "quot", "gt", "apos") else None)
            return "cr:" + enc2(nm)
        if k < 0.36:
            return "ap:%s:%s" % (self.h(self.pick(containers)), self.h(self.pick(leafs)))
        if k < 0.48:
            ref = "-" if r.random() < 0.2 else self.h(self.pick(leafs))
            return "ib:%s:%s:%s" % (self.h(self.pick(containers)), self.h(self.pick(leafs)), ref)
        if k < 0.56:
            return "rc:%s:%s:%s" % (self.h(self.pick(containers)), self.h(self.pick(leafs)), self.h(self.pick(leafs)))
        if k < 0.66:
            return "rm:%s:%s" % (self.h(self.pick(containers)), self.h(self.pick(leafs)))
        if k < 0.72:
            names = ["x", "y", "id", "k"] + (["p:x", "q:x", "q:x", "p:y"] if getattr(self, "with_ns", False) else [])
            return "sa:%s:%s:%s" % (self.h(self.pick(("elem",))), enc2(r.choice(names) if r.random() > 0.1 else self.name()),
                                    enc2(self.attr_value()))
        if k < 0.75:
            # removeAttribute, or the same through the element's NamedNodeMap (NOT_FOUND_ERR when there is none)
            return "%s:%s:%s" % (r.choice(["ra", "ra", "rni"]), self.h(self.pick(("elem",))), enc2(r.choice(["x", "y", "id", "k", "zz"])))
        if k < 0.79:
            return "%s:%s:%s" % (r.choice(["san", "san", "sni"]), self.h(self.pick(("elem",))), self.h(self.pick(("attr",))))
        if k < 0.81:
            return "ran:%s:%s" % (self.h(self.pick(("elem",))), self.h(self.pick(("attr",))))
        if k < 0.84:
            self.shadow.append("attr")
            return "%s:%s:%s" % (r.choice(["ga", "ga", "gni"]), self.h(self.pick(("elem",))), enc2(r.choice(["x", "y", "id", "k"])))
        if k < 0.86:
            # Element.normalize: merges the runs of Text nodes below the element and in its attribute values
            return "nz:%s" % self.h(self.pick(("elem",)))
        if k < 0.87:
            self.shadow.append(r.choice(["text", "elem", "comment", None]))
            return "ch:%s:%d" % (self.h(self.pick(containers)), r.choice([0, 0, 1, 2, 5]))
        if k < 0.90:
            tgt = self.pick(("attr", "attr", "text", "comment", "cdata", "pi"))
            return "sv:%s:%s" % (self.h(tgt), enc2(self.attr_value() if tgt < len(self.shadow) and self.shadow[tgt] == "attr" else self.data()))
        cd = ("text", "comment", "cdata")
        off = lambda: r.choice(["0", "0", "1", "2", "3", "7", "M"])
        if k < 0.92:
            return "sd:%s:%s" % (self.h(self.pick(cd + ("pi",))), enc2(self.data()))
        if k < 0.935:
            return "ad:%s:%s" % (self.h(self.pick(cd)), enc2(self.data()))
        if k < 0.95:
            return "id:%s:%s:%s" % (self.h(self.pick(cd)), off(), enc2(self.data()))
        if k < 0.965:
            return "dd:%s:%s:%s" % (self.h(self.pick(cd)), off(), off())
        if k < 0.98:
            return "rd:%s:%s:%s:%s" % (self.h(self.pick(cd)), off(), off(), enc2(self.data()))
        self.shadow.append("text")
        return "st:%s:%s" % (self.h(self.pick(("text", "cdata"))), off())

    def deep_chain_up(self, depth):
        """the same bottom-up: each created element takes the chain built so far as its child (the HEIGHT of the argument
        grows), then the whole chain goes below the document element"""
        ops = []
        first = len(self.shadow)
        for i in range(depth):
            ops.append("ce:m")
            self.shadow.append("elem")
        for i in range(1, depth):
            ops.append("ap:%s:%s" % (self.h(first + i), self.h(first + i - 1)))
        root = [h for h in self.kids.get(0, []) if self.shadow[h] == "elem"]
        if root:
            ops.append("ap:%s:%s" % (self.h(root[0]), self.h(first + depth - 1)))
            ops.append("ap:%s:%s" % (self.h(root[0]), self.h(first + depth // 2)))
            ops.append("ib:%s:%s:-" % (self.h(first + depth // 2), self.h(first + depth - 2)))
        return ops

    def deep_move(self, limit):
        """a chain attached below the document element down to level limit-1, a small subtree attached elsewhere, then the
        ATTACHED subtree is moved to the bottom of the chain (must be refused: it would reach below the limit), its leaf alone
        is moved there (allowed: level = limit), and its former parent below that leaf (refused)  (round-6 seed C15-G checked the
        depth of detached arguments only)"""
        ops = []
        root = [h for h in self.kids.get(0, []) if self.shadow[h] == "elem"]
        if not root:
            return ops
        first = len(self.shadow)
        n = limit - 2
        for i in range(n + 3):
            ops.append("ce:d")
            self.shadow.append("elem")
        parent = root[0]
        for i in range(n):
            ops.append("ap:%s:%s" % (self.h(parent), self.h(first + i)))
            parent = first + i
        s1, s2, s3 = first + n, first + n + 1, first + n + 2
        ops += ["ap:%s:%s" % (self.h(root[0]), self.h(s1)), "ap:%s:%s" % (self.h(s1), self.h(s2)), "ap:%s:%s" % (self.h(s2), self.h(s3))]
        ops += ["ap:%s:%s" % (self.h(parent), self.h(s1)), "ap:%s:%s" % (self.h(parent), self.h(s3)), "ap:%s:%s" % (self.h(s3), self.h(s2)),
                "ib:%s:%s:-" % (self.h(parent), self.h(s2)), "rc:%s:%s:%s" % (self.h(parent), self.h(s1), self.h(s3))]
        return ops

    def deep_chain(self, depth):
        """created elements appended one below the other: a tree deeper than any the parser accepts"""
        ops = []
        first = len(self.shadow)
        for i in range(depth):
            ops.append("ce:n")
            self.shadow.append("elem")
        root = [h for h in self.kids.get(0, []) if self.shadow[h] == "elem"]
        parent = root[0] if root else 0
        for i in range(depth):
            ops.append("ap:%s:%s" % (self.h(parent), self.h(first + i)))
            parent = first + i
        ops.append("ct:leaf")
        self.shadow.append("text")
        ops.append("ap:%s:%s" % (self.h(parent), self.h(first + depth)))
        return ops

    def history(self):
        self.gen_doc()
        n = self.r.randint(1, self.max_ops)
        ops = [self.op() for _ in range(n)]
        return self.text, ops + self.pending


def canon_status(s):
    """error classes that are not DOM exceptions (the library's info / parse errors) are one class"""
    if s.startswith("err:info-") or s.startswith("err:parse"):
        return "err:invalid"
    return s


def split_records(ans):
    """`status {dump} inv=.. ord=.. rt=.. q=..` records -> list of dict(status, dump, flags)"""
    out = []
    for rec in ans.split(" | "):
        if "{" not in rec:
            out.append({"status": rec, "dump": "", "flags": {}})
            continue
        status, rest = rec.split(" {", 1)
        dump, _, tail = rest.rpartition("}")
        flags = {}
        for part in tail.strip().split(" "):
            if "=" in part:
                k, v = part.split("=", 1)
                flags[k] = v
        # flags may contain spaces inside BAD(...): re-split more carefully
        t = tail.strip()
        flags = {}
        import re
        for m in re.finditer(r"(inv|ord|rt|q)=(ok|skip|BAD\(.*?\))(?= (?:inv|ord|rt|q)=|$)", t):
            flags[m.group(1)] = m.group(2)
        out.append({"status": canon_status(status), "dump": dump, "flags": flags})
    return out
