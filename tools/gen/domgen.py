"""Generator of DOM edit histories (properties C12 - C15): an initial document and a sequence of operations of the `dom`
line-protocol op, with a shadow of the handle table so that most operations are meaningful.  Every allocating
operation consumes exactly one handle slot whatever its outcome (harness and model do the same), so the shadow's
numbering is exact; what a slot holds is only assumed."""
import lib

NAMES_OK = ["a", "b", "k", "x1", "n-1", "é"]
NAMES_BAD = ["1a", "a b", "", "<", "a'", "x:"]
ALPHA = ["a", " ", "<", "&", ">", "'", '"', "-", "]", "?", ";", "#", "é", "x", "]]>", "--", "?>", "&amp;", "&#65;"]
ALLOC = ("ce", "ct", "cc", "cd", "cp", "ca", "cr", "st", "ga", "ch")


def enc2(s):
    """strings inside an op field are percent-encoded once more (the field separator is ':')"""
    return lib.enc(s)


class Hist:
    def __init__(self, rng, max_ops=12, hostile=0.25):
        self.r = rng
        self.max_ops = max_ops
        self.hostile = hostile
        self.shadow = []       # kind per handle slot (None = empty / unknown)
        self.text = ""

    # ---- initial document ---------------------------------------------------------------------------
    def gen_doc(self):
        r = self.r
        self.shadow = ["doc"]

        def elem(depth):
            name = r.choice(["r", "a", "b", "c"])
            self.shadow.append("elem")
            s = "<" + name
            used = set()
            for _ in range(r.choice([0, 0, 1, 2])):
                an = r.choice(["x", "y", "id"])
                if an in used:
                    continue
                used.add(an)
                self.shadow.append("attr")
                if r.random() < 0.2:
                    s += ' %s="v&amp;w"' % an
                    self.shadow += ["text", "ref", "text"]
                else:
                    s += ' %s="%s"' % (an, r.choice(["1", "v", "a b"]))
                    self.shadow.append("text")
            kids = ""
            last_text = False
            if depth < 2:
                for _ in range(r.choice([0, 1, 2, 3])):
                    k = r.random()
                    if k < 0.3 and not last_text:
                        kids += r.choice(["t", "hello", "x y"])
                        self.shadow.append("text")
                        last_text = True
                        continue
                    last_text = False
                    if k < 0.4:
                        kids += "<!--%s-->" % r.choice(["c", "a-b", ""])
                        self.shadow.append("comment")
                    elif k < 0.5:
                        kids += "<?%s%s?>" % (r.choice(["pi", "tg"]), r.choice(["", " d"]))
                        self.shadow.append("pi")
                    elif k < 0.58:
                        kids += "<![CDATA[%s]]>" % r.choice(["cd", "a<b", ""])
                        self.shadow.append("cdata")
                    elif k < 0.64:
                        kids += r.choice(["&amp;", "&#65;"])
                        self.shadow.append("ref")
                    else:
                        kids += elem(depth + 1)
            return s + ("/>" if not kids and r.random() < 0.5 else ">" + kids + "</" + name + ">")

        head = ""
        if r.random() < 0.2:
            head = "<!--top-->"
            self.shadow.append("comment")
        if r.random() < 0.15:
            head += "<?pi h?>"
            self.shadow.append("pi")
        body = elem(0)
        tail = ""
        if r.random() < 0.15:
            tail = "<!--end-->"
            self.shadow.append("comment")
        self.text = head + body + tail
        return self.text

    # ---- picking -------------------------------------------------------------------------------------
    def pick(self, kinds=None):
        r = self.r
        if kinds is None or r.random() < self.hostile:
            return r.randrange(len(self.shadow) + (1 if r.random() < 0.03 else 0))
        cands = [i for i, k in enumerate(self.shadow) if k in kinds]
        if not cands:
            return r.randrange(len(self.shadow))
        return r.choice(cands)

    def name(self):
        r = self.r
        return r.choice(NAMES_BAD) if r.random() < self.hostile * 0.6 else r.choice(NAMES_OK)

    def data(self, kind="text"):
        r = self.r
        if r.random() < self.hostile:
            return "".join(r.choice(ALPHA) for _ in range(r.randint(0, 4)))
        return r.choice(["t", "ab", "x y", "é", "12", "", "a-b"])

    def h(self, i):
        return "h%d" % i

    def op(self):
        r = self.r
        k = r.random()
        containers = ("elem", "doc", "attr")
        leafs = ("text", "comment", "cdata", "pi", "ref", "elem")
        if k < 0.16:
            name = r.choice(["ce", "ct", "cc", "cd", "cp", "ca", "cr"])
            if name == "ce":
                nm = self.name()
                self.shadow.append("elem" if nm in NAMES_OK else None)
                return "ce:" + enc2(nm)
            if name in ("ct", "cc", "cd"):
                d = self.data()
                # assume success unless markup characters are present
                bad = any(c in d for c in "<&") or "]]>" in d or ("--" in d and name == "cc") or (name == "cc" and d.endswith("-"))
                self.shadow.append(None if bad else {"ct": "text", "cc": "comment", "cd": "cdata"}[name])
                return name + ":" + enc2(d)
            if name == "cp":
                nm = self.name()
                d = self.data()
                self.shadow.append("pi" if nm in NAMES_OK and "?>" not in d else None)
                return "cp:%s:%s" % (enc2(nm), enc2(d))
            if name == "ca":
                nm = self.name()
                self.shadow.append("attr" if nm in NAMES_OK else None)
                return "ca:" + enc2(nm)
            nm = r.choice(["amp", "lt", "quot", "nosuch", "1x", "gt"])
            self.shadow.append("ref" if nm in ("amp", "lt", "quot", "gt") else None)
            return "cr:" + enc2(nm)
        if k < 0.36:
            return "ap:%s:%s" % (self.h(self.pick(containers)), self.h(self.pick(leafs)))
        if k < 0.48:
            ref = "-" if r.random() < 0.2 else self.h(self.pick(leafs))
            return "ib:%s:%s:%s" % (self.h(self.pick(containers)), self.h(self.pick(leafs)), ref)
        if k < 0.56:
            return "rc:%s:%s:%s" % (self.h(self.pick(containers)), self.h(self.pick(leafs)), self.h(self.pick(leafs)))
        if k < 0.66:
            return "rm:%s:%s" % (self.h(self.pick(containers)), self.h(self.pick(leafs)))
        if k < 0.72:
            return "sa:%s:%s:%s" % (self.h(self.pick(("elem",))), enc2(r.choice(["x", "y", "id", "k"]) if r.random() > 0.1 else self.name()),
                                    enc2(self.data()))
        if k < 0.75:
            return "ra:%s:%s" % (self.h(self.pick(("elem",))), enc2(r.choice(["x", "y", "id", "k", "zz"])))
        if k < 0.79:
            return "san:%s:%s" % (self.h(self.pick(("elem",))), self.h(self.pick(("attr",))))
        if k < 0.81:
            return "ran:%s:%s" % (self.h(self.pick(("elem",))), self.h(self.pick(("attr",))))
        if k < 0.84:
            self.shadow.append("attr")
            return "ga:%s:%s" % (self.h(self.pick(("elem",))), enc2(r.choice(["x", "y", "id", "k"])))
        if k < 0.87:
            self.shadow.append(r.choice(["text", "elem", "comment", None]))
            return "ch:%s:%d" % (self.h(self.pick(containers)), r.choice([0, 0, 1, 2, 5]))
        if k < 0.90:
            return "sv:%s:%s" % (self.h(self.pick(("attr", "text", "comment", "cdata", "pi"))), enc2(self.data()))
        cd = ("text", "comment", "cdata")
        off = lambda: r.choice(["0", "0", "1", "2", "3", "7", "M"])
        if k < 0.92:
            return "sd:%s:%s" % (self.h(self.pick(cd + ("pi",))), enc2(self.data()))
        if k < 0.935:
            return "ad:%s:%s" % (self.h(self.pick(cd)), enc2(self.data()))
        if k < 0.95:
            return "id:%s:%s:%s" % (self.h(self.pick(cd)), off(), enc2(self.data()))
        if k < 0.965:
            return "dd:%s:%s:%s" % (self.h(self.pick(cd)), off(), off())
        if k < 0.98:
            return "rd:%s:%s:%s:%s" % (self.h(self.pick(cd)), off(), off(), enc2(self.data()))
        self.shadow.append("text")
        return "st:%s:%s" % (self.h(self.pick(("text", "cdata"))), off())

    def history(self):
        self.gen_doc()
        n = self.r.randint(1, self.max_ops)
        return self.text, [self.op() for _ in range(n)]


def canon_status(s):
    """error classes that are not DOM exceptions (the library's info / parse errors) are one class"""
    if s.startswith("err:info-") or s.startswith("err:parse"):
        return "err:invalid"
    return s


def split_records(ans):
    """`status {dump} inv=.. ord=.. rt=.. q=..` records -> list of dict(status, dump, flags)"""
    out = []
    for rec in ans.split(" | "):
        if "{" not in rec:
            out.append({"status": rec, "dump": "", "flags": {}})
            continue
        status, rest = rec.split(" {", 1)
        dump, _, tail = rest.rpartition("}")
        flags = {}
        for part in tail.strip().split(" "):
            if "=" in part:
                k, v = part.split("=", 1)
                flags[k] = v
        # flags may contain spaces inside BAD(...): re-split more carefully
        t = tail.strip()
        flags = {}
        import re
        for m in re.finditer(r"(inv|ord|rt|q)=(ok|skip|BAD\(.*?\))(?= (?:inv|ord|rt|q)=|$)", t):
            flags[m.group(1)] = m.group(2)
        out.append({"status": canon_status(status), "dump": dump, "flags": flags})
    return out
