"""Token-level mutations of well-formed renderings (negative inputs near the well-formed ones)."""
import re

TOKEN = re.compile(r"<!--|-->|<!\[CDATA\[|\]\]>|<\?xml|<\?|\?>|</|/>|<!DOCTYPE|<!ENTITY|<!ATTLIST|<!NOTATION|<!ELEMENT|"
                   r"&#x?[0-9a-fA-F]+;|&[\w.\-]+;|[A-Za-z_][\w.\-]*|\s+|.", re.S)
INJECT = ["<", "&", ">", "--", "]]>", "'", '"', "&#0;", "&#xFFFE;", "&#x110000;", "&undeclared;", "&;", "&#;", "<?xml version='1.0'?>",
          "<?XML?>", "<?xMl x?>", "\x01", "\ufffe", "<x", "</x>", "<a/>", " ", "=", "/", "%pe;", "<![CDATA[", "<!--", "-", ":", "1"]


def tokens(s):
    return TOKEN.findall(s)


def mutate(rng, text, n_edits=1):
    toks = tokens(text)
    desc = []
    for _ in range(n_edits):
        if not toks:
            break
        i = rng.randrange(len(toks))
        k = rng.random()
        if k < 0.25:
            desc.append("del:%r" % toks[i])
            del toks[i]
        elif k < 0.4:
            desc.append("dup:%r" % toks[i])
            toks.insert(i, toks[i])
        elif k < 0.55 and len(toks) > 1:
            j = rng.randrange(len(toks))
            desc.append("swap")
            toks[i], toks[j] = toks[j], toks[i]
        elif k < 0.85:
            x = rng.choice(INJECT)
            desc.append("ins:%r" % x)
            toks.insert(i, x)
        else:
            t = toks[i]
            if len(t) > 1:
                p = rng.randrange(len(t))
                toks[i] = t[:p] + t[p + 1:]
                desc.append("chardel")
            else:
                toks[i] = rng.choice(INJECT)
                desc.append("repl")
    return "".join(toks), ",".join(desc)


def targeted(rng, text):
    """structure-aware edits that aim at one constraint each"""
    out = []
    # mismatched end tag: rename the name in one end tag
    ends = list(re.finditer(r"</([A-Za-z_][\w.\-:]*)", text))
    if ends:
        m = rng.choice(ends)
        out.append((text[:m.start(1)] + m.group(1) + "x" + text[m.end(1):], "endtag-rename"))
        out.append((text[:m.start()] + text[m.end():], "endtag-delete-open"))
    # duplicate an attribute
    attrs = list(re.finditer(r"\s([A-Za-z_][\w.\-:]*)\s*=\s*(\"[^\"<]*\"|'[^'<]*')", text))
    if attrs:
        m = rng.choice(attrs)
        out.append((text[:m.end()] + m.group(0) + text[m.end():], "attr-duplicate"))
        out.append((text[:m.start(2) + 1] + "<" + text[m.start(2) + 1:], "lt-in-attvalue"))
        out.append((text[:m.start(2) + 1] + "&" + text[m.start(2) + 1:], "amp-in-attvalue"))
        out.append((text[:m.start(2)] + text[m.start(2) + 1:], "attr-unquote"))
    # second root / text after root
    out.append((text + "<extra/>", "second-root"))
    out.append((text + "x", "text-after-root"))
    out.append(("x" + text, "text-before-root"))
    out.append((" " + text if text.startswith("<?xml") else "<!--c-->" + "<?xml version='1.0'?>" + text, "misplaced-xmldecl"))
    # comment with double hyphen, cdata end in content
    m = re.search(r"<!--", text)
    if m:
        out.append((text[:m.end()] + "a--b" + text[m.end():], "double-hyphen"))
        out.append((text[:m.end()] + "-" + text[m.end():].replace("-->", "--->", 1), "comment-ends-hyphen"))
        out.append((text[:m.end()] + "a" + "-" * rng.choice([2, 3, 4]) + "b" + text[m.end():], "hyphen-run-in-comment"))
        out.append((text[:m.end()] + text[m.end():].replace("-->", "-" * rng.choice([3, 4, 5]) + ">", 1), "comment-ends-hyphen-run"))
    m = re.search(r">[^<>&]+<", text)
    if m:
        out.append((text[:m.start() + 1] + "]]>" + text[m.start() + 1:], "cdata-end-in-chardata"))
        # run-length and position variants of the forbidden delimiter (a scanner that counts brackets, looks one
        # character too far or too near, or only checks the head of the text)
        k = rng.choice([3, 3, 4, 5, 9])
        out.append((text[:m.start() + 1] + "]" * k + ">" + text[m.start() + 1:], "cdata-end-long-bracket-run"))
        out.append((text[:m.end() - 1] + "]" * rng.choice([2, 3, 4]) + ">" + text[m.end() - 1:], "cdata-end-at-end-of-chardata"))
        out.append((text[:m.start() + 1] + "a[b[c[0]]]>0" + text[m.start() + 1:], "cdata-end-nested-brackets"))
        out.append((text[:m.start() + 1] + "]]" + "&amp;" + "]]>" + text[m.start() + 1:], "cdata-end-after-reference"))
        out.append((text[:m.start() + 1] + "&nosuch;" + text[m.start() + 1:], "undeclared-entity"))
        out.append((text[:m.start() + 1] + "&#2;" + text[m.start() + 1:], "nonchar-charref"))
        out.append((text[:m.start() + 1] + "a & b" + text[m.start() + 1:], "bare-amp"))
        out.append((text[:m.start() + 1] + "<?xml x?>" + text[m.start() + 1:], "reserved-pi"))
    # entity-usage constraints: declare an entity in a fresh DOCTYPE (documents without one) and use it
    if "<!DOCTYPE" not in text and not text.startswith("<?xml"):
        m = re.match(r"\s*<([A-Za-z_][\w.\-:]*)", text)
        if m:
            root = m.group(1)
            for decl, use, why in [('<!ENTITY zz "<">', ' zq="&zz;"', "lt-via-entity-in-attvalue"),
                                   ('<!ENTITY zz "&zz;">', ' zq="&zz;"', "recursive-entity"),
                                   ('<!ENTITY zz SYSTEM "x">', ' zq="&zz;"', "external-entity-in-attvalue")]:
                out.append(("<!DOCTYPE %s [%s]>" % (root, decl) + text[:m.end()] + use + text[m.end():], why))
    # a literal opened with one kind of quote and closed with the other (attribute values, the pseudo-attributes of the XML
    # declaration, entity values, system / public identifiers, defaults): flip ONE of the two delimiters
    quoted = list(re.finditer(r"=\s*(\"[^\"'<&]*\"|'[^'\"<&]*')|(?:SYSTEM|PUBLIC|ENTITY\s+\S+|CDATA|#FIXED)\s+(\"[^\"'<&]*\"|'[^'\"<&]*')", text))
    for m in rng.sample(quoted, min(3, len(quoted))):
        g = 1 if m.group(1) is not None else 2
        a, b = m.start(g), m.end(g) - 1
        other = "'" if text[a] == '"' else '"'
        pos = rng.choice([a, b])
        out.append((text[:pos] + other + text[pos + 1:], "quote-mismatch"))
    xd = re.match(r"<\?xml[^?]*\?>", text)
    if xd:
        for mm in re.finditer(r"[\"']", xd.group(0)):
            other = "'" if mm.group(0) == '"' else '"'
            out.append((text[:mm.start()] + other + text[mm.start() + 1:], "xmldecl-quote-mismatch"))
    # a default value that refers to an entity declared only LATER in the internal subset (the declaration must precede)
    if "<!DOCTYPE" not in text and not text.startswith("<?xml"):
        m = re.match(r"\s*<([A-Za-z_][\w.\-:]*)", text)
        if m:
            root = m.group(1)
            out.append(("<!DOCTYPE %s [<!ATTLIST %s zq CDATA '&zz;'><!ENTITY zz 'v'>]>" % (root, root) + text, "entity-declared-after-default"))
            out.append(("<!DOCTYPE %s [<!ATTLIST %s zq CDATA #FIXED 'a&zz;'><!ENTITY zz 'v'>]>" % (root, root) + text, "entity-declared-after-default"))
            out.append(("<!DOCTYPE %s [<!ENTITY za '&zz;'><!ATTLIST %s zq CDATA '&za;'><!ENTITY zz 'v'>]>" % (root, root) + text, "entity-declared-after-default"))
    # white space of markup is #x20 #x9 #xD #xA and nothing else: a character that only Unicode calls white space, next to the `=`
    # of an attribute or pseudo-attribute, between attributes, before `>` (round-9 seed C02-N read Eq with str::trim_start)
    UWS = ["\u00a0", "\u3000", "\u2028", "\u0085", "\u000b", "\u000c", "\u2003", "\u1680"]
    eqs = [m for m in re.finditer(r"\s[A-Za-z_][\w.\-:]*(=)[\"']", text)]
    for m in rng.sample(eqs, min(2, len(eqs))):
        u = rng.choice(UWS)
        out.append((text[:m.start(1)] + u + text[m.start(1):], "unicode-space-before-eq"))
        out.append((text[:m.end(1)] + u + text[m.end(1):], "unicode-space-after-eq"))
        out.append((text[:m.start()] + u + text[m.start() + 1:], "unicode-space-between-attributes"))
    m = re.search(r"<[A-Za-z_][\w.\-:]*()\s*/?>", text)
    if m:
        out.append((text[:m.start(1)] + rng.choice(UWS) + text[m.start(1):], "unicode-space-in-tag"))
    # an attribute defined a SECOND time (in the same declaration or in a later one) is not binding - but its default is still
    # checked like any other (round-9 seed C02-M skipped the later definition unread)
    if "<!DOCTYPE" not in text and not text.startswith("<?xml"):
        m = re.match(r"\s*<([A-Za-z_][\w.\-:]*)", text)
        if m:
            root = m.group(1)
            for bad in ("&zz;", "&#0;", "&#xFFFF;", "a<b", "&#2;"):
                out.append(("<!DOCTYPE %s [<!ATTLIST %s zq CDATA 'v' zq CDATA '%s'>]>" % (root, root, bad) + text, "second-definition-bad-default"))
            out.append(("<!DOCTYPE %s [<!ATTLIST %s zq CDATA 'v'><!ATTLIST %s zq CDATA '&zz;'>]>" % (root, root, root) + text, "second-definition-bad-default"))
            out.append(("<!DOCTYPE %s [<!ENTITY ze 'v'><!ENTITY ze '&zz;'>]>" % root + text[:m.end()] + " zq='&ze;'" + text[m.end():], "second-entity-declaration"))
    # unclosed / overlapping
    m = re.search(r"</[^>]*>\s*$", text)
    if m:
        out.append((text[:m.start()], "unclosed-root"))
    return out
