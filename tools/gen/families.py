"""adversarially shaped inputs, parametrised by a size n (properties C03, C06)"""


def xml_families():
    return {
        "nest": lambda n: "<a>" * n + "</a>" * n,
        "siblings": lambda n: "<r>" + "<a/>" * n + "</r>",
        "attrs": lambda n: "<a " + " ".join("a%d='v'" % i for i in range(n)) + "/>",
        "text": lambda n: "<a>" + "x" * n + "</a>",
        "comment": lambda n: "<a><!--" + "-x" * n + "--></a>",
        "cdata": lambda n: "<a><![CDATA[" + "]]" * n + "]]></a>",
        "pi": lambda n: "<a><?p " + "?" * n + "?></a>",
        "refs": lambda n: "<a>" + "&amp;&#65;" * n + "</a>",
        "attvalue": lambda n: "<a x='" + "y&lt;" * n + "'/>",
        "cm-choice": lambda n: "<!DOCTYPE a [<!ELEMENT a " + "(" * n + "b" + "|c)" * n + ">]><a/>",
        "cm-seq": lambda n: "<!DOCTYPE a [<!ELEMENT a " + "(" * n + "b" + ",c)" * n + ">]><a/>",
        # groups that each stand BEHIND a name: (b,(b,(b,...))) and a choice of the same shape (round-8 seed C03-K: a name first
        # tried as a group wiped the count of the groups open around it)
        "cm-right": lambda n: "<!DOCTYPE a [<!ELEMENT a " + "(b," * n + "c" + ")" * n + ">]><a/>",
        "cm-rightchoice": lambda n: "<!DOCTYPE a [<!ELEMENT a " + "(b|" * n + "c" + ")*" * n + ">]><a/>",
        "cm-mixed": lambda n: "<!DOCTYPE a [<!ELEMENT a " + "(" * n + "b" + "|c)*" * n + ">]><a/>",
        "entchain": lambda n: "<!DOCTYPE a [" + "".join('<!ENTITY e%d "&e%d;">' % (i + 1, i) for i in range(n)) +
                              '<!ENTITY e0 "v">]><a x="&e%d;">&e%d;</a>' % (n, n),
        "entcycle": lambda n: "<!DOCTYPE a [" + "".join('<!ENTITY e%d "&e%d;">' % (i, (i + 1) % max(n, 1)) for i in range(max(n, 1))) +
                              ']><a x="&e0;">&e0;</a>',
        "entbomb": lambda n: "<!DOCTYPE a [<!ENTITY e0 'xx'>" + "".join('<!ENTITY e%d "&e%d;&e%d;">' % (i + 1, i, i) for i in range(n)) +
                             ']><a x="&e%d;"/>' % n,
        "unclosed": lambda n: "<a>" * n,
        "lt-run": lambda n: "<" * n,
        "attlists": lambda n: "<!DOCTYPE a [" + "<!ATTLIST a b CDATA 'v'>" * n + "]><a/>",
        "ws": lambda n: "<a" + " " * n + "/>" + "\n" * n,
        "pedecl": lambda n: "<!DOCTYPE a [" + '<!ENTITY % p "x">' * max(n, 1) + "]><a/>",
        "peref": lambda n: "<!DOCTYPE a [" + "%p;" * max(n, 1) + "]><a/>",
    }
